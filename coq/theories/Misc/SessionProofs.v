(* Proofs about the session-store model (Misc/Session.v, Misc/SessionBase64.v). *)
From Coq Require Import ZArith NArith List Lia ZifyN ZifyNat ZifyBool Bool.
From MTV Require Import Base.Bytes Base.Outcome Misc.Session Misc.SessionBase64.
Import ListNotations.
Open Scope N_scope.
Ltac Zify.zify_post_hook ::= Z.div_mod_to_equations.

(* ------------------------------------------------------------------------------------ *)
(* salt: int64 <-> 8 little-endian bytes                                                  *)

Lemma of_le_le32_app n r : n < 4294967296 -> of_le (le32 n ++ r) = n + 4294967296 * of_le r.
Proof. intros H. unfold le32. cbn [app of_le]. lia. Qed.

Lemma of_le_le64 n : n < 18446744073709551616 -> of_le (le64 n) = n.
Proof.
  intros H. unfold le64. rewrite of_le_le32_app by lia.
  replace (le32 (n / 4294967296)) with (le32 (n / 4294967296) ++ []) by apply app_nil_r.
  rewrite of_le_le32_app by lia. cbn [of_le]. lia.
Qed.

Lemma le64_length n : length (le64 n) = 8%nat.
Proof. reflexivity. Qed.

Lemma le64_bytes_ok n : bytes_ok (le64 n) = true.
Proof.
  unfold le64, bytes_ok. rewrite forallb_app.
  fold (bytes_ok (le32 (n mod 4294967296))). fold (bytes_ok (le32 (n / 4294967296))).
  now rewrite !le32_bytes_ok.
Qed.

Lemma u64_of_i64_lt z : u64_of_i64 z < 18446744073709551616.
Proof. unfold u64_of_i64, two64. lia. Qed.

Lemma i64_u64_roundtrip z : int64_ok z = true -> i64_of_u64 (u64_of_i64 z) = z.
Proof.
  unfold int64_ok, i64_of_u64, u64_of_i64, two63, two64, two64N. intros H.
  apply andb_true_iff in H. destruct H as [H1 H2].
  apply Z.leb_le in H1. apply Z.ltb_lt in H2.
  set (m := Z.to_N (z mod 18446744073709551616)).
  assert (Hm : Z.of_N m = (z mod 18446744073709551616)%Z) by (unfold m; lia).
  assert (Hlt : m < 18446744073709551616) by lia.
  rewrite (N.mod_small m) by lia.
  destruct (N.ltb_spec m 9223372036854775808); lia.
Qed.

Lemma u64_i64_roundtrip n : n < 18446744073709551616 ->
  u64_of_i64 (i64_of_u64 n) = n /\ int64_ok (i64_of_u64 n) = true.
Proof.
  unfold int64_ok, i64_of_u64, u64_of_i64, two63, two64, two64N. intros H.
  rewrite (N.mod_small n) by lia.
  destruct (N.ltb_spec n 9223372036854775808); split; lia.
Qed.

Lemma salt_enc_length z : length (salt_enc z) = 8%nat.
Proof. reflexivity. Qed.

Lemma salt_enc_bytes_ok z : bytes_ok (salt_enc z) = true.
Proof. apply le64_bytes_ok. Qed.

Lemma salt_roundtrip z : int64_ok z = true -> salt_dec (salt_enc z) = Ok z.
Proof.
  intros H. unfold salt_dec. rewrite salt_enc_length. cbn [Nat.ltb Nat.leb].
  replace (firstn 8 (salt_enc z)) with (salt_enc z) by reflexivity.
  unfold salt_enc. rewrite of_le_le64 by apply u64_of_i64_lt.
  now rewrite i64_u64_roundtrip.
Qed.

(* every 8-byte little-endian string is the encoding of exactly one int64 *)
Lemma salt_enc_surjective n : n < 18446744073709551616 ->
  exists z, int64_ok z = true /\ salt_enc z = le64 n.
Proof.
  intros H. exists (i64_of_u64 n). destruct (u64_i64_roundtrip n H) as [H1 H2].
  split; [exact H2|]. unfold salt_enc. now rewrite H1.
Qed.

Lemma salt_dec_short buf : (length buf < 8)%nat -> salt_dec buf = Panic.
Proof. intros H. unfold salt_dec. destruct (Nat.ltb_spec (length buf) 8); [reflexivity|lia]. Qed.

Lemma salt_dec_total buf : (8 <= length buf)%nat -> exists z, salt_dec buf = Ok z.
Proof. intros H. unfold salt_dec. destruct (Nat.ltb_spec (length buf) 8); [lia|eauto]. Qed.

(* ------------------------------------------------------------------------------------ *)
(* UTF-8 validity of ASCII strings                                                        *)

Definition ascii (s : bytes) : bool := forallb (fun c => c <? 128) s.

Lemma ascii_utf8_valid s : ascii s = true -> utf8_valid s = true.
Proof.
  induction s as [|a r IH]; [reflexivity|]. unfold ascii. cbn [forallb utf8_valid].
  intros H. apply andb_true_iff in H. destruct H as [Ha Hr]. rewrite Ha. now apply IH.
Qed.

(* valid strings pass through encoding/json unchanged *)
Lemma coerce_valid_id_len n : forall s, (length s <= n)%nat -> utf8_valid s = true -> coerce_utf8 s = s.
Proof.
  induction n as [|n IH]; intros s Hl Hv.
  - destruct s; [reflexivity|cbn [length] in Hl; lia].
  - destruct s as [|a r]; [reflexivity|]. cbn [length] in Hl.
    cbn [utf8_valid coerce_utf8] in *.
    destruct (a <? 128). { f_equal. apply IH; [lia|exact Hv]. }
    destruct (inr 194 223 a).
    { destruct r as [|b r']; [discriminate|]. cbn [length] in Hl.
      apply andb_true_iff in Hv. destruct Hv as [Hb Hv]. rewrite Hb. do 2 f_equal. apply IH; [lia|exact Hv]. }
    destruct (inr 224 239 a).
    { destruct r as [|b [|c r']]; try discriminate. cbn [length] in Hl.
      apply andb_true_iff in Hv. destruct Hv as [Hbc Hv]. rewrite Hbc. do 3 f_equal. apply IH; [lia|exact Hv]. }
    destruct (inr 240 244 a); [|discriminate].
    destruct r as [|b [|c [|d r']]]; try discriminate. cbn [length] in Hl.
    apply andb_true_iff in Hv. destruct Hv as [Hbcd Hv]. rewrite Hbcd. do 4 f_equal. apply IH; [lia|exact Hv].
Qed.

Lemma coerce_valid_id s : utf8_valid s = true -> coerce_utf8 s = s.
Proof. apply (coerce_valid_id_len (length s)). lia. Qed.

(* ------------------------------------------------------------------------------------ *)
(* base64 model                                                                           *)

Lemma b64_val_char n : n < 64 -> b64_val (b64_char n) = Some n.
Proof.
  intros H. unfold b64_val, b64_char.
  destruct (N.ltb_spec n 26).
  { replace ((65 <=? 65 + n) && (65 + n <=? 90)) with true by lia. f_equal. lia. }
  destruct (N.ltb_spec n 52).
  { replace ((65 <=? 71 + n) && (71 + n <=? 90)) with false by lia.
    replace ((97 <=? 71 + n) && (71 + n <=? 122)) with true by lia. f_equal. lia. }
  destruct (N.ltb_spec n 62).
  { replace ((65 <=? n - 4) && (n - 4 <=? 90)) with false by lia.
    replace ((97 <=? n - 4) && (n - 4 <=? 122)) with false by lia.
    replace ((48 <=? n - 4) && (n - 4 <=? 57)) with true by lia. f_equal. lia. }
  destruct (N.eqb_spec n 62) as [->|Hn]; [reflexivity|].
  assert (n = 63) as -> by lia. reflexivity.
Qed.

Lemma b64_char_not_pad n : (b64_char n =? pad) = false.
Proof.
  unfold b64_char, pad.
  destruct (N.ltb_spec n 26); [lia|]. destruct (N.ltb_spec n 52); [lia|].
  destruct (N.ltb_spec n 62); [lia|]. destruct (N.eqb_spec n 62); reflexivity.
Qed.

Lemma b64_char_ascii n : (b64_char n <? 128) = true.
Proof.
  unfold b64_char.
  destruct (N.ltb_spec n 26); [lia|]. destruct (N.ltb_spec n 52); [lia|].
  destruct (N.ltb_spec n 62); [lia|]. destruct (N.eqb_spec n 62); reflexivity.
Qed.

Lemma list_ind3 {A} (P : list A -> Prop) :
  P [] -> (forall a, P [a]) -> (forall a b, P [a; b]) ->
  (forall a b c r, P r -> P (a :: b :: c :: r)) -> forall l, P l.
Proof.
  intros H0 H1 H2 H3. fix IH 1. intros [|a [|b [|c r]]]; [exact H0|apply H1|apply H2|apply H3, IH].
Qed.

Lemma b64_encode_ascii l : ascii (b64_encode l) = true.
Proof.
  unfold ascii. induction l as [|a|a b|a b c r IH] using list_ind3; cbn [b64_encode forallb];
    rewrite ?b64_char_ascii; try reflexivity. exact IH.
Qed.

Lemma b64_encode_utf8 l : utf8_valid (b64_encode l) = true.
Proof. apply ascii_utf8_valid, b64_encode_ascii. Qed.

Lemma b64_roundtrip l : bytes_ok l = true -> b64_decode (b64_encode l) = Ok l.
Proof.
  unfold bytes_ok, byte_ok.
  induction l as [|a|a b|a b c r IH] using list_ind3; cbn [forallb]; intros H.
  - reflexivity.
  - cbn [b64_encode b64_decode].
    rewrite !b64_val_char by lia. rewrite !N.eqb_refl. cbn [andb]. f_equal. f_equal. lia.
  - cbn [b64_encode b64_decode].
    rewrite !b64_val_char by lia. rewrite b64_char_not_pad, N.eqb_refl.
    f_equal. f_equal; [lia|]. f_equal. lia.
  - rewrite !andb_true_iff in H. destruct H as (Ha & Hb & Hc & Hr).
    cbn [b64_encode]. cbn [b64_decode].
    rewrite !b64_val_char by lia. rewrite !b64_char_not_pad.
    rewrite IH by exact Hr. f_equal. f_equal; [lia|]. f_equal; [lia|]. f_equal. lia.
Qed.

(* ------------------------------------------------------------------------------------ *)
(* paths                                                                                  *)

Lemma drop_to_slash_none l : ~ In slash l -> drop_to_slash l = [].
Proof.
  induction l as [|x r IH]; cbn [drop_to_slash In]; intros H; [reflexivity|].
  destruct (N.eqb_spec x slash); [intuition|]. apply IH. intuition.
Qed.

(* a bare file name lives in "." *)
Lemma go_dir_bare p : ~ In slash p -> go_dir p = s_dot.
Proof.
  intros H. unfold go_dir, dir_part. rewrite drop_to_slash_none; [reflexivity|].
  intros Hi. apply H. now apply in_rev.
Qed.

(* ------------------------------------------------------------------------------------ *)
(* file-system facts                                                                      *)

Lemma files_set_same fs p v : files (fs_set fs p v) p = v.
Proof. unfold fs_set. cbn [files]. now rewrite beq_refl. Qed.

Lemma dirs_set fs p v d : dirs (fs_set fs p v) d = dirs fs d.
Proof. reflexivity. Qed.

Lemma session_eta s : mkSession (s_key s) (s_hash s) (s_salt s) (s_host s) = s.
Proof. now destruct s. Qed.

(* ------------------------------------------------------------------------------------ *)
Section Store.
  Variable b64enc : bytes -> bytes.
  Variable b64dec : bytes -> outcome bytes.
  Variable marshal : tsf -> bytes.
  Variable unmarshal : bytes -> outcome tsf.

  (* what is assumed about encoding/base64 and encoding/json *)
  Hypothesis b64_rt : forall b, bytes_ok b = true -> b64dec (b64enc b) = Ok b.
  Hypothesis b64_utf8 : forall b, utf8_valid (b64enc b) = true.
  Hypothesis json_rt : forall t, tsf_valid t = true -> unmarshal (marshal t) = Ok t.
  Hypothesis json_prefix : forall t k, tsf_valid t = true ->
    (k < length (marshal t))%nat -> unmarshal (firstn k (marshal t)) = Err.

  Notation write_session := (write_session b64enc).
  Notation read_session := (read_session b64dec).
  Notation render := (render b64enc marshal).
  Notation parse := (parse b64dec unmarshal).
  Notation load := (load b64dec unmarshal).
  Notation store := (store b64enc marshal).
  Notation step := (step b64enc b64dec marshal unmarshal).
  Notation run := (run b64enc b64dec marshal unmarshal).
  Notation new_mtproto := (new_mtproto b64dec unmarshal).
  Notation ideal_load := (ideal_load b64enc marshal).
  Notation ideal_step := (ideal_step b64enc marshal).
  Notation ideal_run := (ideal_run b64enc marshal).
  Notation tstep := (tstep b64enc marshal).
  Notation foreign_visible := (foreign_visible b64enc marshal).

  Lemma session_ok_parts s : session_ok s = true ->
    bytes_ok (s_key s) = true /\ bytes_ok (s_hash s) = true /\
    int64_ok (s_salt s) = true /\ utf8_valid (s_host s) = true.
  Proof. unfold session_ok. rewrite !andb_true_iff. tauto. Qed.

  Lemma write_session_valid s : session_ok s = true -> tsf_valid (write_session s) = true.
  Proof.
    intros H. apply session_ok_parts in H. destruct H as (_ & _ & _ & Hh).
    unfold tsf_valid, Session.write_session. cbn [t_key t_hash t_salt t_host].
    now rewrite !b64_utf8, Hh.
  Qed.

  Lemma read_write_session s : session_ok s = true -> read_session (write_session s) = Ok s.
  Proof.
    intros H. apply session_ok_parts in H. destruct H as (Hk & Hh & Hs & _).
    unfold Session.read_session, Session.write_session. cbn [t_key t_hash t_salt t_host].
    rewrite !b64_rt by (auto using salt_enc_bytes_ok). cbn [obind].
    rewrite salt_roundtrip by exact Hs. cbn [obind]. now rewrite session_eta.
  Qed.

  Lemma parse_render s : session_ok s = true -> parse (render s) = Ok s.
  Proof.
    intros H. unfold Session.parse, Session.render.
    rewrite json_rt by now apply write_session_valid. cbn [obind]. now apply read_write_session.
  Qed.

  Lemma parse_torn s k : session_ok s = true -> (k < length (render s))%nat ->
    parse (firstn k (render s)) = Err.
  Proof.
    intros H Hk. unfold Session.parse, Session.render in *.
    rewrite json_prefix by (auto using write_session_valid). reflexivity.
  Qed.

  Lemma parse_file s n : session_ok s = true -> (n <= length (render s))%nat ->
    parse (firstn n (render s)) = if (n <? length (render s))%nat then Err else Ok s.
  Proof.
    intros H Hn. destruct (Nat.ltb_spec n (length (render s))).
    - now apply parse_torn.
    - replace n with (length (render s)) by lia. rewrite firstn_all. now apply parse_render.
  Qed.

  (* ---------------- the cache is transparent ---------------- *)

  (* Loader invariant, relative to [ca] = the time the reference says the living loader cached at:
     a loader with a cached session cached at exactly that time, and if the file still carries
     that time, the cached session is what the file parses to. *)
  Definition inv (ca : option N) (fs : fsys) (l : loader) : Prop :=
    forall c, l_cached l = Some c ->
      ca = Some (l_last l) /\
      forall content t, files fs (l_path l) = Some (content, t) -> t = l_last l -> parse content = Ok c.

  Definition mtime_is (fs : fsys) (p : bytes) (mt : N) : Prop :=
    forall content t, files fs p = Some (content, t) -> t = mt.

  Lemma load_path fs l : l_path (snd (load fs l)) = l_path l.
  Proof.
    unfold Session.load. destruct (files fs (l_path l)) as [[content mt]|]; [|reflexivity].
    destruct (l_cached l) as [c|].
    - destruct (mt =? l_last l); [reflexivity|]. destruct (parse content); reflexivity.
    - destruct (parse content); reflexivity.
  Qed.

  Lemma load_eq_miss fs l c mt s : files fs (l_path l) = Some (c, mt) -> l_cached l = None ->
    parse c = Ok s -> load fs l = (LOk s, mkLoader (l_path l) mt (Some s)).
  Proof. intros Hf Hc Hp. unfold Session.load. now rewrite Hf, Hc, Hp. Qed.

  Lemma load_eq_hit fs l c mt s : files fs (l_path l) = Some (c, mt) -> l_cached l = Some s ->
    mt = l_last l -> load fs l = (LOk s, l).
  Proof. intros Hf Hc Hm. unfold Session.load. rewrite Hf, Hc, Hm, N.eqb_refl. reflexivity. Qed.

  (* Load on an existing file, for a loader whose cache (if it is hit) agrees with the file *)
  Lemma load_spec fs l content mt :
    files fs (l_path l) = Some (content, mt) ->
    (forall c, l_cached l = Some c -> mt = l_last l -> parse content = Ok c) ->
    match parse content with
    | Ok s => fst (load fs l) = LOk s /\ l_cached (snd (load fs l)) = Some s /\
              l_last (snd (load fs l)) = mt /\ l_path (snd (load fs l)) = l_path l
    | Err => load fs l = (LErr, l)
    | Panic => load fs l = (LPanic, l)
    end.
  Proof.
    intros Hf Hc. unfold Session.load. rewrite Hf.
    destruct (l_cached l) as [c|] eqn:E.
    - destruct (N.eqb_spec mt (l_last l)) as [He|Hn].
      + rewrite (Hc c eq_refl He). cbn [fst snd]. auto.
      + destruct (parse content); cbn [fst snd l_cached l_last l_path]; auto.
    - destruct (parse content); cbn [fst snd l_cached l_last l_path]; auto.
  Qed.

  Lemma inv_fresh ca fs p : inv ca fs (fresh p).
  Proof. intros c Hc. discriminate. Qed.

  (* ---------------- simulation with the reference store ---------------- *)

  Definition file_is (fs : fsys) (p : bytes) (st : istate) : Prop :=
    match st with
    | IAbsent => files fs p = None
    | IFile s n => session_ok s = true /\ (n <= length (render s))%nat /\
                   exists t, files fs p = Some (firstn n (render s), t)
    end.

  Definition sim (p : bytes) (st : istate) (mt : N) (ca : option N) (fs : fsys) (l : loader) : Prop :=
    l_path l = p /\ inv ca fs l /\ mtime_is fs p mt /\ dirs fs (go_dir p) = DDir /\ file_is fs p st.

  Lemma sim_intro p st mt ca fs l : l_path l = p -> inv ca fs l -> mtime_is fs p mt ->
    dirs fs (go_dir p) = DDir -> file_is fs p st -> sim p st mt ca fs l.
  Proof. intros. unfold sim. tauto. Qed.

  Lemma file_is_intro fs p s n t : session_ok s = true -> (n <= length (render s))%nat ->
    files fs p = Some (firstn n (render s), t) -> file_is fs p (IFile s n).
  Proof. intros. cbn [file_is]. eauto. Qed.

  Lemma mtime_is_set fs p c t : mtime_is (fs_set fs p (Some (c, t))) p t.
  Proof. intros content t' Hf. rewrite files_set_same in Hf. now injection Hf as _ <-. Qed.

  Definition cached_after_load (st : istate) (mt : N) (ca : option N) : option N :=
    match ideal_load st with LOk _ => Some mt | _ => ca end.

  Lemma sim_load p st mt ca fs l : sim p st mt ca fs l ->
    fst (load fs l) = ideal_load st /\ sim p st mt (cached_after_load st mt ca) fs (snd (load fs l)).
  Proof.
    intros (Hp & Hi & Hm & Hd & Hf). subst p. unfold cached_after_load.
    destruct st as [|s n]; cbn [file_is] in Hf.
    - unfold Session.load. rewrite Hf, Hd. cbn [fst snd Session.ideal_load].
      split; [reflexivity|]. apply sim_intro; auto.
    - destruct Hf as (Hs & Hn & t & Hf). assert (t = mt) by apply (Hm _ _ Hf). subst t.
      pose proof (load_spec fs l (firstn n (render s)) mt Hf) as H.
      assert (Hc : forall c, l_cached l = Some c -> mt = l_last l -> parse (firstn n (render s)) = Ok c).
      { intros c Hc He. destruct (Hi c Hc) as [_ H2]. now apply (H2 _ mt). }
      specialize (H Hc). rewrite parse_file in H by assumption.
      assert (Hfi : file_is fs (l_path l) (IFile s n)) by (apply (file_is_intro _ _ _ _ mt); auto).
      unfold Session.ideal_load. destruct (n <? length (render s))%nat eqn:E.
      + rewrite H. cbn [fst snd]. split; [reflexivity|]. apply sim_intro; auto.
      + destruct H as (H1 & H2 & H3 & H4). split; [exact H1|].
        apply sim_intro; auto; try (rewrite H4; assumption).
        intros c Hc'. rewrite H2 in Hc'. injection Hc' as <-. split; [now rewrite H3|].
        intros content t Hf' _. rewrite H4, Hf in Hf'. injection Hf' as <- <-.
        rewrite parse_file, E by assumption. reflexivity.
  Qed.

  Lemma sim_fresh p st mt ca ca' fs l : sim p st mt ca fs l -> sim p st mt ca' fs (fresh p).
  Proof. intros (Hp & Hi & Ht & Hd & Hf). apply sim_intro; auto using inv_fresh. Qed.

  Lemma store_ok p ca fs l s t : l_path l = p -> dirs fs (go_dir p) = DDir -> session_ok s = true ->
    exists l', store fs l s t = (Ok tt, fs_set fs p (Some (render s, t)), l') /\
               sim p (IFile s (length (render s))) t ca (fs_set fs p (Some (render s, t))) l'.
  Proof.
    intros Hp Hd Hs. unfold Session.store. rewrite Hp, Hd. eexists. split; [reflexivity|].
    apply sim_intro; auto using mtime_is_set.
    - intros c Hc. discriminate.
    - apply (file_is_intro _ _ _ _ t); auto. now rewrite files_set_same, firstn_all.
  Qed.

  Lemma client_path_nonempty p host fs : p <> [] ->
    new_mtproto fs p host = (client_decide host (fst (load fs (fresh p))), snd (load fs (fresh p))).
  Proof.
    intros Hp. unfold Session.new_mtproto. destruct p; [congruence|].
    destruct (load fs (fresh (n :: p))); reflexivity.
  Qed.

  (* a change of the file by another writer that carries a time other than the cached one *)
  Lemma inv_foreign_write ca fs l v t : inv ca fs l ->
    match ca with Some c => negb (t =? c) | None => true end = true ->
    (forall content t', v = Some (content, t') -> t' = t) ->
    inv ca (fs_set fs (l_path l) v) l.
  Proof.
    intros Hi Hv Hvt c Hc. destruct (Hi c Hc) as [H1 _]. split; [exact H1|].
    intros content t' Hf Ht'. rewrite files_set_same in Hf. apply Hvt in Hf. subst t'.
    rewrite H1 in Hv. rewrite Ht', N.eqb_refl in Hv. discriminate.
  Qed.

  Lemma tstep_st ts o : ts_st (tstep ts o) = fst (ideal_step (ts_st ts) o).
  Proof. destruct o; reflexivity. Qed.

  Lemma sim_step p st mt ca fs l o : p <> [] -> sim p st mt ca fs l -> proper o = true ->
    visible_ok (mkT st mt ca) o = true ->
    exists fs' l',
      step fs l o = (fs', l', snd (ideal_step st o)) /\
      sim p (ts_st (tstep (mkT st mt ca) o)) (ts_mtime (tstep (mkT st mt ca) o))
            (ts_cached_at (tstep (mkT st mt ca) o)) fs' l'.
  Proof.
    intros Hne Hsim Hpr Hvis. pose proof Hsim as (Hp & Hi & Hm & Hd & Hf).
    destruct o as [s t| | |k t|c t|k t|s t| |host|host t]; cbn [proper] in Hpr;
      cbn [Session.tstep ts_st ts_mtime ts_cached_at].
    - (* Store *)
      destruct (store_ok p None fs l s t Hp Hd Hpr) as (l' & Hst & Hs').
      cbn [Session.step Session.ideal_step fst snd]. rewrite Hst. eauto.
    - (* Load *)
      destruct (sim_load p st mt ca fs l Hsim) as [H1 H2].
      cbn [Session.step Session.ideal_step fst snd].
      destruct (load fs l) as [r l'] eqn:E. cbn [fst snd] in *. subst r. eauto.
    - (* Fresh *)
      cbn [Session.step Session.ideal_step fst snd]. rewrite Hp. eauto using sim_fresh.
    - (* Crash: the process is gone, new loader *)
      cbn [Session.step Session.ideal_step fst snd]. rewrite Hp. do 2 eexists. split; [reflexivity|].
      unfold crash. destruct st as [|s n]; cbn [file_is file_time_after] in *.
      + rewrite Hf. apply sim_intro; auto using inv_fresh.
      + destruct Hf as (Hs & Hn & t0 & Hf). rewrite Hf.
        apply sim_intro; auto using inv_fresh, mtime_is_set.
        apply (file_is_intro _ _ _ _ t); auto; [lia|]. now rewrite files_set_same, firstn_firstn.
    - discriminate.
    - (* Tear by another writer: this loader lives on *)
      cbn [visible_ok ts_cached_at] in Hvis.
      cbn [Session.step Session.ideal_step fst snd]. rewrite Hp. do 2 eexists. split; [reflexivity|].
      unfold crash. destruct st as [|s n]; cbn [file_is file_time_after] in *.
      + rewrite Hf. exact Hsim.
      + destruct Hf as (Hs & Hn & t0 & Hf). rewrite Hf.
        apply sim_intro; auto using mtime_is_set.
        { rewrite <- Hp. apply (inv_foreign_write ca fs l _ t); auto. intros content t' H. now injection H. }
        apply (file_is_intro _ _ _ _ t); auto; [lia|]. now rewrite files_set_same, firstn_firstn.
    - (* complete store by another loader: this loader lives on *)
      cbn [visible_ok ts_cached_at] in Hvis.
      cbn [Session.step Session.ideal_step fst snd].
      destruct (store_ok p ca fs (fresh (l_path l)) s t) as (l' & Hst & Hs'); auto.
      rewrite Hst. do 2 eexists. split; [reflexivity|].
      destruct Hs' as (_ & _ & Ht' & Hd' & Hf').
      apply sim_intro; auto.
      rewrite <- Hp. apply (inv_foreign_write ca fs l _ t); auto. intros content t' H. now injection H.
    - (* Scribble: the caller's copies are its own *)
      cbn [Session.step Session.ideal_step fst snd]. eauto.
    - (* Client *)
      cbn [Session.step Session.ideal_step fst snd]. rewrite Hp, client_path_nonempty by exact Hne.
      cbn [fst]. destruct (sim_load p st mt None fs (fresh p) (sim_fresh p st mt ca None fs l Hsim)) as [H1 _].
      rewrite H1. eauto.
    - (* ClientSave *)
      cbn [Session.step Session.ideal_step]. rewrite Hp, client_path_nonempty by exact Hne.
      destruct (sim_load p st mt None fs (fresh p) (sim_fresh p st mt ca None fs l Hsim)) as [H1 H2].
      rewrite H1. destruct H2 as (Hp2 & _).
      assert (Hsave : forall s, session_ok s = true ->
        exists fs' l', (let '(sr, fs', _) := store fs (snd (load fs (fresh p))) s t in
                        (fs', fresh p, ObsClientSave (Ok (client_of s)) sr))
                       = (fs', l', ObsClientSave (Ok (client_of s)) (Ok tt))
                       /\ sim p (IFile s (length (render s))) t None fs' l').
      { intros s Hs. destruct (store_ok p None fs _ s t Hp2 Hd Hs) as (l' & Hst & Hs').
        rewrite Hst. do 2 eexists. split; [reflexivity|]. eapply sim_fresh; eauto. }
      destruct (ideal_load st) as [s| | |] eqn:Hl; cbn [client_decide fst snd].
      + assert (Hs : session_ok s = true).
        { destruct st as [|s0 n]; cbn [Session.ideal_load] in Hl; [discriminate|].
          destruct Hf as (Hs0 & _). destruct (n <? length (render s0))%nat; [discriminate|].
          now injection Hl as <-. }
        unfold session_of_client, client_of. cbn [c_key c_hash c_salt c_addr]. rewrite session_eta.
        apply Hsave, Hs.
      + set (s := session_of_client (client_new host)).
        assert (Hs : session_ok s = true).
        { unfold s, session_of_client, client_new, session_ok. cbn. exact Hpr. }
        destruct (store_ok p None fs _ s t Hp2 Hd Hs) as (l' & Hst & Hs').
        fold s. rewrite Hst. do 2 eexists. split; [reflexivity|]. eapply sim_fresh; eauto.
      + do 2 eexists. split; [reflexivity|]. eapply sim_fresh; eauto.
      + do 2 eexists. split; [reflexivity|]. eapply sim_fresh; eauto.
  Qed.

  (* the code's exact condition: every change by another writer carries a time different from the
     one the living loader cached at *)
  Theorem run_refines_exact p ops : forall ts fs l, p <> [] ->
    sim p (ts_st ts) (ts_mtime ts) (ts_cached_at ts) fs l ->
    forallb proper ops = true -> foreign_visible ts ops = true ->
    run fs l ops = ideal_run (ts_st ts) ops.
  Proof.
    induction ops as [|o r IH]; intros ts fs l Hne Hsim Hpr Hfv; [reflexivity|].
    cbn [forallb] in Hpr. apply andb_true_iff in Hpr. destruct Hpr as [Ho Hr].
    cbn [Session.foreign_visible] in Hfv. apply andb_true_iff in Hfv. destruct Hfv as [Hv Hfr].
    destruct ts as [st mt ca]. cbn [ts_st ts_mtime ts_cached_at] in Hsim.
    destruct (sim_step p st mt ca fs l o Hne Hsim Ho Hv) as (fs' & l' & Hst & Hs').
    cbn [Session.run Session.ideal_run ts_st]. rewrite Hst.
    rewrite (IH (tstep (mkT st mt ca) o) fs' l' Hne Hs' Hr Hfr). rewrite tstep_st. cbn [ts_st].
    destruct (ideal_step st o) as [st' ob]. reflexivity.
  Qed.

  (* sufficient and easier to read: every change by another writer is strictly later than
     everything before it *)
  Definition ts_bound (now : N) (ts : tstate) : Prop :=
    ts_mtime ts <= now /\ forall c, ts_cached_at ts = Some c -> c <= now.

  Lemma bound_step now ts o : ts_bound now ts -> ts_bound (next_now now o) (tstep ts o).
  Proof.
    intros [Hm Hc]. destruct ts as [st mt ca]. cbn [ts_mtime ts_cached_at] in *.
    assert (Hca : forall now', now <= now' -> forall c, ca = Some c -> c <= now').
    { intros now' Hle c H. specialize (Hc c H). lia. }
    assert (Hno : forall now' c, @None N = Some c -> c <= now') by (intros; discriminate).
    unfold ts_bound, next_now.
    destruct o as [s t| | |k t|c t|k t|s t| |host|host t];
      cbn [op_time Session.tstep ts_st ts_mtime ts_cached_at].
    - split; [lia|apply Hno].
    - split; [lia|]. destruct (ideal_load st); intros c0 H0;
        try (injection H0 as <-; lia); apply (Hca now); auto; lia.
    - split; [lia|apply Hno].
    - split; [destruct st; cbn [file_time_after]; lia|apply Hno].
    - split; [lia|apply Hno].
    - split; [destruct st; cbn [file_time_after]; lia|apply Hca; lia].
    - split; [lia|apply Hca; lia].
    - split; [lia|apply Hca; lia].
    - split; [lia|apply Hca; lia].
    - split; [destruct (client_decide host (ideal_load st)); lia|apply Hno].
  Qed.

  Lemma newer_visible ops : forall now ts, ts_bound now ts -> foreign_newer now ops = true ->
    foreign_visible ts ops = true.
  Proof.
    induction ops as [|o r IH]; intros now ts Hb Hfn; [reflexivity|].
    cbn [foreign_newer] in Hfn. apply andb_true_iff in Hfn. destruct Hfn as [Hfo Hfr].
    cbn [Session.foreign_visible]. rewrite (IH (next_now now o) (tstep ts o) (bound_step now ts o Hb) Hfr).
    rewrite andb_true_r. destruct Hb as [_ Hc]. unfold foreign_ok in Hfo.
    destruct o; cbn [visible_ok]; try reflexivity; cbn [foreign_op op_time] in Hfo; apply N.ltb_lt in Hfo;
      destruct (ts_cached_at ts) as [c|]; try reflexivity; specialize (Hc c eq_refl);
      apply negb_true_iff, N.eqb_neq; lia.
  Qed.

  (* start: directory exists, file does not, new loader *)
  Lemma sim_start p mt ca fs : dirs fs (go_dir p) = DDir -> files fs p = None ->
    sim p IAbsent mt ca fs (fresh p).
  Proof.
    intros Hd Hf. apply sim_intro; auto using inv_fresh. intros content t H. rewrite Hf in H. discriminate.
  Qed.

  Definition ts0 : tstate := mkT IAbsent 0 None.

  Theorem history_refines_exact p fs ops : p <> [] -> dirs fs (go_dir p) = DDir -> files fs p = None ->
    forallb proper ops = true -> foreign_visible ts0 ops = true ->
    run fs (fresh p) ops = ideal_run IAbsent ops.
  Proof. intros. apply (run_refines_exact p ops ts0); auto. now apply sim_start. Qed.

  Theorem history_refines p fs ops : p <> [] -> dirs fs (go_dir p) = DDir -> files fs p = None ->
    forallb proper ops = true -> foreign_newer 0 ops = true ->
    run fs (fresh p) ops = ideal_run IAbsent ops.
  Proof.
    intros. apply history_refines_exact; auto. apply (newer_visible ops 0); auto.
    split; cbn; [lia|discriminate].
  Qed.

  (* start anywhere: whatever the file holds and whatever the loader has cached, from the
     first Store on the history behaves like the reference store *)
  Theorem history_refines_any_start_exact fs l s t ops :
    l_path l <> [] -> dirs fs (go_dir (l_path l)) = DDir -> session_ok s = true ->
    forallb proper ops = true ->
    foreign_visible (mkT (IFile s (length (render s))) t None) ops = true ->
    run fs l (OStore s t :: ops) = ideal_run IAbsent (OStore s t :: ops).
  Proof.
    intros Hne Hd Hs Hpr Hfn. cbn [Session.run Session.ideal_run Session.step Session.ideal_step].
    destruct (store_ok (l_path l) None fs l s t eq_refl Hd Hs) as (l' & Hst & Hs').
    rewrite Hst. f_equal.
    now apply (run_refines_exact (l_path l) ops (mkT (IFile s (length (render s))) t None)).
  Qed.

  Theorem history_refines_any_start fs l s t ops :
    l_path l <> [] -> dirs fs (go_dir (l_path l)) = DDir -> session_ok s = true ->
    forallb proper ops = true -> foreign_newer t ops = true ->
    run fs l (OStore s t :: ops) = ideal_run IAbsent (OStore s t :: ops).
  Proof.
    intros. apply history_refines_any_start_exact; auto. apply (newer_visible ops t); auto.
    split; cbn; [lia|discriminate].
  Qed.

  (* histories without another writer need no condition on the times *)
  Definition own_op (o : op) : bool := negb (foreign_op o).

  Lemma own_visible ops : forallb own_op ops = true -> forall ts, foreign_visible ts ops = true.
  Proof.
    induction ops as [|o r IH]; intros H ts; [reflexivity|].
    cbn [forallb] in H. apply andb_true_iff in H. destruct H as [Ho Hr].
    cbn [Session.foreign_visible]. rewrite IH by exact Hr. unfold own_op in Ho.
    destruct o; cbn in Ho; try discriminate; reflexivity.
  Qed.

  Lemma own_foreign_newer ops : forallb own_op ops = true -> forall now, foreign_newer now ops = true.
  Proof.
    induction ops as [|o r IH]; intros H now; [reflexivity|].
    cbn [forallb] in H. apply andb_true_iff in H. destruct H as [Ho Hr].
    cbn [foreign_newer]. rewrite IH by exact Hr. unfold foreign_ok. unfold own_op in Ho.
    destruct (foreign_op o); [discriminate|reflexivity].
  Qed.

  (* ---------------- last store wins, in plain words ---------------- *)

  Lemma ideal_load_full s : ideal_load (IFile s (length (render s))) = LOk s.
  Proof. unfold Session.ideal_load. now rewrite Nat.ltb_irrefl. Qed.

  Definition last_of (st : istate) : option session :=
    match st with IAbsent => None | IFile s _ => Some s end.

  Definition whole (st : istate) : Prop :=
    match st with IAbsent => True | IFile s n => n = length (render s) end.

  Lemma ideal_simple ops : forall st, whole st -> forallb simple_op ops = true ->
    ideal_run st ops = last_store_run (last_of st) ops.
  Proof.
    induction ops as [|o r IH]; intros st Hw Hs; [reflexivity|].
    cbn [forallb] in Hs. apply andb_true_iff in Hs. destruct Hs as [Ho Hr].
    destruct o as [s t| | |k t|c t|k t|s t| |host|host t]; cbn [simple_op] in Ho; try discriminate;
      cbn [Session.ideal_run Session.ideal_step last_store_run].
    - f_equal. now apply (IH (IFile s (length (render s)))).
    - f_equal; [|now apply IH]. f_equal.
      destruct st as [|s n]; [reflexivity|]. cbn [whole] in Hw. subst n.
      now rewrite ideal_load_full.
    - f_equal. now apply IH.
    - f_equal. now apply IH.
  Qed.

  Lemma simple_proper ops : forallb simple_op ops = true -> forallb proper ops = true.
  Proof.
    induction ops as [|o r IH]; [reflexivity|]. cbn [forallb]. rewrite !andb_true_iff.
    intros [Ho Hr]. split; [|now apply IH]. destruct o; cbn in *; auto; discriminate.
  Qed.

  Lemma simple_own ops : forallb simple_op ops = true -> forallb own_op ops = true.
  Proof.
    induction ops as [|o r IH]; [reflexivity|]. cbn [forallb]. rewrite !andb_true_iff.
    intros [Ho Hr]. split; [|now apply IH]. destruct o; cbn in *; auto; discriminate.
  Qed.

  Theorem last_store_wins p fs ops : p <> [] -> dirs fs (go_dir p) = DDir -> files fs p = None ->
    forallb simple_op ops = true -> run fs (fresh p) ops = last_store_run None ops.
  Proof.
    intros Hne Hd Hf Hs. rewrite history_refines by auto using simple_proper, own_foreign_newer, simple_own.
    now apply (ideal_simple ops IAbsent).
  Qed.

  Theorem last_store_wins_any_start fs l s t ops :
    l_path l <> [] -> dirs fs (go_dir (l_path l)) = DDir -> session_ok s = true ->
    forallb simple_op ops = true ->
    run fs l (OStore s t :: ops) = last_store_run None (OStore s t :: ops).
  Proof.
    intros Hne Hd Hs Hso.
    rewrite history_refines_any_start by auto using simple_proper, own_foreign_newer, simple_own.
    apply (ideal_simple (OStore s t :: ops) IAbsent I). cbn [forallb simple_op]. now rewrite Hs.
  Qed.

  (* ---------------- missing file ---------------- *)

  Theorem missing_is_notfound fs l : files fs (l_path l) = None ->
    dirs fs (go_dir (l_path l)) <> DFile -> load fs l = (LNotFound, l).
  Proof.
    intros Hf Hd. unfold Session.load. rewrite Hf. destruct (dirs fs (go_dir (l_path l))); congruence.
  Qed.

  (* ---------------- torn file ---------------- *)

  (* any loader that can see the tear: nothing cached, or cached at another modification time *)
  Theorem tear_load_error fs l s k t : session_ok s = true -> (k < length (render s))%nat ->
    files fs (l_path l) = Some (firstn k (render s), t) ->
    l_cached l = None \/ t <> l_last l ->
    load fs l = (LErr, l).
  Proof.
    intros Hs Hk Hf Hc. unfold Session.load. rewrite Hf, parse_torn by assumption.
    destruct (l_cached l) as [c|]; [|reflexivity].
    destruct (N.eqb_spec t (l_last l)); [|reflexivity]. destruct Hc; [discriminate|contradiction].
  Qed.

  Theorem torn_is_error fs l s k t : session_ok s = true -> (k < length (render s))%nat ->
    files fs (l_path l) = Some (firstn k (render s), t) -> l_cached l = None ->
    load fs l = (LErr, l).
  Proof. intros. apply (tear_load_error fs l s k t); auto. Qed.

  Lemma run_repeat_load fs l r : load fs l = (r, l) ->
    forall n, run fs l (repeat OLoad n) = repeat (ObsLoad r) n.
  Proof.
    intros H n. induction n as [|n IH]; [reflexivity|].
    cbn [repeat Session.run Session.step]. rewrite H. now rewrite IH.
  Qed.

  (* ... and it stays an error however often that loader asks *)
  Theorem tear_every_load_error fs l s k t n : session_ok s = true -> (k < length (render s))%nat ->
    files fs (l_path l) = Some (firstn k (render s), t) ->
    l_cached l = None \/ t <> l_last l ->
    run fs l (repeat OLoad n) = repeat (ObsLoad LErr) n.
  Proof. intros. apply run_repeat_load. now apply (tear_load_error fs l s k t). Qed.

  (* store then crash at k then restart, starting from any state *)
  Theorem store_crash_load fs l s t k t' : l_path l <> [] -> dirs fs (go_dir (l_path l)) = DDir ->
    session_ok s = true -> (k < length (render s))%nat ->
    run fs l [OStore s t; OCrash k t'; OLoad] = [ObsStore (Ok tt); ObsNone; ObsLoad LErr].
  Proof.
    intros Hne Hd Hs Hk. rewrite history_refines_any_start by auto.
    cbn [Session.ideal_run Session.ideal_step Session.ideal_load].
    rewrite Nat.min_l by lia. destruct (Nat.ltb_spec k (length (render s))); [reflexivity|lia].
  Qed.

  (* helpers for histories with blocks of repeated loads *)
  Lemma ideal_run_loads st n rest :
    ideal_run st (repeat OLoad n ++ rest) = repeat (ObsLoad (ideal_load st)) n ++ ideal_run st rest.
  Proof. induction n as [|n IH]; [reflexivity|]. cbn [repeat app Session.ideal_run Session.ideal_step]. now rewrite IH. Qed.

  Lemma proper_loads n rest : forallb proper (repeat OLoad n ++ rest) = forallb proper rest.
  Proof. induction n as [|n IH]; [reflexivity|]. cbn [repeat app forallb proper]. exact IH. Qed.

  Lemma own_loads n rest : forallb own_op (repeat OLoad n ++ rest) = forallb own_op rest.
  Proof. induction n as [|n IH]; [reflexivity|]. cbn [repeat app forallb]. exact IH. Qed.

  (* A long-lived loader has cached a good session; ANOTHER writer leaves a torn file carrying a
     DIFFERENT time (later or earlier): every Load of the surviving loader, and after a restart
     every Load of a new one, is an error. From any starting state. *)
  Theorem tear_history fs l s t k t' n m : l_path l <> [] -> dirs fs (go_dir (l_path l)) = DDir ->
    session_ok s = true -> (k < length (render s))%nat -> t' <> t ->
    run fs l ([OStore s t; OLoad; OTear k t'] ++ repeat OLoad n ++ OFresh :: repeat OLoad m)
    = [ObsStore (Ok tt); ObsLoad (LOk s); ObsNone] ++ repeat (ObsLoad LErr) n ++ ObsNone :: repeat (ObsLoad LErr) m.
  Proof.
    intros Hne Hd Hs Hk Hlt. cbn [app].
    rewrite history_refines_any_start_exact; auto.
    - cbn [Session.ideal_run Session.ideal_step]. rewrite ideal_load_full.
      rewrite ideal_run_loads. cbn [Session.ideal_run Session.ideal_step].
      replace (repeat OLoad m) with (repeat OLoad m ++ []) by apply app_nil_r.
      rewrite ideal_run_loads. cbn [Session.ideal_run]. rewrite app_nil_r.
      assert (He : ideal_load (IFile s (Nat.min k (length (render s)))) = LErr).
      { unfold Session.ideal_load. rewrite Nat.min_l by lia.
        destruct (Nat.ltb_spec k (length (render s))); [reflexivity|lia]. }
      now rewrite He.
    - cbn [forallb proper]. rewrite proper_loads. cbn [forallb proper].
      replace (repeat OLoad m) with (repeat OLoad m ++ []) by apply app_nil_r.
      now rewrite proper_loads.
    - cbn [Session.foreign_visible visible_ok Session.tstep ts_st ts_mtime ts_cached_at andb].
      rewrite ideal_load_full. cbn [ts_cached_at].
      apply andb_true_iff. split; [now apply negb_true_iff, N.eqb_neq|].
      apply own_visible. rewrite own_loads. cbn [forallb own_op foreign_op negb andb].
      replace (repeat OLoad m) with (repeat OLoad m ++ []) by apply app_nil_r. now rewrite own_loads.
  Qed.

  (* Another loader stores a complete session carrying a DIFFERENT time (later or earlier - a file
     restored from a backup, cp -p, os.Chtimes): the surviving loader returns it. *)
  Theorem foreign_differs_wins fs l a b t t' n : l_path l <> [] -> dirs fs (go_dir (l_path l)) = DDir ->
    session_ok a = true -> session_ok b = true -> t' <> t ->
    run fs l ([OStore a t; OLoad; OForeign b t'] ++ repeat OLoad n)
    = [ObsStore (Ok tt); ObsLoad (LOk a); ObsNone] ++ repeat (ObsLoad (LOk b)) n.
  Proof.
    intros Hne Hd Ha Hb Hlt. cbn [app].
    rewrite history_refines_any_start_exact; auto.
    - cbn [Session.ideal_run Session.ideal_step]. rewrite ideal_load_full.
      replace (repeat OLoad n) with (repeat OLoad n ++ []) by apply app_nil_r.
      rewrite ideal_run_loads. cbn [Session.ideal_run]. now rewrite app_nil_r, ideal_load_full.
    - cbn [forallb proper]. rewrite Hb. cbn [andb].
      replace (repeat OLoad n) with (repeat OLoad n ++ []) by apply app_nil_r. now rewrite proper_loads.
    - cbn [Session.foreign_visible visible_ok Session.tstep ts_st ts_mtime ts_cached_at andb].
      rewrite ideal_load_full. cbn [ts_cached_at].
      apply andb_true_iff. split; [now apply negb_true_iff, N.eqb_neq|].
      apply own_visible. replace (repeat OLoad n) with (repeat OLoad n ++ []) by apply app_nil_r.
      now rewrite own_loads.
  Qed.

  (* What the modification-time keyed cache cannot see (exact behaviour of the code): a change by
     ANOTHER writer that carries the very time the surviving loader cached at. The surviving loader
     keeps answering with the session it read before - the last one it stored and read back itself -
     until the file's time changes or the loader stores; a new loader sees the file as it is. *)
  Theorem foreign_equal_tick_unseen fs l a b t k : l_path l <> [] -> dirs fs (go_dir (l_path l)) = DDir ->
    session_ok a = true -> session_ok b = true -> (k < length (render a))%nat ->
    run fs l [OStore a t; OLoad; OForeign b t; OLoad; OFresh; OLoad]
    = [ObsStore (Ok tt); ObsLoad (LOk a); ObsNone; ObsLoad (LOk a); ObsNone; ObsLoad (LOk b)]
    /\ run fs l [OStore a t; OLoad; OTear k t; OLoad; OFresh; OLoad]
    = [ObsStore (Ok tt); ObsLoad (LOk a); ObsNone; ObsLoad (LOk a); ObsNone; ObsLoad LErr].
  Proof.
    intros Hne Hd Ha Hb Hk.
    set (p := l_path l) in *.
    set (fs1 := fs_set fs p (Some (render a, t))).
    set (l1 := mkLoader p (l_last l) None).
    set (l2 := mkLoader p t (Some a)).
    assert (Hst : store fs l a t = (Ok tt, fs1, l1)).
    { unfold Session.store. fold p. now rewrite Hd. }
    assert (Hl1 : load fs1 l1 = (LOk a, l2)).
    { apply (load_eq_miss fs1 l1 (render a) t a); [apply files_set_same|reflexivity|now apply parse_render]. }
    split.
    - set (fs3 := fs_set fs1 p (Some (render b, t))).
      assert (Hfo : store fs1 (fresh p) b t = (Ok tt, fs3, mkLoader p 0 None)).
      { unfold Session.store. cbn [l_path fresh l_last]. unfold fs1 at 1. rewrite dirs_set. now rewrite Hd. }
      assert (Hl2 : load fs3 l2 = (LOk a, l2)).
      { apply (load_eq_hit fs3 l2 (render b) t a); [apply files_set_same|reflexivity|reflexivity]. }
      assert (Hl3 : load fs3 (fresh p) = (LOk b, mkLoader p t (Some b))).
      { apply (load_eq_miss fs3 (fresh p) (render b) t b); [apply files_set_same|reflexivity|now apply parse_render]. }
      cbn [Session.run Session.step]. rewrite Hst. cbn [Session.run Session.step]. fold p.
      rewrite Hl1. cbn [l_path l2]. rewrite Hfo, Hl2. cbn [l_path l2]. now rewrite Hl3.
    - set (fs3 := fs_set fs1 p (Some (firstn k (render a), t))).
      assert (Hcr : crash fs1 p k t = fs3).
      { unfold crash. unfold fs1 at 1. now rewrite files_set_same. }
      assert (Hl2 : load fs3 l2 = (LOk a, l2)).
      { apply (load_eq_hit fs3 l2 (firstn k (render a)) t a); [apply files_set_same|reflexivity|reflexivity]. }
      assert (Hl3 : load fs3 (fresh p) = (LErr, fresh p)).
      { apply (tear_load_error fs3 (fresh p) a k t); auto. apply files_set_same. }
      cbn [Session.run Session.step]. rewrite Hst. cbn [Session.run Session.step]. fold p.
      rewrite Hl1. cbn [l_path l2]. rewrite Hcr, Hl2. cbn [l_path l2]. now rewrite Hl3.
  Qed.

  (* ---------------- restart decision of NewMTProto ---------------- *)

  Theorem resume_decision p host fs st : p <> [] -> dirs fs (go_dir p) = DDir -> file_is fs p st ->
    fst (new_mtproto fs p host) = client_decide host (ideal_load st).
  Proof.
    intros Hne Hd Hf. rewrite client_path_nonempty by exact Hne. cbn [fst].
    assert (Hm : exists mt, mtime_is fs p mt).
    { destruct (files fs p) as [[c t]|] eqn:E.
      - exists t. intros content t' H. rewrite E in H. now injection H as _ <-.
      - exists 0. intros content t' H. rewrite E in H. discriminate. }
    destruct Hm as [mt Hm].
    assert (Hsim : sim p st mt None fs (fresh p)) by (apply sim_intro; auto using inv_fresh).
    destruct (sim_load p st mt None fs (fresh p) Hsim) as [H1 _]. now rewrite H1.
  Qed.

  Theorem resume_after_store fs l s t host : l_path l <> [] -> dirs fs (go_dir (l_path l)) = DDir ->
    session_ok s = true ->
    run fs l [OStore s t; OClient host] = [ObsStore (Ok tt); ObsClient (Ok (client_of s))].
  Proof.
    intros Hne Hd Hs. rewrite history_refines_any_start by auto.
    cbn [Session.ideal_run Session.ideal_step]. now rewrite ideal_load_full.
  Qed.

  (* ---------------- host names that are not valid UTF-8 ---------------- *)

  (* encoding/json as it is: strings are coerced on the way out (every byte at which no valid
     UTF-8 sequence starts becomes U+FFFD) *)
  Hypothesis json_go_rt : forall t, unmarshal (marshal t) = Ok (coerce_tsf t).

  Lemma parse_render_any_host s : session_bytes_ok s = true -> parse (render s) = Ok (coerce_session s).
  Proof.
    intros H. unfold session_bytes_ok in H. rewrite !andb_true_iff in H. destruct H as ((Hk & Hh) & Hz).
    unfold Session.parse, Session.render. rewrite json_go_rt. cbn [obind].
    unfold coerce_tsf, Session.write_session, Session.read_session. cbn [t_key t_hash t_salt t_host].
    rewrite !coerce_valid_id by apply b64_utf8.
    rewrite !b64_rt by (auto using salt_enc_bytes_ok). cbn [obind].
    rewrite salt_roundtrip by exact Hz. reflexivity.
  Qed.

  (* store then load by the same loader, any host-name bytes: the session comes back with the
     host name coerced - silently, no error *)
  Theorem store_load_any_host fs l s t : dirs fs (go_dir (l_path l)) = DDir ->
    session_bytes_ok s = true ->
    run fs l [OStore s t; OLoad] = [ObsStore (Ok tt); ObsLoad (LOk (coerce_session s))].
  Proof.
    intros Hd Hs. cbn [Session.run Session.step]. unfold Session.store. rewrite Hd.
    cbn [Session.run Session.step].
    rewrite (load_eq_miss _ _ (render s) t (coerce_session s)); [reflexivity| |reflexivity|].
    - cbn [l_path]. apply files_set_same.
    - now apply parse_render_any_host.
  Qed.
End Store.

(* ------------------------------------------------------------------------------------ *)
(* The hypotheses are satisfiable: the executable base64 together with a toy "JSON"
   (four lengths, then the four strings; list elements are unbounded N in the model). *)

Definition toy_marshal (t : tsf) : bytes :=
  N.of_nat (length (t_key t)) :: N.of_nat (length (t_hash t)) :: N.of_nat (length (t_salt t))
  :: N.of_nat (length (t_host t)) :: t_key t ++ t_hash t ++ t_salt t ++ t_host t.

Definition toy_unmarshal (c : bytes) : outcome tsf :=
  match c with
  | a :: b :: d :: e :: r =>
    let a := N.to_nat a in let b := N.to_nat b in let d := N.to_nat d in let e := N.to_nat e in
    if (length r =? a + b + d + e)%nat then
      Ok (mkTsf (firstn a r) (firstn b (skipn a r)) (firstn d (skipn b (skipn a r)))
                (skipn d (skipn b (skipn a r))))
    else Err
  | _ => Err
  end.

Lemma firstn_app_exact {A} (l r : list A) : firstn (length l) (l ++ r) = l.
Proof. rewrite firstn_app, Nat.sub_diag, firstn_all. cbn. apply app_nil_r. Qed.

Lemma skipn_app_exact {A} (l r : list A) : skipn (length l) (l ++ r) = r.
Proof. rewrite skipn_app, Nat.sub_diag, skipn_all. reflexivity. Qed.

Lemma toy_rt t : toy_unmarshal (toy_marshal t) = Ok t.
Proof.
  destruct t as [k h s o]. unfold toy_marshal, toy_unmarshal. cbn [t_key t_hash t_salt t_host].
  rewrite !Nat2N.id.
  destruct (Nat.eqb_spec (length (k ++ h ++ s ++ o)) (length k + length h + length s + length o)) as [_|Hn];
    [|rewrite !app_length in Hn; lia].
  rewrite firstn_app_exact, skipn_app_exact, firstn_app_exact, skipn_app_exact,
    firstn_app_exact, skipn_app_exact. reflexivity.
Qed.

Lemma toy_prefix t k : (k < length (toy_marshal t))%nat -> toy_unmarshal (firstn k (toy_marshal t)) = Err.
Proof.
  destruct t as [ke h s o]. unfold toy_marshal. cbn [t_key t_hash t_salt t_host length].
  intros Hk. destruct k as [|[|[|[|k]]]]; try reflexivity.
  cbn [firstn]. unfold toy_unmarshal. rewrite !Nat2N.id.
  rewrite firstn_length. rewrite !app_length in *.
  destruct (Nat.eqb_spec (Nat.min k (length ke + (length h + (length s + length o))))
                         (length ke + length h + length s + length o)); [lia|reflexivity].
Qed.

(* ------------------------------------------------------------------------------------ *)
(* the assumptions about encoding/base64 and encoding/json, as one record of statements   *)

Definition base64_ok (b64enc : bytes -> bytes) (b64dec : bytes -> outcome bytes) : Prop :=
  (forall b, bytes_ok b = true -> b64dec (b64enc b) = Ok b) /\
  (forall b, utf8_valid (b64enc b) = true).

Definition json_ok (marshal : tsf -> bytes) (unmarshal : bytes -> outcome tsf) : Prop :=
  (forall t, tsf_valid t = true -> unmarshal (marshal t) = Ok t) /\
  (forall t k, tsf_valid t = true -> (k < length (marshal t))%nat ->
               unmarshal (firstn k (marshal t)) = Err).

Lemma base64_model_ok : base64_ok b64_encode b64_decode.
Proof. split; [exact b64_roundtrip|exact b64_encode_utf8]. Qed.

Lemma toy_json_ok : json_ok toy_marshal toy_unmarshal.
Proof. split; [intros t _; apply toy_rt|intros t k _; apply toy_prefix]. Qed.

(* ------------------------------------------------------------------------------------ *)
(* encoding/json as it is (strings coerced to valid UTF-8 on the way out)                 *)

Definition json_go_ok (marshal : tsf -> bytes) (unmarshal : bytes -> outcome tsf) : Prop :=
  (forall t, unmarshal (marshal t) = Ok (coerce_tsf t)) /\
  (forall t k, (k < length (marshal t))%nat -> unmarshal (firstn k (marshal t)) = Err).

Lemma coerce_tsf_valid t : tsf_valid t = true -> coerce_tsf t = t.
Proof.
  destruct t as [k h s o]. unfold tsf_valid, coerce_tsf. cbn [t_key t_hash t_salt t_host].
  rewrite !andb_true_iff. intros (((Hk & Hh) & Hs) & Ho). now rewrite !coerce_valid_id.
Qed.

(* json_ok is json_go_ok restricted to valid UTF-8 strings *)
Lemma json_go_ok_json_ok marshal unmarshal : json_go_ok marshal unmarshal -> json_ok marshal unmarshal.
Proof.
  intros [H1 H2]. split.
  - intros t Hv. now rewrite H1, coerce_tsf_valid.
  - intros t k _. apply H2.
Qed.

Definition toy_go_marshal (t : tsf) : bytes := toy_marshal (coerce_tsf t).

Lemma toy_go_json_ok : json_go_ok toy_go_marshal toy_unmarshal.
Proof. split; [intros t; apply toy_rt|intros t k; apply toy_prefix]. Qed.

(* "t\xffme:443" *)
Definition bad_host_session : session := mkSession [1] [2] 3 [116; 255; 109; 101; 58; 52; 52; 51].

Theorem hostname_not_utf8_refuted b64enc b64dec marshal unmarshal :
  base64_ok b64enc b64dec -> json_go_ok marshal unmarshal ->
  forall fs l t, dirs fs (go_dir (l_path l)) = DDir ->
  exists s s', session_bytes_ok s = true /\
    run b64enc b64dec marshal unmarshal fs l [OStore s t; OLoad] = [ObsStore (Ok tt); ObsLoad (LOk s')] /\
    s' <> s.
Proof.
  intros [H1 H2] [H3 _] fs l t Hd.
  exists bad_host_session, (coerce_session bad_host_session). split; [reflexivity|]. split.
  - now apply store_load_any_host.
  - vm_compute. discriminate.
Qed.
