(* Proofs about the session-store model (Misc/Session.v, Misc/SessionBase64.v). *)
From Coq Require Import ZArith NArith List Lia ZifyN ZifyNat ZifyBool Bool.
From MTV Require Import Base.Bytes Base.Outcome Misc.Session Misc.SessionBase64.
Import ListNotations.
Open Scope N_scope.
Ltac Zify.zify_post_hook ::= Z.div_mod_to_equations.

(* ------------------------------------------------------------------------------------ *)
(* salt: int64 <-> 8 little-endian bytes                                                  *)

Lemma of_le_le32_app n r : n < 4294967296 -> of_le (le32 n ++ r) = n + 4294967296 * of_le r.
Proof. intros H. unfold le32. cbn [app of_le]. lia. Qed.

Lemma of_le_le64 n : n < 18446744073709551616 -> of_le (le64 n) = n.
Proof.
  intros H. unfold le64. rewrite of_le_le32_app by lia.
  replace (le32 (n / 4294967296)) with (le32 (n / 4294967296) ++ []) by apply app_nil_r.
  rewrite of_le_le32_app by lia. cbn [of_le]. lia.
Qed.

Lemma le64_length n : length (le64 n) = 8%nat.
Proof. reflexivity. Qed.

Lemma le64_bytes_ok n : bytes_ok (le64 n) = true.
Proof.
  unfold le64, bytes_ok. rewrite forallb_app.
  fold (bytes_ok (le32 (n mod 4294967296))). fold (bytes_ok (le32 (n / 4294967296))).
  now rewrite !le32_bytes_ok.
Qed.

Lemma u64_of_i64_lt z : u64_of_i64 z < 18446744073709551616.
Proof. unfold u64_of_i64, two64. lia. Qed.

Lemma i64_u64_roundtrip z : int64_ok z = true -> i64_of_u64 (u64_of_i64 z) = z.
Proof.
  unfold int64_ok, i64_of_u64, u64_of_i64, two63, two64, two64N. intros H.
  apply andb_true_iff in H. destruct H as [H1 H2].
  apply Z.leb_le in H1. apply Z.ltb_lt in H2.
  set (m := Z.to_N (z mod 18446744073709551616)).
  assert (Hm : Z.of_N m = (z mod 18446744073709551616)%Z) by (unfold m; lia).
  assert (Hlt : m < 18446744073709551616) by lia.
  rewrite (N.mod_small m) by lia.
  destruct (N.ltb_spec m 9223372036854775808); lia.
Qed.

Lemma u64_i64_roundtrip n : n < 18446744073709551616 ->
  u64_of_i64 (i64_of_u64 n) = n /\ int64_ok (i64_of_u64 n) = true.
Proof.
  unfold int64_ok, i64_of_u64, u64_of_i64, two63, two64, two64N. intros H.
  rewrite (N.mod_small n) by lia.
  destruct (N.ltb_spec n 9223372036854775808); split; lia.
Qed.

Lemma salt_enc_length z : length (salt_enc z) = 8%nat.
Proof. reflexivity. Qed.

Lemma salt_enc_bytes_ok z : bytes_ok (salt_enc z) = true.
Proof. apply le64_bytes_ok. Qed.

Lemma salt_roundtrip z : int64_ok z = true -> salt_dec (salt_enc z) = Ok z.
Proof.
  intros H. unfold salt_dec. rewrite salt_enc_length. cbn [Nat.ltb Nat.leb].
  replace (firstn 8 (salt_enc z)) with (salt_enc z) by reflexivity.
  unfold salt_enc. rewrite of_le_le64 by apply u64_of_i64_lt.
  now rewrite i64_u64_roundtrip.
Qed.

(* every 8-byte little-endian string is the encoding of exactly one int64 *)
Lemma salt_enc_surjective n : n < 18446744073709551616 ->
  exists z, int64_ok z = true /\ salt_enc z = le64 n.
Proof.
  intros H. exists (i64_of_u64 n). destruct (u64_i64_roundtrip n H) as [H1 H2].
  split; [exact H2|]. unfold salt_enc. now rewrite H1.
Qed.

Lemma salt_dec_short buf : (length buf < 8)%nat -> salt_dec buf = Panic.
Proof. intros H. unfold salt_dec. destruct (Nat.ltb_spec (length buf) 8); [reflexivity|lia]. Qed.

Lemma salt_dec_total buf : (8 <= length buf)%nat -> exists z, salt_dec buf = Ok z.
Proof. intros H. unfold salt_dec. destruct (Nat.ltb_spec (length buf) 8); [lia|eauto]. Qed.

(* ------------------------------------------------------------------------------------ *)
(* UTF-8 validity of ASCII strings                                                        *)

Definition ascii (s : bytes) : bool := forallb (fun c => c <? 128) s.

Lemma ascii_utf8_valid s : ascii s = true -> utf8_valid s = true.
Proof.
  induction s as [|a r IH]; [reflexivity|]. unfold ascii. cbn [forallb utf8_valid].
  intros H. apply andb_true_iff in H. destruct H as [Ha Hr]. rewrite Ha. now apply IH.
Qed.

(* ------------------------------------------------------------------------------------ *)
(* base64 model                                                                           *)

Lemma b64_val_char n : n < 64 -> b64_val (b64_char n) = Some n.
Proof.
  intros H. unfold b64_val, b64_char.
  destruct (N.ltb_spec n 26).
  { replace ((65 <=? 65 + n) && (65 + n <=? 90)) with true by lia. f_equal. lia. }
  destruct (N.ltb_spec n 52).
  { replace ((65 <=? 71 + n) && (71 + n <=? 90)) with false by lia.
    replace ((97 <=? 71 + n) && (71 + n <=? 122)) with true by lia. f_equal. lia. }
  destruct (N.ltb_spec n 62).
  { replace ((65 <=? n - 4) && (n - 4 <=? 90)) with false by lia.
    replace ((97 <=? n - 4) && (n - 4 <=? 122)) with false by lia.
    replace ((48 <=? n - 4) && (n - 4 <=? 57)) with true by lia. f_equal. lia. }
  destruct (N.eqb_spec n 62) as [->|Hn]; [reflexivity|].
  assert (n = 63) as -> by lia. reflexivity.
Qed.

Lemma b64_char_not_pad n : (b64_char n =? pad) = false.
Proof.
  unfold b64_char, pad.
  destruct (N.ltb_spec n 26); [lia|]. destruct (N.ltb_spec n 52); [lia|].
  destruct (N.ltb_spec n 62); [lia|]. destruct (N.eqb_spec n 62); reflexivity.
Qed.

Lemma b64_char_ascii n : (b64_char n <? 128) = true.
Proof.
  unfold b64_char.
  destruct (N.ltb_spec n 26); [lia|]. destruct (N.ltb_spec n 52); [lia|].
  destruct (N.ltb_spec n 62); [lia|]. destruct (N.eqb_spec n 62); reflexivity.
Qed.

Lemma list_ind3 {A} (P : list A -> Prop) :
  P [] -> (forall a, P [a]) -> (forall a b, P [a; b]) ->
  (forall a b c r, P r -> P (a :: b :: c :: r)) -> forall l, P l.
Proof.
  intros H0 H1 H2 H3. fix IH 1. intros [|a [|b [|c r]]]; [exact H0|apply H1|apply H2|apply H3, IH].
Qed.

Lemma b64_encode_ascii l : ascii (b64_encode l) = true.
Proof.
  unfold ascii. induction l as [|a|a b|a b c r IH] using list_ind3; cbn [b64_encode forallb];
    rewrite ?b64_char_ascii; try reflexivity. exact IH.
Qed.

Lemma b64_encode_utf8 l : utf8_valid (b64_encode l) = true.
Proof. apply ascii_utf8_valid, b64_encode_ascii. Qed.

Lemma b64_roundtrip l : bytes_ok l = true -> b64_decode (b64_encode l) = Ok l.
Proof.
  unfold bytes_ok, byte_ok.
  induction l as [|a|a b|a b c r IH] using list_ind3; cbn [forallb]; intros H.
  - reflexivity.
  - cbn [b64_encode b64_decode].
    rewrite !b64_val_char by lia. rewrite !N.eqb_refl. cbn [andb]. f_equal. f_equal. lia.
  - cbn [b64_encode b64_decode].
    rewrite !b64_val_char by lia. rewrite b64_char_not_pad, N.eqb_refl.
    f_equal. f_equal; [lia|]. f_equal. lia.
  - rewrite !andb_true_iff in H. destruct H as (Ha & Hb & Hc & Hr).
    cbn [b64_encode]. cbn [b64_decode].
    rewrite !b64_val_char by lia. rewrite !b64_char_not_pad.
    rewrite IH by exact Hr. f_equal. f_equal; [lia|]. f_equal; [lia|]. f_equal. lia.
Qed.

(* ------------------------------------------------------------------------------------ *)
(* paths                                                                                  *)

Lemma drop_to_slash_none l : ~ In slash l -> drop_to_slash l = [].
Proof.
  induction l as [|x r IH]; cbn [drop_to_slash In]; intros H; [reflexivity|].
  destruct (N.eqb_spec x slash); [intuition|]. apply IH. intuition.
Qed.

(* a bare file name lives in "." *)
Lemma go_dir_bare p : ~ In slash p -> go_dir p = s_dot.
Proof.
  intros H. unfold go_dir, dir_part. rewrite drop_to_slash_none; [reflexivity|].
  intros Hi. apply H. now apply in_rev.
Qed.

(* ------------------------------------------------------------------------------------ *)
(* file-system facts                                                                      *)

Lemma files_set_same fs p v : files (fs_set fs p v) p = v.
Proof. unfold fs_set. cbn [files]. now rewrite beq_refl. Qed.

Lemma dirs_set fs p v d : dirs (fs_set fs p v) d = dirs fs d.
Proof. reflexivity. Qed.

Lemma session_eta s : mkSession (s_key s) (s_hash s) (s_salt s) (s_host s) = s.
Proof. now destruct s. Qed.

(* ------------------------------------------------------------------------------------ *)
Section Store.
  Variable b64enc : bytes -> bytes.
  Variable b64dec : bytes -> outcome bytes.
  Variable marshal : tsf -> bytes.
  Variable unmarshal : bytes -> outcome tsf.

  (* what is assumed about encoding/base64 and encoding/json *)
  Hypothesis b64_rt : forall b, bytes_ok b = true -> b64dec (b64enc b) = Ok b.
  Hypothesis b64_utf8 : forall b, utf8_valid (b64enc b) = true.
  Hypothesis json_rt : forall t, tsf_valid t = true -> unmarshal (marshal t) = Ok t.
  Hypothesis json_prefix : forall t k, tsf_valid t = true ->
    (k < length (marshal t))%nat -> unmarshal (firstn k (marshal t)) = Err.

  Notation write_session := (write_session b64enc).
  Notation read_session := (read_session b64dec).
  Notation render := (render b64enc marshal).
  Notation parse := (parse b64dec unmarshal).
  Notation load := (load b64dec unmarshal).
  Notation store := (store b64enc marshal).
  Notation step := (step b64enc b64dec marshal unmarshal).
  Notation run := (run b64enc b64dec marshal unmarshal).
  Notation new_mtproto := (new_mtproto b64dec unmarshal).
  Notation ideal_load := (ideal_load b64enc marshal).
  Notation ideal_step := (ideal_step b64enc marshal).
  Notation ideal_run := (ideal_run b64enc marshal).

  Lemma session_ok_parts s : session_ok s = true ->
    bytes_ok (s_key s) = true /\ bytes_ok (s_hash s) = true /\
    int64_ok (s_salt s) = true /\ utf8_valid (s_host s) = true.
  Proof. unfold session_ok. rewrite !andb_true_iff. tauto. Qed.

  Lemma write_session_valid s : session_ok s = true -> tsf_valid (write_session s) = true.
  Proof.
    intros H. apply session_ok_parts in H. destruct H as (_ & _ & _ & Hh).
    unfold tsf_valid, Session.write_session. cbn [t_key t_hash t_salt t_host].
    now rewrite !b64_utf8, Hh.
  Qed.

  Lemma read_write_session s : session_ok s = true -> read_session (write_session s) = Ok s.
  Proof.
    intros H. apply session_ok_parts in H. destruct H as (Hk & Hh & Hs & _).
    unfold Session.read_session, Session.write_session. cbn [t_key t_hash t_salt t_host].
    rewrite !b64_rt by (auto using salt_enc_bytes_ok). cbn [obind].
    rewrite salt_roundtrip by exact Hs. cbn [obind]. now rewrite session_eta.
  Qed.

  Lemma parse_render s : session_ok s = true -> parse (render s) = Ok s.
  Proof.
    intros H. unfold Session.parse, Session.render.
    rewrite json_rt by now apply write_session_valid. cbn [obind]. now apply read_write_session.
  Qed.

  Lemma parse_torn s k : session_ok s = true -> (k < length (render s))%nat ->
    parse (firstn k (render s)) = Err.
  Proof.
    intros H Hk. unfold Session.parse, Session.render in *.
    rewrite json_prefix by (auto using write_session_valid). reflexivity.
  Qed.

  Lemma parse_file s n : session_ok s = true -> (n <= length (render s))%nat ->
    parse (firstn n (render s)) = if (n <? length (render s))%nat then Err else Ok s.
  Proof.
    intros H Hn. destruct (Nat.ltb_spec n (length (render s))).
    - now apply parse_torn.
    - replace n with (length (render s)) by lia. rewrite firstn_all. now apply parse_render.
  Qed.

  (* ---------------- the cache is transparent ---------------- *)

  (* Loader invariant, relative to the latest modification time handed out so far ([now]):
     the loader cached at a time that has been handed out, and if the file still carries that
     time, the cached session is what the file parses to. *)
  Definition inv (now : N) (fs : fsys) (l : loader) : Prop :=
    forall c, l_cached l = Some c ->
      l_last l <= now /\
      forall content t, files fs (l_path l) = Some (content, t) -> t = l_last l -> parse content = Ok c.

  Definition time_le (now : N) (fs : fsys) (p : bytes) : Prop :=
    forall content t, files fs p = Some (content, t) -> t <= now.

  Definition res_of_parse (r : outcome session) : load_res :=
    match r with Ok s => LOk s | Err => LErr | Panic => LPanic end.

  (* Load without a cache *)
  Definition load_direct (fs : fsys) (p : bytes) : load_res :=
    match files fs p with
    | None => match dirs fs (go_dir p) with DFile => LErr | _ => LNotFound end
    | Some (content, _) => res_of_parse (parse content)
    end.

  Lemma load_path fs l : l_path (snd (load fs l)) = l_path l.
  Proof.
    unfold Session.load. destruct (files fs (l_path l)) as [[content mt]|]; [|reflexivity].
    destruct (l_cached l) as [c|].
    - destruct (mt =? l_last l); [reflexivity|]. destruct (parse content); reflexivity.
    - destruct (parse content); reflexivity.
  Qed.

  Lemma load_eq_miss fs l c mt s : files fs (l_path l) = Some (c, mt) -> l_cached l = None ->
    parse c = Ok s -> load fs l = (LOk s, mkLoader (l_path l) mt (Some s)).
  Proof. intros Hf Hc Hp. unfold Session.load. now rewrite Hf, Hc, Hp. Qed.

  Lemma load_eq_hit fs l c mt s : files fs (l_path l) = Some (c, mt) -> l_cached l = Some s ->
    mt = l_last l -> load fs l = (LOk s, l).
  Proof. intros Hf Hc Hm. unfold Session.load. rewrite Hf, Hc, Hm, N.eqb_refl. reflexivity. Qed.

  Lemma load_transparent now fs l : inv now fs l -> time_le now fs (l_path l) ->
    fst (load fs l) = load_direct fs (l_path l) /\ inv now fs (snd (load fs l)).
  Proof.
    intros Hinv Htl. unfold Session.load, load_direct.
    destruct (files fs (l_path l)) as [[content mt]|] eqn:Hf; [|split; [reflexivity|exact Hinv]].
    assert (Hnew : forall s, parse content = Ok s -> inv now fs (mkLoader (l_path l) mt (Some s))).
    { intros s Hs c Hc. cbn [l_cached l_path l_last] in *. injection Hc as <-. split.
      - exact (Htl content mt Hf).
      - intros content' t' Hf' _. rewrite Hf in Hf'. now injection Hf' as <- <-. }
    destruct (l_cached l) as [c|] eqn:Hc.
    - destruct (N.eqb_spec mt (l_last l)) as [He|Hn].
      + destruct (Hinv c Hc) as [_ Hp]. rewrite (Hp content mt Hf He).
        cbn [fst snd res_of_parse]. split; [reflexivity|exact Hinv].
      + destruct (parse content) as [s| |] eqn:Hp; cbn [fst snd res_of_parse]; split; auto.
    - destruct (parse content) as [s| |] eqn:Hp; cbn [fst snd res_of_parse]; split; auto.
  Qed.

  Lemma inv_fresh now fs p : inv now fs (fresh p).
  Proof. intros c Hc. discriminate. Qed.

  Lemma inv_mono now now' fs l : now <= now' -> inv now fs l -> inv now' fs l.
  Proof. intros Hle Hi c Hc. destruct (Hi c Hc) as [H1 H2]. split; [lia|exact H2]. Qed.

  Lemma time_le_mono now now' fs p : now <= now' -> time_le now fs p -> time_le now' fs p.
  Proof. intros Hle Ht content t Hf. specialize (Ht content t Hf). lia. Qed.

  (* a change of the file that carries a time later than [now] cannot be mistaken for the cached state *)
  Lemma inv_newer_write now fs l v t : inv now fs l -> now < t ->
    (forall content t', v = Some (content, t') -> t' = t) ->
    inv (N.max now t) (fs_set fs (l_path l) v) l.
  Proof.
    intros Hi Hlt Hv c Hc. destruct (Hi c Hc) as [H1 _]. split; [lia|].
    intros content t' Hf Ht'. rewrite files_set_same in Hf. apply Hv in Hf. lia.
  Qed.

  (* ---------------- simulation with the reference store ---------------- *)

  Definition file_is (fs : fsys) (p : bytes) (st : istate) : Prop :=
    match st with
    | IAbsent => files fs p = None
    | IFile s n => session_ok s = true /\ (n <= length (render s))%nat /\
                   exists t, files fs p = Some (firstn n (render s), t)
    end.

  Definition sim (p : bytes) (now : N) (st : istate) (fs : fsys) (l : loader) : Prop :=
    l_path l = p /\ inv now fs l /\ time_le now fs p /\ dirs fs (go_dir p) = DDir /\ file_is fs p st.

  Lemma sim_intro p now st fs l : l_path l = p -> inv now fs l -> time_le now fs p ->
    dirs fs (go_dir p) = DDir -> file_is fs p st -> sim p now st fs l.
  Proof. intros. unfold sim. tauto. Qed.

  Lemma file_is_intro fs p s n t : session_ok s = true -> (n <= length (render s))%nat ->
    files fs p = Some (firstn n (render s), t) -> file_is fs p (IFile s n).
  Proof. intros. cbn [file_is]. eauto. Qed.

  Lemma load_direct_ideal p st fs : dirs fs (go_dir p) = DDir -> file_is fs p st ->
    load_direct fs p = ideal_load st.
  Proof.
    intros Hd Hf. unfold load_direct, Session.ideal_load. destruct st as [|s n]; cbn [file_is] in Hf.
    - now rewrite Hf, Hd.
    - destruct Hf as (Hs & Hn & t & Hf). rewrite Hf, parse_file by assumption.
      destruct (n <? length (render s))%nat; reflexivity.
  Qed.

  Lemma sim_load p now st fs l : sim p now st fs l ->
    fst (load fs l) = ideal_load st /\ sim p now st fs (snd (load fs l)).
  Proof.
    intros (Hp & Hi & Ht & Hd & Hf). rewrite <- Hp in Ht.
    destruct (load_transparent now fs l Hi Ht) as [H1 H2]. rewrite Hp in Ht.
    split.
    - rewrite H1, Hp. now apply load_direct_ideal.
    - apply sim_intro; auto. now rewrite load_path.
  Qed.

  Lemma sim_fresh p now st fs l : sim p now st fs l -> sim p now st fs (fresh p).
  Proof. intros (Hp & Hi & Ht & Hd & Hf). apply sim_intro; auto using inv_fresh. Qed.

  Lemma sim_mono p now now' st fs l : now <= now' -> sim p now st fs l -> sim p now' st fs l.
  Proof.
    intros Hle (Hp & Hi & Ht & Hd & Hf). apply sim_intro; eauto using inv_mono, time_le_mono.
  Qed.

  Lemma time_le_set now fs p c t : time_le (N.max now t) (fs_set fs p (Some (c, t))) p.
  Proof. intros content t' Hf. rewrite files_set_same in Hf. injection Hf as <- <-. lia. Qed.

  Lemma store_ok p now fs l s t : l_path l = p -> dirs fs (go_dir p) = DDir -> session_ok s = true ->
    exists l', store fs l s t = (Ok tt, fs_set fs p (Some (render s, t)), l') /\
               sim p (N.max now t) (IFile s (length (render s))) (fs_set fs p (Some (render s, t))) l'.
  Proof.
    intros Hp Hd Hs. unfold Session.store. rewrite Hp, Hd. eexists. split; [reflexivity|].
    apply sim_intro; auto using time_le_set.
    - intros c Hc. discriminate.
    - apply (file_is_intro _ _ _ _ t); auto. now rewrite files_set_same, firstn_all.
  Qed.

  Lemma client_path_nonempty p host fs : p <> [] ->
    new_mtproto fs p host = (client_decide host (fst (load fs (fresh p))), snd (load fs (fresh p))).
  Proof.
    intros Hp. unfold Session.new_mtproto. destruct p; [congruence|].
    destruct (load fs (fresh (n :: p))); reflexivity.
  Qed.

  Lemma sim_step p now st fs l o : p <> [] -> sim p now st fs l -> proper o = true ->
    foreign_ok now o = true ->
    exists fs' l',
      step fs l o = (fs', l', snd (ideal_step st o)) /\
      sim p (next_now now o) (fst (ideal_step st o)) fs' l'.
  Proof.
    intros Hne Hsim Hpr Hfo. pose proof Hsim as (Hp & Hi & Ht & Hd & Hf).
    destruct o as [s t| | |k t|c t|k t|s t|host|host t]; cbn [proper] in Hpr;
      unfold next_now; cbn [op_time].
    - (* Store *)
      destruct (store_ok p now fs l s t Hp Hd Hpr) as (l' & Hst & Hs').
      cbn [Session.step Session.ideal_step fst snd]. rewrite Hst. eauto.
    - (* Load *)
      destruct (sim_load p now st fs l Hsim) as [H1 H2].
      cbn [Session.step Session.ideal_step fst snd].
      destruct (load fs l) as [r l'] eqn:E. cbn [fst snd] in *. subst r. eauto.
    - (* Fresh *)
      cbn [Session.step Session.ideal_step fst snd]. rewrite Hp. eauto using sim_fresh.
    - (* Crash: the process is gone, new loader *)
      cbn [Session.step Session.ideal_step fst snd]. rewrite Hp. do 2 eexists. split; [reflexivity|].
      unfold crash. destruct st as [|s n]; cbn [file_is] in Hf.
      + rewrite Hf. apply sim_intro; auto using inv_fresh. apply (time_le_mono now); [lia|exact Ht].
      + destruct Hf as (Hs & Hn & t0 & Hf). rewrite Hf.
        apply sim_intro; auto using inv_fresh, time_le_set.
        apply (file_is_intro _ _ _ _ t); auto; [lia|]. now rewrite files_set_same, firstn_firstn.
    - discriminate.
    - (* Tear by another writer: this loader lives on *)
      unfold foreign_ok in Hfo. cbn [foreign_op op_time] in Hfo. apply N.ltb_lt in Hfo.
      cbn [Session.step Session.ideal_step fst snd]. rewrite Hp. do 2 eexists. split; [reflexivity|].
      unfold crash. destruct st as [|s n]; cbn [file_is] in Hf.
      + rewrite Hf. apply (sim_mono p now); [lia|exact Hsim].
      + destruct Hf as (Hs & Hn & t0 & Hf). rewrite Hf.
        apply sim_intro; auto using time_le_set.
        { rewrite <- Hp. apply inv_newer_write; auto. intros content t' H. now injection H. }
        apply (file_is_intro _ _ _ _ t); auto; [lia|]. now rewrite files_set_same, firstn_firstn.
    - (* complete store by another loader: this loader lives on *)
      unfold foreign_ok in Hfo. cbn [foreign_op op_time] in Hfo. apply N.ltb_lt in Hfo.
      cbn [Session.step Session.ideal_step fst snd].
      destruct (store_ok p now fs (fresh (l_path l)) s t) as (l' & Hst & Hs'); auto.
      rewrite Hst. do 2 eexists. split; [reflexivity|].
      destruct Hs' as (_ & _ & Ht' & Hd' & Hf').
      apply sim_intro; auto.
      rewrite <- Hp. apply inv_newer_write; auto. intros content t' H. now injection H.
    - (* Client *)
      cbn [Session.step Session.ideal_step fst snd]. rewrite Hp, client_path_nonempty by exact Hne.
      cbn [fst]. destruct (sim_load p now st fs (fresh p) (sim_fresh p now st fs l Hsim)) as [H1 _].
      rewrite H1. eauto.
    - (* ClientSave *)
      cbn [Session.step Session.ideal_step]. rewrite Hp, client_path_nonempty by exact Hne.
      destruct (sim_load p now st fs (fresh p) (sim_fresh p now st fs l Hsim)) as [H1 H2].
      rewrite H1. destruct H2 as (Hp2 & _).
      assert (Hsave : forall s, session_ok s = true ->
        exists fs' l', (let '(sr, fs', _) := store fs (snd (load fs (fresh p))) s t in
                        (fs', fresh p, ObsClientSave (Ok (client_of s)) sr))
                       = (fs', l', ObsClientSave (Ok (client_of s)) (Ok tt))
                       /\ sim p (N.max now t) (IFile s (length (render s))) fs' l').
      { intros s Hs. destruct (store_ok p now fs _ s t Hp2 Hd Hs) as (l' & Hst & Hs').
        rewrite Hst. do 2 eexists. split; [reflexivity|]. eapply sim_fresh; eauto. }
      destruct (ideal_load st) as [s| | |] eqn:Hl; cbn [client_decide fst snd].
      + assert (Hs : session_ok s = true).
        { destruct st as [|s0 n]; cbn [Session.ideal_load] in Hl; [discriminate|].
          destruct Hf as (Hs0 & _). destruct (n <? length (render s0))%nat; [discriminate|].
          now injection Hl as <-. }
        unfold session_of_client, client_of. cbn [c_key c_hash c_salt c_addr]. rewrite session_eta.
        apply Hsave, Hs.
      + set (s := session_of_client (client_new host)).
        assert (Hs : session_ok s = true).
        { unfold s, session_of_client, client_new, session_ok. cbn. exact Hpr. }
        destruct (store_ok p now fs _ s t Hp2 Hd Hs) as (l' & Hst & Hs').
        fold s. rewrite Hst. do 2 eexists. split; [reflexivity|]. eapply sim_fresh; eauto.
      + do 2 eexists. split; [reflexivity|]. apply (sim_mono p now); [lia|]. eapply sim_fresh; eauto.
      + do 2 eexists. split; [reflexivity|]. apply (sim_mono p now); [lia|]. eapply sim_fresh; eauto.
  Qed.

  Theorem run_refines p ops : forall now st fs l, p <> [] -> sim p now st fs l ->
    forallb proper ops = true -> foreign_newer now ops = true -> run fs l ops = ideal_run st ops.
  Proof.
    induction ops as [|o r IH]; intros now st fs l Hne Hsim Hpr Hfn; [reflexivity|].
    cbn [forallb] in Hpr. apply andb_true_iff in Hpr. destruct Hpr as [Ho Hr].
    cbn [foreign_newer] in Hfn. apply andb_true_iff in Hfn. destruct Hfn as [Hfo Hfr].
    destruct (sim_step p now st fs l o Hne Hsim Ho Hfo) as (fs' & l' & Hst & Hs').
    cbn [Session.run Session.ideal_run]. rewrite Hst.
    destruct (ideal_step st o) as [st' ob]. cbn [fst snd] in *. f_equal. now apply (IH (next_now now o)).
  Qed.

  (* start: directory exists, file does not, new loader *)
  Lemma sim_start p now fs : dirs fs (go_dir p) = DDir -> files fs p = None -> sim p now IAbsent fs (fresh p).
  Proof.
    intros Hd Hf. apply sim_intro; auto using inv_fresh. intros content t H. rewrite Hf in H. discriminate.
  Qed.

  Theorem history_refines p fs ops : p <> [] -> dirs fs (go_dir p) = DDir -> files fs p = None ->
    forallb proper ops = true -> foreign_newer 0 ops = true ->
    run fs (fresh p) ops = ideal_run IAbsent ops.
  Proof. intros. apply run_refines with (p := p) (now := 0); auto using sim_start. Qed.

  (* start anywhere: whatever the file holds and whatever the loader has cached, from the
     first Store on the history behaves like the reference store *)
  Theorem history_refines_any_start fs l s t ops :
    l_path l <> [] -> dirs fs (go_dir (l_path l)) = DDir -> session_ok s = true ->
    forallb proper ops = true -> foreign_newer t ops = true ->
    run fs l (OStore s t :: ops) = ideal_run IAbsent (OStore s t :: ops).
  Proof.
    intros Hne Hd Hs Hpr Hfn. cbn [Session.run Session.ideal_run Session.step Session.ideal_step].
    destruct (store_ok (l_path l) 0 fs l s t eq_refl Hd Hs) as (l' & Hst & Hs').
    rewrite Hst. f_equal. rewrite N.max_r in Hs' by lia.
    now apply run_refines with (p := l_path l) (now := t).
  Qed.

  (* histories without foreign writers need no condition on the times *)
  Definition own_op (o : op) : bool := negb (foreign_op o).

  Lemma own_foreign_newer ops : forallb own_op ops = true -> forall now, foreign_newer now ops = true.
  Proof.
    induction ops as [|o r IH]; intros H now; [reflexivity|].
    cbn [forallb] in H. apply andb_true_iff in H. destruct H as [Ho Hr].
    cbn [foreign_newer]. rewrite IH by exact Hr. unfold foreign_ok. unfold own_op in Ho.
    destruct (foreign_op o); [discriminate|reflexivity].
  Qed.

  (* ---------------- last store wins, in plain words ---------------- *)

  Lemma ideal_load_full s : ideal_load (IFile s (length (render s))) = LOk s.
  Proof. unfold Session.ideal_load. now rewrite Nat.ltb_irrefl. Qed.

  Definition last_of (st : istate) : option session :=
    match st with IAbsent => None | IFile s _ => Some s end.

  Definition whole (st : istate) : Prop :=
    match st with IAbsent => True | IFile s n => n = length (render s) end.

  Lemma ideal_simple ops : forall st, whole st -> forallb simple_op ops = true ->
    ideal_run st ops = last_store_run (last_of st) ops.
  Proof.
    induction ops as [|o r IH]; intros st Hw Hs; [reflexivity|].
    cbn [forallb] in Hs. apply andb_true_iff in Hs. destruct Hs as [Ho Hr].
    destruct o as [s t| | |k t|c t|k t|s t|host|host t]; cbn [simple_op] in Ho; try discriminate;
      cbn [Session.ideal_run Session.ideal_step last_store_run].
    - f_equal. now apply (IH (IFile s (length (render s)))).
    - f_equal; [|now apply IH]. f_equal.
      destruct st as [|s n]; [reflexivity|]. cbn [whole] in Hw. subst n.
      now rewrite ideal_load_full.
    - f_equal. now apply IH.
  Qed.

  Lemma simple_proper ops : forallb simple_op ops = true -> forallb proper ops = true.
  Proof.
    induction ops as [|o r IH]; [reflexivity|]. cbn [forallb]. rewrite !andb_true_iff.
    intros [Ho Hr]. split; [|now apply IH]. destruct o; cbn in *; auto; discriminate.
  Qed.

  Lemma simple_own ops : forallb simple_op ops = true -> forallb own_op ops = true.
  Proof.
    induction ops as [|o r IH]; [reflexivity|]. cbn [forallb]. rewrite !andb_true_iff.
    intros [Ho Hr]. split; [|now apply IH]. destruct o; cbn in *; auto; discriminate.
  Qed.

  Theorem last_store_wins p fs ops : p <> [] -> dirs fs (go_dir p) = DDir -> files fs p = None ->
    forallb simple_op ops = true -> run fs (fresh p) ops = last_store_run None ops.
  Proof.
    intros Hne Hd Hf Hs. rewrite history_refines by auto using simple_proper, own_foreign_newer, simple_own.
    now apply (ideal_simple ops IAbsent).
  Qed.

  Theorem last_store_wins_any_start fs l s t ops :
    l_path l <> [] -> dirs fs (go_dir (l_path l)) = DDir -> session_ok s = true ->
    forallb simple_op ops = true ->
    run fs l (OStore s t :: ops) = last_store_run None (OStore s t :: ops).
  Proof.
    intros Hne Hd Hs Hso.
    rewrite history_refines_any_start by auto using simple_proper, own_foreign_newer, simple_own.
    apply (ideal_simple (OStore s t :: ops) IAbsent I). cbn [forallb simple_op]. now rewrite Hs.
  Qed.

  (* ---------------- missing file ---------------- *)

  Theorem missing_is_notfound fs l : files fs (l_path l) = None ->
    dirs fs (go_dir (l_path l)) <> DFile -> load fs l = (LNotFound, l).
  Proof.
    intros Hf Hd. unfold Session.load. rewrite Hf. destruct (dirs fs (go_dir (l_path l))); congruence.
  Qed.

  (* ---------------- torn file ---------------- *)

  (* any loader that can see the tear: nothing cached, or cached at another modification time *)
  Theorem tear_load_error fs l s k t : session_ok s = true -> (k < length (render s))%nat ->
    files fs (l_path l) = Some (firstn k (render s), t) ->
    l_cached l = None \/ t <> l_last l ->
    load fs l = (LErr, l).
  Proof.
    intros Hs Hk Hf Hc. unfold Session.load. rewrite Hf, parse_torn by assumption.
    destruct (l_cached l) as [c|]; [|reflexivity].
    destruct (N.eqb_spec t (l_last l)); [|reflexivity]. destruct Hc; [discriminate|contradiction].
  Qed.

  Theorem torn_is_error fs l s k t : session_ok s = true -> (k < length (render s))%nat ->
    files fs (l_path l) = Some (firstn k (render s), t) -> l_cached l = None ->
    load fs l = (LErr, l).
  Proof. intros. apply (tear_load_error fs l s k t); auto. Qed.

  Lemma run_repeat_load fs l r : load fs l = (r, l) ->
    forall n, run fs l (repeat OLoad n) = repeat (ObsLoad r) n.
  Proof.
    intros H n. induction n as [|n IH]; [reflexivity|].
    cbn [repeat Session.run Session.step]. rewrite H. now rewrite IH.
  Qed.

  (* ... and it stays an error however often that loader asks *)
  Theorem tear_every_load_error fs l s k t n : session_ok s = true -> (k < length (render s))%nat ->
    files fs (l_path l) = Some (firstn k (render s), t) ->
    l_cached l = None \/ t <> l_last l ->
    run fs l (repeat OLoad n) = repeat (ObsLoad LErr) n.
  Proof. intros. apply run_repeat_load. now apply (tear_load_error fs l s k t). Qed.

  (* store then crash at k then restart, starting from any state *)
  Theorem store_crash_load fs l s t k t' : l_path l <> [] -> dirs fs (go_dir (l_path l)) = DDir ->
    session_ok s = true -> (k < length (render s))%nat ->
    run fs l [OStore s t; OCrash k t'; OLoad] = [ObsStore (Ok tt); ObsNone; ObsLoad LErr].
  Proof.
    intros Hne Hd Hs Hk. rewrite history_refines_any_start by auto.
    cbn [Session.ideal_run Session.ideal_step Session.ideal_load].
    rewrite Nat.min_l by lia. destruct (Nat.ltb_spec k (length (render s))); [reflexivity|lia].
  Qed.

  (* helpers for histories with blocks of repeated loads *)
  Lemma ideal_run_loads st n rest :
    ideal_run st (repeat OLoad n ++ rest) = repeat (ObsLoad (ideal_load st)) n ++ ideal_run st rest.
  Proof. induction n as [|n IH]; [reflexivity|]. cbn [repeat app Session.ideal_run Session.ideal_step]. now rewrite IH. Qed.

  Lemma proper_loads n rest : forallb proper (repeat OLoad n ++ rest) = forallb proper rest.
  Proof. induction n as [|n IH]; [reflexivity|]. cbn [repeat app forallb proper]. exact IH. Qed.

  Lemma foreign_newer_loads now n rest : foreign_newer now (repeat OLoad n ++ rest) = foreign_newer now rest.
  Proof. induction n as [|n IH]; [reflexivity|]. cbn [repeat app foreign_newer]. exact IH. Qed.

  (* A long-lived loader has cached a good session; ANOTHER writer leaves a torn file on a later
     tick: every Load of the surviving loader, and after a restart every Load of a new one, is
     an error. From any starting state. *)
  Theorem tear_history fs l s t k t' n m : l_path l <> [] -> dirs fs (go_dir (l_path l)) = DDir ->
    session_ok s = true -> (k < length (render s))%nat -> t < t' ->
    run fs l ([OStore s t; OLoad; OTear k t'] ++ repeat OLoad n ++ OFresh :: repeat OLoad m)
    = [ObsStore (Ok tt); ObsLoad (LOk s); ObsNone] ++ repeat (ObsLoad LErr) n ++ ObsNone :: repeat (ObsLoad LErr) m.
  Proof.
    intros Hne Hd Hs Hk Hlt. cbn [app].
    rewrite history_refines_any_start; auto.
    - cbn [Session.ideal_run Session.ideal_step]. rewrite ideal_load_full.
      rewrite ideal_run_loads. cbn [Session.ideal_run Session.ideal_step].
      replace (repeat OLoad m) with (repeat OLoad m ++ []) by apply app_nil_r.
      rewrite ideal_run_loads. cbn [Session.ideal_run]. rewrite app_nil_r.
      assert (He : ideal_load (IFile s (Nat.min k (length (render s)))) = LErr).
      { unfold Session.ideal_load. rewrite Nat.min_l by lia.
        destruct (Nat.ltb_spec k (length (render s))); [reflexivity|lia]. }
      now rewrite He.
    - cbn [forallb proper]. rewrite proper_loads. cbn [forallb proper].
      replace (repeat OLoad m) with (repeat OLoad m ++ []) by apply app_nil_r.
      now rewrite proper_loads.
    - cbn [foreign_newer]. unfold foreign_ok, next_now. cbn [foreign_op op_time andb].
      rewrite foreign_newer_loads. cbn [foreign_newer]. unfold foreign_ok, next_now. cbn [foreign_op op_time andb].
      replace (repeat OLoad m) with (repeat OLoad m ++ []) by apply app_nil_r.
      rewrite foreign_newer_loads. cbn [foreign_newer]. rewrite andb_true_r. apply N.ltb_lt. exact Hlt.
  Qed.

  (* Another loader stores a complete session on a later tick: the surviving loader returns it. *)
  Theorem foreign_newer_wins fs l a b t t' n : l_path l <> [] -> dirs fs (go_dir (l_path l)) = DDir ->
    session_ok a = true -> session_ok b = true -> t < t' ->
    run fs l ([OStore a t; OLoad; OForeign b t'] ++ repeat OLoad n)
    = [ObsStore (Ok tt); ObsLoad (LOk a); ObsNone] ++ repeat (ObsLoad (LOk b)) n.
  Proof.
    intros Hne Hd Ha Hb Hlt. cbn [app].
    rewrite history_refines_any_start; auto.
    - cbn [Session.ideal_run Session.ideal_step]. rewrite ideal_load_full.
      replace (repeat OLoad n) with (repeat OLoad n ++ []) by apply app_nil_r.
      rewrite ideal_run_loads. cbn [Session.ideal_run]. now rewrite app_nil_r, ideal_load_full.
    - cbn [forallb proper]. rewrite Hb. cbn [andb].
      replace (repeat OLoad n) with (repeat OLoad n ++ []) by apply app_nil_r. now rewrite proper_loads.
    - cbn [foreign_newer]. unfold foreign_ok, next_now. cbn [foreign_op op_time andb].
      replace (repeat OLoad n) with (repeat OLoad n ++ []) by apply app_nil_r.
      rewrite foreign_newer_loads. cbn [foreign_newer]. rewrite andb_true_r. apply N.ltb_lt. exact Hlt.
  Qed.

  (* What the modification-time keyed cache cannot see (exact behaviour of the code): a change by
     ANOTHER writer that lands on the very tick the surviving loader cached at. The surviving loader
     keeps answering with the session it read before - the last one it stored and read back itself -
     until the file's time changes or the loader stores; a new loader sees the file as it is. *)
  Theorem foreign_equal_tick_unseen fs l a b t k : l_path l <> [] -> dirs fs (go_dir (l_path l)) = DDir ->
    session_ok a = true -> session_ok b = true -> (k < length (render a))%nat ->
    run fs l [OStore a t; OLoad; OForeign b t; OLoad; OFresh; OLoad]
    = [ObsStore (Ok tt); ObsLoad (LOk a); ObsNone; ObsLoad (LOk a); ObsNone; ObsLoad (LOk b)]
    /\ run fs l [OStore a t; OLoad; OTear k t; OLoad; OFresh; OLoad]
    = [ObsStore (Ok tt); ObsLoad (LOk a); ObsNone; ObsLoad (LOk a); ObsNone; ObsLoad LErr].
  Proof.
    intros Hne Hd Ha Hb Hk.
    set (p := l_path l) in *.
    set (fs1 := fs_set fs p (Some (render a, t))).
    set (l1 := mkLoader p (l_last l) None).
    set (l2 := mkLoader p t (Some a)).
    assert (Hst : store fs l a t = (Ok tt, fs1, l1)).
    { unfold Session.store. fold p; try fold p. now rewrite Hd. }
    assert (Hl1 : load fs1 l1 = (LOk a, l2)).
    { apply (load_eq_miss fs1 l1 (render a) t a); [apply files_set_same|reflexivity|now apply parse_render]. }
    split.
    - set (fs3 := fs_set fs1 p (Some (render b, t))).
      assert (Hfo : store fs1 (fresh p) b t = (Ok tt, fs3, mkLoader p 0 None)).
      { unfold Session.store. cbn [l_path fresh l_last]. unfold fs1 at 1. rewrite dirs_set. now rewrite Hd. }
      assert (Hl2 : load fs3 l2 = (LOk a, l2)).
      { apply (load_eq_hit fs3 l2 (render b) t a); [apply files_set_same|reflexivity|reflexivity]. }
      assert (Hl3 : load fs3 (fresh p) = (LOk b, mkLoader p t (Some b))).
      { apply (load_eq_miss fs3 (fresh p) (render b) t b); [apply files_set_same|reflexivity|now apply parse_render]. }
      cbn [Session.run Session.step]. rewrite Hst. cbn [Session.run Session.step]. fold p.
      rewrite Hl1. cbn [l_path l2]. rewrite Hfo, Hl2. cbn [l_path l2]. now rewrite Hl3.
    - set (fs3 := fs_set fs1 p (Some (firstn k (render a), t))).
      assert (Hcr : crash fs1 p k t = fs3).
      { unfold crash. unfold fs1 at 1. now rewrite files_set_same. }
      assert (Hl2 : load fs3 l2 = (LOk a, l2)).
      { apply (load_eq_hit fs3 l2 (firstn k (render a)) t a); [apply files_set_same|reflexivity|reflexivity]. }
      assert (Hl3 : load fs3 (fresh p) = (LErr, fresh p)).
      { apply (tear_load_error fs3 (fresh p) a k t); auto. apply files_set_same. }
      cbn [Session.run Session.step]. rewrite Hst. cbn [Session.run Session.step]. fold p.
      rewrite Hl1. cbn [l_path l2]. rewrite Hcr, Hl2. cbn [l_path l2]. now rewrite Hl3.
  Qed.

  (* ---------------- restart decision of NewMTProto ---------------- *)

  Theorem resume_decision p host fs st : p <> [] -> dirs fs (go_dir p) = DDir -> file_is fs p st ->
    fst (new_mtproto fs p host) = client_decide host (ideal_load st).
  Proof.
    intros Hne Hd Hf. rewrite client_path_nonempty by exact Hne. cbn [fst].
    unfold Session.load. cbn [l_path fresh l_cached].
    pose proof (load_direct_ideal p st fs Hd Hf) as H. unfold load_direct in H.
    destruct (files fs p) as [[content mt]|]; [|now rewrite <- H].
    rewrite <- H. destruct (parse content); reflexivity.
  Qed.

  Theorem resume_after_store fs l s t host : l_path l <> [] -> dirs fs (go_dir (l_path l)) = DDir ->
    session_ok s = true ->
    run fs l [OStore s t; OClient host] = [ObsStore (Ok tt); ObsClient (Ok (client_of s))].
  Proof.
    intros Hne Hd Hs. rewrite history_refines_any_start by auto.
    cbn [Session.ideal_run Session.ideal_step]. now rewrite ideal_load_full.
  Qed.
End Store.

(* ------------------------------------------------------------------------------------ *)
(* The hypotheses are satisfiable: the executable base64 together with a toy "JSON"
   (four lengths, then the four strings; list elements are unbounded N in the model). *)

Definition toy_marshal (t : tsf) : bytes :=
  N.of_nat (length (t_key t)) :: N.of_nat (length (t_hash t)) :: N.of_nat (length (t_salt t))
  :: N.of_nat (length (t_host t)) :: t_key t ++ t_hash t ++ t_salt t ++ t_host t.

Definition toy_unmarshal (c : bytes) : outcome tsf :=
  match c with
  | a :: b :: d :: e :: r =>
    let a := N.to_nat a in let b := N.to_nat b in let d := N.to_nat d in let e := N.to_nat e in
    if (length r =? a + b + d + e)%nat then
      Ok (mkTsf (firstn a r) (firstn b (skipn a r)) (firstn d (skipn b (skipn a r)))
                (skipn d (skipn b (skipn a r))))
    else Err
  | _ => Err
  end.

Lemma firstn_app_exact {A} (l r : list A) : firstn (length l) (l ++ r) = l.
Proof. rewrite firstn_app, Nat.sub_diag, firstn_all. cbn. apply app_nil_r. Qed.

Lemma skipn_app_exact {A} (l r : list A) : skipn (length l) (l ++ r) = r.
Proof. rewrite skipn_app, Nat.sub_diag, skipn_all. reflexivity. Qed.

Lemma toy_rt t : toy_unmarshal (toy_marshal t) = Ok t.
Proof.
  destruct t as [k h s o]. unfold toy_marshal, toy_unmarshal. cbn [t_key t_hash t_salt t_host].
  rewrite !Nat2N.id.
  destruct (Nat.eqb_spec (length (k ++ h ++ s ++ o)) (length k + length h + length s + length o)) as [_|Hn];
    [|rewrite !app_length in Hn; lia].
  rewrite firstn_app_exact, skipn_app_exact, firstn_app_exact, skipn_app_exact,
    firstn_app_exact, skipn_app_exact. reflexivity.
Qed.

Lemma toy_prefix t k : (k < length (toy_marshal t))%nat -> toy_unmarshal (firstn k (toy_marshal t)) = Err.
Proof.
  destruct t as [ke h s o]. unfold toy_marshal. cbn [t_key t_hash t_salt t_host length].
  intros Hk. destruct k as [|[|[|[|k]]]]; try reflexivity.
  cbn [firstn]. unfold toy_unmarshal. rewrite !Nat2N.id.
  rewrite firstn_length. rewrite !app_length in *.
  destruct (Nat.eqb_spec (Nat.min k (length ke + (length h + (length s + length o))))
                         (length ke + length h + length s + length o)); [lia|reflexivity].
Qed.

(* ------------------------------------------------------------------------------------ *)
(* the assumptions about encoding/base64 and encoding/json, as one record of statements   *)

Definition base64_ok (b64enc : bytes -> bytes) (b64dec : bytes -> outcome bytes) : Prop :=
  (forall b, bytes_ok b = true -> b64dec (b64enc b) = Ok b) /\
  (forall b, utf8_valid (b64enc b) = true).

Definition json_ok (marshal : tsf -> bytes) (unmarshal : bytes -> outcome tsf) : Prop :=
  (forall t, tsf_valid t = true -> unmarshal (marshal t) = Ok t) /\
  (forall t k, tsf_valid t = true -> (k < length (marshal t))%nat ->
               unmarshal (firstn k (marshal t)) = Err).

Lemma base64_model_ok : base64_ok b64_encode b64_decode.
Proof. split; [exact b64_roundtrip|exact b64_encode_utf8]. Qed.

Lemma toy_json_ok : json_ok toy_marshal toy_unmarshal.
Proof. split; [intros t _; apply toy_rt|intros t k _; apply toy_prefix]. Qed.
