(* Proofs about the session-store model (Misc/Session.v, Misc/SessionBase64.v). *)
From Coq Require Import ZArith NArith List Lia ZifyN ZifyNat ZifyBool Bool.
From MTV Require Import Base.Bytes Base.Outcome Misc.Session Misc.SessionBase64.
Import ListNotations.
Open Scope N_scope.
Ltac Zify.zify_post_hook ::= Z.div_mod_to_equations.

(* ------------------------------------------------------------------------------------ *)
(* salt: int64 <-> 8 little-endian bytes                                                  *)

Lemma of_le_le32_app n r : n < 4294967296 -> of_le (le32 n ++ r) = n + 4294967296 * of_le r.
Proof. intros H. unfold le32. cbn [app of_le]. lia. Qed.

Lemma of_le_le64 n : n < 18446744073709551616 -> of_le (le64 n) = n.
Proof.
  intros H. unfold le64. rewrite of_le_le32_app by lia.
  replace (le32 (n / 4294967296)) with (le32 (n / 4294967296) ++ []) by apply app_nil_r.
  rewrite of_le_le32_app by lia. cbn [of_le]. lia.
Qed.

Lemma le64_length n : length (le64 n) = 8%nat.
Proof. reflexivity. Qed.

Lemma le64_bytes_ok n : bytes_ok (le64 n) = true.
Proof.
  unfold le64, bytes_ok. rewrite forallb_app.
  fold (bytes_ok (le32 (n mod 4294967296))). fold (bytes_ok (le32 (n / 4294967296))).
  now rewrite !le32_bytes_ok.
Qed.

Lemma u64_of_i64_lt z : u64_of_i64 z < 18446744073709551616.
Proof. unfold u64_of_i64, two64. lia. Qed.

Lemma i64_u64_roundtrip z : int64_ok z = true -> i64_of_u64 (u64_of_i64 z) = z.
Proof.
  unfold int64_ok, i64_of_u64, u64_of_i64, two63, two64, two64N. intros H.
  apply andb_true_iff in H. destruct H as [H1 H2].
  apply Z.leb_le in H1. apply Z.ltb_lt in H2.
  set (m := Z.to_N (z mod 18446744073709551616)).
  assert (Hm : Z.of_N m = (z mod 18446744073709551616)%Z) by (unfold m; lia).
  assert (Hlt : m < 18446744073709551616) by lia.
  rewrite (N.mod_small m) by lia.
  destruct (N.ltb_spec m 9223372036854775808); lia.
Qed.

Lemma u64_i64_roundtrip n : n < 18446744073709551616 ->
  u64_of_i64 (i64_of_u64 n) = n /\ int64_ok (i64_of_u64 n) = true.
Proof.
  unfold int64_ok, i64_of_u64, u64_of_i64, two63, two64, two64N. intros H.
  rewrite (N.mod_small n) by lia.
  destruct (N.ltb_spec n 9223372036854775808); split; lia.
Qed.

Lemma salt_enc_length z : length (salt_enc z) = 8%nat.
Proof. reflexivity. Qed.

Lemma salt_enc_bytes_ok z : bytes_ok (salt_enc z) = true.
Proof. apply le64_bytes_ok. Qed.

Lemma salt_roundtrip z : int64_ok z = true -> salt_dec (salt_enc z) = Ok z.
Proof.
  intros H. unfold salt_dec. rewrite salt_enc_length. cbn [Nat.ltb Nat.leb].
  replace (firstn 8 (salt_enc z)) with (salt_enc z) by reflexivity.
  unfold salt_enc. rewrite of_le_le64 by apply u64_of_i64_lt.
  now rewrite i64_u64_roundtrip.
Qed.

(* every 8-byte little-endian string is the encoding of exactly one int64 *)
Lemma salt_enc_surjective n : n < 18446744073709551616 ->
  exists z, int64_ok z = true /\ salt_enc z = le64 n.
Proof.
  intros H. exists (i64_of_u64 n). destruct (u64_i64_roundtrip n H) as [H1 H2].
  split; [exact H2|]. unfold salt_enc. now rewrite H1.
Qed.

Lemma salt_dec_short buf : (length buf < 8)%nat -> salt_dec buf = Panic.
Proof. intros H. unfold salt_dec. destruct (Nat.ltb_spec (length buf) 8); [reflexivity|lia]. Qed.

Lemma salt_dec_total buf : (8 <= length buf)%nat -> exists z, salt_dec buf = Ok z.
Proof. intros H. unfold salt_dec. destruct (Nat.ltb_spec (length buf) 8); [lia|eauto]. Qed.

(* ------------------------------------------------------------------------------------ *)
(* UTF-8 validity of ASCII strings                                                        *)

Definition ascii (s : bytes) : bool := forallb (fun c => c <? 128) s.

Lemma ascii_utf8_valid s : ascii s = true -> utf8_valid s = true.
Proof.
  induction s as [|a r IH]; [reflexivity|]. unfold ascii. cbn [forallb utf8_valid].
  intros H. apply andb_true_iff in H. destruct H as [Ha Hr]. rewrite Ha. now apply IH.
Qed.

(* ------------------------------------------------------------------------------------ *)
(* base64 model                                                                           *)

Lemma b64_val_char n : n < 64 -> b64_val (b64_char n) = Some n.
Proof.
  intros H. unfold b64_val, b64_char.
  destruct (N.ltb_spec n 26).
  { replace ((65 <=? 65 + n) && (65 + n <=? 90)) with true by lia. f_equal. lia. }
  destruct (N.ltb_spec n 52).
  { replace ((65 <=? 71 + n) && (71 + n <=? 90)) with false by lia.
    replace ((97 <=? 71 + n) && (71 + n <=? 122)) with true by lia. f_equal. lia. }
  destruct (N.ltb_spec n 62).
  { replace ((65 <=? n - 4) && (n - 4 <=? 90)) with false by lia.
    replace ((97 <=? n - 4) && (n - 4 <=? 122)) with false by lia.
    replace ((48 <=? n - 4) && (n - 4 <=? 57)) with true by lia. f_equal. lia. }
  destruct (N.eqb_spec n 62) as [->|Hn]; [reflexivity|].
  assert (n = 63) as -> by lia. reflexivity.
Qed.

Lemma b64_char_not_pad n : (b64_char n =? pad) = false.
Proof.
  unfold b64_char, pad.
  destruct (N.ltb_spec n 26); [lia|]. destruct (N.ltb_spec n 52); [lia|].
  destruct (N.ltb_spec n 62); [lia|]. destruct (N.eqb_spec n 62); reflexivity.
Qed.

Lemma b64_char_ascii n : (b64_char n <? 128) = true.
Proof.
  unfold b64_char.
  destruct (N.ltb_spec n 26); [lia|]. destruct (N.ltb_spec n 52); [lia|].
  destruct (N.ltb_spec n 62); [lia|]. destruct (N.eqb_spec n 62); reflexivity.
Qed.

Lemma list_ind3 {A} (P : list A -> Prop) :
  P [] -> (forall a, P [a]) -> (forall a b, P [a; b]) ->
  (forall a b c r, P r -> P (a :: b :: c :: r)) -> forall l, P l.
Proof.
  intros H0 H1 H2 H3. fix IH 1. intros [|a [|b [|c r]]]; [exact H0|apply H1|apply H2|apply H3, IH].
Qed.

Lemma b64_encode_ascii l : ascii (b64_encode l) = true.
Proof.
  unfold ascii. induction l as [|a|a b|a b c r IH] using list_ind3; cbn [b64_encode forallb];
    rewrite ?b64_char_ascii; try reflexivity. exact IH.
Qed.

Lemma b64_encode_utf8 l : utf8_valid (b64_encode l) = true.
Proof. apply ascii_utf8_valid, b64_encode_ascii. Qed.

Lemma b64_roundtrip l : bytes_ok l = true -> b64_decode (b64_encode l) = Ok l.
Proof.
  unfold bytes_ok, byte_ok.
  induction l as [|a|a b|a b c r IH] using list_ind3; cbn [forallb]; intros H.
  - reflexivity.
  - cbn [b64_encode b64_decode].
    rewrite !b64_val_char by lia. rewrite !N.eqb_refl. cbn [andb]. f_equal. f_equal. lia.
  - cbn [b64_encode b64_decode].
    rewrite !b64_val_char by lia. rewrite b64_char_not_pad, N.eqb_refl.
    f_equal. f_equal; [lia|]. f_equal. lia.
  - rewrite !andb_true_iff in H. destruct H as (Ha & Hb & Hc & Hr).
    cbn [b64_encode]. cbn [b64_decode].
    rewrite !b64_val_char by lia. rewrite !b64_char_not_pad.
    rewrite IH by exact Hr. f_equal. f_equal; [lia|]. f_equal; [lia|]. f_equal. lia.
Qed.

(* ------------------------------------------------------------------------------------ *)
(* paths                                                                                  *)

Lemma drop_to_slash_none l : ~ In slash l -> drop_to_slash l = [].
Proof.
  induction l as [|x r IH]; cbn [drop_to_slash In]; intros H; [reflexivity|].
  destruct (N.eqb_spec x slash); [intuition|]. apply IH. intuition.
Qed.

(* a bare file name lives in "." *)
Lemma go_dir_bare p : ~ In slash p -> go_dir p = s_dot.
Proof.
  intros H. unfold go_dir, dir_part. rewrite drop_to_slash_none; [reflexivity|].
  intros Hi. apply H. now apply in_rev.
Qed.

(* ------------------------------------------------------------------------------------ *)
(* file-system facts                                                                      *)

Lemma files_set_same fs p v : files (fs_set fs p v) p = v.
Proof. unfold fs_set. cbn [files]. now rewrite beq_refl. Qed.

Lemma dirs_set fs p v d : dirs (fs_set fs p v) d = dirs fs d.
Proof. reflexivity. Qed.

Lemma session_eta s : mkSession (s_key s) (s_hash s) (s_salt s) (s_host s) = s.
Proof. now destruct s. Qed.

(* ------------------------------------------------------------------------------------ *)
Section Store.
  Variable b64enc : bytes -> bytes.
  Variable b64dec : bytes -> outcome bytes.
  Variable marshal : tsf -> bytes.
  Variable unmarshal : bytes -> outcome tsf.

  (* what is assumed about encoding/base64 and encoding/json *)
  Hypothesis b64_rt : forall b, bytes_ok b = true -> b64dec (b64enc b) = Ok b.
  Hypothesis b64_utf8 : forall b, utf8_valid (b64enc b) = true.
  Hypothesis json_rt : forall t, tsf_valid t = true -> unmarshal (marshal t) = Ok t.
  Hypothesis json_prefix : forall t k, tsf_valid t = true ->
    (k < length (marshal t))%nat -> unmarshal (firstn k (marshal t)) = Err.

  Notation write_session := (write_session b64enc).
  Notation read_session := (read_session b64dec).
  Notation render := (render b64enc marshal).
  Notation parse := (parse b64dec unmarshal).
  Notation load := (load b64dec unmarshal).
  Notation store := (store b64enc marshal).
  Notation step := (step b64enc b64dec marshal unmarshal).
  Notation run := (run b64enc b64dec marshal unmarshal).
  Notation new_mtproto := (new_mtproto b64dec unmarshal).
  Notation ideal_load := (ideal_load b64enc marshal).
  Notation ideal_step := (ideal_step b64enc marshal).
  Notation ideal_run := (ideal_run b64enc marshal).

  Lemma session_ok_parts s : session_ok s = true ->
    bytes_ok (s_key s) = true /\ bytes_ok (s_hash s) = true /\
    int64_ok (s_salt s) = true /\ utf8_valid (s_host s) = true.
  Proof. unfold session_ok. rewrite !andb_true_iff. tauto. Qed.

  Lemma write_session_valid s : session_ok s = true -> tsf_valid (write_session s) = true.
  Proof.
    intros H. apply session_ok_parts in H. destruct H as (_ & _ & _ & Hh).
    unfold tsf_valid, Session.write_session. cbn [t_key t_hash t_salt t_host].
    now rewrite !b64_utf8, Hh.
  Qed.

  Lemma read_write_session s : session_ok s = true -> read_session (write_session s) = Ok s.
  Proof.
    intros H. apply session_ok_parts in H. destruct H as (Hk & Hh & Hs & _).
    unfold Session.read_session, Session.write_session. cbn [t_key t_hash t_salt t_host].
    rewrite !b64_rt by (auto using salt_enc_bytes_ok). cbn [obind].
    rewrite salt_roundtrip by exact Hs. cbn [obind]. now rewrite session_eta.
  Qed.

  Lemma parse_render s : session_ok s = true -> parse (render s) = Ok s.
  Proof.
    intros H. unfold Session.parse, Session.render.
    rewrite json_rt by now apply write_session_valid. cbn [obind]. now apply read_write_session.
  Qed.

  Lemma parse_torn s k : session_ok s = true -> (k < length (render s))%nat ->
    parse (firstn k (render s)) = Err.
  Proof.
    intros H Hk. unfold Session.parse, Session.render in *.
    rewrite json_prefix by (auto using write_session_valid). reflexivity.
  Qed.

  Lemma parse_file s n : session_ok s = true -> (n <= length (render s))%nat ->
    parse (firstn n (render s)) = if (n <? length (render s))%nat then Err else Ok s.
  Proof.
    intros H Hn. destruct (Nat.ltb_spec n (length (render s))).
    - now apply parse_torn.
    - replace n with (length (render s)) by lia. rewrite firstn_all. now apply parse_render.
  Qed.

  (* ---------------- the cache is transparent ---------------- *)

  (* loader invariant: a cached session is what the file on disk parses to *)
  Definition inv (fs : fsys) (l : loader) : Prop :=
    forall c, l_cached l = Some c ->
      exists content t, files fs (l_path l) = Some (content, t) /\ parse content = Ok c.

  Definition res_of_parse (r : outcome session) : load_res :=
    match r with Ok s => LOk s | Err => LErr | Panic => LPanic end.

  (* Load without a cache *)
  Definition load_direct (fs : fsys) (p : bytes) : load_res :=
    match files fs p with
    | None => match dirs fs (go_dir p) with DFile => LErr | _ => LNotFound end
    | Some (content, _) => res_of_parse (parse content)
    end.

  Lemma load_path fs l : l_path (snd (load fs l)) = l_path l.
  Proof.
    unfold Session.load. destruct (files fs (l_path l)) as [[content mt]|]; [|reflexivity].
    destruct (l_cached l) as [c|].
    - destruct (mt =? l_last l); [reflexivity|]. destruct (parse content); reflexivity.
    - destruct (parse content); reflexivity.
  Qed.

  Lemma load_transparent fs l : inv fs l ->
    fst (load fs l) = load_direct fs (l_path l) /\ inv fs (snd (load fs l)).
  Proof.
    intros Hinv. unfold Session.load, load_direct.
    destruct (files fs (l_path l)) as [[content mt]|] eqn:Hf; [|split; [reflexivity|exact Hinv]].
    assert (Hnew : forall s, parse content = Ok s -> inv fs (mkLoader (l_path l) mt (Some s))).
    { intros s Hs c Hc. cbn [l_cached l_path] in *. injection Hc as <-. eauto. }
    destruct (l_cached l) as [c|] eqn:Hc.
    - destruct (Hinv c Hc) as (content' & t' & Hf' & Hp). rewrite Hf in Hf'. injection Hf' as <- <-.
      destruct (mt =? l_last l).
      + cbn [fst snd]. rewrite Hp. split; [reflexivity|exact Hinv].
      + rewrite Hp. cbn [fst snd res_of_parse]. split; [reflexivity|now apply Hnew].
    - destruct (parse content) as [s| |] eqn:Hp; cbn [fst snd res_of_parse]; split; auto.
  Qed.

  Lemma inv_fresh fs p : inv fs (fresh p).
  Proof. intros c Hc. discriminate. Qed.

  (* ---------------- simulation with the reference store ---------------- *)

  Definition file_is (fs : fsys) (p : bytes) (st : istate) : Prop :=
    match st with
    | IAbsent => files fs p = None
    | IFile s n => session_ok s = true /\ (n <= length (render s))%nat /\
                   exists t, files fs p = Some (firstn n (render s), t)
    end.

  Definition sim (p : bytes) (st : istate) (fs : fsys) (l : loader) : Prop :=
    l_path l = p /\ inv fs l /\ dirs fs (go_dir p) = DDir /\ file_is fs p st.

  Lemma load_direct_ideal p st fs : dirs fs (go_dir p) = DDir -> file_is fs p st ->
    load_direct fs p = ideal_load st.
  Proof.
    intros Hd Hf. unfold load_direct, Session.ideal_load. destruct st as [|s n]; cbn [file_is] in Hf.
    - now rewrite Hf, Hd.
    - destruct Hf as (Hs & Hn & t & Hf). rewrite Hf, parse_file by assumption.
      destruct (n <? length (render s))%nat; reflexivity.
  Qed.

  Lemma sim_load p st fs l : sim p st fs l ->
    fst (load fs l) = ideal_load st /\ sim p st fs (snd (load fs l)).
  Proof.
    intros (Hp & Hi & Hd & Hf). destruct (load_transparent fs l Hi) as [H1 H2].
    split.
    - rewrite H1, Hp. now apply load_direct_ideal.
    - repeat split; auto. now rewrite load_path.
  Qed.

  Lemma sim_fresh p st fs l : sim p st fs l -> sim p st fs (fresh p).
  Proof. intros (Hp & Hi & Hd & Hf). repeat split; auto using inv_fresh. Qed.

  Lemma store_ok p fs l s t : l_path l = p -> dirs fs (go_dir p) = DDir -> session_ok s = true ->
    exists l', store fs l s t = (Ok tt, fs_set fs p (Some (render s, t)), l') /\
               sim p (IFile s (length (render s))) (fs_set fs p (Some (render s, t))) l'.
  Proof.
    intros Hp Hd Hs. unfold Session.store. rewrite Hp, Hd. eexists. split; [reflexivity|].
    repeat split; auto.
    - intros c Hc. discriminate.
    - exists t. now rewrite files_set_same, firstn_all.
  Qed.

  Lemma client_path_nonempty p host fs : p <> [] ->
    new_mtproto fs p host = (client_decide host (fst (load fs (fresh p))), snd (load fs (fresh p))).
  Proof.
    intros Hp. unfold Session.new_mtproto. destruct p; [congruence|].
    destruct (load fs (fresh (n :: p))); reflexivity.
  Qed.

  Lemma sim_step p st fs l o : p <> [] -> sim p st fs l -> proper o = true ->
    exists fs' l',
      step fs l o = (fs', l', snd (ideal_step st o)) /\ sim p (fst (ideal_step st o)) fs' l'.
  Proof.
    intros Hne Hsim Hpr. pose proof Hsim as (Hp & Hi & Hd & Hf).
    destruct o as [s t| | |k t|c t|host|host t]; cbn [proper] in Hpr.
    - (* Store *)
      destruct (store_ok p fs l s t Hp Hd Hpr) as (l' & Hst & Hs').
      cbn [Session.step Session.ideal_step fst snd]. rewrite Hst. eauto.
    - (* Load *)
      destruct (sim_load p st fs l Hsim) as [H1 H2].
      cbn [Session.step Session.ideal_step fst snd].
      destruct (load fs l) as [r l'] eqn:E. cbn [fst snd] in *. subst r. eauto.
    - (* Fresh *)
      cbn [Session.step Session.ideal_step fst snd]. rewrite Hp. eauto using sim_fresh.
    - (* Crash *)
      cbn [Session.step Session.ideal_step fst snd]. rewrite Hp. do 2 eexists. split; [reflexivity|].
      unfold crash. destruct st as [|s n]; cbn [file_is] in Hf.
      + rewrite Hf. repeat split; auto using inv_fresh.
      + destruct Hf as (Hs & Hn & t0 & Hf). rewrite Hf.
        repeat split; auto using inv_fresh; [lia|].
        exists t. now rewrite files_set_same, firstn_firstn.
    - discriminate.
    - (* Client *)
      cbn [Session.step Session.ideal_step fst snd]. rewrite Hp, client_path_nonempty by exact Hne.
      cbn [fst]. destruct (sim_load p st fs (fresh p) (sim_fresh p st fs l Hsim)) as [H1 _].
      rewrite H1. eauto.
    - (* ClientSave *)
      cbn [Session.step Session.ideal_step]. rewrite Hp, client_path_nonempty by exact Hne.
      destruct (sim_load p st fs (fresh p) (sim_fresh p st fs l Hsim)) as [H1 H2].
      rewrite H1. destruct H2 as (Hp2 & _).
      assert (Hsave : forall s, session_ok s = true ->
        exists fs' l', (let '(sr, fs', _) := store fs (snd (load fs (fresh p))) s t in
                        (fs', fresh p, ObsClientSave (Ok (client_of s)) sr))
                       = (fs', l', ObsClientSave (Ok (client_of s)) (Ok tt))
                       /\ sim p (IFile s (length (render s))) fs' l').
      { intros s Hs. destruct (store_ok p fs _ s t Hp2 Hd Hs) as (l' & Hst & Hs').
        rewrite Hst. do 2 eexists. split; [reflexivity|]. eapply sim_fresh; eauto. }
      destruct (ideal_load st) as [s| | |] eqn:Hl; cbn [client_decide fst snd].
      + assert (Hs : session_ok s = true).
        { destruct st as [|s0 n]; cbn [Session.ideal_load] in Hl; [discriminate|].
          destruct Hf as (Hs0 & _). destruct (n <? length (render s0))%nat; [discriminate|].
          now injection Hl as <-. }
        unfold session_of_client, client_of. cbn [c_key c_hash c_salt c_addr]. rewrite session_eta.
        apply Hsave, Hs.
      + set (s := session_of_client (client_new host)).
        assert (Hs : session_ok s = true).
        { unfold s, session_of_client, client_new, session_ok. cbn. exact Hpr. }
        destruct (store_ok p fs _ s t Hp2 Hd Hs) as (l' & Hst & Hs').
        fold s. rewrite Hst. do 2 eexists. split; [reflexivity|]. eapply sim_fresh; eauto.
      + do 2 eexists. split; [reflexivity|]. eapply sim_fresh; eauto.
      + do 2 eexists. split; [reflexivity|]. eapply sim_fresh; eauto.
  Qed.

  Theorem run_refines p ops : forall st fs l, p <> [] -> sim p st fs l ->
    forallb proper ops = true -> run fs l ops = ideal_run st ops.
  Proof.
    induction ops as [|o r IH]; intros st fs l Hne Hsim Hpr; [reflexivity|].
    cbn [forallb] in Hpr. apply andb_true_iff in Hpr. destruct Hpr as [Ho Hr].
    destruct (sim_step p st fs l o Hne Hsim Ho) as (fs' & l' & Hst & Hs').
    cbn [Session.run Session.ideal_run]. rewrite Hst.
    destruct (ideal_step st o) as [st' ob]. cbn [fst snd] in *. f_equal. now apply IH.
  Qed.

  (* start: directory exists, file does not, new loader *)
  Lemma sim_start p fs : dirs fs (go_dir p) = DDir -> files fs p = None -> sim p IAbsent fs (fresh p).
  Proof. intros Hd Hf. repeat split; auto using inv_fresh. Qed.

  Theorem history_refines p fs ops : p <> [] -> dirs fs (go_dir p) = DDir -> files fs p = None ->
    forallb proper ops = true -> run fs (fresh p) ops = ideal_run IAbsent ops.
  Proof. intros. apply run_refines with (p := p); auto using sim_start. Qed.

  (* start anywhere: whatever the file holds and whatever the loader has cached, from the
     first Store on the history behaves like the reference store *)
  Theorem history_refines_any_start fs l s t ops :
    l_path l <> [] -> dirs fs (go_dir (l_path l)) = DDir -> session_ok s = true ->
    forallb proper ops = true ->
    run fs l (OStore s t :: ops) = ideal_run IAbsent (OStore s t :: ops).
  Proof.
    intros Hne Hd Hs Hpr. cbn [Session.run Session.ideal_run Session.step Session.ideal_step].
    destruct (store_ok (l_path l) fs l s t eq_refl Hd Hs) as (l' & Hst & Hs').
    rewrite Hst. f_equal. now apply run_refines with (p := l_path l).
  Qed.

  (* ---------------- last store wins, in plain words ---------------- *)

  Lemma ideal_load_full s : ideal_load (IFile s (length (render s))) = LOk s.
  Proof. unfold Session.ideal_load. now rewrite Nat.ltb_irrefl. Qed.

  Definition last_of (st : istate) : option session :=
    match st with IAbsent => None | IFile s _ => Some s end.

  Definition whole (st : istate) : Prop :=
    match st with IAbsent => True | IFile s n => n = length (render s) end.

  Lemma ideal_simple ops : forall st, whole st -> forallb simple_op ops = true ->
    ideal_run st ops = last_store_run (last_of st) ops.
  Proof.
    induction ops as [|o r IH]; intros st Hw Hs; [reflexivity|].
    cbn [forallb] in Hs. apply andb_true_iff in Hs. destruct Hs as [Ho Hr].
    destruct o as [s t| | |k t|c t|host|host t]; cbn [simple_op] in Ho; try discriminate;
      cbn [Session.ideal_run Session.ideal_step last_store_run].
    - f_equal. now apply (IH (IFile s (length (render s)))).
    - f_equal; [|now apply IH]. f_equal.
      destruct st as [|s n]; [reflexivity|]. cbn [whole] in Hw. subst n.
      now rewrite ideal_load_full.
    - f_equal. now apply IH.
  Qed.

  Lemma simple_proper ops : forallb simple_op ops = true -> forallb proper ops = true.
  Proof.
    induction ops as [|o r IH]; [reflexivity|]. cbn [forallb]. rewrite !andb_true_iff.
    intros [Ho Hr]. split; [|now apply IH]. destruct o; cbn in *; auto; discriminate.
  Qed.

  Theorem last_store_wins p fs ops : p <> [] -> dirs fs (go_dir p) = DDir -> files fs p = None ->
    forallb simple_op ops = true -> run fs (fresh p) ops = last_store_run None ops.
  Proof.
    intros Hne Hd Hf Hs. rewrite history_refines by auto using simple_proper.
    now apply (ideal_simple ops IAbsent).
  Qed.

  Theorem last_store_wins_any_start fs l s t ops :
    l_path l <> [] -> dirs fs (go_dir (l_path l)) = DDir -> session_ok s = true ->
    forallb simple_op ops = true ->
    run fs l (OStore s t :: ops) = last_store_run None (OStore s t :: ops).
  Proof.
    intros Hne Hd Hs Hso. rewrite history_refines_any_start by auto using simple_proper.
    apply (ideal_simple (OStore s t :: ops) IAbsent I). cbn [forallb simple_op]. now rewrite Hs.
  Qed.

  (* ---------------- missing file ---------------- *)

  Theorem missing_is_notfound fs l : files fs (l_path l) = None ->
    dirs fs (go_dir (l_path l)) <> DFile -> load fs l = (LNotFound, l).
  Proof.
    intros Hf Hd. unfold Session.load. rewrite Hf. destruct (dirs fs (go_dir (l_path l))); congruence.
  Qed.

  (* ---------------- torn file ---------------- *)

  Theorem torn_is_error fs l s k t : session_ok s = true -> (k < length (render s))%nat ->
    files fs (l_path l) = Some (firstn k (render s), t) -> l_cached l = None ->
    load fs l = (LErr, l).
  Proof.
    intros Hs Hk Hf Hc. unfold Session.load. rewrite Hf, Hc, parse_torn by assumption. reflexivity.
  Qed.

  (* whatever the loader has cached (consistently with the disk), a torn file never yields a session *)
  Theorem torn_never_a_session fs l s k t : session_ok s = true -> (k < length (render s))%nat ->
    files fs (l_path l) = Some (firstn k (render s), t) -> inv fs l ->
    fst (load fs l) = LErr.
  Proof.
    intros Hs Hk Hf Hi. destruct (load_transparent fs l Hi) as [H1 _]. rewrite H1.
    unfold load_direct. rewrite Hf, parse_torn by assumption. reflexivity.
  Qed.

  (* store then crash at k then restart, starting from any state *)
  Theorem store_crash_load fs l s t k t' : l_path l <> [] -> dirs fs (go_dir (l_path l)) = DDir ->
    session_ok s = true -> (k < length (render s))%nat ->
    run fs l [OStore s t; OCrash k t'; OLoad] = [ObsStore (Ok tt); ObsNone; ObsLoad LErr].
  Proof.
    intros Hne Hd Hs Hk. rewrite history_refines_any_start by auto.
    cbn [Session.ideal_run Session.ideal_step Session.ideal_load].
    rewrite Nat.min_l by lia. destruct (Nat.ltb_spec k (length (render s))); [reflexivity|lia].
  Qed.

  (* ---------------- restart decision of NewMTProto ---------------- *)

  Theorem resume_decision p host fs st : p <> [] -> dirs fs (go_dir p) = DDir -> file_is fs p st ->
    fst (new_mtproto fs p host) = client_decide host (ideal_load st).
  Proof.
    intros Hne Hd Hf. rewrite client_path_nonempty by exact Hne. cbn [fst].
    assert (Hsim : sim p st fs (fresh p)) by (repeat split; auto using inv_fresh).
    destruct (sim_load p st fs (fresh p) Hsim) as [H1 _]. now rewrite H1.
  Qed.

  Theorem resume_after_store fs l s t host : l_path l <> [] -> dirs fs (go_dir (l_path l)) = DDir ->
    session_ok s = true ->
    run fs l [OStore s t; OClient host] = [ObsStore (Ok tt); ObsClient (Ok (client_of s))].
  Proof.
    intros Hne Hd Hs. rewrite history_refines_any_start by auto.
    cbn [Session.ideal_run Session.ideal_step]. now rewrite ideal_load_full.
  Qed.
End Store.

(* ------------------------------------------------------------------------------------ *)
(* The hypotheses are satisfiable: the executable base64 together with a toy "JSON"
   (four lengths, then the four strings; list elements are unbounded N in the model). *)

Definition toy_marshal (t : tsf) : bytes :=
  N.of_nat (length (t_key t)) :: N.of_nat (length (t_hash t)) :: N.of_nat (length (t_salt t))
  :: N.of_nat (length (t_host t)) :: t_key t ++ t_hash t ++ t_salt t ++ t_host t.

Definition toy_unmarshal (c : bytes) : outcome tsf :=
  match c with
  | a :: b :: d :: e :: r =>
    let a := N.to_nat a in let b := N.to_nat b in let d := N.to_nat d in let e := N.to_nat e in
    if (length r =? a + b + d + e)%nat then
      Ok (mkTsf (firstn a r) (firstn b (skipn a r)) (firstn d (skipn b (skipn a r)))
                (skipn d (skipn b (skipn a r))))
    else Err
  | _ => Err
  end.

Lemma firstn_app_exact {A} (l r : list A) : firstn (length l) (l ++ r) = l.
Proof. rewrite firstn_app, Nat.sub_diag, firstn_all. cbn. apply app_nil_r. Qed.

Lemma skipn_app_exact {A} (l r : list A) : skipn (length l) (l ++ r) = r.
Proof. rewrite skipn_app, Nat.sub_diag, skipn_all. reflexivity. Qed.

Lemma toy_rt t : toy_unmarshal (toy_marshal t) = Ok t.
Proof.
  destruct t as [k h s o]. unfold toy_marshal, toy_unmarshal. cbn [t_key t_hash t_salt t_host].
  rewrite !Nat2N.id.
  destruct (Nat.eqb_spec (length (k ++ h ++ s ++ o)) (length k + length h + length s + length o)) as [_|Hn];
    [|rewrite !app_length in Hn; lia].
  rewrite firstn_app_exact, skipn_app_exact, firstn_app_exact, skipn_app_exact,
    firstn_app_exact, skipn_app_exact. reflexivity.
Qed.

Lemma toy_prefix t k : (k < length (toy_marshal t))%nat -> toy_unmarshal (firstn k (toy_marshal t)) = Err.
Proof.
  destruct t as [ke h s o]. unfold toy_marshal. cbn [t_key t_hash t_salt t_host length].
  intros Hk. destruct k as [|[|[|[|k]]]]; try reflexivity.
  cbn [firstn]. unfold toy_unmarshal. rewrite !Nat2N.id.
  rewrite firstn_length. rewrite !app_length in *.
  destruct (Nat.eqb_spec (Nat.min k (length ke + (length h + (length s + length o))))
                         (length ke + length h + length s + length o)); [lia|reflexivity].
Qed.

(* ------------------------------------------------------------------------------------ *)
(* the assumptions about encoding/base64 and encoding/json, as one record of statements   *)

Definition base64_ok (b64enc : bytes -> bytes) (b64dec : bytes -> outcome bytes) : Prop :=
  (forall b, bytes_ok b = true -> b64dec (b64enc b) = Ok b) /\
  (forall b, utf8_valid (b64enc b) = true).

Definition json_ok (marshal : tsf -> bytes) (unmarshal : bytes -> outcome tsf) : Prop :=
  (forall t, tsf_valid t = true -> unmarshal (marshal t) = Ok t) /\
  (forall t k, tsf_valid t = true -> (k < length (marshal t))%nat ->
               unmarshal (firstn k (marshal t)) = Err).

Lemma base64_model_ok : base64_ok b64_encode b64_decode.
Proof. split; [exact b64_roundtrip|exact b64_encode_utf8]. Qed.

Lemma toy_json_ok : json_ok toy_marshal toy_unmarshal.
Proof. split; [intros t _; apply toy_rt|intros t k _; apply toy_prefix]. Qed.
