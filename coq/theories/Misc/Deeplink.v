(* Model of telegram/deeplinks: Resolve / resolveHttpLink / fixURLHost / matchPath.
   Input is the record url.Parse produced (Scheme, Host, Path); url.Parse itself and
   strings.ToLower are standard-library code and enter as oracle / section variable.
   Map iteration order over the two path templates is the boolean [ord]. *)
From Coq Require Import String.
From Coq Require Import ZArith NArith List Lia Bool.
From MTV Require Import Base.Bytes Base.Outcome Base.Str.
Import ListNotations.
Open Scope N_scope.

Record url := { u_scheme : bytes; u_host : bytes; u_path : bytes }.

Inductive link := Username (s : bytes) | Invite (t : bytes).

Definition slash : N := 47.
Definition s_http := Eval vm_compute in lit "http".
Definition s_https := Eval vm_compute in lit "https".
Definition s_tg := Eval vm_compute in lit "tg".
Definition s_lbrace := Eval vm_compute in lit "{".
Definition s_rbrace := Eval vm_compute in lit "}".
Definition s_slash := Eval vm_compute in lit "/".
Definition tpl_join := Eval vm_compute in lit "/joinchat/{token}".
Definition tpl_user := Eval vm_compute in lit "/{username}".
Definition k_token := Eval vm_compute in lit "token".
Definition k_username := Eval vm_compute in lit "username".

(* the hosts the property text calls Telegram-owned *)
Definition telegram_hosts : list bytes := Eval vm_compute in
  [lit "telegram.me"; lit "telegram.dog"; lit "t.me"; lit "tx.me"; lit "telesco.pe"].

(* utils.go fixURLHost: the slice expressions are kept with their Go bounds checks *)
Definition fix_url_host (u : url) : outcome url :=
  match u_host u with
  | _ :: _ => Ok u
  | [] =>
    if has_prefix s_slash (u_path u) || beq (u_path u) [] then Ok u
    else
      let i := index_byte slash (u_path u) in
      let i := if (i <? 0)%Z then zlen (u_path u) else i in
      do h <- go_slice (u_path u) 0 i;
      do p <- go_slice (u_path u) i (zlen (u_path u));
      Ok {| u_scheme := u_scheme u; u_host := h; u_path := p |}
  end.

(* net/url (go >= 1.13) URL.Hostname = splitHostPort: the part after the LAST colon is dropped when
   it is a valid optional port (":" followed by digits only, possibly none); then one pair of
   square brackets is removed *)
Definition rbrack : N := 93.
Definition lbrack : N := 91.
Definition colon : N := 58.

Fixpoint last_index_from (c : N) (s : bytes) (i : Z) (acc : Z) : Z :=
  match s with
  | [] => acc
  | x :: r => last_index_from c r (i + 1)%Z (if x =? c then i else acc)
  end.
Definition last_index_byte (c : N) (s : bytes) : Z := last_index_from c s 0%Z (-1)%Z.

Definition is_digit_b (c : N) : bool := (48 <=? c) && (c <=? 57).
Definition valid_optional_port (p : bytes) : bool :=
  match p with
  | [] => true
  | c :: r => (c =? colon) && forallb is_digit_b r
  end.

Definition hostname (h : bytes) : bytes :=
  let c := last_index_byte colon h in
  let host := if (0 <=? c)%Z && valid_optional_port (skipn (Z.to_nat c) h)
              then firstn (Z.to_nat c) h else h in
  match host with
  | x :: r => if (x =? lbrack) && (match rev r with y :: _ => y =? rbrack | [] => false end)
              then rev (tl (rev r)) else host
  | [] => host
  end.

(* template.go matchPath *)
Fixpoint match_items (tpl path : list bytes) (acc : list (bytes * bytes)) : option (list (bytes * bytes)) :=
  match tpl, path with
  | [], _ => Some acc
  | t :: tpl', p :: path' =>
      if negb (has_prefix s_lbrace t) || negb (has_suffix s_rbrace t)
      then if beq t p then match_items tpl' path' acc else None
      else match_items tpl' path' ((trim_suffix s_rbrace (trim_prefix s_lbrace t), p) :: acc)
  | _ :: _, [] => None (* unreachable: lengths are compared first *)
  end.

Definition match_path (tpl path : bytes) : option (list (bytes * bytes)) :=
  if negb (contains_byte 123 tpl || contains_byte 125 tpl)
  then if beq tpl path then Some [] else None
  else if negb (has_prefix s_slash tpl) || negb (has_prefix s_slash path) then None
  else let ti := split_on slash tpl in
       let pi := split_on slash path in
       if Nat.eqb (length ti) (length pi) then match_items ti pi [] else None.

(* map lookup: later writes to the same key win *)
Fixpoint lookup (k : bytes) (m : list (bytes * bytes)) : option bytes :=
  match m with
  | [] => None
  | (k', v) :: r => if beq k k' then Some v else lookup k r
  end.

Section Resolve.
  Variable lower : bytes -> bytes.         (* strings.ToLower *)
  Variable hosts : list bytes.             (* ReservedHosts() *)

  Definition conv_join (vars : list (bytes * bytes)) : outcome link :=
    match lookup k_token vars with
    | Some ((_ :: _) as t) => Ok (Invite t)
    | _ => Err
    end.

  Definition conv_user (vars : list (bytes * bytes)) : outcome link :=
    match lookup k_username vars with
    | Some ((_ :: _) as s) => Ok (Username (lower s))
    | _ => Err
    end.

  (* the range over the two-entry map literal, in one of its two possible orders *)
  Definition templates (ord : bool) :=
    if ord then [(tpl_join, conv_join); (tpl_user, conv_user)]
    else [(tpl_user, conv_user); (tpl_join, conv_join)].

  Fixpoint try_templates (ts : list (bytes * (list (bytes * bytes) -> outcome link))) (path : bytes)
    : outcome link :=
    match ts with
    | [] => Err
    | (tpl, f) :: r =>
        match match_path tpl path with
        | Some vars => f vars
        | None => try_templates r path
        end
    end.

  Definition resolve_http (ord : bool) (u : url) : outcome link :=
    do u' <- fix_url_host u;
    if negb (list_contains hosts (hostname (u_host u'))) then Err
    else try_templates (templates ord) (u_path u').

  Definition http_scheme (s : bytes) : bool := beq s [] || beq s s_http || beq s s_https.

  (* Resolve after url.Parse succeeded *)
  Definition resolve (ord : bool) (u : url) : outcome link :=
    if http_scheme (u_scheme u) then resolve_http ord u
    else Err.  (* "tg": not implemented; anything else: invalid scheme *)
End Resolve.

(* The effective host and path after fixURLHost, written declaratively (the spec side). *)
Definition eff (u : url) : bytes * bytes :=
  match u_host u with
  | _ :: _ => (u_host u, u_path u)
  | [] =>
    match u_path u with
    | [] => ([], [])
    | c :: _ =>
      if c =? slash then ([], u_path u)
      else let i := index_byte slash (u_path u) in
           if (i <? 0)%Z then (u_path u, [])
           else (firstn (Z.to_nat i) (u_path u), skipn (Z.to_nat i) (u_path u))
    end
  end.
