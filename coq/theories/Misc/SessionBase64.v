(* Executable base64 (RFC 4648 standard alphabet, '=' padding) standing for
   base64.StdEncoding.EncodeToString / DecodeString in the model runs of C12.
   The decoder is Go's non-strict StdEncoding on input without CR/LF: padding is
   required, unused trailing bits are ignored, anything after padding is an error.
   The round trip is proved in Misc/SessionProofs.v (b64_roundtrip), and every model run
   compares the encodings with the ones Go produced (oracle table lookups). *)
From Coq Require Import ZArith NArith List Lia Bool.
From MTV Require Import Base.Bytes Base.Outcome.
Import ListNotations.
Open Scope N_scope.

Definition b64_char (n : N) : N :=
  if n <? 26 then 65 + n            (* A-Z *)
  else if n <? 52 then 71 + n       (* a-z *)
  else if n <? 62 then n - 4        (* 0-9 *)
  else if n =? 62 then 43           (* + *)
  else 47.                          (* / *)

Definition b64_val (c : N) : option N :=
  if (65 <=? c) && (c <=? 90) then Some (c - 65)
  else if (97 <=? c) && (c <=? 122) then Some (c - 71)
  else if (48 <=? c) && (c <=? 57) then Some (c + 4)
  else if c =? 43 then Some 62
  else if c =? 47 then Some 63
  else None.

Definition pad : N := 61.

Fixpoint b64_encode (l : bytes) : bytes :=
  match l with
  | [] => []
  | [a] => [b64_char (a / 4); b64_char ((a mod 4) * 16); pad; pad]
  | [a; b] => [b64_char (a / 4); b64_char ((a mod 4) * 16 + b / 16); b64_char ((b mod 16) * 4); pad]
  | a :: b :: c :: r =>
    b64_char (a / 4) :: b64_char ((a mod 4) * 16 + b / 16)
    :: b64_char ((b mod 16) * 4 + c / 64) :: b64_char (c mod 64) :: b64_encode r
  end.

Fixpoint b64_decode (l : bytes) : outcome bytes :=
  match l with
  | [] => Ok []
  | a :: b :: c :: d :: r =>
    match b64_val a, b64_val b with
    | Some x, Some y =>
      if c =? pad then
        if (d =? pad) && (match r with [] => true | _ => false end)
        then Ok [x * 4 + y / 16] else Err
      else
        match b64_val c with
        | Some z =>
          if d =? pad then
            match r with
            | [] => Ok [x * 4 + y / 16; (y mod 16) * 16 + z / 4]
            | _ => Err
            end
          else
            match b64_val d with
            | Some w =>
              match b64_decode r with
              | Ok rest => Ok (x * 4 + y / 16 :: (y mod 16) * 16 + z / 4 :: (z mod 4) * 64 + w :: rest)
              | Err => Err
              | Panic => Panic
              end
            | None => Err
            end
        | None => Err
        end
    | _, _ => Err
    end
  | _ => Err
  end.
