(* Misc/DcConfig.v - the DC table a client builds from help.getConfig.

   telegram/common.go NewClient: after the initialisation call has returned the server's config,
       dcList := make(map[int]string)
       for _, dc := range config.DcOptions { if dc.Cdn { continue }
           dcList[int(dc.ID)] = net.JoinHostPort(dc.IpAddress, strconv.Itoa(int(dc.Port))) }
       client.SetDCList(dcList)
   Misc/RpcError.v takes the table as given ([dctable], [dc_lookup]); this file says which table it is:
   [config_table]: a later option for an id replaces an earlier one, CDN options never get in, and the address is
   net.JoinHostPort of the option's host and the decimal of its port - "host:port", and "[host]:port" for a host with
   a colon in it (an IPv6 literal), the only form the dialer takes apart again.
   [config_table_lookup]  what PHONE_MIGRATE_X finds for every id, in terms of the option list;
   [config_migrate]       hence the decision of [process_err] on the table of a config: the address of the LAST
                          non-CDN option for X, or "no such DC";
   [join_host_port_shape] the two forms. *)
From Coq Require Import String.
From Coq Require Import ZArith NArith List Bool Lia.
From MTV Require Import Base.Bytes Base.Outcome Base.Str Misc.RpcError.
Import ListNotations.

Record dcopt := { o_id : Z; o_cdn : bool; o_host : bytes; o_port : Z }.

Definition colon : N := 58.
Definition has_colon (h : bytes) : bool := existsb (N.eqb colon) h.

(* net.JoinHostPort: "We assume that host is a literal IPv6 address if host has colons." *)
Definition join_host_port (h p : bytes) : bytes :=
  if has_colon h then [91%N] ++ h ++ [93%N; 58%N] ++ p else h ++ [58%N] ++ p.

Definition addr_of (o : dcopt) : bytes := join_host_port (o_host o) (dec (o_port o)).

Definition config_step (t : dctable) (o : dcopt) : dctable :=
  if o_cdn o then t else (o_id o, addr_of o) :: t.

(* the list is kept newest first: [dc_lookup] finds the last assignment, as the Go map holds it *)
Definition config_table (opts : list dcopt) : dctable := fold_left config_step opts [].

Definition names (i : Z) (o : dcopt) : bool := negb (o_cdn o) && (o_id o =? i)%Z.

Lemma config_fold_lookup : forall opts t i,
  dc_lookup i (fold_left config_step opts t) =
  match find (names i) (rev opts) with Some o => Some (addr_of o) | None => dc_lookup i t end.
Proof.
  induction opts as [|o r IH]; intros t i; [reflexivity|].
  cbn [fold_left rev]. rewrite IH.
  destruct (find (names i) (rev r)) as [o'|] eqn:F.
  - assert (X : find (names i) (rev r ++ [o]) = Some o').
    { clear IH. induction (rev r) as [|a l IHl]; [discriminate|]. cbn [find app] in *.
      destruct (names i a); [exact F|]. apply IHl. exact F. }
    rewrite X. reflexivity.
  - assert (X : find (names i) (rev r ++ [o]) = if names i o then Some o else None).
    { clear IH. induction (rev r) as [|a l IHl]; [reflexivity|]. cbn [find app] in *.
      destruct (names i a); [discriminate|]. apply IHl. exact F. }
    rewrite X. unfold config_step, names. destruct (o_cdn o); cbn [negb andb]; [reflexivity|].
    cbn [dc_lookup]. rewrite Z.eqb_sym. destruct (o_id o =? i)%Z; reflexivity.
Qed.

Theorem config_table_lookup : forall opts i,
  dc_lookup i (config_table opts) = option_map addr_of (find (names i) (rev opts)).
Proof.
  intros opts i. unfold config_table. rewrite config_fold_lookup.
  destruct (find (names i) (rev opts)); reflexivity.
Qed.

(* nothing but CDN options for an id: the id is not in the table *)
Corollary config_cdn_only : forall opts i,
  (forall o, In o opts -> o_id o = i -> o_cdn o = true) -> dc_lookup i (config_table opts) = None.
Proof.
  intros opts i H. rewrite config_table_lookup.
  destruct (find (names i) (rev opts)) as [o|] eqn:F; [|reflexivity].
  apply find_some in F. destruct F as [I N]. apply in_rev in I. unfold names in N.
  apply andb_prop in N. destruct N as [N1 N2]. apply Z.eqb_eq in N2. rewrite (H o I N2) in N1. discriminate.
Qed.

(* the last option for an id wins, whatever came before it and whatever other ids come after it *)
Corollary config_last_wins : forall before o after i,
  o_cdn o = false -> o_id o = i -> (forall x, In x after -> names i x = false) ->
  dc_lookup i (config_table (before ++ o :: after)) = Some (addr_of o).
Proof.
  intros before o after i C I A. rewrite config_table_lookup.
  rewrite rev_app_distr. cbn [rev]. rewrite <- app_assoc. cbn [app].
  assert (X : forall l rest, (forall x, In x l -> names i x = false) -> find (names i) (l ++ rest) = find (names i) rest).
  { induction l as [|a l IHl]; intros rest H; [reflexivity|]. cbn [app find].
    rewrite (H a (or_introl eq_refl)). apply IHl. intros x Hx. apply H. right. exact Hx. }
  rewrite X.
  - cbn [find]. unfold names. rewrite C, I, Z.eqb_refl. reflexivity.
  - intros x Hx. apply A. apply in_rev. exact Hx.
Qed.

(* what a PHONE_MIGRATE_X does on the table of a config *)
Theorem config_migrate : forall opts x,
  process_err (config_table opts) s_phone_migrate_x (AInt x) =
  match find (names x) (rev opts) with
  | Some o => Ok (Switch (addr_of o))
  | None => Ok NoSuchDC
  end.
Proof.
  intros opts x. unfold process_err.
  assert (B : beq s_phone_migrate_x s_phone_migrate_x = true) by (vm_compute; reflexivity).
  rewrite B. rewrite config_table_lookup. destruct (find (names x) (rev opts)); reflexivity.
Qed.

Theorem join_host_port_shape : forall h p,
  (has_colon h = false -> join_host_port h p = h ++ [58%N] ++ p) /\
  (has_colon h = true -> join_host_port h p = [91%N] ++ h ++ [93%N; 58%N] ++ p).
Proof. intros h p. unfold join_host_port. split; intros ->; reflexivity. Qed.

(* non-vacuity: DC 2 listed twice (the later one wins), a CDN option for 6, an IPv6 option for 14 *)
Example config_example :
  let v4 := lit "149.154.167.51"%string in let v4b := lit "10.0.0.7"%string in let v6 := lit "2001:db8::e"%string in
  let opts := [ {| o_id := 2; o_cdn := false; o_host := v4; o_port := 443 |};
                {| o_id := 6; o_cdn := true; o_host := v4; o_port := 443 |};
                {| o_id := 2; o_cdn := false; o_host := v4b; o_port := 8443 |};
                {| o_id := 14; o_cdn := false; o_host := v6; o_port := 443 |} ] in
  dc_lookup 2 (config_table opts) = Some (lit "10.0.0.7:8443"%string) /\
  dc_lookup 6 (config_table opts) = None /\
  dc_lookup 14 (config_table opts) = Some (lit "[2001:db8::e]:443"%string) /\
  process_err (config_table opts) s_phone_migrate_x (AInt 14) = Ok (Switch (lit "[2001:db8::e]:443"%string)).
Proof. vm_compute. repeat split; reflexivity. Qed.
