(* C19 - proofs about Misc/Taint.v: [reach] is sound and complete for graph reachability,
   [wfb] decides well-formedness, [secret_ok] is equivalent to its specification. *)
From Coq Require Import NArith PArith List Bool FMapPositive Lia.
From MTV Require Import Misc.Taint.
Import ListNotations.
Open Scope N_scope.

(* ---------- keys and the visited set ---------- *)

Lemma key_inj a b : key a = key b -> a = b.
Proof.
  unfold key. intro H. apply (f_equal Pos.pred_N) in H. now rewrite !N.pos_pred_succ in H.
Qed.

Lemma has_add_same {A} (m : PM.t A) x v : has (PM.add (key x) v m) x = true.
Proof. unfold has. now rewrite PM.gss. Qed.

Lemma has_add_other {A} (m : PM.t A) x y v : x <> y -> has (PM.add (key y) v m) x = has m x.
Proof.
  intro H. unfold has. rewrite PM.gso; [reflexivity|]. intro E. apply H. now apply key_inj.
Qed.

Lemma has_add {A} (m : PM.t A) x y v : has (PM.add (key y) v m) x = true <-> x = y \/ has m x = true.
Proof.
  destruct (N.eq_dec x y) as [->|Hn].
  - rewrite has_add_same. tauto.
  - rewrite has_add_other by assumption. split; [tauto|]. intros [E|E]; [contradiction|assumption].
Qed.

Lemma has_empty {A} x : has (PM.empty A) x = false.
Proof. unfold has. now rewrite PM.gempty. Qed.

(* ---------- the map built from the graph ---------- *)

Lemma find_build_in g x v : PM.find (key x) (build g) = Some v -> In (x, v) g.
Proof.
  induction g as [|[y w] g IH]; cbn [build fold_right fst snd].
  - now rewrite PM.gempty.
  - destruct (N.eq_dec x y) as [->|Hn].
    + rewrite PM.gss. intro E. injection E as <-. now left.
    + rewrite PM.gso by (intro E; apply Hn; now apply key_inj). intro H. right. now apply IH.
Qed.

Lemma in_build_find g x v : NoDup (map fst g) -> In (x, v) g -> PM.find (key x) (build g) = Some v.
Proof.
  induction g as [|[y w] g IH]; cbn [build fold_right fst snd map]; intros Hnd Hin; [destruct Hin|].
  inversion Hnd as [|? ? Hnotin Hnd']; subst.
  destruct Hin as [E|Hin].
  - injection E as -> ->. now rewrite PM.gss.
  - assert (x <> y). { intros ->. apply Hnotin. apply in_map_iff. now exists (y, v). }
    rewrite PM.gso by (intro E; apply H; now apply key_inj). now apply IH.
Qed.

Lemma has_build_in g x : has (build g) x = true <-> In x (map fst g).
Proof.
  induction g as [|[y w] g IH]; cbn [build fold_right fst snd map].
  - rewrite has_empty. split; [discriminate|intros []].
  - rewrite has_add. cbn [In]. rewrite IH. split; intros [H|H]; auto.
Qed.

Lemma succs_edge g x y : In y (succs (build g) x) -> edge g x y.
Proof.
  unfold succs. destruct (PM.find (key x) (build g)) as [[k ss]|] eqn:E; [|intros []].
  intro H. exists k, ss. split; [now apply find_build_in|assumption].
Qed.

Lemma edge_succs g x y : NoDup (map fst g) -> edge g x y -> In y (succs (build g) x).
Proof.
  intros Hnd (k & ss & Hin & Hy). unfold succs. now rewrite (in_build_find g x (k, ss) Hnd Hin).
Qed.

(* ---------- paths ---------- *)

Lemma path_snoc g a b c : path g a b -> edge g b c -> path g a c.
Proof.
  induction 1 as [x|x y z He Hp IH]; intro H.
  - eapply path_step; [exact H|apply path_refl].
  - eapply path_step; [exact He|now apply IH].
Qed.

Lemma path_trans g a b c : path g a b -> path g b c -> path g a c.
Proof. induction 1; intros; [assumption|eapply path_step; eauto]. Qed.

(* ---------- pick ---------- *)

Lemma pick_none seen work : pick seen work = None -> forall x, In x work -> has seen x = true.
Proof.
  induction work as [|y w IH]; cbn [pick]; intros H x Hin; [destruct Hin|].
  destruct (has seen y) eqn:E; [|discriminate].
  destruct Hin as [<-|Hin]; [assumption|now apply IH].
Qed.

Lemma pick_some seen work x w :
  pick seen work = Some (x, w) ->
  has seen x = false /\ exists pre, work = pre ++ x :: w /\ forall z, In z pre -> has seen z = true.
Proof.
  revert x w. induction work as [|y t IH]; cbn [pick]; intros x w H; [discriminate|].
  destruct (has seen y) eqn:E.
  - destruct (IH _ _ H) as (Hx & pre & -> & Hpre). split; [assumption|].
    exists (y :: pre). split; [reflexivity|]. intros z [<-|Hz]; auto.
  - injection H as <- <-. split; [assumption|]. exists []. split; [reflexivity|intros z []].
Qed.

(* ---------- soundness of the worklist ---------- *)

Lemma go_sound g s fuel : forall work seen acc,
  (forall x, In x work -> path g s x) ->
  (forall x, In x acc -> path g s x) ->
  forall n, In n (go (build g) fuel work seen acc) -> path g s n.
Proof.
  induction fuel as [|f IH]; cbn [go]; intros work seen acc Hw Ha n Hn; [now apply Ha|].
  destruct (pick seen work) as [[x w]|] eqn:Ep; [|now apply Ha].
  destruct (pick_some _ _ _ _ Ep) as (_ & pre & -> & _).
  assert (Hx : path g s x) by (apply Hw; apply in_or_app; right; now left).
  eapply IH; [| |exact Hn].
  - intros y Hy. apply in_app_or in Hy. destruct Hy as [Hy|Hy].
    + eapply path_snoc; [exact Hx|now apply succs_edge].
    + apply Hw. apply in_or_app. right. now right.
  - intros y [<-|Hy]; [assumption|now apply Ha].
Qed.

Theorem reach_sound g s n : In n (reach g s) -> path g s n.
Proof.
  unfold reach. apply go_sound.
  - intros x [<-|[]]. apply path_refl.
  - intros x [].
Qed.

(* ---------- completeness of the worklist ---------- *)

Definition closed_in (g : graph) (acc : list N) : Prop :=
  forall x y, In x acc -> edge g x y -> In y acc.

Lemma closed_path g acc a b : closed_in g acc -> path g a b -> In a acc -> In b acc.
Proof. intros Hc. induction 1 as [|x y z He Hp IH]; intro H; [assumption|]. apply IH. eapply Hc; eauto. Qed.

Lemma go_complete g : wf g -> forall fuel work seen acc,
  (forall x, has seen x = true <-> In x acc) ->
  NoDup acc ->
  incl acc (map fst g) -> incl work (map fst g) ->
  (forall x y, In x acc -> edge g x y -> In y acc \/ In y work) ->
  (length (map fst g) <= fuel + length acc)%nat ->
  let r := go (build g) fuel work seen acc in
  incl acc r /\ incl work r /\ closed_in g r.
Proof.
  intros [Hnd Hsucc]. induction fuel as [|f IH]; cbn [go]; intros work seen acc Hseen Hnda Hia Hiw Hcl Hlen.
  - (* out of fuel: every node has been visited *)
    assert (Hall : incl (map fst g) acc) by (apply NoDup_length_incl; [assumption|cbn in Hlen; lia|assumption]).
    split; [apply incl_refl|]. split; [intros x Hx; apply Hall; now apply Hiw|].
    intros x y Hx (k & ss & Hin & Hy). apply Hall. eapply Hsucc; eauto.
  - destruct (pick seen work) as [[x w]|] eqn:Ep.
    + destruct (pick_some _ _ _ _ Ep) as (Hx & pre & -> & Hpre).
      assert (Hxn : ~ In x acc) by (intro H; apply Hseen in H; congruence).
      assert (Hxg : In x (map fst g)) by (apply Hiw; apply in_or_app; right; now left).
      specialize (IH (succs (build g) x ++ w) (PM.add (key x) tt seen) (x :: acc)).
      destruct IH as (I1 & I2 & I3).
      * intro z. rewrite has_add. cbn [In]. rewrite Hseen. split; intros [H|H]; auto.
      * now constructor.
      * intros z [<-|Hz]; [assumption|now apply Hia].
      * intros z Hz. apply in_app_or in Hz. destruct Hz as [Hz|Hz].
        -- destruct (succs_edge _ _ _ Hz) as (k & ss & Hin & Hy). eapply Hsucc; eauto.
        -- apply Hiw. apply in_or_app. right. now right.
      * intros a b [<-|Ha] He.
        -- right. apply in_or_app. left. now apply edge_succs.
        -- destruct (Hcl _ _ Ha He) as [H|H]; [left; now right|].
           apply in_app_or in H. destruct H as [H|[<-|H]].
           ++ left. right. apply Hseen. now apply Hpre.
           ++ left. now left.
           ++ right. apply in_or_app. now right.
      * cbn [length]. lia.
      * split; [intros z Hz; apply I1; now right|]. split; [|assumption].
        intros z Hz. apply in_app_or in Hz. destruct Hz as [Hz|[<-|Hz]].
        -- apply I1. right. apply Hseen. now apply Hpre.
        -- apply I1. now left.
        -- apply I2. apply in_or_app. now right.
    + (* work list exhausted: the visited set is closed *)
      pose proof (pick_none _ _ Ep) as Hall.
      split; [apply incl_refl|]. split; [intros x Hx; apply Hseen; now apply Hall|].
      intros x y Hx He. destruct (Hcl _ _ Hx He) as [H|H]; [assumption|]. apply Hseen. now apply Hall.
Qed.

Theorem reach_complete g s n : wf g -> In s (map fst g) -> path g s n -> In n (reach g s).
Proof.
  intros Hwf Hs Hp. unfold reach.
  destruct (go_complete g Hwf (length g) [s] (PM.empty unit) []) as (_ & I2 & I3).
  - intro x. rewrite has_empty. split; [discriminate|intros []].
  - constructor.
  - intros x [].
  - intros x [<-|[]]. assumption.
  - intros x y [].
  - rewrite map_length. cbn [length]. lia.
  - eapply closed_path; [exact I3|exact Hp|]. apply I2. now left.
Qed.

(* ---------- well-formedness is decided by wfb ---------- *)

Lemma nodupb_sound l : forall seen, nodupb seen l = true ->
  NoDup l /\ forall x, In x l -> has seen x = false.
Proof.
  induction l as [|x t IH]; cbn [nodupb]; intros seen H.
  - split; [constructor|intros x []].
  - apply andb_true_iff in H. destruct H as [Hx Ht]. apply negb_true_iff in Hx.
    destruct (IH _ Ht) as [Hnd Hfresh]. split.
    + constructor; [|assumption]. intro Hin. specialize (Hfresh _ Hin). now rewrite has_add_same in Hfresh.
    + intros y [<-|Hy]; [assumption|]. specialize (Hfresh _ Hy).
      destruct (N.eq_dec y x) as [->|Hn]; [now rewrite has_add_same in Hfresh|].
      now rewrite has_add_other in Hfresh by assumption.
Qed.

Lemma nodupb_complete l : forall seen, NoDup l -> (forall x, In x l -> has seen x = false) ->
  nodupb seen l = true.
Proof.
  induction l as [|x t IH]; cbn [nodupb]; intros seen Hnd Hfresh; [reflexivity|].
  inversion Hnd as [|? ? Hnotin Hnd']; subst. apply andb_true_iff. split.
  - apply negb_true_iff. apply Hfresh. now left.
  - apply IH; [assumption|]. intros y Hy.
    rewrite has_add_other by (intros ->; contradiction). apply Hfresh. now right.
Qed.

Theorem wfb_wf g : wfb g = true <-> wf g.
Proof.
  unfold wfb, wf. rewrite andb_true_iff, forallb_forall. split.
  - intros [Hnd Hs]. split; [now apply (nodupb_sound _ _ Hnd)|].
    intros x k ss y Hin Hy. specialize (Hs _ Hin). cbn [snd] in Hs.
    rewrite forallb_forall in Hs. now apply has_build_in, Hs.
  - intros [Hnd Hs]. split.
    + apply nodupb_complete; [assumption|]. intros x _. apply has_empty.
    + intros [x [k ss]] Hin. cbn [snd]. apply forallb_forall. intros y Hy. apply has_build_in. eapply Hs; eauto.
Qed.

(* ---------- kinds ---------- *)

Lemma kindb_at g n k : NoDup (map fst g) -> kind_at g n k -> kindb (build g) n = k.
Proof. intros Hnd [ss Hin]. unfold kindb. now rewrite (in_build_find g n (k, ss) Hnd Hin). Qed.

Lemma at_kindb g n : In n (map fst g) -> kind_at g n (kindb (build g) n).
Proof.
  intro Hin. apply has_build_in in Hin. unfold has, kindb in *.
  destruct (PM.find (key n) (build g)) as [[k ss]|] eqn:E; [|discriminate].
  exists ss. now apply find_build_in.
Qed.

Lemma memN_in x l : memN x l = true <-> In x l.
Proof.
  unfold memN. rewrite existsb_exists. split.
  - intros (y & Hy & E). apply N.eqb_eq in E. now subst.
  - intro H. exists x. split; [assumption|apply N.eqb_refl].
Qed.

Lemma path_in_nodes g s n : wf g -> In s (map fst g) -> path g s n -> In n (map fst g).
Proof.
  intros [_ Hs] H0. induction 1 as [|x y z (k & ss & Hin & Hy) Hp IH]; [assumption|].
  apply IH. eapply Hs; eauto.
Qed.

(* ---------- secret_ok is exactly its specification ---------- *)

Definition secret_spec (g : graph) (seeds : list N) (s : N) : Prop :=
  In s (map fst g) /\
  (forall n k, flows g n s -> kind_at g n k -> k <> KPrng /\ k <> KTime /\ k <> KSeed) /\
  (exists n, flows g n s /\ kind_at g n KOS) /\
  (forall sd, In sd seeds -> ~ flows g sd s).

Lemma bad_false k : bad k = false <-> k <> KPrng /\ k <> KTime /\ k <> KSeed.
Proof.
  destruct k; cbn; split; intro H; try reflexivity; try discriminate;
    try (repeat split; discriminate); destruct H as (A & B & C); congruence.
Qed.

Theorem secret_ok_spec g seeds s : wf g -> secret_ok g seeds s = true <-> secret_spec g seeds s.
Proof.
  intro Hwf. pose proof Hwf as [Hnd _]. unfold secret_ok, secret_spec, flows.
  rewrite !andb_true_iff, !forallb_forall, existsb_exists, has_build_in. split.
  - intros [[[Hs Hbad] (n & Hn & Hos)] Hseed]. split; [assumption|]. split; [|split].
    + intros n' k Hp Hk. apply bad_false. rewrite <- (kindb_at g n' k Hnd Hk).
      apply negb_true_iff. apply Hbad. now apply reach_complete.
    + exists n. pose proof (reach_sound _ _ _ Hn) as Hp. split; [assumption|].
      pose proof (at_kindb g n (path_in_nodes g s n Hwf Hs Hp)) as Hk.
      destruct (kindb (build g) n); try discriminate. assumption.
    + intros sd Hsd Hp. specialize (Hseed _ Hsd). apply negb_true_iff in Hseed.
      apply (reach_complete g s sd Hwf Hs) in Hp. apply memN_in in Hp. congruence.
  - intros (Hs & Hbad & (n & Hp & Hk) & Hseed). split; [split; [split|]|].
    + assumption.
    + intros n' Hn'. apply negb_true_iff. pose proof (reach_sound _ _ _ Hn') as Hp'.
      apply bad_false. apply (Hbad n' _ Hp'). apply at_kindb. eapply path_in_nodes; eauto.
    + exists n. split; [now apply reach_complete|]. now rewrite (kindb_at g n KOS Hnd Hk).
    + intros sd Hsd. apply negb_true_iff. destruct (memN sd (reach g s)) eqn:E; [|reflexivity].
      exfalso. apply (Hseed _ Hsd). apply reach_sound. now apply memN_in.
Qed.

Theorem secrets_ok_spec g secrets seeds :
  secrets_ok g secrets seeds = true <-> wf g /\ forall s, In s secrets -> secret_spec g seeds s.
Proof.
  unfold secrets_ok. rewrite andb_true_iff, forallb_forall, wfb_wf. split.
  - intros [Hwf H]. split; [assumption|]. intros s Hs. apply secret_ok_spec; auto.
  - intros [Hwf H]. split; [assumption|]. intros s Hs. apply secret_ok_spec; auto.
Qed.

(* ---------- definition sites ---------- *)

Theorem sites_ok_spec g seeds sites : wf g ->
  (sites_ok g seeds sites = true <->
   forall secret l, In (secret, l) sites ->
     l <> [] /\ forall site, In site l -> flows g site secret /\ secret_spec g seeds site).
Proof.
  intro Hwf. unfold sites_ok. rewrite forallb_forall. split.
  - intros H secret l Hin. specialize (H _ Hin). cbn [fst snd] in H.
    destruct l as [|a l']; [discriminate|]. split; [discriminate|].
    rewrite forallb_forall in H. intros site Hs. specialize (H _ Hs).
    unfold site_ok in H. apply andb_true_iff in H. destruct H as [H1 H2].
    split; [apply reach_sound; now apply memN_in|now apply secret_ok_spec].
  - intros H [secret l] Hin. cbn [fst snd]. destruct (H _ _ Hin) as [Hne Hl].
    destruct l as [|a l']; [congruence|]. apply forallb_forall. intros site Hs.
    destruct (Hl _ Hs) as [Hf Hsp]. unfold site_ok. apply andb_true_iff. split; [now apply secret_ok_spec|].
    apply memN_in. unfold flows in Hf.
    destruct (N.eq_dec site secret) as [->|Hne'].
    + destruct Hsp as [Hnode _]. now apply reach_complete; [|assumption|apply path_refl].
    + apply reach_complete; [assumption| |assumption].
      inversion Hf as [|x y z (k & ss & Hin' & _) _]; subst; [congruence|].
      apply in_map_iff. now exists (secret, (k, ss)).
Qed.
