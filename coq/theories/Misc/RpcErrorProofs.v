(* Proofs about Misc/RpcError.v (property C17). *)
From Coq Require Import String.
From Coq Require Import ZArith NArith List Lia ZifyN ZifyNat ZifyBool Bool.
From MTV Require Import Base.Bytes Base.Outcome Base.Str Misc.RpcError.
Import ListNotations.
Open Scope N_scope.
Ltac Zify.zify_post_hook ::= Z.div_mod_to_equations.

(* ------------------------------------------------------------------------------------ *)
(* decimal digits *)

Lemma digit_val_some b d : digit_val b = Some d <-> is_digit b = true /\ d = Z.of_N (b - 48).
Proof.
  unfold digit_val, is_digit. destruct ((48 <=? b) && (b <=? 57)); split.
  - intros H; injection H as <-; auto.
  - intros [_ ->]; reflexivity.
  - discriminate.
  - intros [H _]; discriminate.
Qed.

Lemma digit_val_none b : digit_val b = None <-> is_digit b = false.
Proof.
  unfold digit_val, is_digit. destruct ((48 <=? b) && (b <=? 57)); split; congruence.
Qed.

Lemma digit_val_enc d : d < 10 -> digit_val (48 + d) = Some (Z.of_N d).
Proof.
  intros H. apply digit_val_some. unfold is_digit. split; [lia|f_equal; lia].
Qed.

Lemma parse_digits_app a x y :
  parse_digits a (x ++ y) =
  match parse_digits a x with Some v => parse_digits v y | None => None end.
Proof.
  revert a; induction x as [|b x IH]; intros a; cbn [app parse_digits]; [reflexivity|].
  destruct (digit_val b); [apply IH|reflexivity].
Qed.

Fixpoint val_le (l : list N) : N :=
  match l with [] => 0 | d :: r => d + 10 * val_le r end.

Lemma digits_rev_S f n :
  digits_rev (S f) n = (n mod 10) :: (if n <? 10 then [] else digits_rev f (n / 10)).
Proof. reflexivity. Qed.

Lemma digits_rev_val f n : n < 2 ^ N.of_nat f -> val_le (digits_rev (S f) n) = n.
Proof.
  revert n; induction f as [|f IH]; intros n Hn.
  - cbn in Hn. assert (n = 0) by lia. subst. reflexivity.
  - rewrite digits_rev_S. destruct (N.ltb_spec n 10) as [Hs|Hb]; cbn [val_le]; [lia|].
    assert (Hlt : n / 10 < 2 ^ N.of_nat f).
    { rewrite Nat2N.inj_succ, N.pow_succ_r' in Hn. generalize dependent (2 ^ N.of_nat f). intros. lia. }
    rewrite (IH _ Hlt). lia.
Qed.

Lemma digits_rev_small f n : Forall (fun d => d < 10) (digits_rev f n).
Proof.
  revert n; induction f as [|f IH]; intros n; cbn [digits_rev]; [constructor|].
  constructor; [lia|]. destruct (n <? 10); [constructor|apply IH].
Qed.

Lemma digits_rev_nonempty f n : digits_rev (S f) n <> [].
Proof. cbn [digits_rev]. discriminate. Qed.

Definition enc_digit (d : N) : N := 48 + d.

Lemma parse_rev_digits l : Forall (fun d => d < 10) l ->
  parse_digits 0 (List.map enc_digit (rev l)) = Some (Z.of_N (val_le l)).
Proof.
  induction l as [|d l IH]; intros Hl; [reflexivity|].
  inversion Hl as [|? ? Hd Hl']; subst.
  cbn [rev]. rewrite map_app, parse_digits_app, (IH Hl'). cbn [List.map parse_digits].
  unfold enc_digit. rewrite (digit_val_enc d Hd). cbn [val_le]. f_equal. lia.
Qed.

Lemma log2_fuel n : n < 2 ^ N.of_nat (S (N.to_nat (N.log2 n))).
Proof.
  rewrite Nat2N.inj_succ, N2Nat.id.
  destruct n as [|p]; [reflexivity|]. apply N.log2_spec. reflexivity.
Qed.

Lemma dec_N_eq n : dec_N n = List.map enc_digit (rev (digits_rev (S (S (N.to_nat (N.log2 n)))) n)).
Proof. reflexivity. Qed.

Lemma parse_dec_N n : parse_digits 0 (dec_N n) = Some (Z.of_N n).
Proof.
  rewrite dec_N_eq, parse_rev_digits by apply digits_rev_small.
  rewrite digits_rev_val by apply log2_fuel. reflexivity.
Qed.

Lemma dec_N_digits n : Forall (fun b => is_digit b = true) (dec_N n).
Proof.
  rewrite dec_N_eq. apply Forall_forall. intros b Hb.
  apply in_map_iff in Hb. destruct Hb as (d & <- & Hd). apply in_rev in Hd.
  pose proof (digits_rev_small (S (S (N.to_nat (N.log2 n)))) n) as Hs.
  rewrite Forall_forall in Hs. specialize (Hs d Hd). cbn beta in Hs.
  unfold is_digit, enc_digit. lia.
Qed.

Lemma dec_N_nonempty n : dec_N n <> [].
Proof.
  rewrite dec_N_eq. intros H. apply map_eq_nil in H.
  apply (f_equal (@rev N)) in H. rewrite rev_involutive in H. cbn [rev] in H.
  now apply digits_rev_nonempty in H.
Qed.

(* strconv.Atoi reads back what Itoa / the v verb wrote, for every value of a 64-bit int *)
Lemma atoi_dec n : in_int n = true -> atoi (dec n) = Some n.
Proof.
  intros Hr. destruct n as [|p|p]; [reflexivity| |].
  - cbn [dec]. unfold atoi.
    destruct (dec_N (N.pos p)) as [|b r] eqn:E; [now apply dec_N_nonempty in E|].
    pose proof (dec_N_digits (N.pos p)) as Hd. rewrite E in Hd. inversion Hd as [|? ? Hb _]; subst.
    unfold is_digit in Hb. unfold c_minus, c_plus.
    destruct (N.eqb_spec b 45); [lia|]. destruct (N.eqb_spec b 43); [lia|].
    rewrite <- E, parse_dec_N. change (Z.of_N (N.pos p)) with (Z.pos p). now rewrite Hr.
  - cbn [dec]. unfold atoi. unfold c_minus. rewrite N.eqb_refl.
    destruct (dec_N (N.pos p)) as [|b r] eqn:E; [now apply dec_N_nonempty in E|].
    rewrite <- E, parse_dec_N. change (- Z.of_N (N.pos p))%Z with (Z.neg p). now rewrite Hr.
Qed.

(* what Atoi accepts: sign? digit+ with the value in range *)
Lemma parse_digits_all a s v : parse_digits a s = Some v -> forallb is_digit s = true.
Proof.
  revert a; induction s as [|b s IH]; intros a; cbn [parse_digits forallb]; [reflexivity|].
  destruct (digit_val b) as [d|] eqn:E; [|discriminate].
  apply digit_val_some in E. destruct E as [-> _]. intros H. cbn [andb]. eapply IH, H.
Qed.

Lemma atoi_sound s n : atoi s = Some n ->
  in_int n = true /\
  exists sg ds, s = sg ++ ds /\ (sg = [] \/ sg = [c_minus] \/ sg = [c_plus]) /\
                ds <> [] /\ forallb is_digit ds = true.
Proof.
  unfold atoi.
  set (split := match s with
                | b :: r => if b =? c_minus then (true, r) else if b =? c_plus then (false, r) else (false, s)
                | [] => (false, s) end).
  assert (Hs : exists sg, s = sg ++ snd split /\ (sg = [] \/ sg = [c_minus] \/ sg = [c_plus])).
  { subst split. destruct s as [|b r]; [exists []; auto|].
    destruct (N.eqb_spec b c_minus) as [->|]; [exists [c_minus]; cbn; auto|].
    destruct (N.eqb_spec b c_plus) as [->|]; [exists [c_plus]; cbn; auto|].
    exists []; auto. }
  destruct split as [neg ds]. cbn [snd] in Hs. destruct Hs as (sg & -> & Hsg).
  destruct ds as [|d ds]; [discriminate|].
  destruct (parse_digits 0 (d :: ds)) as [u|] eqn:Ep; [|discriminate].
  destruct (in_int (if neg then (- u)%Z else u)) eqn:Er; [|discriminate].
  intros H; injection H as <-. split; [assumption|].
  exists sg, (d :: ds). repeat split; try assumption; [discriminate|].
  eapply parse_digits_all, Ep.
Qed.

Lemma atoi_empty : atoi [] = None.
Proof. reflexivity. Qed.

Lemma atoi_nondigit_head b r :
  is_digit b = false -> b <> c_minus -> b <> c_plus -> atoi (b :: r) = None.
Proof.
  intros Hd Hm Hp. unfold atoi.
  destruct (N.eqb_spec b c_minus); [contradiction|]. destruct (N.eqb_spec b c_plus); [contradiction|].
  cbn [parse_digits]. apply digit_val_none in Hd. now rewrite Hd.
Qed.

(* ------------------------------------------------------------------------------------ *)
(* TrimPrefix / TrimSuffix / HasPrefix / HasSuffix *)

Lemma strip_prefix_app p r : strip_prefix p (p ++ r) = Some r.
Proof.
  induction p as [|x p IH]; cbn [app strip_prefix]; [reflexivity|]. now rewrite N.eqb_refl.
Qed.

Lemma trim_prefix_app p r : trim_prefix p (p ++ r) = r.
Proof. unfold trim_prefix. now rewrite strip_prefix_app. Qed.

Lemma trim_suffix_app q r : trim_suffix q (r ++ q) = r.
Proof.
  unfold trim_suffix. rewrite rev_app_distr, strip_prefix_app. apply rev_involutive.
Qed.

Lemma has_prefix_app p r : has_prefix p (p ++ r) = true.
Proof. apply has_prefix_spec. now exists r. Qed.

Lemma has_suffix_app q r : has_suffix q (r ++ q) = true.
Proof. apply has_suffix_spec. now exists r. Qed.

Lemma common_prefix_comparable a b s :
  has_prefix a s = true -> has_prefix b s = true -> comparable a b = true.
Proof.
  unfold comparable. revert b s; induction a as [|x a IH]; intros b s Ha Hb; [reflexivity|].
  destruct b as [|y b]; [cbn [has_prefix]; apply orb_true_r|].
  destruct s as [|z s]; [discriminate|]. cbn [has_prefix] in *.
  apply andb_true_iff in Ha. apply andb_true_iff in Hb.
  destruct Ha as [Hx Ha], Hb as [Hy Hb]. apply N.eqb_eq in Hx, Hy. subst.
  rewrite N.eqb_refl. cbn [andb]. eapply IH; eassumption.
Qed.

Lemma matches_shape e d : matches e (e_prefix e ++ d ++ e_suffix e) = true.
Proof.
  unfold matches. rewrite has_prefix_app. rewrite app_assoc, has_suffix_app. reflexivity.
Qed.

Lemma trimmed_shape e d : trimmed e (e_prefix e ++ d ++ e_suffix e) = d.
Proof. unfold trimmed. now rewrite trim_prefix_app, trim_suffix_app. Qed.

Lemma apart_exclusive e f s : apart e f = true -> matches e s = true -> matches f s = false.
Proof.
  unfold apart, matches, has_suffix. intros Ha He.
  apply andb_true_iff in He. destruct He as [Hp Hs].
  destruct (has_prefix (e_prefix f) s) eqn:Fp; [|reflexivity].
  destruct (has_prefix (rev (e_suffix f)) (rev s)) eqn:Fs; [|reflexivity].
  rewrite (common_prefix_comparable _ _ _ Hp Fp), (common_prefix_comparable _ _ _ Hs Fs) in Ha.
  discriminate.
Qed.

Lemma apart_sym e f : apart e f = apart f e.
Proof.
  unfold apart, comparable.
  rewrite (orb_comm (has_prefix (e_prefix e) (e_prefix f))).
  rewrite (orb_comm (has_prefix (rev (e_suffix e)) (rev (e_suffix f)))). reflexivity.
Qed.

(* ------------------------------------------------------------------------------------ *)
(* the first-match loop *)

Lemma choose_some tbl s e : choose tbl s = Some e -> In e tbl /\ matches e s = true.
Proof.
  induction tbl as [|f r IH]; cbn [choose]; [discriminate|].
  destruct (matches f s) eqn:M.
  - intros H; injection H as <-. split; [now left|assumption].
  - intros H. destruct (IH H). split; [now right|assumption].
Qed.

Lemma choose_none tbl s : choose tbl s = None <-> (forall e, In e tbl -> matches e s = false).
Proof.
  induction tbl as [|f r IH]; cbn [choose In].
  - split; [intros _ e []|reflexivity].
  - destruct (matches f s) eqn:M.
    + split; [discriminate|]. intros H. rewrite (H f (or_introl eq_refl)) in M. discriminate.
    + rewrite IH. split.
      * intros H e [<-|He]; auto.
      * intros H e He. apply H. now right.
Qed.

(* with rows apart, the order of the rows is irrelevant: the row that matches is chosen *)
Lemma choose_unique tbl s e :
  rows_apart tbl = true -> In e tbl -> matches e s = true -> choose tbl s = Some e.
Proof.
  induction tbl as [|f r IH]; intros Hok Hin Hm; [destruct Hin|].
  cbn [rows_apart] in Hok. apply andb_true_iff in Hok. destruct Hok as [Hf Hr].
  cbn [choose]. destruct Hin as [->|Hin]; [now rewrite Hm|].
  rewrite forallb_forall in Hf. specialize (Hf e Hin).
  assert (Mf : matches f s = false).
  { apply (apart_exclusive e f s); [rewrite apart_sym; exact Hf|exact Hm]. }
  rewrite Mf. now apply IH.
Qed.

Lemma rows_apart_at_most_one tbl s e f :
  rows_apart tbl = true -> In e tbl -> In f tbl -> matches e s = true -> matches f s = true -> e = f.
Proof.
  intros Hok He Hf Me Mf.
  pose proof (choose_unique tbl s e Hok He Me) as H1.
  pose proof (choose_unique tbl s f Hok Hf Mf) as H2. congruence.
Qed.

(* ------------------------------------------------------------------------------------ *)
(* TryExpandError *)

Lemma expand_panic_iff tbl s :
  expand tbl s = Panic <-> exists e, choose tbl s = Some e /\ e_kind e = KOther.
Proof.
  unfold expand. destruct (choose tbl s) as [e|].
  - destruct (e_kind e) eqn:K.
    + destruct (atoi (trimmed e s)); split; try discriminate;
        intros (e' & H & K'); injection H as <-; congruence.
    + split; [discriminate|]. intros (e' & H & K'); injection H as <-; congruence.
    + split; [intros _; now exists e|reflexivity].
  - split; [discriminate|]. intros (e & H & _). discriminate.
Qed.

Lemma expand_total tbl s : kinds_ok tbl = true -> expand tbl s <> Panic.
Proof.
  intros Hk Hp. apply expand_panic_iff in Hp. destruct Hp as (e & Hc & K).
  apply choose_some in Hc. destruct Hc as [Hin _].
  unfold kinds_ok in Hk. rewrite forallb_forall in Hk. specialize (Hk e Hin).
  unfold kind_ok in Hk. rewrite K in Hk. discriminate.
Qed.

Lemma expand_no_err tbl s : expand tbl s <> Err.
Proof.
  unfold expand. destruct (choose tbl s) as [e|]; [|discriminate].
  destruct (e_kind e); try discriminate. destruct (atoi (trimmed e s)); discriminate.
Qed.

Lemma table_ok_split tbl : table_ok tbl = true -> kinds_ok tbl = true /\ rows_apart tbl = true.
Proof. unfold table_ok. intros H. now apply andb_true_iff in H. Qed.

Lemma expand_int tbl e n :
  table_ok tbl = true -> In e tbl -> e_kind e = KInt -> in_int n = true ->
  expand tbl (e_prefix e ++ dec n ++ e_suffix e) = Ok (native_name e, AInt n).
Proof.
  intros Hok Hin K Hn. apply table_ok_split in Hok. destruct Hok as [_ Hr].
  unfold expand. rewrite (choose_unique tbl _ e Hr Hin (matches_shape e (dec n))).
  rewrite K, trimmed_shape, (atoi_dec n Hn). reflexivity.
Qed.

Lemma expand_string tbl e x :
  table_ok tbl = true -> In e tbl -> e_kind e = KString ->
  expand tbl (e_prefix e ++ x ++ e_suffix e) = Ok (native_name e, AStr x).
Proof.
  intros Hok Hin K. apply table_ok_split in Hok. destruct Hok as [_ Hr].
  unfold expand. rewrite (choose_unique tbl _ e Hr Hin (matches_shape e x)).
  rewrite K, trimmed_shape. reflexivity.
Qed.

Lemma expand_plain tbl s :
  (forall e, In e tbl -> matches e s = false) -> expand tbl s = Ok (s, ANone).
Proof. intros H. apply choose_none in H. unfold expand. now rewrite H. Qed.

Lemma expand_nonnumeric tbl s e :
  choose tbl s = Some e -> e_kind e = KInt -> atoi (trimmed e s) = None ->
  expand tbl s = Ok (s, ANone).
Proof. intros Hc K Ha. unfold expand. now rewrite Hc, K, Ha. Qed.

(* shape-level version: the row's prefix and suffix around any text Atoi rejects *)
Lemma expand_bad_parameter tbl e x :
  table_ok tbl = true -> In e tbl -> e_kind e = KInt -> atoi x = None ->
  expand tbl (e_prefix e ++ x ++ e_suffix e) = Ok (e_prefix e ++ x ++ e_suffix e, ANone).
Proof.
  intros Hok Hin K Ha. apply table_ok_split in Hok. destruct Hok as [_ Hr].
  apply (expand_nonnumeric _ _ e); [|assumption|now rewrite trimmed_shape].
  apply choose_unique; auto using matches_shape.
Qed.

(* every result is one of the documented forms *)
Lemma expand_cases tbl s name a : expand tbl s = Ok (name, a) ->
  (name = s /\ a = ANone) \/
  (exists e, choose tbl s = Some e /\ name = native_name e /\
     ((e_kind e = KInt /\ exists n, a = AInt n /\ atoi (trimmed e s) = Some n) \/
      (e_kind e = KString /\ a = AStr (trimmed e s)))).
Proof.
  unfold expand. destruct (choose tbl s) as [e|] eqn:C.
  - destruct (e_kind e) eqn:K.
    + destruct (atoi (trimmed e s)) as [n|] eqn:A; intros H; injection H as <- <-.
      * right. exists e. split; [reflexivity|]. split; [reflexivity|].
        left. split; [assumption|]. exists n. split; [reflexivity|assumption].
      * now left.
    + intros H; injection H as <- <-. right. exists e. split; [reflexivity|]. split; [reflexivity|].
      right. split; [assumption|reflexivity].
    + discriminate.
  - intros H; injection H as <- <-. now left.
Qed.

(* converse: a parameter is reported only for prefix ++ number ++ suffix *)
Lemma strip_prefix_some p s x : strip_prefix p s = Some x -> s = p ++ x.
Proof.
  revert s; induction p as [|a p IH]; intros s; cbn [strip_prefix app].
  - intros H; injection H as ->. reflexivity.
  - destruct s as [|b s]; [discriminate|]. destruct (N.eqb_spec a b) as [->|]; [|discriminate].
    intros H. now rewrite (IH _ H).
Qed.

Lemma strip_prefix_none p s : strip_prefix p s = None -> has_prefix p s = false.
Proof.
  revert s; induction p as [|a p IH]; intros s; cbn [strip_prefix has_prefix]; [discriminate|].
  destruct s as [|b s]; [reflexivity|]. destruct (N.eqb_spec a b); [apply IH|reflexivity].
Qed.

Lemma matched_shape e s n :
  suffix_clean e = true -> matches e s = true -> atoi (trimmed e s) = Some n ->
  s = e_prefix e ++ trimmed e s ++ e_suffix e.
Proof.
  unfold matches, trimmed. intros Hc Hm Ha. apply andb_true_iff in Hm. destruct Hm as [Hp Hs].
  apply has_prefix_spec in Hp. destruct Hp as [r ->]. rewrite trim_prefix_app in *.
  unfold trim_suffix in *.
  destruct (strip_prefix (rev (e_suffix e)) (rev r)) as [x|] eqn:S.
  - apply strip_prefix_some in S. apply (f_equal (@rev N)) in S.
    rewrite rev_involutive, rev_app_distr, rev_involutive in S. now rewrite <- S.
  - exfalso. apply strip_prefix_none in S.
    unfold has_suffix in Hs. rewrite rev_app_distr in Hs.
    assert (Hr : has_prefix (rev r) (rev r ++ rev (e_prefix e)) = true) by apply has_prefix_app.
    pose proof (common_prefix_comparable _ _ _ Hs Hr) as Hcmp. unfold comparable in Hcmp.
    rewrite S in Hcmp. cbn [orb] in Hcmp.
    apply atoi_sound in Ha. destruct Ha as (_ & sg & ds & -> & _ & Hne & Hd).
    rewrite rev_app_distr in Hcmp.
    destruct (rev ds) as [|b t] eqn:R.
    { apply (f_equal (@rev N)) in R. rewrite rev_involutive in R. cbn in R. contradiction. }
    assert (Hb : is_digit b = true).
    { rewrite forallb_forall in Hd. apply Hd. apply in_rev. rewrite R. now left. }
    cbn [app] in Hcmp. apply has_prefix_spec in Hcmp. destruct Hcmp as [w Hw].
    unfold suffix_clean in Hc. rewrite forallb_forall in Hc.
    assert (Hin : In b (e_suffix e)).
    { apply in_rev. rewrite Hw. now left. }
    specialize (Hc b Hin). rewrite Hb in Hc. discriminate.
Qed.

Lemma expand_int_inv tbl s name n :
  suffixes_clean tbl = true -> expand tbl s = Ok (name, AInt n) ->
  exists e d, In e tbl /\ e_kind e = KInt /\ s = e_prefix e ++ d ++ e_suffix e /\
              atoi d = Some n /\ name = native_name e.
Proof.
  intros Hc H. apply expand_cases in H.
  destruct H as [[_ H]|[e [C [Hname Hk]]]]; [discriminate|]. subst name.
  destruct Hk as [[K [m [Hn A]]]|[_ H]]; [|discriminate].
  injection Hn as <-. apply choose_some in C. destruct C as [Hin Hm].
  unfold suffixes_clean in Hc. rewrite forallb_forall in Hc.
  exists e, (trimmed e s). repeat split; auto.
  apply (matched_shape e s n); auto.
Qed.

(* the pinned code panics exactly where the fixed code falls back to a common error *)
Lemma expand_unfixed_panics tbl s e :
  choose tbl s = Some e -> e_kind e = KInt -> atoi (trimmed e s) = None ->
  expand_unfixed tbl s = Panic.
Proof. intros Hc K Ha. unfold expand_unfixed. now rewrite Hc, K, Ha. Qed.

Lemma expand_fixed_agrees tbl s : expand_unfixed tbl s <> Panic -> expand tbl s = expand_unfixed tbl s.
Proof.
  unfold expand, expand_unfixed. destruct (choose tbl s) as [e|]; [|reflexivity].
  destruct (e_kind e); try reflexivity. destruct (atoi (trimmed e s)); [reflexivity|congruence].
Qed.

(* ------------------------------------------------------------------------------------ *)
(* Sprintf on a description with one verb *)

Lemma nin_cons {A} (x y : A) l : ~ In x (y :: l) -> x <> y /\ ~ In x l.
Proof. cbn [In]. intuition. Qed.

Lemma sprintf_plain t a : ~ In c_pct t -> sprintf_go t a true = Some t.
Proof.
  induction t as [|c t IH]; intros Hn; [reflexivity|].
  apply nin_cons in Hn. destruct Hn as [Hc Ht]. cbn [sprintf_go].
  destruct (N.eqb_spec c c_pct); [congruence|]. now rewrite (IH Ht).
Qed.

Lemma verb_fits_verb v a : verb_fits v a = true ->
  v <> c_pct /\ ((v =? c_v) || (v =? c_d) || (v =? c_s) = true).
Proof.
  unfold verb_fits, c_v, c_d, c_s, c_pct. destruct a; [discriminate| |]; intros H; split; lia.
Qed.

Lemma sprintf_one_verb pre v post a :
  ~ In c_pct pre -> ~ In c_pct post -> verb_fits v a = true ->
  sprintf1 (pre ++ c_pct :: v :: post) a = Some (pre ++ render a ++ post).
Proof.
  intros Hpre Hpost Hv. unfold sprintf1.
  induction pre as [|c pre IH].
  - cbn [app sprintf_go]. rewrite N.eqb_refl.
    destruct (verb_fits_verb v a Hv) as [Hne Hverb].
    destruct (N.eqb_spec v c_pct); [congruence|]. rewrite Hverb, Hv.
    now rewrite (sprintf_plain post a Hpost).
  - apply nin_cons in Hpre. destruct Hpre as [Hc Hpre]. cbn [app sprintf_go].
    destruct (N.eqb_spec c c_pct); [congruence|]. now rewrite (IH Hpre).
Qed.

Definition kind_arg (k : kind) : adata :=
  match k with KInt => AInt 0 | KString => AStr [] | KOther => ANone end.

Lemma split_verb_spec k d pre post : split_verb k d = Some (pre, post) ->
  exists v, d = pre ++ c_pct :: v :: post /\ verb_fits v (kind_arg k) = true /\
            ~ In c_pct pre /\ ~ In c_pct post.
Proof.
  revert pre; induction d as [|c d IH]; intros pre; cbn [split_verb]; [discriminate|].
  destruct (N.eqb_spec c c_pct) as [->|Hc].
  - destruct d as [|v post']; [discriminate|].
    fold (kind_arg k).
    destruct (verb_fits v (kind_arg k)) eqn:Hv; [|discriminate].
    destruct (existsb (N.eqb c_pct) post') eqn:Hx; [discriminate|]. cbn [andb negb].
    intros H; injection H as <- <-. exists v. repeat split; auto.
    intros Hin. assert (existsb (N.eqb c_pct) post' = true); [|congruence].
    apply existsb_exists. exists c_pct. split; [assumption|apply N.eqb_refl].
  - destruct (split_verb k d) as [[pre' post']|]; [|discriminate].
    intros H; injection H as <- <-. destruct (IH pre' eq_refl) as (v & -> & Hv & Hpre & Hpost).
    exists v. repeat split; auto. cbn [In]. intuition.
Qed.

Lemma verb_fits_kind v k a :
  verb_fits v (kind_arg k) = true ->
  match k, a with KInt, AInt _ => True | KString, AStr _ => True | _, _ => False end ->
  verb_fits v a = true.
Proof. destruct k, a; cbn; tauto. Qed.

(* ------------------------------------------------------------------------------------ *)
(* RpcErrorToNative *)

Lemma to_native_total tbl cat code s : kinds_ok tbl = true ->
  exists e, to_native tbl cat code s = Ok e /\ n_code e = code.
Proof.
  intros Hk. unfold to_native.
  pose proof (expand_total tbl s Hk) as Hp. pose proof (expand_no_err tbl s) as He.
  destruct (expand tbl s) as [[name a]| |]; [|congruence|congruence].
  cbn [obind fst snd]. eexists. split; reflexivity.
Qed.

Lemma to_native_int tbl cat code e n :
  table_ok tbl = true -> descs_ok tbl cat = true -> In e tbl -> e_kind e = KInt -> in_int n = true ->
  exists pre v post,
    cat_lookup (native_name e) cat = Some (pre ++ c_pct :: v :: post) /\
    ~ In c_pct pre /\ ~ In c_pct post /\
    to_native tbl cat code (e_prefix e ++ dec n ++ e_suffix e)
    = Ok {| n_code := code; n_message := native_name e;
            n_description := Some (pre ++ dec n ++ post); n_info := AInt n |}.
Proof.
  intros Hok Hd Hin K Hn.
  unfold descs_ok in Hd. rewrite forallb_forall in Hd. specialize (Hd e Hin). unfold desc_ok in Hd.
  destruct (cat_lookup (native_name e) cat) as [d|] eqn:L; [|discriminate].
  destruct (split_verb (e_kind e) d) as [[pre post]|] eqn:S; [|discriminate].
  apply split_verb_spec in S. destruct S as (v & -> & Hv & Hpre & Hpost).
  exists pre, v, post. repeat split; auto.
  unfold to_native. rewrite (expand_int tbl e n Hok Hin K Hn). cbn [obind fst snd].
  unfold describe. rewrite L.
  rewrite (sprintf_one_verb pre v post (AInt n) Hpre Hpost).
  - reflexivity.
  - apply (verb_fits_kind v (e_kind e)); [assumption|]. now rewrite K.
Qed.

Lemma to_native_plain tbl cat code s :
  (forall e, In e tbl -> matches e s = false) ->
  to_native tbl cat code s
  = Ok {| n_code := code; n_message := s;
          n_description := Some (match cat_lookup s cat with Some d => d | None => s end);
          n_info := ANone |}.
Proof. intros H. unfold to_native. rewrite (expand_plain tbl s H). reflexivity. Qed.

(* without a parameter the description is never passed through Sprintf: formatting
   characters in the server's text or in the catalogue are inert *)
Lemma to_native_no_param tbl cat code s e :
  to_native tbl cat code s = Ok e -> n_info e = ANone ->
  n_message e = s /\
  n_description e = Some (match cat_lookup s cat with Some d => d | None => s end).
Proof.
  unfold to_native. destruct (expand tbl s) as [[name a]| |] eqn:E; try discriminate.
  cbn [obind fst snd]. intros H; injection H as <-. cbn [n_info n_message n_description].
  intros ->. apply expand_cases in E.
  destruct E as [[-> _]|(e' & _ & _ & [(_ & n & Hn & _)|(_ & Hs)])]; try discriminate.
  split; reflexivity.
Qed.

(* ------------------------------------------------------------------------------------ *)
(* tryToProcessErr *)

Definition pm_entry : entry := {| e_prefix := s_phone_migrate_; e_suffix := []; e_kind := KInt |}.

Lemma pm_name : native_name pm_entry = s_phone_migrate_x.
Proof. reflexivity. Qed.

Lemma process_err_total dcs m a : exists r, process_err dcs m a = Ok r.
Proof.
  unfold process_err. destruct (beq m s_phone_migrate_x); [|eauto].
  destruct a; eauto. destruct (dc_lookup n dcs); eauto.
Qed.

Lemma handle_total tbl cat dcs code s : kinds_ok tbl = true ->
  exists e a, handle tbl cat dcs code s = Ok (e, a) /\ to_native tbl cat code s = Ok e.
Proof.
  intros Hk. unfold handle. destruct (to_native_total tbl cat code s Hk) as (e & -> & _).
  cbn [obind]. destruct (process_err_total dcs (n_message e) (n_info e)) as (a & ->).
  cbn [obind]. eauto.
Qed.

Lemma handle_structured tbl cat dcs code s : kinds_ok tbl = true ->
  exists e a, handle tbl cat dcs code s = Ok (e, a) /\ to_native tbl cat code s = Ok e /\ n_code e = code.
Proof.
  intros Hk. destruct (handle_total tbl cat dcs code s Hk) as (e & a & H1 & H2).
  exists e, a. repeat split; auto.
  destruct (to_native_total tbl cat code s Hk) as (e' & H3 & H4). congruence.
Qed.

Lemma handle_migrate tbl cat dcs code n :
  table_ok tbl = true -> In pm_entry tbl -> in_int n = true ->
  exists e, to_native tbl cat code (s_phone_migrate_ ++ dec n) = Ok e /\
    n_message e = s_phone_migrate_x /\ n_info e = AInt n /\
    handle tbl cat dcs code (s_phone_migrate_ ++ dec n)
    = Ok (e, match dc_lookup n dcs with Some addr => Switch addr | None => NoSuchDC end).
Proof.
  intros Hok Hin Hn.
  pose proof (expand_int tbl pm_entry n Hok Hin eq_refl Hn) as He.
  cbn [e_prefix e_suffix pm_entry] in He. rewrite app_nil_r, pm_name in He.
  unfold handle, to_native. rewrite He. cbn [obind fst snd].
  eexists. split; [reflexivity|]. cbn [n_message n_info]. repeat split.
  unfold process_err. rewrite beq_refl. destruct (dc_lookup n dcs); reflexivity.
Qed.

Lemma handle_not_returned tbl cat dcs code s e a :
  handle tbl cat dcs code s = Ok (e, a) -> a <> Return ->
  n_message e = s_phone_migrate_x /\ exists n, n_info e = AInt n /\
    a = match dc_lookup n dcs with Some addr => Switch addr | None => NoSuchDC end.
Proof.
  unfold handle. destruct (to_native tbl cat code s) as [e'| |]; try discriminate. cbn [obind].
  unfold process_err. destruct (beq_spec (n_message e') s_phone_migrate_x) as [Hm|Hm].
  - destruct (n_info e') as [|n|x] eqn:I; cbn [obind].
    + intros H; injection H as <- <-. congruence.
    + destruct (dc_lookup n dcs) as [addr|] eqn:L; cbn [obind]; intros H Hne;
        injection H as <- <-; (split; [assumption|]); exists n; rewrite L; auto.
    + intros H; injection H as <- <-. congruence.
  - cbn [obind]. intros H; injection H as <- <-. congruence.
Qed.

Lemma handle_other_returned tbl cat dcs code s e :
  to_native tbl cat code s = Ok e -> n_message e <> s_phone_migrate_x ->
  handle tbl cat dcs code s = Ok (e, Return).
Proof.
  intros Hn Hm. unfold handle. rewrite Hn. cbn [obind]. unfold process_err.
  destruct (beq_spec (n_message e) s_phone_migrate_x); [contradiction|reflexivity].
Qed.

(* the pinned tryToProcessErr panics on the message PHONE_MIGRATE_X without an int *)
Lemma process_err_unfixed_panics dcs a :
  (forall n, a <> AInt n) -> process_err_unfixed dcs s_phone_migrate_x a = Panic.
Proof.
  intros H. unfold process_err_unfixed. rewrite beq_refl. destruct a; try reflexivity.
  now destruct (H n).
Qed.

Lemma dc_lookup_in k v m : dc_lookup k m = Some v -> In (k, v) m.
Proof.
  induction m as [|[k' v'] r IH]; cbn [dc_lookup]; [discriminate|].
  destruct (Z.eqb_spec k k') as [->|]; [intros H; injection H as ->; now left|].
  intros H. right. auto.
Qed.

Lemma dc_lookup_none k m : dc_lookup k m = None <-> ~ In k (List.map fst m).
Proof.
  induction m as [|[k' v'] r IH]; cbn [dc_lookup List.map In fst]; [intuition|].
  destruct (Z.eqb_spec k k') as [->|Hn]; [intuition discriminate|].
  rewrite IH. intuition.
Qed.

Lemma dc_lookup_unique k v m :
  keys_unique Z.eqb (List.map fst m) = true -> In (k, v) m -> dc_lookup k m = Some v.
Proof.
  induction m as [|[k' v'] r IH]; cbn [keys_unique List.map fst dc_lookup In]; [intros _ []|].
  intros Hu. apply andb_true_iff in Hu. destruct Hu as [Hk Hr].
  intros [H|H].
  - injection H as -> ->. now rewrite Z.eqb_refl.
  - destruct (Z.eqb_spec k k') as [->|]; [|now apply IH].
    exfalso. apply negb_true_iff in Hk.
    assert (existsb (Z.eqb k') (List.map fst r) = true); [|congruence].
    apply existsb_exists. exists k'. split; [|apply Z.eqb_refl].
    apply in_map_iff. exists (k', v). auto.
Qed.

(* ------------------------------------------------------------------------------------ *)
(* several clients: the DC table is per-client state *)

Lemma upd_length {A} (l : list A) i f : length (upd l i f) = length l.
Proof. revert i; induction l as [|x l IH]; intros [|i]; cbn [upd length]; auto. Qed.

Lemma upd_same {A} (l : list A) i f : nth_error (upd l i f) i = option_map f (nth_error l i).
Proof. revert i; induction l as [|x l IH]; intros [|i]; cbn [upd nth_error option_map]; auto. Qed.

Lemma upd_other {A} (l : list A) i j f : i <> j -> nth_error (upd l i f) j = nth_error l j.
Proof.
  revert i j; induction l as [|x l IH]; intros [|i] [|j] H; cbn [upd nth_error]; auto; congruence.
Qed.

(* two worlds look the same from client c *)
Definition agree (c : nat) (w1 w2 : world) : Prop :=
  length w1 = length w2 /\ nth_error w1 c = nth_error w2 c.

Lemma agree_refl c w : agree c w w.
Proof. split; reflexivity. Qed.

Lemma nth_error_snoc {A} (l1 l2 : list A) x c :
  length l1 = length l2 -> nth_error l1 c = nth_error l2 c ->
  nth_error (l1 ++ [x]) c = nth_error (l2 ++ [x]) c.
Proof.
  intros Hl Hn. destruct (Nat.lt_ge_cases c (length l1)) as [H|H].
  - rewrite !nth_error_app1 by lia. assumption.
  - rewrite !nth_error_app2 by lia. now rewrite Hl.
Qed.

(* an operation that concerns c acts alike on worlds that agree on c, and answers alike *)
Lemma cstep_agree d c w1 w2 o : concerns c o = true -> agree c w1 w2 ->
  agree c (fst (cstep d w1 o)) (fst (cstep d w2 o)) /\
  (match o with Process _ _ _ => snd (cstep d w1 o) = snd (cstep d w2 o) | _ => True end).
Proof.
  intros Hc [Hl Hn]. destruct o as [a|c' t|c' m i]; cbn [concerns] in Hc.
  - cbn [cstep fst]. split; [|exact I]. split.
    + rewrite !app_length. now rewrite Hl.
    + now apply nth_error_snoc.
  - apply Nat.eqb_eq in Hc. subst c'. cbn [cstep fst]. split; [|exact I]. split.
    + now rewrite !upd_length.
    + now rewrite !upd_same, Hn.
  - apply Nat.eqb_eq in Hc. subst c'. cbn [cstep]. rewrite Hn.
    destruct (nth_error w2 c) as [st|] eqn:E; cbn [fst snd]; [|split; [split; congruence|reflexivity]].
    split; [|reflexivity].
    destruct (process_err (snd st) m i) as [[a| |]| |]; try (split; congruence).
    split; [now rewrite !upd_length|rewrite !upd_same; congruence].
Qed.

(* an operation on another client is invisible from c *)
Lemma cstep_other d c w o : concerns c o = false -> agree c (fst (cstep d w o)) w.
Proof.
  destruct o as [a|c' t|c' m i]; cbn [concerns]; [discriminate| |]; intros Hc; apply Nat.eqb_neq in Hc.
  - cbn [cstep fst]. split; [apply upd_length|now apply upd_other].
  - cbn [cstep]. destruct (nth_error w c') as [st|]; cbn [fst]; [|apply agree_refl].
    destruct (process_err (snd st) m i) as [[a| |]| |]; try apply agree_refl.
    split; [apply upd_length|now apply upd_other].
Qed.

Lemma agree_trans c w1 w2 w3 : agree c w1 w2 -> agree c w2 w3 -> agree c w1 w3.
Proof. intros [A B] [C D]. split; congruence. Qed.

Lemma crun_restrict_agree d c h : forall w1 w2, agree c w1 w2 ->
  agree c (crun d w1 h) (crun d w2 (restrict c h)).
Proof.
  induction h as [|o h IH]; intros w1 w2 Ha; [exact Ha|].
  cbn [crun restrict filter]. destruct (concerns c o) eqn:Hc.
  - cbn [crun]. apply IH. now apply cstep_agree.
  - apply IH. eapply agree_trans; [apply cstep_other; exact Hc|exact Ha].
Qed.

(* non-interference: what client c answers after a history is what it answers after the same
   history with every SetDCList / tryToProcessErr of the other clients removed *)
Lemma observe_restrict d c h m i :
  observe (crun d [] h) c m i = observe (crun d [] (restrict c h)) c m i.
Proof.
  unfold observe. destruct (crun_restrict_agree d c h [] [] (agree_refl c [])) as [_ ->]. reflexivity.
Qed.

(* closed form of a client's table: its own SetDCList arguments over the default list *)
Lemma crun_existing d c h : forall w st, nth_error w c = Some st ->
  exists a, nth_error (crun d w h) c = Some (a, own_sets c h ++ snd st).
Proof.
  induction h as [|o h IH]; intros w st Hn.
  - exists (fst st). cbn [crun own_sets app]. now destruct st.
  - cbn [crun]. destruct o as [a|c' t|c' m i]; cbn [cstep fst own_sets].
    + apply IH. rewrite nth_error_app1; [assumption|]. apply nth_error_Some. congruence.
    + destruct (Nat.eqb_spec c' c) as [->|Hne].
      * destruct (IH (upd w c (set_dcs t)) (set_dcs t st)) as (a & Ha).
        { now rewrite upd_same, Hn. }
        exists a. rewrite Ha. cbn [set_dcs snd]. now rewrite app_assoc.
      * apply IH. now rewrite upd_other.
    + destruct (nth_error w c') as [st'|] eqn:E; cbn [fst]; [|now apply IH].
      destruct (process_err (snd st') m i) as [[a| |]| |]; try now apply IH.
      destruct (Nat.eq_dec c' c) as [->|Hne].
      * destruct (IH (upd w c (set_addr a)) (set_addr a st)) as (a' & Ha).
        { now rewrite upd_same, Hn. }
        exists a'. exact Ha.
      * apply IH. now rewrite upd_other.
Qed.

Lemma crun_app d w h1 h2 : crun d w (h1 ++ h2) = crun d (crun d w h1) h2.
Proof. revert w; induction h1 as [|o h1 IH]; intros w; cbn [app crun]; auto. Qed.

(* client c is the one created by [NewClient a0] after h1; whatever the other clients did
   before or after, its answer to tryToProcessErr is computed from the default list and the
   tables given to its own SetDCList calls *)
Lemma observe_own d h1 a0 h2 c m i :
  length (crun d [] h1) = c ->
  observe (crun d [] (h1 ++ NewClient a0 :: h2)) c m i
  = Some (process_err (own_sets c h2 ++ d) m i).
Proof.
  intros Hl. rewrite crun_app. cbn [crun cstep fst].
  destruct (crun_existing d c h2 (crun d [] h1 ++ [(a0, d)]) (a0, d)) as (a & Ha).
  { rewrite nth_error_app2 by lia. rewrite Hl, Nat.sub_diag. reflexivity. }
  unfold observe. rewrite Ha. reflexivity.
Qed.

Lemma dc_lookup_app k t m :
  dc_lookup k (t ++ m) = match dc_lookup k t with Some v => Some v | None => dc_lookup k m end.
Proof.
  induction t as [|[k' v'] t IH]; cbn [app dc_lookup]; [reflexivity|].
  destruct (k =? k')%Z; [reflexivity|apply IH].
Qed.

Lemma observe_migrate d h1 a0 h2 c x :
  length (crun d [] h1) = c ->
  observe (crun d [] (h1 ++ NewClient a0 :: h2)) c s_phone_migrate_x (AInt x)
  = Some (Ok (match dc_lookup x (own_sets c h2) with
              | Some a => Switch a
              | None => match dc_lookup x d with Some a => Switch a | None => NoSuchDC end
              end)).
Proof.
  intros Hl. rewrite (observe_own d h1 a0 h2 c _ _ Hl). unfold process_err.
  rewrite beq_refl, dc_lookup_app.
  destruct (dc_lookup x (own_sets c h2)); [reflexivity|]. destruct (dc_lookup x d); reflexivity.
Qed.

(* ------------------------------------------------------------------------------------ *)
(* one caller, several data centres *)

Lemma make_request_migrate tbl cat dcs dc a b req code n v fuel :
  table_ok tbl = true -> In pm_entry tbl -> in_int n = true ->
  dc_lookup n dcs = Some b ->
  dc a req = RError code (s_phone_migrate_ ++ dec n) ->
  dc b req = RValue v ->
  make_request (S (S fuel)) tbl cat dcs dc a req []
  = {| c_result := CValue v; c_addr := b; c_writes := [(a, req); (b, req)] |}.
Proof.
  intros Hok Hin Hn Hdc Ha Hb.
  destruct (handle_migrate tbl cat dcs code n Hok Hin Hn) as (e & _ & _ & _ & Hh).
  rewrite Hdc in Hh.
  cbn [make_request app]. rewrite Ha, Hh, Hb. reflexivity.
Qed.

(* a request redirected TWICE: the first data centre names n, the data centre configured for n names m, the one configured
   for m answers.  The request is written once to each of the three, the caller gets the last one's answer, the client
   stays there.  (Every repeat goes through the same error handling as the first attempt.) *)
Lemma make_request_migrate_twice tbl cat dcs dc a b c req code n code' m v fuel :
  table_ok tbl = true -> In pm_entry tbl -> in_int n = true -> in_int m = true ->
  dc_lookup n dcs = Some b -> dc_lookup m dcs = Some c ->
  dc a req = RError code (s_phone_migrate_ ++ dec n) ->
  dc b req = RError code' (s_phone_migrate_ ++ dec m) ->
  dc c req = RValue v ->
  make_request (S (S (S fuel))) tbl cat dcs dc a req []
  = {| c_result := CValue v; c_addr := c; c_writes := [(a, req); (b, req); (c, req)] |}.
Proof.
  intros Hok Hin Hn Hm Hdc Hdc' Ha Hb Hc.
  destruct (handle_migrate tbl cat dcs code n Hok Hin Hn) as (e & _ & _ & _ & Hh).
  destruct (handle_migrate tbl cat dcs code' m Hok Hin Hm) as (e' & _ & _ & _ & Hh').
  rewrite Hdc in Hh. rewrite Hdc' in Hh'.
  cbn [make_request app]. rewrite Ha, Hh. cbn [make_request app]. rewrite Hb, Hh', Hc. reflexivity.
Qed.

Lemma make_request_unconfigured tbl cat dcs dc a req code n fuel :
  table_ok tbl = true -> In pm_entry tbl -> in_int n = true ->
  dc_lookup n dcs = None ->
  dc a req = RError code (s_phone_migrate_ ++ dec n) ->
  exists e, n_code e = code /\ n_message e = s_phone_migrate_x /\ n_info e = AInt n /\
    make_request (S fuel) tbl cat dcs dc a req []
    = {| c_result := CFailed e NoSuchDC; c_addr := a; c_writes := [(a, req)] |}.
Proof.
  intros Hok Hin Hn Hdc Ha.
  destruct (handle_migrate tbl cat dcs code n Hok Hin Hn) as (e & Hnat & Hm & Hi & Hh).
  rewrite Hdc in Hh. exists e. repeat split; auto.
  - apply table_ok_split in Hok. destruct Hok as [Hk _].
    destruct (to_native_total tbl cat code (s_phone_migrate_ ++ dec n) Hk) as (e' & H1 & H2). congruence.
  - cbn [make_request app]. rewrite Ha, Hh. reflexivity.
Qed.

(* any other error: written once, returned, address unchanged *)
Lemma make_request_other tbl cat dcs dc a req code text e fuel :
  dc a req = RError code text ->
  to_native tbl cat code text = Ok e -> n_message e <> s_phone_migrate_x ->
  make_request (S fuel) tbl cat dcs dc a req []
  = {| c_result := CFailed e Return; c_addr := a; c_writes := [(a, req)] |}.
Proof.
  intros Ha Hn Hm. cbn [make_request app]. rewrite Ha, (handle_other_returned tbl cat dcs code text e Hn Hm).
  reflexivity.
Qed.
