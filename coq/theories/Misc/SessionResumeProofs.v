(* Proofs for Misc/SessionResume.v *)
From Coq Require Import ZArith NArith List Bool.
From MTV Require Import Base.Bytes Base.Outcome Misc.Session Misc.SessionResume.
Import ListNotations.

Lemma loaded_wire s :
  key_exchange (client_of s) = false /\
  first_frame (client_of s) = WEncrypted (s_hash s) (s_salt s) /\
  dial_addr (client_of s) = s_host s /\
  c_key (client_of s) = s_key s.
Proof. repeat split. Qed.

Lemma new_wire host :
  key_exchange (client_new host) = true /\
  first_frame (client_new host) = WPlainReqPQ /\
  dial_addr (client_new host) = host.
Proof. repeat split. Qed.

Lemma key_exchange_iff_plain c : key_exchange c = true <-> first_frame c = WPlainReqPQ.
Proof. unfold key_exchange, first_frame. destruct (c_encrypted c); cbn; split; intro H; try reflexivity; discriminate. Qed.

Lemma decide_loaded_iff host r c : client_decide host r = Ok c ->
  (key_exchange c = false <-> exists s, r = LOk s).
Proof.
  destruct r as [s| | |]; cbn [client_decide]; intro H; try discriminate.
  - injection H as <-. split; [intros _; now exists s|reflexivity].
  - injection H as <-. split; [discriminate|intros [s Hs]; discriminate].
Qed.

Lemma decide_cases host r :
  match r with
  | LOk s => exists c, client_decide host r = Ok c /\ first_frame c = WEncrypted (s_hash s) (s_salt s)
                       /\ dial_addr c = s_host s /\ key_exchange c = false /\ c_key c = s_key s
  | LNotFound => exists c, client_decide host r = Ok c /\ first_frame c = WPlainReqPQ /\ dial_addr c = host
                           /\ key_exchange c = true
  | LErr => client_decide host r = Err
  | LPanic => client_decide host r = Panic
  end.
Proof.
  destruct r as [s| | |]; cbn [client_decide]; try reflexivity.
  - exists (client_of s). repeat split.
  - exists (client_new host). repeat split.
Qed.

Lemma reconnect_same c : first_frame (reconnect c) = first_frame c /\ dial_addr (reconnect c) = dial_addr c
  /\ key_exchange (reconnect c) = key_exchange c.
Proof. repeat split. Qed.

Lemma request_frames_all c k n f : In f (request_frames c k n) -> f = first_frame c.
Proof.
  unfold request_frames, reconnect. intro H. apply in_app_or in H.
  destruct H as [H|H]; now apply repeat_spec in H.
Qed.
