(* Model of errors.go (TryExpandError, RpcErrorToNative) and of the decision taken by
   mtproto.go tryToProcessErr, generic in the three data tables (prefix/suffix table,
   description catalogue, DC table) which are regenerated from the tree into gen/ErrTables.v.

   The model is of the FIXED code (patches/C17): a parameter that strconv.Atoi rejects makes
   the text a common error (returned unchanged, no parameter), and tryToProcessErr tests the
   dynamic type of AdditionalInfo.  [expand_unfixed] / [process_err_unfixed] keep the pinned
   behaviour (check(err) panics, unchecked type assertion) for the record.

   Go strings are byte lists.  strconv.Atoi and fmt.Sprintf are standard-library code: they
   are re-implemented here (Atoi completely for 64-bit int; Sprintf for one operand and the
   verbs v d s and the literal percent sign, [None] outside that subset) and compared with
   the real functions by the correspondence run. *)
From Coq Require Import String.
From Coq Require Import ZArith NArith List Lia Bool.
From MTV Require Import Base.Bytes Base.Outcome Base.Str.
Import ListNotations.
Open Scope N_scope.

(* ------------------------------------------------------------------------------------ *)
(* strconv.Atoi on a 64-bit platform: optional sign, one or more ASCII digits, no
   underscores (base 10 is explicit), value within [-2^63, 2^63-1]; anything else is an
   error (syntax or range - the caller does not distinguish them). *)

Definition min_int : Z := (-9223372036854775808)%Z.
Definition max_int : Z := 9223372036854775807%Z.
Definition in_int (n : Z) : bool := ((min_int <=? n) && (n <=? max_int))%Z.

Definition digit_val (b : N) : option Z :=
  if (48 <=? b) && (b <=? 57) then Some (Z.of_N (b - 48)) else None.

Fixpoint parse_digits (acc : Z) (s : bytes) : option Z :=
  match s with
  | [] => Some acc
  | b :: r => match digit_val b with
              | Some d => parse_digits (10 * acc + d)%Z r
              | None => None
              end
  end.

Definition c_minus : N := 45.
Definition c_plus : N := 43.

Definition atoi (s : bytes) : option Z :=
  let '(neg, ds) := match s with
                    | b :: r => if b =? c_minus then (true, r)
                                else if b =? c_plus then (false, r) else (false, s)
                    | [] => (false, s)
                    end in
  match ds with
  | [] => None
  | _ :: _ =>
      match parse_digits 0 ds with
      | None => None
      | Some u => let v := if neg then (- u)%Z else u in
                  if in_int v then Some v else None
      end
  end.

(* strconv.Itoa / the v and d verbs on an int: minimal decimal, "-" for negatives *)
Fixpoint digits_rev (fuel : nat) (n : N) : list N :=
  match fuel with
  | O => []
  | S f => (n mod 10) :: (if n <? 10 then [] else digits_rev f (n / 10))
  end.

Definition dec_N (n : N) : bytes :=
  List.map (fun d => 48 + d) (rev (digits_rev (S (S (N.to_nat (N.log2 n)))) n)).

Definition dec (z : Z) : bytes :=
  match z with
  | Z0 => [48]
  | Zpos p => dec_N (Npos p)
  | Zneg p => c_minus :: dec_N (Npos p)
  end.

(* ------------------------------------------------------------------------------------ *)
(* errors.go: specificErrors and TryExpandError *)

Inductive kind := KInt | KString | KOther.   (* reflect.Int, reflect.String, any other reflect.Kind *)

Record entry := { e_prefix : bytes; e_suffix : bytes; e_kind : kind }.
Definition table := list entry.

(* the dynamic value stored in ErrResponseCode.AdditionalInfo *)
Inductive adata := ANone | AInt (n : Z) | AStr (s : bytes).

Definition c_X : N := 88.

Definition matches (e : entry) (s : bytes) : bool :=
  has_prefix (e_prefix e) s && has_suffix (e_suffix e) s.

(* the range loop with break: first matching row wins *)
Fixpoint choose (tbl : table) (s : bytes) : option entry :=
  match tbl with
  | [] => None
  | e :: r => if matches e s then Some e else choose r s
  end.

Definition native_name (e : entry) : bytes := e_prefix e ++ c_X :: e_suffix e.

Definition trimmed (e : entry) (s : bytes) : bytes :=
  trim_suffix (e_suffix e) (trim_prefix (e_prefix e) s).

(* TryExpandError, fixed code *)
Definition expand (tbl : table) (s : bytes) : outcome (bytes * adata) :=
  match choose tbl s with
  | None => Ok (s, ANone)
  | Some e =>
      match e_kind e with
      | KInt => match atoi (trimmed e s) with
                | Some n => Ok (native_name e, AInt n)
                | None => Ok (s, ANone)          (* fix: was check(err) -> panic *)
                end
      | KString => Ok (native_name e, AStr (trimmed e s))
      | KOther => Panic                          (* panic("couldn't parse this type: ...") *)
      end
  end.

(* TryExpandError as pinned (0b0db56) *)
Definition expand_unfixed (tbl : table) (s : bytes) : outcome (bytes * adata) :=
  match choose tbl s with
  | None => Ok (s, ANone)
  | Some e =>
      match e_kind e with
      | KInt => match atoi (trimmed e s) with
                | Some n => Ok (native_name e, AInt n)
                | None => Panic
                end
      | KString => Ok (native_name e, AStr (trimmed e s))
      | KOther => Panic
      end
  end.

(* ------------------------------------------------------------------------------------ *)
(* fmt.Sprintf(format, a) with exactly one operand that is an int or a string.
   Subset: plain verbs v d s and "%%"; a flag, width, precision, index or any other verb
   gives None (not modelled).  Go's diagnostics for a wrong or missing operand and for an
   unused operand are reproduced. *)

Definition c_pct : N := 37.
Definition c_v : N := 118.
Definition c_d : N := 100.
Definition c_s : N := 115.

Definition s_noverb := Eval vm_compute in lit "%!(NOVERB)".
Definition s_missing := Eval vm_compute in lit "(MISSING)".
Definition s_extra := Eval vm_compute in lit "%!(EXTRA ".
Definition s_int_eq := Eval vm_compute in lit "int=".
Definition s_string_eq := Eval vm_compute in lit "string=".
Definition s_bang := Eval vm_compute in lit "%!".

Definition render (a : adata) : bytes :=
  match a with ANone => [] | AInt n => dec n | AStr s => s end.

Definition typed (a : adata) : bytes :=
  match a with
  | ANone => []
  | AInt n => s_int_eq ++ dec n
  | AStr s => s_string_eq ++ s
  end.

Definition verb_fits (c : N) (a : adata) : bool :=
  match a with
  | AInt _ => (c =? c_v) || (c =? c_d)
  | AStr _ => (c =? c_v) || (c =? c_s)
  | ANone => false
  end.

Definition extra_tail (a : adata) (used : bool) : bytes :=
  if used then [] else s_extra ++ typed a ++ [41].

(* [used]: the operand has been consumed *)
Fixpoint sprintf_go (f : bytes) (a : adata) (used : bool) : option bytes :=
  match f with
  | [] => Some (extra_tail a used)
  | c :: r =>
      if c =? c_pct then
        match r with
        | [] => Some (s_noverb ++ extra_tail a used)
        | v :: r' =>
            if v =? c_pct then option_map (fun t => c_pct :: t) (sprintf_go r' a used)
            else if (v =? c_v) || (v =? c_d) || (v =? c_s) then
              if used then option_map (fun t => s_bang ++ v :: s_missing ++ t) (sprintf_go r' a true)
              else if verb_fits v a then option_map (fun t => render a ++ t) (sprintf_go r' a true)
              else option_map (fun t => s_bang ++ v :: 40 :: typed a ++ 41 :: t) (sprintf_go r' a true)
            else None
        end
      else option_map (fun t => c :: t) (sprintf_go r a used)
  end.

Definition sprintf1 (f : bytes) (a : adata) : option bytes := sprintf_go f a false.

(* ------------------------------------------------------------------------------------ *)
(* errors.go: errorMessages and RpcErrorToNative *)

Definition catalogue := list (bytes * bytes).   (* Go map: keys are unique *)

Fixpoint cat_lookup (k : bytes) (m : catalogue) : option bytes :=
  match m with
  | [] => None
  | (k', v) :: r => if beq k k' then Some v else cat_lookup k r
  end.

Record native := {
  n_code : Z;                  (* int(r.ErrorCode) *)
  n_message : bytes;
  n_description : option bytes; (* None: Sprintf outside the modelled subset *)
  n_info : adata
}.

Definition describe (cat : catalogue) (name : bytes) (a : adata) : option bytes :=
  let desc := match cat_lookup name cat with Some d => d | None => name end in
  match a with
  | ANone => Some desc
  | _ => sprintf1 desc a
  end.

Definition to_native (tbl : table) (cat : catalogue) (code : Z) (text : bytes) : outcome native :=
  do r <- expand tbl text;
  let name := fst r in
  let a := snd r in
  Ok {| n_code := code; n_message := name; n_description := describe cat name a; n_info := a |}.

(* ------------------------------------------------------------------------------------ *)
(* mtproto.go: tryToProcessErr - the decision only.  What happens after [Switch] (Reconnect,
   the request sent again by makeRequest) is the live client and is not modelled here. *)

Definition dctable := list (Z * bytes).         (* Go map[int]string: keys are unique *)

Fixpoint dc_lookup (k : Z) (m : dctable) : option bytes :=
  match m with
  | [] => None
  | (k', v) :: r => if (k =? k')%Z then Some v else dc_lookup k r
  end.

Definition s_phone_migrate_x := Eval vm_compute in lit "PHONE_MIGRATE_X".
Definition s_phone_migrate_ := Eval vm_compute in lit "PHONE_MIGRATE_".

Inductive action :=
| Switch (addr : bytes)      (* m.addr := addr; Reconnect; nil on success so that makeRequest repeats *)
| NoSuchDC                   (* the error wrapped with "DC with id .. not found" is returned *)
| Return.                    (* the error itself is returned to the caller *)

Definition process_err (dcs : dctable) (message : bytes) (info : adata) : outcome action :=
  if beq message s_phone_migrate_x then
    match info with
    | AInt n => match dc_lookup n dcs with
                | Some addr => Ok (Switch addr)
                | None => Ok NoSuchDC
                end
    | _ => Ok Return                              (* fix: was e.AdditionalInfo.(int) -> panic *)
    end
  else Ok Return.

Definition process_err_unfixed (dcs : dctable) (message : bytes) (info : adata) : outcome action :=
  if beq message s_phone_migrate_x then
    match info with
    | AInt n => match dc_lookup n dcs with
                | Some addr => Ok (Switch addr)
                | None => Ok NoSuchDC
                end
    | _ => Panic
    end
  else Ok Return.

(* makeRequest, case *objects.RpcError, up to the decision *)
Definition handle (tbl : table) (cat : catalogue) (dcs : dctable) (code : Z) (text : bytes)
  : outcome (native * action) :=
  do e <- to_native tbl cat code text;
  do a <- process_err dcs (n_message e) (n_info e);
  Ok (e, a).

(* ------------------------------------------------------------------------------------ *)
(* decidable well-formedness of the tables *)

Definition comparable (a b : bytes) : bool := has_prefix a b || has_prefix b a.

(* two rows can match the same text only if their prefixes are comparable (both are prefixes
   of it) and their suffixes are comparable; rows that differ in either way never compete,
   so the order of the rows (first match wins) does not matter *)
Definition apart (e f : entry) : bool :=
  negb (comparable (e_prefix e) (e_prefix f)) ||
  negb (comparable (rev (e_suffix e)) (rev (e_suffix f))).

Fixpoint rows_apart (tbl : table) : bool :=
  match tbl with
  | [] => true
  | e :: r => forallb (apart e) r && rows_apart r
  end.

Definition kind_ok (e : entry) : bool :=
  match e_kind e with KOther => false | _ => true end.

Definition kinds_ok (tbl : table) : bool := forallb kind_ok tbl.

Definition table_ok (tbl : table) : bool := kinds_ok tbl && rows_apart tbl.

(* a description with exactly one formatting verb: one percent sign in all, followed by v
   (or d for an int row, s for a string row).  Returns the text around the verb. *)
Fixpoint split_verb (k : kind) (d : bytes) : option (bytes * bytes) :=
  match d with
  | [] => None
  | c :: r =>
      if c =? c_pct then
        match r with
        | v :: post =>
            if verb_fits v (match k with KInt => AInt 0 | KString => AStr [] | KOther => ANone end)
               && negb (existsb (N.eqb c_pct) post)
            then Some ([], post) else None
        | [] => None
        end
      else match split_verb k r with
           | Some (pre, post) => Some (c :: pre, post)
           | None => None
           end
  end.

Definition desc_ok (cat : catalogue) (e : entry) : bool :=
  match cat_lookup (native_name e) cat with
  | Some d => match split_verb (e_kind e) d with Some _ => true | None => false end
  | None => false
  end.

Definition descs_ok (tbl : table) (cat : catalogue) : bool := forallb (desc_ok cat) tbl.

Fixpoint keys_unique {A} (eqb : A -> A -> bool) (l : list A) : bool :=
  match l with
  | [] => true
  | k :: r => negb (existsb (eqb k) r) && keys_unique eqb r
  end.

(* no decimal digit inside a suffix: then a suffix can never swallow the end of the parameter
   (HasPrefix and HasSuffix are tested separately and may overlap, e.g. "FILE_PART_MISSING") *)
Definition is_digit (b : N) : bool := (48 <=? b) && (b <=? 57).
Definition suffix_clean (e : entry) : bool := forallb (fun b => negb (is_digit b)) (e_suffix e).
Definition suffixes_clean (tbl : table) : bool := forallb suffix_clean tbl.

(* ------------------------------------------------------------------------------------ *)
(* several clients in one process.  NewMTProto gives every client its own DC table, a fresh
   copy of defaultDCList(); SetDCList writes the given entries over the client's own table;
   tryToProcessErr reads the client's own table and, on a switch, changes the client's own
   address.  Clients are numbered in the order of their creation. *)

Definition cstate := (bytes * dctable)%type.          (* m.addr, m.dclist *)
Definition world := list cstate.

Inductive cop :=
| NewClient (addr : bytes)
| SetDC (c : nat) (t : dctable)                       (* t: a Go map, keys unique *)
| Process (c : nat) (message : bytes) (info : adata).

Fixpoint upd {A} (l : list A) (i : nat) (f : A -> A) : list A :=
  match l, i with
  | [], _ => []
  | x :: r, O => f x :: r
  | x :: r, S j => x :: upd r j f
  end.

(* lookup finds the first pair: entries of t shadow the older ones *)
Definition set_dcs (t : dctable) (st : cstate) : cstate := (fst st, t ++ snd st).
Definition set_addr (a : bytes) (st : cstate) : cstate := (a, snd st).

Definition cstep (defaults : dctable) (w : world) (o : cop) : world * option (outcome action) :=
  match o with
  | NewClient a => (w ++ [(a, defaults)], None)
  | SetDC c t => (upd w c (set_dcs t), None)
  | Process c m i =>
      match nth_error w c with
      | None => (w, None)                             (* no such client: not an operation *)
      | Some st =>
          let r := process_err (snd st) m i in
          (match r with Ok (Switch a) => upd w c (set_addr a) | _ => w end, Some r)
      end
  end.

Fixpoint crun (defaults : dctable) (w : world) (h : list cop) : world :=
  match h with
  | [] => w
  | o :: h' => crun defaults (fst (cstep defaults w o)) h'
  end.

(* what tryToProcessErr on client c answers in world w *)
Definition observe (w : world) (c : nat) (m : bytes) (i : adata) : option (outcome action) :=
  option_map (fun st => process_err (snd st) m i) (nth_error w c).

(* the operations that concern client c: creations (they fix the numbering) and its own *)
Definition concerns (c : nat) (o : cop) : bool :=
  match o with
  | NewClient _ => true
  | SetDC c' _ => Nat.eqb c' c
  | Process c' _ _ => Nat.eqb c' c
  end.

Definition restrict (c : nat) (h : list cop) : list cop := filter (concerns c) h.

(* the tables given to SetDCList on client c, latest first *)
Fixpoint own_sets (c : nat) (h : list cop) : dctable :=
  match h with
  | [] => []
  | SetDC c' t :: h' => if Nat.eqb c' c then own_sets c h' ++ t else own_sets c h'
  | _ :: h' => own_sets c h'
  end.

(* ------------------------------------------------------------------------------------ *)
(* makeRequest for ONE caller against several data centres, sequentially: the request is written
   to the client's current address; an rpc_error answer goes through [handle]; on [Switch a] the
   client's address becomes a (Reconnect is assumed to succeed) and the same request is written
   again; any other decision ends the call with the structured error.  A data centre is a
   function from the request to its reply.  [fuel] bounds the number of writes (the Go code
   recurses for as long as data centres keep answering PHONE_MIGRATE_X).
   Concurrency (several callers, the receive loop) is NOT in this model: that half of the
   property is tied to the code by the live correspondence only. *)

Inductive reply := RValue (v : bytes) | RError (code : Z) (text : bytes).

Inductive call_result :=
| CValue (v : bytes)
| CFailed (e : native) (a : action)
| CPanic
| COutOfFuel.

Record call_end := {
  c_result : call_result;
  c_addr : bytes;                       (* the client's address afterwards *)
  c_writes : list (bytes * bytes)       (* (address, request) in the order written *)
}.

Fixpoint make_request (fuel : nat) (tbl : table) (cat : catalogue) (dcs : dctable)
         (dc : bytes -> bytes -> reply) (addr req : bytes) (writes : list (bytes * bytes)) : call_end :=
  match fuel with
  | O => {| c_result := COutOfFuel; c_addr := addr; c_writes := writes |}
  | S f =>
      let writes' := writes ++ [(addr, req)] in
      match dc addr req with
      | RValue v => {| c_result := CValue v; c_addr := addr; c_writes := writes' |}
      | RError code text =>
          match handle tbl cat dcs code text with
          | Ok (_, Switch a) => make_request f tbl cat dcs dc a req writes'
          | Ok (e, act) => {| c_result := CFailed e act; c_addr := addr; c_writes := writes' |}
          | _ => {| c_result := CPanic; c_addr := addr; c_writes := writes' |}
          end
      end
  end.
