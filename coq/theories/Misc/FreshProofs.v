(* C19, freshness - proofs about Misc/Fresh.v *)
From Coq Require Import NArith List Bool Lia.
From MTV Require Import Misc.Fresh.
Import ListNotations.
Open Scope N_scope.

Lemma draws_start pos sizes : Forall (fun r => pos <= fst r) (draws pos sizes).
Proof.
  revert pos. induction sizes as [|n t IH]; intro pos; cbn [draws]; constructor.
  - cbn. lia.
  - eapply Forall_impl; [|apply IH]. cbn. intros r H. lia.
Qed.

(* successive draws never overlap: each ends where the next one starts, for every sequence of sizes *)
Theorem draws_ordered pos sizes : ForallOrdPairs before (draws pos sizes).
Proof.
  revert pos. induction sizes as [|n t IH]; intro pos; cbn [draws]; constructor; [|apply IH].
  eapply Forall_impl; [|apply (draws_start (pos + n) t)].
  intros r H. unfold before, r_end. cbn [fst snd]. exact H.
Qed.

Lemma FOP_impl {A} (P Q : A -> A -> Prop) l :
  (forall a b, P a b -> Q a b) -> ForallOrdPairs P l -> ForallOrdPairs Q l.
Proof.
  intros H. induction 1 as [|a l Ha Hl IH]; constructor; [|assumption].
  eapply Forall_impl; [|exact Ha]. intros b. apply H.
Qed.

Theorem draws_disjoint pos sizes : ForallOrdPairs disjoint (draws pos sizes).
Proof. eapply FOP_impl; [|apply draws_ordered]. intros a b H. now left. Qed.

Theorem draws_within pos sizes : Forall (fun r => pos <= fst r /\ r_end r <= pos + total sizes) (draws pos sizes).
Proof.
  revert pos. induction sizes as [|n t IH]; intro pos; cbn [draws total fold_right]; constructor.
  - unfold r_end. cbn [fst snd]. fold (total t). lia.
  - eapply Forall_impl; [|apply IH]. intros r [H1 H2]. fold (total t). lia.
Qed.

(* a consumer that hands out, for its i-th draw, bytes taken from inside that draw never hands out a byte twice *)
Theorem handed_inside_draws_disjoint pos sizes handed :
  Forall2 inside handed (draws pos sizes) -> ForallOrdPairs disjoint handed.
Proof.
  intro H. pose proof (draws_ordered pos sizes) as Ho. revert H Ho.
  generalize (draws pos sizes) as ds. intros ds H. induction H as [|r s h d Hrs Hrest IH]; intro Ho; constructor.
  - inversion Ho as [|? ? Hs Ho']; subst. clear IH Ho Ho'.
    induction Hrest as [|r' s' h' d' Hrs' Hrest' IH']; constructor.
    + inversion Hs as [|? ? Hss' ?]; subst. left. destruct Hrs as [_ A], Hrs' as [B _].
      unfold before in *. lia.
    + apply IH'. now inversion Hs.
  - apply IH. now inversion Ho.
Qed.

(* the executable check is exact *)
Lemma disjointb_spec r s : disjointb r s = true <-> disjoint r s.
Proof.
  unfold disjointb, disjoint, before. rewrite orb_true_iff, !N.leb_le. tauto.
Qed.

Lemma pairwiseb_spec l : pairwiseb l = true <-> ForallOrdPairs disjoint l.
Proof.
  induction l as [|r t IH]; cbn [pairwiseb].
  - split; [constructor|reflexivity].
  - rewrite andb_true_iff, forallb_forall, IH. split.
    + intros [H1 H2]. constructor; [|assumption]. apply Forall_forall. intros s Hs. now apply disjointb_spec, H1.
    + intro H. inversion H as [|? ? H1 H2]; subst. split; [|assumption].
      intros s Hs. apply disjointb_spec. rewrite Forall_forall in H1. now apply H1.
Qed.

Theorem fresh_ok_spec served handed :
  fresh_ok served handed = true <->
  Forall (fun r => r_end r <= served) handed /\ ForallOrdPairs disjoint handed.
Proof.
  unfold fresh_ok. rewrite andb_true_iff, pairwiseb_spec, forallb_forall, Forall_forall.
  split; intros [H1 H2]; (split; [|assumption]); intros r Hr; apply N.leb_le; now apply H1.
Qed.
