(* Proofs about Misc/Migrate.v: invariants over all interleavings (induction over label lists),
   mutual exclusion, one connection for equal X, request accounting, deadlock freedom and a
   termination measure. *)
From Coq Require Import NArith List Lia Bool Arith.
From MTV Require Import Misc.RpcError Misc.RpcErrorProofs Misc.Migrate.
Import ListNotations.
Open Scope nat_scope.

(* ---- lists ---- *)

Lemma nth_upd {A} (l : list A) i j f :
  nth_error (upd l i f) j = if Nat.eqb j i then option_map f (nth_error l j) else nth_error l j.
Proof.
  destruct (Nat.eqb_spec j i) as [->|H]; [apply upd_same|apply upd_other; congruence].
Qed.

Definition cnt {A} (p : A -> bool) (l : list A) : nat := length (filter p l).

Lemma cnt_upd {A} (p : A -> bool) (l : list A) i f c : nth_error l i = Some c ->
  cnt p (upd l i f) + (if p c then 1 else 0) = cnt p l + (if p (f c) then 1 else 0).
Proof.
  unfold cnt. revert i; induction l as [|x l IH]; intros [|i] H; cbn [nth_error] in H; try discriminate.
  - injection H as ->. cbn [upd filter]. destruct (p c), (p (f c)); cbn [length]; lia.
  - cbn [upd filter]. specialize (IH i H). destruct (p x); cbn [length]; lia.
Qed.

Lemma cnt_map {A} (p : A -> bool) (g : A -> A) (l : list A) :
  (forall x, p (g x) = p x) -> cnt p (List.map g l) = cnt p l.
Proof.
  unfold cnt. intros H. induction l as [|x l IH]; [reflexivity|]. cbn [List.map filter]. rewrite H.
  destruct (p x); cbn [length]; lia.
Qed.

Lemma cnt_zero {A} (p : A -> bool) (l : list A) i c :
  cnt p l = 0 -> nth_error l i = Some c -> p c = false.
Proof.
  unfold cnt. revert i; induction l as [|x l IH]; intros [|i] H0 H; cbn [nth_error] in H; try discriminate.
  - injection H as ->. cbn [filter] in H0. destruct (p c); [discriminate|reflexivity].
  - cbn [filter] in H0. destruct (p x); [discriminate|]. eapply IH; eassumption.
Qed.

Lemma cnt_pos {A} (p : A -> bool) (l : list A) :
  cnt p l <> 0 -> exists i c, nth_error l i = Some c /\ p c = true.
Proof.
  unfold cnt. induction l as [|x l IH]; cbn [filter length]; [congruence|].
  destruct (p x) eqn:E.
  - intros _. exists 0, x. auto.
  - intros H. destruct (IH H) as (i & c & H1 & H2). exists (S i), c. auto.
Qed.

Lemma sum_upd {A} (w : A -> nat) (l : list A) i f c : nth_error l i = Some c ->
  list_sum (List.map w (upd l i f)) + w c = list_sum (List.map w l) + w (f c).
Proof.
  unfold list_sum.
  revert i; induction l as [|x l IH]; intros [|i] H; cbn [nth_error] in H; try discriminate.
  - injection H as ->. cbn [upd List.map list_sum fold_right]. lia.
  - cbn [upd List.map list_sum fold_right]. specialize (IH i H). lia.
Qed.

Lemma sum_le {A} (w w' : A -> nat) (g : A -> A) (l : list A) d :
  (forall x, w' (g x) <= w x + d) ->
  list_sum (List.map w' (List.map g l)) <= list_sum (List.map w l) + d * length l.
Proof.
  unfold list_sum. intros H. induction l as [|x l IH]; cbn [List.map list_sum fold_right length]; [lia|]. specialize (H x). rewrite Nat.mul_succ_r. lia.
Qed.

Lemma nth_error_lt {A} (l : list A) i c : nth_error l i = Some c -> i < length l.
Proof. intros H. apply nth_error_Some. congruence. Qed.

Lemma upd_len {A} (l : list A) i f : length (upd l i f) = length l.
Proof. apply upd_length. Qed.

(* ---- the log ---- *)

Lemma sent_app j lg a i : sent j (lg ++ [(a, i)]) = sent j lg + (if Nat.eqb i j then 1 else 0).
Proof.
  unfold sent. rewrite filter_app, app_length. cbn [filter fst snd]. destruct (Nat.eqb i j); cbn [length]; lia.
Qed.

Lemma received_app b j lg a i :
  received b j (lg ++ [(a, i)]) = received b j lg + (if Nat.eqb a b && Nat.eqb i j then 1 else 0).
Proof.
  unfold received. rewrite filter_app, app_length. cbn [filter fst snd].
  destruct (Nat.eqb a b && Nat.eqb i j); cbn [length]; lia.
Qed.

Lemma last_to_app j lg a i :
  last_to j (lg ++ [(a, i)]) = if Nat.eqb i j then Some a else last_to j lg.
Proof.
  induction lg as [|[b k] lg IH]; cbn [app last_to].
  - destruct (Nat.eqb i j); reflexivity.
  - rewrite IH. destruct (Nat.eqb i j); [reflexivity|]. reflexivity.
Qed.

Section Proofs.
  Variable pol : nat -> nat -> option nat.
  Variable dcs : nat -> nat.

  Notation step := (Migrate.step pol dcs).
  Notation run := (Migrate.run pol dcs).

  Ltac inv_step H :=
    unfold Migrate.step in H;
    repeat match type of H with
           | match ?x with _ => _ end = Some _ => destruct x eqn:?; try discriminate
           | (if ?x then _ else _) = Some _ => destruct x eqn:?; try discriminate
           end;
    injection H as <-.

  Definition at_ (s : st) (j : nat) (c : caller) : Prop := nth_error (cs s) j = Some c.

  Record Inv (s : st) : Prop := {
    inv_w1 : forall i, writer s = Some i -> exists c x a, at_ s i c /\ c_pc c = Locked x a;
    inv_w2 : forall j c x a, at_ s j c -> c_pc c = Locked x a -> writer s = Some j;
    inv_r : readers s = cnt holds_read (cs s);
    inv_wr : writer s <> None -> readers s = 0;
    inv_sending : forall j c a, at_ s j c -> c_pc c = Sending a ->
                                a = addr s /\ last_to j (log s) = Some a;
    inv_waiting : forall j c a g, at_ s j c -> c_pc c = Waiting a g ->
                                  a = addr s /\ g = gen s /\ last_to j (log s) = Some a;
    inv_red : forall j c x a, at_ s j c -> (c_pc c = Redirected x a \/ c_pc c = Locked x a) ->
                              pol a j = Some x;
    inv_done : forall j c a, at_ s j c -> c_pc c = Done a -> pol a j = None /\ last_to j (log s) = Some a;
    inv_count : forall j c, at_ s j c -> sent j (log s) + owes (c_pc c) = 1 + c_redir c + c_woken c;
    inv_log : forall a i, In (a, i) (log s) -> i < length (cs s)
  }.

  Lemma nth_repeat {A} (x : A) k j c : nth_error (repeat x k) j = Some c -> c = x.
  Proof.
    revert j; induction k as [|k IH]; intros [|j]; cbn [repeat nth_error]; try discriminate.
    - intros H; now injection H as <-.
    - apply IH.
  Qed.

  Lemma cnt_repeat_false {A} (p : A -> bool) x k : p x = false -> cnt p (repeat x k) = 0.
  Proof.
    unfold cnt. intros H. induction k as [|k IH]; [reflexivity|]. cbn [repeat filter]. now rewrite H.
  Qed.

  Lemma inv_init k a0 : Inv (init k a0).
  Proof.
    assert (Hc : forall j c, at_ (init k a0) j c -> c = {| c_pc := Idle; c_redir := 0; c_woken := 0 |}).
    { unfold at_, init. cbn [cs]. intros j c H. now apply nth_repeat in H. }
    constructor.
    - intros i H. discriminate H.
    - intros j c x a H Hp. apply Hc in H. subst. discriminate.
    - cbn. symmetry. now apply cnt_repeat_false.
    - intros H. now destruct H.
    - intros j c a H Hp. apply Hc in H. subst. discriminate.
    - intros j c a g H Hp. apply Hc in H. subst. discriminate.
    - intros j c x a H [Hp|Hp]; apply Hc in H; subst; discriminate.
    - intros j c a H Hp. apply Hc in H. subst. discriminate.
    - intros j c H. apply Hc in H. subst. reflexivity.
    - intros a i [].
  Qed.

  (* ---- what each step does, in one form per label ---- *)

  Lemma step_send s i s' : step s (LSend i) = Some s' ->
    exists c0, nth_error (cs s) i = Some c0 /\ (c_pc c0 = Idle \/ c_pc c0 = Repeat) /\ writer s = None /\
      s' = {| cs := upd (cs s) i (set_pc (Sending (addr s))); addr := addr s; gen := gen s; writer := None;
              readers := S (readers s); opened := opened s; log := log s ++ [(addr s, i)] |}.
  Proof. intros H. inv_step H; eexists; repeat split; eauto. Qed.

  Lemma step_runlock s i s' : step s (LRUnlock i) = Some s' ->
    exists c0 a, nth_error (cs s) i = Some c0 /\ c_pc c0 = Sending a /\
      s' = {| cs := upd (cs s) i (set_pc (Waiting a (gen s))); addr := addr s; gen := gen s; writer := writer s;
              readers := pred (readers s); opened := opened s; log := log s |}.
  Proof. intros H. inv_step H; do 2 eexists; repeat split; eauto. Qed.

  Lemma step_answer s i s' : step s (LAnswer i) = Some s' ->
    exists c0 a, nth_error (cs s) i = Some c0 /\ c_pc c0 = Waiting a (gen s) /\
      s' = {| cs := upd (cs s) i (match pol a i with None => set_pc (Done a) | Some x => redirect x a end);
              addr := addr s; gen := gen s; writer := writer s; readers := readers s;
              opened := opened s; log := log s |}.
  Proof.
    intros H. inv_step H. match goal with E : Nat.eqb _ _ = true |- _ => apply Nat.eqb_eq in E; subst end.
    do 2 eexists; repeat split; eauto.
  Qed.

  Lemma step_lock s i s' : step s (LLock i) = Some s' ->
    exists c0 x a, nth_error (cs s) i = Some c0 /\ c_pc c0 = Redirected x a /\ writer s = None /\ readers s = 0 /\
      s' = {| cs := upd (cs s) i (set_pc (Locked x a)); addr := addr s; gen := gen s; writer := Some i;
              readers := 0; opened := opened s; log := log s |}.
  Proof. intros H. inv_step H; do 3 eexists; repeat split; eauto. Qed.

  Lemma step_skip s i s' : step s (LSkip i) = Some s' ->
    exists c0 x a, nth_error (cs s) i = Some c0 /\ c_pc c0 = Locked x a /\ already_moved dcs s x a = true /\
      s' = {| cs := upd (cs s) i (set_pc Repeat); addr := addr s; gen := gen s; writer := None;
              readers := readers s; opened := opened s; log := log s |}.
  Proof. intros H. inv_step H; do 3 eexists; repeat split; eauto. Qed.

  Lemma step_reconnect s i s' : step s (LReconnect i) = Some s' ->
    exists c0 x a, nth_error (cs s) i = Some c0 /\ c_pc c0 = Locked x a /\ already_moved dcs s x a = false /\
      s' = {| cs := upd (List.map wake (cs s)) i (set_pc Repeat); addr := dcs x; gen := S (gen s); writer := None;
              readers := readers s; opened := opened s ++ [dcs x]; log := log s |}.
  Proof. intros H. inv_step H; do 3 eexists; repeat split; eauto. Qed.

  (* the caller record at position j after [upd _ i f]: the old one, or f of the actor's *)
  Ltac new_at H Hi :=
    unfold at_ in H; cbn [cs] in H; rewrite nth_upd in H;
    match type of H with
    | (if Nat.eqb ?j ?i then _ else _) = _ =>
        destruct (Nat.eqb_spec j i) as [->|?];
        [rewrite Hi in H; cbn [option_map] in H; injection H as <-|]
    end.

  Lemma inv_send s i s' : step s (LSend i) = Some s' -> Inv s -> Inv s'.
  Proof.
    intros H I. apply step_send in H. destruct H as (c0 & Hi & Hp & Hw & ->).
    assert (Ho : owes (c_pc c0) = 1 /\ holds_read c0 = false /\ (forall x a, c_pc c0 <> Locked x a)).
    { unfold holds_read. destruct Hp as [-> | ->]; repeat split; discriminate. }
    destruct Ho as (Ho & Hr & Hnl).
    constructor; cbn [cs addr gen writer readers opened log].
    - intros k Hk. discriminate Hk.
    - intros jj cc x a H Hl. new_at H Hi; [cbn in Hl; discriminate|].
      pose proof (inv_w2 s I jj cc x a H Hl). congruence.
    - pose proof (cnt_upd holds_read (cs s) i (set_pc (Sending (addr s))) c0 Hi) as Hc.
      rewrite Hr in Hc. cbn in Hc. rewrite (inv_r s I). lia.
    - intros Hk. now destruct Hk.
    - intros jj cc a H Hs. new_at H Hi.
      + cbn in Hs. injection Hs as <-. split; [reflexivity|]. now rewrite last_to_app, Nat.eqb_refl.
      + destruct (inv_sending s I jj cc a H Hs) as [-> Hl]. split; [reflexivity|].
        rewrite last_to_app. destruct (Nat.eqb_spec i jj); [congruence|assumption].
    - intros jj cc a g H Hs. new_at H Hi; [cbn in Hs; discriminate|].
      destruct (inv_waiting s I jj cc a g H Hs) as (-> & -> & Hl). repeat split.
      rewrite last_to_app. destruct (Nat.eqb_spec i jj); [congruence|assumption].
    - intros jj cc x a H Hs. new_at H Hi; [cbn in Hs; destruct Hs; discriminate|].
      exact (inv_red s I jj cc x a H Hs).
    - intros jj cc a H Hs. new_at H Hi; [cbn in Hs; discriminate|].
      destruct (inv_done s I jj cc a H Hs) as [Hpol Hl]. split; [assumption|].
      rewrite last_to_app. destruct (Nat.eqb_spec i jj); [congruence|assumption].
    - intros jj cc H. rewrite sent_app. new_at H Hi.
      + rewrite Nat.eqb_refl. pose proof (inv_count s I i c0 Hi) as Hc. rewrite Ho in Hc.
        cbn [set_pc c_pc c_redir c_woken owes]. lia.
      + destruct (Nat.eqb_spec i jj); [congruence|]. pose proof (inv_count s I jj cc H). lia.
    - intros a k Hin. rewrite upd_len. apply in_app_or in Hin. destruct Hin as [Hin|[Hin|[]]].
      + exact (inv_log s I a k Hin).
      + injection Hin as _ <-. exact (nth_error_lt _ _ _ Hi).
  Qed.

  Lemma inv_runlock s i s' : step s (LRUnlock i) = Some s' -> Inv s -> Inv s'.
  Proof.
    intros H I. apply step_runlock in H. destruct H as (c0 & a0 & Hi & Hp & ->).
    destruct (inv_sending s I i c0 a0 Hi Hp) as [Ha Hl0].
    constructor; cbn [cs addr gen writer readers opened log].
    - intros k Hk. destruct (inv_w1 s I k Hk) as (c & x & a & Hc & Hpc).
      exists c, x, a. split; [|assumption]. unfold at_ in *. cbn [cs]. rewrite nth_upd.
      destruct (Nat.eqb_spec k i) as [->|]; [|assumption]. congruence.
    - intros jj cc x a H Hl. new_at H Hi; [cbn in Hl; discriminate|]. exact (inv_w2 s I jj cc x a H Hl).
    - pose proof (cnt_upd holds_read (cs s) i (set_pc (Waiting a0 (gen s))) c0 Hi) as Hc.
      assert (Hr1 : holds_read c0 = true) by (unfold holds_read; now rewrite Hp).
      assert (Hr2 : holds_read (set_pc (Waiting a0 (gen s)) c0) = false) by reflexivity.
      rewrite Hr1, Hr2 in Hc. rewrite (inv_r s I). lia.
    - intros Hk. rewrite (inv_wr s I Hk). reflexivity.
    - intros jj cc a H Hs. new_at H Hi; [cbn in Hs; discriminate|]. exact (inv_sending s I jj cc a H Hs).
    - intros jj cc a g H Hs. new_at H Hi.
      + cbn in Hs. injection Hs as <- <-. auto.
      + exact (inv_waiting s I jj cc a g H Hs).
    - intros jj cc x a H Hs. new_at H Hi; [cbn in Hs; destruct Hs; discriminate|].
      exact (inv_red s I jj cc x a H Hs).
    - intros jj cc a H Hs. new_at H Hi; [cbn in Hs; discriminate|]. exact (inv_done s I jj cc a H Hs).
    - intros jj cc H. new_at H Hi.
      + pose proof (inv_count s I i c0 Hi) as Hc. rewrite Hp in Hc. cbn [set_pc c_pc c_redir c_woken owes] in *. lia.
      + exact (inv_count s I jj cc H).
    - intros a k Hin. rewrite upd_len. exact (inv_log s I a k Hin).
  Qed.

  Lemma inv_answer s i s' : step s (LAnswer i) = Some s' -> Inv s -> Inv s'.
  Proof.
    intros H I. apply step_answer in H. destruct H as (c0 & a0 & Hi & Hp & ->).
    destruct (inv_waiting s I i c0 a0 (gen s) Hi Hp) as (Ha & _ & Hl0).
    constructor; cbn [cs addr gen writer readers opened log].
    - intros k Hk. destruct (inv_w1 s I k Hk) as (c & x & a & Hc & Hpc).
      exists c, x, a. split; [|assumption]. unfold at_ in *. cbn [cs]. rewrite nth_upd.
      destruct (Nat.eqb_spec k i) as [->|]; [|assumption]. congruence.
    - intros jj cc x a H Hl. new_at H Hi; [destruct (pol a0 i); cbn in Hl; discriminate|].
      exact (inv_w2 s I jj cc x a H Hl).
    - pose proof (cnt_upd holds_read (cs s) i
                    (match pol a0 i with None => set_pc (Done a0) | Some x => redirect x a0 end) c0 Hi) as Hc.
      assert (Hr1 : holds_read c0 = false) by (unfold holds_read; now rewrite Hp).
      assert (Hr2 : holds_read (match pol a0 i with None => set_pc (Done a0) | Some x => redirect x a0 end c0) = false)
        by (destruct (pol a0 i); reflexivity).
      rewrite Hr1, Hr2 in Hc. rewrite (inv_r s I). lia.
    - exact (inv_wr s I).
    - intros jj cc a H Hs. new_at H Hi; [destruct (pol a0 i); cbn in Hs; discriminate|].
      exact (inv_sending s I jj cc a H Hs).
    - intros jj cc a g H Hs. new_at H Hi; [destruct (pol a0 i); cbn in Hs; discriminate|].
      exact (inv_waiting s I jj cc a g H Hs).
    - intros jj cc x a H Hs. new_at H Hi.
      + destruct (pol a0 i) as [x0|] eqn:E; cbn in Hs; destruct Hs as [Hs|Hs]; try discriminate.
        injection Hs as <- <-. assumption.
      + exact (inv_red s I jj cc x a H Hs).
    - intros jj cc a H Hs. new_at H Hi.
      + destruct (pol a0 i) as [x0|] eqn:E; cbn in Hs; try discriminate. injection Hs as <-. auto.
      + exact (inv_done s I jj cc a H Hs).
    - intros jj cc H. new_at H Hi.
      + pose proof (inv_count s I i c0 Hi) as Hc. rewrite Hp in Hc.
        destruct (pol a0 i); cbn [set_pc redirect c_pc c_redir c_woken owes] in *; lia.
      + exact (inv_count s I jj cc H).
    - intros a k Hin. rewrite upd_len. exact (inv_log s I a k Hin).
  Qed.

  Lemma inv_lock s i s' : step s (LLock i) = Some s' -> Inv s -> Inv s'.
  Proof.
    intros H I. apply step_lock in H. destruct H as (c0 & x0 & a0 & Hi & Hp & Hw & Hr & ->).
    constructor; cbn [cs addr gen writer readers opened log].
    - intros k Hk. injection Hk as <-. exists (set_pc (Locked x0 a0) c0), x0, a0. split; [|reflexivity].
      unfold at_. cbn [cs]. now rewrite nth_upd, Nat.eqb_refl, Hi.
    - intros jj cc x a H Hl. new_at H Hi; [reflexivity|].
      pose proof (inv_w2 s I jj cc x a H Hl). congruence.
    - pose proof (cnt_upd holds_read (cs s) i (set_pc (Locked x0 a0)) c0 Hi) as Hc.
      assert (Hr1 : holds_read c0 = false) by (unfold holds_read; now rewrite Hp).
      assert (Hr2 : holds_read (set_pc (Locked x0 a0) c0) = false) by reflexivity.
      rewrite Hr1, Hr2 in Hc. pose proof (inv_r s I). lia.
    - reflexivity.
    - intros jj cc a H Hs. new_at H Hi; [cbn in Hs; discriminate|]. exact (inv_sending s I jj cc a H Hs).
    - intros jj cc a g H Hs. new_at H Hi; [cbn in Hs; discriminate|]. exact (inv_waiting s I jj cc a g H Hs).
    - intros jj cc x a H Hs. new_at H Hi.
      + cbn in Hs. destruct Hs as [Hs|Hs]; [discriminate|]. injection Hs as <- <-.
        apply (inv_red s I i c0 x0 a0 Hi). now left.
      + exact (inv_red s I jj cc x a H Hs).
    - intros jj cc a H Hs. new_at H Hi; [cbn in Hs; discriminate|]. exact (inv_done s I jj cc a H Hs).
    - intros jj cc H. new_at H Hi.
      + pose proof (inv_count s I i c0 Hi) as Hc. rewrite Hp in Hc. cbn [set_pc c_pc c_redir c_woken owes] in *. lia.
      + exact (inv_count s I jj cc H).
    - intros a k Hin. rewrite upd_len. exact (inv_log s I a k Hin).
  Qed.

  Lemma inv_skip s i s' : step s (LSkip i) = Some s' -> Inv s -> Inv s'.
  Proof.
    intros H I. apply step_skip in H. destruct H as (c0 & x0 & a0 & Hi & Hp & Hm & ->).
    pose proof (inv_w2 s I i c0 x0 a0 Hi Hp) as Hw.
    constructor; cbn [cs addr gen writer readers opened log].
    - intros k Hk. discriminate Hk.
    - intros jj cc x a H Hl. new_at H Hi; [cbn in Hl; discriminate|].
      pose proof (inv_w2 s I jj cc x a H Hl). congruence.
    - pose proof (cnt_upd holds_read (cs s) i (set_pc Repeat) c0 Hi) as Hc.
      assert (Hr1 : holds_read c0 = false) by (unfold holds_read; now rewrite Hp).
      assert (Hr2 : holds_read (set_pc Repeat c0) = false) by reflexivity.
      rewrite Hr1, Hr2 in Hc. pose proof (inv_r s I). lia.
    - intros Hk. now destruct Hk.
    - intros jj cc a H Hs. new_at H Hi; [cbn in Hs; discriminate|]. exact (inv_sending s I jj cc a H Hs).
    - intros jj cc a g H Hs. new_at H Hi; [cbn in Hs; discriminate|]. exact (inv_waiting s I jj cc a g H Hs).
    - intros jj cc x a H Hs. new_at H Hi; [cbn in Hs; destruct Hs; discriminate|].
      exact (inv_red s I jj cc x a H Hs).
    - intros jj cc a H Hs. new_at H Hi; [cbn in Hs; discriminate|]. exact (inv_done s I jj cc a H Hs).
    - intros jj cc H. new_at H Hi.
      + pose proof (inv_count s I i c0 Hi) as Hc. rewrite Hp in Hc. cbn [set_pc c_pc c_redir c_woken owes] in *. lia.
      + exact (inv_count s I jj cc H).
    - intros a k Hin. rewrite upd_len. exact (inv_log s I a k Hin).
  Qed.

  (* repeatPendingRequests touches the waiting callers only *)
  Lemma wake_cases c :
    (exists a g, c_pc c = Waiting a g /\
                 wake c = {| c_pc := Repeat; c_redir := c_redir c; c_woken := S (c_woken c) |}) \/
    (wake c = c /\ forall a g, c_pc c <> Waiting a g).
  Proof.
    unfold wake. destruct (c_pc c) eqn:E; try (right; split; [reflexivity|discriminate]).
    left. eauto.
  Qed.

  Lemma wake_read c : holds_read (wake c) = holds_read c.
  Proof.
    destruct (wake_cases c) as [(a & g & Hp & ->)|[-> _]]; [|reflexivity].
    unfold holds_read. cbn [c_pc]. now rewrite Hp.
  Qed.

  (* the caller record at position j after a migration *)
  Lemma at_reconnect (l : list caller) i j c0 cc :
    nth_error l i = Some c0 ->
    nth_error (upd (List.map wake l) i (set_pc Repeat)) j = Some cc ->
    (j = i /\ cc = set_pc Repeat (wake c0)) \/ (j <> i /\ exists c1, nth_error l j = Some c1 /\ cc = wake c1).
  Proof.
    intros Hi H. rewrite nth_upd, nth_error_map in H.
    destruct (Nat.eqb_spec j i) as [->|Hne].
    - rewrite Hi in H. cbn [option_map] in H. injection H as <-. now left.
    - right. split; [assumption|]. destruct (nth_error l j) as [c1|]; [|discriminate].
      cbn [option_map] in H. injection H as <-. eauto.
  Qed.

  Lemma inv_reconnect s i s' : step s (LReconnect i) = Some s' -> Inv s -> Inv s'.
  Proof.
    intros H I. apply step_reconnect in H. destruct H as (c0 & x0 & a0 & Hi & Hp & Hm & ->).
    pose proof (inv_w2 s I i c0 x0 a0 Hi Hp) as Hw.
    assert (Hr0 : readers s = 0) by (apply (inv_wr s I); congruence).
    assert (Hw0 : wake c0 = c0).
    { destruct (wake_cases c0) as [(a & g & Hq & _)|[H _]]; [congruence|assumption]. }
    constructor; cbn [cs addr gen writer readers opened log].
    - intros k Hk. discriminate Hk.
    - intros jj cc x a H Hl. destruct (at_reconnect _ _ _ _ _ Hi H) as [[-> ->]|(Hne & c1 & H1 & ->)].
      + cbn in Hl. discriminate.
      + destruct (wake_cases c1) as [(a' & g' & _ & Hq)|[Hq _]]; rewrite Hq in Hl; [cbn in Hl; discriminate|].
        pose proof (inv_w2 s I jj c1 x a H1 Hl). congruence.
    - pose proof (cnt_upd holds_read (List.map wake (cs s)) i (set_pc Repeat) (wake c0)) as Hc.
      rewrite nth_error_map, Hi in Hc. specialize (Hc eq_refl).
      rewrite (cnt_map holds_read wake (cs s) wake_read) in Hc.
      rewrite Hw0 in Hc.
      assert (Hr1 : holds_read c0 = false) by (unfold holds_read; now rewrite Hp).
      assert (Hr2 : holds_read (set_pc Repeat c0) = false) by reflexivity.
      rewrite Hr1, Hr2 in Hc. pose proof (inv_r s I). lia.
    - intros Hk. now destruct Hk.
    - intros jj cc a H Hs. exfalso. destruct (at_reconnect _ _ _ _ _ Hi H) as [[-> ->]|(Hne & c1 & H1 & ->)].
      + cbn in Hs. discriminate.
      + assert (Hrd : holds_read c1 = false).
        { apply (cnt_zero holds_read (cs s) jj c1); [|assumption]. rewrite <- (inv_r s I). assumption. }
        rewrite <- wake_read in Hrd. unfold holds_read in Hrd. rewrite Hs in Hrd. discriminate.
    - intros jj cc a g H Hs. exfalso. destruct (at_reconnect _ _ _ _ _ Hi H) as [[-> ->]|(Hne & c1 & H1 & ->)].
      + cbn in Hs. discriminate.
      + destruct (wake_cases c1) as [(a' & g' & _ & Hq)|[Hq Hn]]; rewrite Hq in Hs; [cbn in Hs; discriminate|].
        exact (Hn a g Hs).
    - intros jj cc x a H Hs. destruct (at_reconnect _ _ _ _ _ Hi H) as [[-> ->]|(Hne & c1 & H1 & ->)].
      + cbn in Hs. destruct Hs; discriminate.
      + destruct (wake_cases c1) as [(a' & g' & _ & Hq)|[Hq _]]; rewrite Hq in Hs;
          [cbn in Hs; destruct Hs; discriminate|]. exact (inv_red s I jj c1 x a H1 Hs).
    - intros jj cc a H Hs. destruct (at_reconnect _ _ _ _ _ Hi H) as [[-> ->]|(Hne & c1 & H1 & ->)].
      + cbn in Hs. discriminate.
      + destruct (wake_cases c1) as [(a' & g' & _ & Hq)|[Hq _]]; rewrite Hq in Hs; [cbn in Hs; discriminate|].
        exact (inv_done s I jj c1 a H1 Hs).
    - intros jj cc H. destruct (at_reconnect _ _ _ _ _ Hi H) as [[-> ->]|(Hne & c1 & H1 & ->)].
      + rewrite Hw0. pose proof (inv_count s I i c0 Hi) as Hc. rewrite Hp in Hc.
        cbn [set_pc c_pc c_redir c_woken owes] in *. lia.
      + pose proof (inv_count s I jj c1 H1) as Hc.
        destruct (wake_cases c1) as [(a' & g' & Hq1 & Hq)|[Hq _]]; rewrite Hq; [|assumption].
        rewrite Hq1 in Hc. cbn [c_pc c_redir c_woken owes] in *. lia.
    - intros a k Hin. rewrite upd_len, map_length. exact (inv_log s I a k Hin).
  Qed.

  Lemma inv_step s l s' : step s l = Some s' -> Inv s -> Inv s'.
  Proof.
    destruct l; [apply inv_send|apply inv_runlock|apply inv_answer|apply inv_lock|apply inv_skip|apply inv_reconnect].
  Qed.

  Lemma inv_run ls : forall s s', run s ls = Some s' -> Inv s -> Inv s'.
  Proof.
    induction ls as [|l ls IH]; intros s s' H I; cbn [Migrate.run] in H.
    - now injection H as <-.
    - destruct (step s l) as [s1|] eqn:E; [|discriminate]. eapply IH; [eassumption|]. eapply inv_step; eassumption.
  Qed.

  Lemma inv_reachable k a0 s : reachable pol dcs k a0 s -> Inv s.
  Proof. intros [ls H]. eapply inv_run; [eassumption|apply inv_init]. Qed.

  (* ---- (a) mutual exclusion ---- *)

  Lemma write_lock_unique s i j ci cj x a y b :
    Inv s -> at_ s i ci -> c_pc ci = Locked x a -> at_ s j cj -> c_pc cj = Locked y b -> i = j.
  Proof.
    intros I Hi Hpi Hj Hpj. pose proof (inv_w2 s I i ci x a Hi Hpi). pose proof (inv_w2 s I j cj y b Hj Hpj). congruence.
  Qed.

  Lemma no_send_during_reconnect s i ci x a :
    Inv s -> at_ s i ci -> c_pc ci = Locked x a ->
    (forall k ck b, at_ s k ck -> c_pc ck <> Sending b) /\
    (forall k, step s (LSend k) = None) /\
    (forall k, k <> i -> step s (LLock k) = None /\ step s (LSkip k) = None /\ step s (LReconnect k) = None).
  Proof.
    intros I Hi Hp. pose proof (inv_w2 s I i ci x a Hi Hp) as Hw.
    assert (Hr : readers s = 0) by (apply (inv_wr s I); congruence).
    split; [|split].
    - intros k ck b Hk Hs. assert (Hf : holds_read ck = false).
      { apply (cnt_zero holds_read (cs s) k ck); [|assumption]. now rewrite <- (inv_r s I). }
      unfold holds_read in Hf. rewrite Hs in Hf. discriminate.
    - intros k. unfold Migrate.step. rewrite Hw. destruct (nth_error (cs s) k); reflexivity.
    - intros k Hk. unfold Migrate.step. rewrite Hw. repeat split.
      + destruct (nth_error (cs s) k); reflexivity.
      + destruct (nth_error (cs s) k) as [ck|] eqn:E; [|reflexivity].
        destruct (c_pc ck) eqn:Ep; try reflexivity. exfalso. apply Hk.
        pose proof (inv_w2 s I k ck x0 a0 E Ep). congruence.
      + destruct (nth_error (cs s) k) as [ck|] eqn:E; [|reflexivity].
        destruct (c_pc ck) eqn:Ep; try reflexivity. exfalso. apply Hk.
        pose proof (inv_w2 s I k ck x0 a0 E Ep). congruence.
  Qed.

  (* no caller is left waiting on a closed connection (what fix 7ef7af4 is about) *)
  Lemma no_orphans s j c a g : Inv s -> at_ s j c -> c_pc c = Waiting a g -> a = addr s /\ g = gen s.
  Proof. intros I H Hp. destruct (inv_waiting s I j c a g H Hp) as (? & ? & _). auto. Qed.

  (* ---- (d) deadlock freedom ---- *)

  Lemma en_send s i c : at_ s i c -> (c_pc c = Idle \/ c_pc c = Repeat) -> writer s = None ->
    exists s', step s (LSend i) = Some s'.
  Proof. unfold at_, Migrate.step. intros -> Hp ->. destruct Hp as [-> | ->]; eauto. Qed.

  Lemma en_runlock s i c a : at_ s i c -> c_pc c = Sending a -> exists s', step s (LRUnlock i) = Some s'.
  Proof. unfold at_, Migrate.step. intros -> ->. eauto. Qed.

  Lemma en_answer s i c a : at_ s i c -> c_pc c = Waiting a (gen s) -> exists s', step s (LAnswer i) = Some s'.
  Proof. unfold at_, Migrate.step. intros -> ->. rewrite Nat.eqb_refl. eauto. Qed.

  Lemma en_lock s i c x a : at_ s i c -> c_pc c = Redirected x a -> writer s = None -> readers s = 0 ->
    exists s', step s (LLock i) = Some s'.
  Proof. unfold at_, Migrate.step. intros -> -> -> ->. eauto. Qed.

  Lemma en_locked s i c x a : at_ s i c -> c_pc c = Locked x a ->
    exists l s', (l = LSkip i \/ l = LReconnect i) /\ step s l = Some s'.
  Proof.
    unfold at_. intros Hi Hp. destruct (already_moved dcs s x a) eqn:E.
    - exists (LSkip i). unfold Migrate.step. rewrite Hi, Hp, E. eauto.
    - exists (LReconnect i). unfold Migrate.step. rewrite Hi, Hp, E. eauto.
  Qed.

  (* every caller that is not done can move, or waits for the lock whose holder can move *)
  Lemma progress s i c : Inv s -> at_ s i c -> is_done c = false ->
    exists j l s', actor l = j /\ step s l = Some s' /\
      (j = i \/ (exists cj, at_ s j cj /\ (holds_write cj = true \/ holds_read cj = true))).
  Proof.
    intros I Hi Hd.
    assert (Hheld : forall k, writer s = Some k -> exists j l s', actor l = j /\ step s l = Some s' /\
              (j = i \/ (exists cj, at_ s j cj /\ (holds_write cj = true \/ holds_read cj = true)))).
    { intros k Hk. destruct (inv_w1 s I k Hk) as (ck & x & a & Hck & Hpk).
      destruct (en_locked s k ck x a Hck Hpk) as (l & s' & Hl & Hs).
      exists k, l, s'. split; [destruct Hl as [-> | ->]; reflexivity|]. split; [assumption|].
      right. exists ck. split; [assumption|]. left. unfold holds_write. now rewrite Hpk. }
    assert (Hreaders : readers s <> 0 -> exists j l s', actor l = j /\ step s l = Some s' /\
              (j = i \/ (exists cj, at_ s j cj /\ (holds_write cj = true \/ holds_read cj = true)))).
    { intros Hr. rewrite (inv_r s I) in Hr. destruct (cnt_pos holds_read (cs s) Hr) as (k & ck & Hck & Hrd).
      unfold holds_read in Hrd. destruct (c_pc ck) eqn:Epk; try discriminate.
      destruct (en_runlock s k ck a Hck Epk) as (s' & Hs).
      exists k, (LRUnlock k), s'. repeat split; [assumption|]. right. exists ck. split; [assumption|]. right.
      unfold holds_read. now rewrite Epk. }
    unfold is_done in Hd. destruct (c_pc c) eqn:Ep; try discriminate.
    - destruct (writer s) as [k|] eqn:Ew; [now apply (Hheld k)|].
      destruct (en_send s i c Hi (or_introl Ep) Ew) as (s' & Hs). exists i, (LSend i), s'. auto.
    - destruct (writer s) as [k|] eqn:Ew; [now apply (Hheld k)|].
      destruct (en_send s i c Hi (or_intror Ep) Ew) as (s' & Hs). exists i, (LSend i), s'. auto.
    - destruct (en_runlock s i c a Hi Ep) as (s' & Hs). exists i, (LRUnlock i), s'. auto.
    - destruct (inv_waiting s I i c a g Hi Ep) as (_ & -> & _).
      destruct (en_answer s i c a Hi Ep) as (s' & Hs). exists i, (LAnswer i), s'. auto.
    - destruct (writer s) as [k|] eqn:Ew; [now apply (Hheld k)|].
      destruct (Nat.eq_dec (readers s) 0) as [Hr|Hr]; [|now apply Hreaders].
      destruct (en_lock s i c x a Hi Ep Ew Hr) as (s' & Hs). exists i, (LLock i), s'. auto.
    - destruct (en_locked s i c x a Hi Ep) as (l & s' & Hl & Hs).
      exists i, l, s'. split; [destruct Hl as [-> | ->]; reflexivity|]. auto.
  Qed.

  Lemma not_all_done s : all_done s = false -> exists i c, at_ s i c /\ is_done c = false.
  Proof.
    unfold all_done, at_. induction (cs s) as [|c l IH]; cbn [forallb]; [discriminate|].
    destruct (is_done c) eqn:E; cbn [andb].
    - intros H. destruct (IH H) as (i & c' & H1 & H2). exists (S i), c'. auto.
    - intros _. exists 0, c. auto.
  Qed.

  Lemma deadlock_free s : Inv s -> all_done s = false -> exists l s', step s l = Some s'.
  Proof.
    intros I H. destruct (not_all_done s H) as (i & c & Hi & Hd).
    destruct (progress s i c I Hi Hd) as (j & l & s' & _ & Hs & _). eauto.
  Qed.

  (* ---- (d) termination: a measure that every step decreases ---- *)

  (* every data centre a request is redirected to serves all callers *)
  Definition targets_serve (k : nat) : Prop :=
    forall a i x, i < k -> pol a i = Some x -> serves_all pol k (dcs x) = true.

  Lemma redirecting_is_bad k a i x : i < k -> pol a i = Some x -> serves_all pol k a = false.
  Proof.
    intros Hi Hp. destruct (serves_all pol k a) eqn:E; [|reflexivity]. unfold serves_all in E.
    rewrite forallb_forall in E. specialize (E i). rewrite Hp in E.
    assert (Hin : In i (seq 0 k)) by (apply in_seq; lia). specialize (E Hin). discriminate E.
  Qed.

  Lemma weight_set k a p c : weight pol k a (set_pc p c) =
    own (negb (serves_all pol k a)) (fun b => negb (serves_all pol k b)) p +
    (2 * k + 1) * pot (negb (serves_all pol k a)) (fun b => negb (serves_all pol k b)) p.
  Proof. reflexivity. Qed.

  Lemma weight_pc k a c : weight pol k a c =
    own (negb (serves_all pol k a)) (fun b => negb (serves_all pol k b)) (c_pc c) +
    (2 * k + 1) * pot (negb (serves_all pol k a)) (fun b => negb (serves_all pol k b)) (c_pc c).
  Proof. reflexivity. Qed.

  (* a step that changes one caller only *)
  Lemma measure_local s s' i c0 f :
    nth_error (cs s) i = Some c0 -> cs s' = upd (cs s) i f -> addr s' = addr s ->
    weight pol (length (cs s)) (addr s) (f c0) < weight pol (length (cs s)) (addr s) c0 ->
    measure pol s' < measure pol s.
  Proof.
    intros Hi Hcs Ha Hw. unfold measure. rewrite Hcs, Ha, upd_len.
    pose proof (sum_upd (weight pol (length (cs s)) (addr s)) (cs s) i f c0 Hi). lia.
  Qed.

  Lemma wake_weight k a b c : serves_all pol k b = true ->
    weight pol k b (wake c) <= weight pol k a c + 2.
  Proof.
    intros Hb. destruct (wake_cases c) as [(a' & g' & Hp & ->)|[-> _]].
    - rewrite (weight_pc k a c), Hp. unfold weight. cbn [c_pc own pot]. rewrite Hb. cbn [negb].
      destruct (negb (serves_all pol k a')); lia.
    - rewrite (weight_pc k a c), (weight_pc k b c). rewrite Hb. cbn [negb].
      destruct (c_pc c); cbn [own pot]; try lia; destruct (negb (serves_all pol k a)); lia.
  Qed.

  Lemma measure_step s l s' :
    Inv s -> targets_serve (length (cs s)) -> step s l = Some s' -> measure pol s' < measure pol s.
  Proof.
    intros I HT H. destruct l as [i|i|i|i|i|i].
    - apply step_send in H. destruct H as (c0 & Hi & Hp & Hw & ->).
      eapply (measure_local s _ i c0 (set_pc (Sending (addr s)))); [exact Hi|reflexivity|reflexivity|].
      rewrite weight_set, weight_pc. cbn [own pot].
      destruct Hp as [-> | ->]; cbn [own pot]; destruct (negb (serves_all pol (length (cs s)) (addr s))); lia.
    - apply step_runlock in H. destruct H as (c0 & a0 & Hi & Hp & ->).
      eapply (measure_local s _ i c0 (set_pc (Waiting a0 (gen s)))); [exact Hi|reflexivity|reflexivity|].
      rewrite weight_set, weight_pc, Hp. cbn [own pot].
      destruct (negb (serves_all pol (length (cs s)) a0)); lia.
    - apply step_answer in H. destruct H as (c0 & a0 & Hi & Hp & ->).
      eapply (measure_local s _ i c0); [exact Hi|reflexivity|reflexivity|].
      rewrite (weight_pc _ _ c0), Hp. cbn [own pot].
      destruct (pol a0 i) as [x|] eqn:E.
      + rewrite (redirecting_is_bad _ a0 i x (nth_error_lt _ _ _ Hi) E). cbn [negb].
        unfold weight, redirect. cbn [c_pc own pot]. lia.
      + rewrite weight_set. cbn [own pot]. destruct (negb (serves_all pol (length (cs s)) a0)); lia.
    - apply step_lock in H. destruct H as (c0 & x0 & a0 & Hi & Hp & Hw & Hr & ->).
      eapply (measure_local s _ i c0 (set_pc (Locked x0 a0))); [exact Hi|reflexivity|reflexivity|].
      rewrite weight_set, weight_pc, Hp. cbn [own pot]. lia.
    - apply step_skip in H. destruct H as (c0 & x0 & a0 & Hi & Hp & Hm & ->).
      eapply (measure_local s _ i c0 (set_pc Repeat)); [exact Hi|reflexivity|reflexivity|].
      rewrite weight_set, weight_pc, Hp. cbn [own pot].
      unfold already_moved in Hm. apply andb_true_iff in Hm. destruct Hm as [Hm _]. apply Nat.eqb_eq in Hm.
      rewrite Hm. rewrite (HT a0 i x0 (nth_error_lt _ _ _ Hi) (inv_red s I i c0 x0 a0 Hi (or_intror Hp))).
      cbn [negb]. lia.
    - apply step_reconnect in H. destruct H as (c0 & x0 & a0 & Hi & Hp & Hm & ->).
      pose proof (HT a0 i x0 (nth_error_lt _ _ _ Hi) (inv_red s I i c0 x0 a0 Hi (or_intror Hp))) as Hgood.
      assert (Hw0 : wake c0 = c0).
      { destruct (wake_cases c0) as [(a & g & Hq & _)|[H _]]; [congruence|assumption]. }
      unfold measure. cbn [cs addr]. rewrite upd_len, map_length.
      set (K := length (cs s)) in *. set (w' := weight pol K (dcs x0)). set (w := weight pol K (addr s)).
      assert (Hi' : nth_error (List.map wake (cs s)) i = Some c0) by (rewrite nth_error_map, Hi; cbn; now rewrite Hw0).
      pose proof (sum_upd w' (List.map wake (cs s)) i (set_pc Repeat) c0 Hi') as Hs.
      pose proof (sum_le w w' wake (cs s) 2 (fun c => wake_weight K (addr s) (dcs x0) c Hgood)) as Hle.
      assert (H1 : w' (set_pc Repeat c0) = 3).
      { unfold w'. rewrite weight_set, Hgood. cbn [negb own pot]. lia. }
      assert (H2 : w' c0 = 4 + (2 * K + 1)).
      { unfold w'. rewrite weight_pc, Hp. cbn [own pot]. lia. }
      change (length (cs s)) with K in Hle. lia.
  Qed.

  Lemma step_length s l s' : step s l = Some s' -> length (cs s') = length (cs s).
  Proof.
    intros H. destruct l; [apply step_send in H; destruct H as (? & ? & ? & ? & ->)
                          |apply step_runlock in H; destruct H as (? & ? & ? & ? & ->)
                          |apply step_answer in H; destruct H as (? & ? & ? & ? & ->)
                          |apply step_lock in H; destruct H as (? & ? & ? & ? & ? & ? & ? & ->)
                          |apply step_skip in H; destruct H as (? & ? & ? & ? & ? & ? & ->)
                          |apply step_reconnect in H; destruct H as (? & ? & ? & ? & ? & ? & ->)];
      cbn [cs]; rewrite upd_len; try rewrite map_length; reflexivity.
  Qed.

  (* every execution is finite: at most [measure] steps from any state satisfying the invariants *)
  Lemma run_bounded ls : forall s s', Inv s -> targets_serve (length (cs s)) -> run s ls = Some s' ->
    length ls + measure pol s' <= measure pol s.
  Proof.
    induction ls as [|l ls IH]; intros s s' I HT H; cbn [Migrate.run] in H.
    - injection H as <-. cbn [length]. lia.
    - destruct (step s l) as [s1|] eqn:E; [|discriminate].
      pose proof (measure_step s l s1 I HT E) as Hm.
      assert (HT1 : targets_serve (length (cs s1))) by (rewrite (step_length s l s1 E); assumption).
      specialize (IH s1 s' (inv_step s l s1 E I) HT1 H). cbn [length]. lia.
  Qed.

  (* ---- (b), (c) for equal X: every redirect names the data centre at t, which serves everybody ---- *)

  Section EqualX.
    Variables t a0 : nat.
    Hypothesis to_t : forall a i x, pol a i = Some x -> dcs x = t.
    Hypothesis t_serves : forall i, pol t i = None.
    Hypothesis start_elsewhere : a0 <> t.

    Definition at_t (p : pc) : nat :=
      match p with
      | Sending a | Waiting a _ | Done a => if Nat.eqb a t then 1 else 0
      | _ => 0
      end.

    Record EInv (s : st) : Prop := {
      e_shape : (opened s = [] /\ addr s = a0) \/ (opened s = [t] /\ addr s = t);
      e_redir : forall j c, at_ s j c -> c_redir c > 0 ->
                            (exists x a, c_pc c = Redirected x a \/ c_pc c = Locked x a) \/ opened s = [t];
      e_recv : forall j c, at_ s j c -> received t j (log s) = at_t (c_pc c)
    }.

    Lemma redirected_elsewhere a i x : pol a i = Some x -> a <> t.
    Proof. intros H ->. rewrite t_serves in H. discriminate. Qed.

    Lemma einv_init k : EInv (init k a0).
    Proof.
      constructor.
      - left. auto.
      - intros j c H Hr. unfold at_, init in H. cbn [cs] in H. apply nth_repeat in H. subst c. cbn in Hr. lia.
      - intros j c H. unfold at_, init in H. cbn [cs] in H. apply nth_repeat in H. subst c. reflexivity.
    Qed.

    Lemma einv_step s l s' : Inv s -> EInv s -> step s l = Some s' -> EInv s'.
    Proof.
      intros I E H. destruct l as [i|i|i|i|i|i].
      - apply step_send in H. destruct H as (c0 & Hi & Hp & Hw & ->).
        constructor; cbn [cs addr gen writer readers opened log].
        + exact (e_shape s E).
        + intros jj cc H Hr. new_at H Hi.
          * cbn [set_pc c_redir] in Hr. destruct (e_redir s E i c0 Hi Hr) as [(x & a & [Hq|Hq])|Hq]; auto;
              destruct Hp as [Hp|Hp]; congruence.
          * exact (e_redir s E jj cc H Hr).
        + intros jj cc H. rewrite received_app. new_at H Hi.
          * rewrite Nat.eqb_refl, andb_true_r. rewrite (e_recv s E i c0 Hi).
            cbn [set_pc c_pc at_t]. destruct Hp as [-> | ->]; cbn [at_t]; destruct (Nat.eqb (addr s) t); lia.
          * rewrite (e_recv s E jj cc H). destruct (Nat.eqb_spec i jj); [congruence|]. rewrite andb_false_r. lia.
      - apply step_runlock in H. destruct H as (c0 & a1 & Hi & Hp & ->).
        constructor; cbn [cs addr gen writer readers opened log].
        + exact (e_shape s E).
        + intros jj cc H Hr. new_at H Hi.
          * cbn [set_pc c_redir] in Hr. destruct (e_redir s E i c0 Hi Hr) as [(x & a & [Hq|Hq])|Hq]; auto; congruence.
          * exact (e_redir s E jj cc H Hr).
        + intros jj cc H. new_at H Hi.
          * rewrite (e_recv s E i c0 Hi), Hp. reflexivity.
          * exact (e_recv s E jj cc H).
      - apply step_answer in H. destruct H as (c0 & a1 & Hi & Hp & ->).
        constructor; cbn [cs addr gen writer readers opened log].
        + exact (e_shape s E).
        + intros jj cc H Hr. new_at H Hi.
          * destruct (pol a1 i) as [x|] eqn:Ep.
            -- left. exists x, a1. left. reflexivity.
            -- cbn [set_pc c_redir] in Hr. destruct (e_redir s E i c0 Hi Hr) as [(x & a & [Hq|Hq])|Hq]; auto; congruence.
          * exact (e_redir s E jj cc H Hr).
        + intros jj cc H. new_at H Hi.
          * rewrite (e_recv s E i c0 Hi), Hp. destruct (pol a1 i) as [x|] eqn:Ep; [|reflexivity].
            cbn [redirect c_pc at_t]. destruct (Nat.eqb_spec a1 t) as [->|]; [|reflexivity].
            now apply redirected_elsewhere in Ep.
          * exact (e_recv s E jj cc H).
      - apply step_lock in H. destruct H as (c0 & x0 & a1 & Hi & Hp & Hw & Hr0 & ->).
        constructor; cbn [cs addr gen writer readers opened log].
        + exact (e_shape s E).
        + intros jj cc H Hr. new_at H Hi; [left; exists x0, a1; right; reflexivity|].
          exact (e_redir s E jj cc H Hr).
        + intros jj cc H. new_at H Hi.
          * rewrite (e_recv s E i c0 Hi), Hp. reflexivity.
          * exact (e_recv s E jj cc H).
      - apply step_skip in H. destruct H as (c0 & x0 & a1 & Hi & Hp & Hm & ->).
        assert (Hopen : opened s = [t]).
        { unfold already_moved in Hm. apply andb_true_iff in Hm. destruct Hm as [Hm _]. apply Nat.eqb_eq in Hm.
          rewrite (to_t a1 i x0 (inv_red s I i c0 x0 a1 Hi (or_intror Hp))) in Hm.
          destruct (e_shape s E) as [[_ Ha]|[Ho _]]; [congruence|assumption]. }
        constructor; cbn [cs addr gen writer readers opened log].
        + exact (e_shape s E).
        + intros jj cc H Hr. auto.
        + intros jj cc H. new_at H Hi.
          * rewrite (e_recv s E i c0 Hi), Hp. reflexivity.
          * exact (e_recv s E jj cc H).
      - apply step_reconnect in H. destruct H as (c0 & x0 & a1 & Hi & Hp & Hm & ->).
        pose proof (inv_red s I i c0 x0 a1 Hi (or_intror Hp)) as Hpol.
        pose proof (to_t a1 i x0 Hpol) as Hx. pose proof (redirected_elsewhere a1 i x0 Hpol) as Ha1.
        assert (Hold : opened s = [] /\ addr s = a0).
        { destruct (e_shape s E) as [Hs|[_ Ha]]; [assumption|]. exfalso.
          unfold already_moved in Hm. rewrite Hx, Ha, Nat.eqb_refl in Hm.
          destruct (Nat.eqb_spec a1 t); [contradiction|discriminate]. }
        destruct Hold as [Ho Ha].
        assert (Hw0 : wake c0 = c0).
        { destruct (wake_cases c0) as [(a & g & Hq & _)|[H _]]; [congruence|assumption]. }
        constructor; cbn [cs addr gen writer readers opened log].
        + right. rewrite Ho, Hx. auto.
        + intros jj cc H Hr. right. now rewrite Ho, Hx.
        + intros jj cc H. destruct (at_reconnect _ _ _ _ _ Hi H) as [[-> ->]|(Hne & c1 & H1 & ->)].
          * rewrite (e_recv s E i c0 Hi), Hp. reflexivity.
          * rewrite (e_recv s E jj c1 H1).
            destruct (wake_cases c1) as [(a' & g' & Hq1 & Hq)|[Hq _]]; rewrite Hq; [|reflexivity].
            rewrite Hq1. cbn [c_pc at_t]. destruct (inv_waiting s I jj c1 a' g' H1 Hq1) as (-> & _ & _).
            rewrite Ha. destruct (Nat.eqb_spec a0 t); [contradiction|reflexivity].
    Qed.

    Lemma einv_run ls : forall s s', Inv s -> EInv s -> run s ls = Some s' -> EInv s'.
    Proof.
      induction ls as [|l ls IH]; intros s s' I E H; cbn [Migrate.run] in H.
      - now injection H as <-.
      - destruct (step s l) as [s1|] eqn:Es; [|discriminate].
        exact (IH s1 s' (inv_step s l s1 Es I) (einv_step s l s1 I E Es) H).
    Qed.

    Lemma einv_reachable k s : reachable pol dcs k a0 s -> EInv s.
    Proof. intros [ls H]. eapply einv_run; [apply inv_init|apply einv_init|eassumption]. Qed.

    (* (b) however many callers were redirected: one connection to t, none anywhere else *)
    Lemma one_connection k s : reachable pol dcs k a0 s ->
      connections t s <= 1 /\ (forall a, a <> t -> connections a s = 0) /\
      (forall j c, at_ s j c -> c_redir c > 0 -> is_done c = true -> connections t s = 1).
    Proof.
      intros R. pose proof (einv_reachable k s R) as E. unfold connections.
      destruct (e_shape s E) as [[Ho _]|[Ho _]]; rewrite Ho; cbn [count_occ].
      - split; [lia|]. split; [reflexivity|]. intros j c H Hr Hd.
        destruct (e_redir s E j c H Hr) as [(x & a & [Hq|Hq])|Hq].
        + unfold is_done in Hd. rewrite Hq in Hd. discriminate.
        + unfold is_done in Hd. rewrite Hq in Hd. discriminate.
        + congruence.
      - destruct (Nat.eq_dec t t) as [_|Hn]; [|contradiction]. split; [lia|]. split; [|reflexivity].
        intros a Ha. destruct (Nat.eq_dec t a); [congruence|reflexivity].
    Qed.

    (* (c) the data centre at t receives the request of a caller at most once, and exactly once if it is
       the one that answered it *)
    Lemma received_once k s j c : reachable pol dcs k a0 s -> at_ s j c ->
      received t j (log s) <= 1 /\ (c_pc c = Done t -> received t j (log s) = 1).
    Proof.
      intros R H. pose proof (einv_reachable k s R) as E. rewrite (e_recv s E j c H). split.
      - destruct (c_pc c); cbn [at_t]; try lia; destruct (Nat.eqb a t); lia.
      - intros ->. cbn [at_t]. now rewrite Nat.eqb_refl.
    Qed.
  End EqualX.

  (* ---- statements over reachable states ---- *)

  Lemma init_length k a0 : length (cs (init k a0)) = k.
  Proof. unfold init. cbn [cs]. apply repeat_length. Qed.

  Lemma run_length ls : forall s s', run s ls = Some s' -> length (cs s') = length (cs s).
  Proof.
    induction ls as [|l ls IH]; intros s s' H; cbn [Migrate.run] in H.
    - now injection H as <-.
    - destruct (step s l) as [s1|] eqn:E; [|discriminate]. rewrite (IH s1 s' H). exact (step_length s l s1 E).
  Qed.

  Lemma reachable_length k a0 s : reachable pol dcs k a0 s -> length (cs s) = k.
  Proof. intros [ls H]. rewrite (run_length ls _ _ H). apply init_length. Qed.

  Theorem mutual_exclusion k a0 s i ci x a :
    reachable pol dcs k a0 s -> at_ s i ci -> c_pc ci = Locked x a ->
    (forall j cj y b, at_ s j cj -> c_pc cj = Locked y b -> j = i) /\
    (forall j cj b, at_ s j cj -> c_pc cj <> Sending b) /\
    (forall j, step s (LSend j) = None) /\
    (forall j, j <> i -> step s (LLock j) = None /\ step s (LSkip j) = None /\ step s (LReconnect j) = None).
  Proof.
    intros R Hi Hp. pose proof (inv_reachable k a0 s R) as I.
    destruct (no_send_during_reconnect s i ci x a I Hi Hp) as (H1 & H2 & H3).
    split; [|split; [exact H1|split; [exact H2|exact H3]]].
    intros j cj y b Hj Hq. symmetry. exact (write_lock_unique s i j ci cj x a y b I Hi Hp Hj Hq).
  Qed.

  Theorem accounting k a0 s : reachable pol dcs k a0 s ->
    (forall a i, In (a, i) (log s) -> i < k) /\
    (forall j c, at_ s j c ->
       sent j (log s) + owes (c_pc c) = 1 + c_redir c + c_woken c /\
       (forall a g, c_pc c = Waiting a g -> a = addr s /\ g = gen s /\ last_to j (log s) = Some a) /\
       (forall a, c_pc c = Done a -> pol a j = None /\ last_to j (log s) = Some a)).
  Proof.
    intros R. pose proof (inv_reachable k a0 s R) as I. split.
    - intros a i Hin. rewrite <- (reachable_length k a0 s R). exact (inv_log s I a i Hin).
    - intros j c H. split; [exact (inv_count s I j c H)|]. split.
      + intros a g Hp. exact (inv_waiting s I j c a g H Hp).
      + intros a Hp. exact (inv_done s I j c a H Hp).
  Qed.

  Theorem no_caller_stuck k a0 s i c : reachable pol dcs k a0 s -> at_ s i c -> is_done c = false ->
    exists j l s', actor l = j /\ step s l = Some s' /\
      (j = i \/ (exists cj, at_ s j cj /\ (holds_write cj = true \/ holds_read cj = true))).
  Proof. intros R. apply progress. exact (inv_reachable k a0 s R). Qed.

  (* every execution from the start is finite, and it can only end with everybody done;
     a caller that is done has the result of the data centre that received its last request *)
  Theorem terminates k a0 : targets_serve k ->
    (forall ls s, run (init k a0) ls = Some s -> length ls + measure pol s <= measure pol (init k a0)) /\
    (forall s, reachable pol dcs k a0 s -> (forall l, step s l = None) -> all_done s = true) /\
    (forall s j c a, reachable pol dcs k a0 s -> at_ s j c -> c_pc c = Done a ->
                     pol a j = None /\ last_to j (log s) = Some a /\ sent j (log s) = 1 + c_redir c + c_woken c).
  Proof.
    intros HT. split; [|split].
    - intros ls s H. apply run_bounded; [apply inv_init|now rewrite init_length|assumption].
    - intros s R Hstuck. destruct (all_done s) eqn:E; [reflexivity|].
      destruct (deadlock_free s (inv_reachable k a0 s R) E) as (l & s' & Hs). rewrite Hstuck in Hs. discriminate.
    - intros s j c a R H Hp. pose proof (inv_reachable k a0 s R) as I.
      destruct (inv_done s I j c a H Hp) as [H1 H2]. pose proof (inv_count s I j c H) as H3.
      rewrite Hp in H3. cbn [owes] in H3. repeat split; auto. lia.
  Qed.
End Proofs.
