(* C19, freshness - model: the OS source as a stream with a position.  A draw of n bytes returns the
   range (pos, n) and advances the position; a consumer hands out (part of) what it drew.
   [fresh_ok] is the executable check run on the ranges recorded from the real code
   (harness/root/cmd/c19 fresh -> gen/DrawLog.v).  No proofs here (Misc/FreshProofs.v). *)
From Coq Require Import NArith List Bool.
Import ListNotations.
Open Scope N_scope.

Definition range := (N * N)%type.            (* offset, length *)
Definition r_end (r : range) : N := fst r + snd r.

(* the source: successive draws of the given sizes starting at position pos *)
Fixpoint draws (pos : N) (sizes : list N) : list range :=
  match sizes with
  | [] => []
  | n :: t => (pos, n) :: draws (pos + n) t
  end.

Definition total (sizes : list N) : N := fold_right N.add 0 sizes.

Definition before (r s : range) : Prop := r_end r <= fst s.
Definition disjoint (r s : range) : Prop := before r s \/ before s r.
Definition inside (r s : range) : Prop := fst s <= fst r /\ r_end r <= r_end s.

(* executable side *)
Definition disjointb (r s : range) : bool := (r_end r <=? fst s) || (r_end s <=? fst r).

Fixpoint pairwiseb (l : list range) : bool :=
  match l with
  | [] => true
  | r :: t => forallb (disjointb r) t && pairwiseb t
  end.

(* every handed-out range lies in the served prefix of the stream and no byte is handed out twice *)
Definition fresh_ok (served : N) (handed : list range) : bool :=
  forallb (fun r => r_end r <=? served) handed && pairwiseb handed.
