(* Proofs about the deeplink model: totality, map-order independence and the
   iff-characterisation of username / invite / error outcomes. *)
From Coq Require Import String.
From Coq Require Import ZArith NArith List Lia ZifyN ZifyNat ZifyBool Bool.
From MTV Require Import Base.Bytes Base.Outcome Base.Str Misc.Deeplink.
Import ListNotations.
Open Scope N_scope.

Lemma firstn_zlen (s : bytes) : firstn (Z.to_nat (zlen s)) s = s.
Proof. unfold zlen. rewrite Nat2Z.id. apply firstn_all. Qed.

Lemma fix_url_host_eff u :
  fix_url_host u = Ok {| u_scheme := u_scheme u; u_host := fst (eff u); u_path := snd (eff u) |}.
Proof.
  destruct u as [sc h p]. unfold fix_url_host, eff. cbn [u_host u_path u_scheme].
  destruct h as [|h0 h]; [|reflexivity].
  destruct p as [|c r]; [reflexivity|].
  unfold s_slash, slash. cbn [has_prefix beq orb].
  destruct (N.eqb_spec c 47) as [->|Hc].
  - cbn. reflexivity.
  - replace (47 =? c) with false by (symmetry; apply N.eqb_neq; congruence).
    cbn [andb orb].
    pose proof (index_byte_range 47 (c :: r)) as Hr.
    set (p := c :: r) in *.
    destruct (Z.ltb_spec (index_byte 47 p) 0) as [Hlt|Hge].
    + rewrite (go_slice_ok p 0 (zlen p)) by (unfold zlen; lia).
      rewrite (go_slice_ok p (zlen p) (zlen p)) by (unfold zlen; lia).
      cbn [obind fst snd]. rewrite Z.sub_0_r, Z.sub_diag. cbn [Z.to_nat skipn firstn].
      rewrite firstn_zlen. reflexivity.
    + rewrite (go_slice_ok p 0 (index_byte 47 p)) by lia.
      rewrite (go_slice_ok p (index_byte 47 p) (zlen p)) by lia.
      cbn [obind fst snd]. rewrite Z.sub_0_r. cbn [Z.to_nat skipn].
      rewrite (firstn_all2 (n:=Z.to_nat (zlen p - index_byte 47 p))); [reflexivity|].
      rewrite skipn_length. unfold zlen in *. lia.
Qed.

Lemma fix_url_host_no_panic u : fix_url_host u <> Panic.
Proof. rewrite fix_url_host_eff. discriminate. Qed.

(* ---- matchPath on the two shipped templates ---- *)

Lemma contains_byte_spec c s : contains_byte c s = true <-> In c s.
Proof.
  unfold contains_byte. rewrite existsb_exists. split.
  - intros [x [Hin Hx]]. apply N.eqb_eq in Hx. now subst.
  - intros H. exists c. split; [assumption|apply N.eqb_refl].
Qed.

Lemma contains_byte_false c s : contains_byte c s = false <-> ~ In c s.
Proof. rewrite <- contains_byte_spec. destruct (contains_byte c s); intuition congruence. Qed.

Lemma strip_prefix_some p s r : strip_prefix p s = Some r <-> s = p ++ r.
Proof.
  revert s; induction p as [|x p IH]; intros s.
  - cbn [strip_prefix app]. split; [intros [= ->]; reflexivity|intros ->; reflexivity].
  - destruct s as [|y s]; cbn [strip_prefix app]; [split; discriminate|].
    destruct (N.eqb_spec x y) as [->|Hn].
    + rewrite IH. split; [intros ->; reflexivity|intros [= ->]; reflexivity].
    + split; [discriminate|intros [= -> _]; congruence].
Qed.

Definition s_joinchat := Eval vm_compute in lit "joinchat".
Definition s_joinchat_sl := Eval vm_compute in lit "joinchat/".
Definition s_var_username := Eval vm_compute in lit "{username}".
Definition s_var_token := Eval vm_compute in lit "{token}".

Lemma match_user path :
  match_path tpl_user path =
  match path with
  | c :: s => if (c =? 47) && negb (contains_byte 47 s) then Some [(k_username, s)] else None
  | [] => None
  end.
Proof.
  destruct path as [|c s]; [reflexivity|].
  unfold match_path.
  change (contains_byte 123 tpl_user || contains_byte 125 tpl_user) with true.
  change (has_prefix s_slash tpl_user) with true.
  change (split_on slash tpl_user) with [[]; s_var_username].
  cbn [negb orb]. unfold s_slash. cbn [has_prefix]. rewrite andb_true_r.
  rewrite (N.eqb_sym 47 c).
  destruct (N.eqb_spec c 47) as [->|Hc]; cbn [negb andb]; [|reflexivity].
  unfold slash. cbn [split_on]. rewrite N.eqb_refl.
  destruct (split_on 47 s) as [|h t] eqn:E; [now apply split_on_nonempty in E|].
  destruct (split_on_inv _ _ _ _ E) as [Hh [[-> ->]|[r [-> Hr]]]].
  - apply contains_byte_false in Hh. rewrite Hh. reflexivity.
  - replace (contains_byte 47 (h ++ 47 :: r)) with true
      by (symmetry; apply contains_byte_spec, in_or_app; right; left; reflexivity).
    cbn [negb length]. destruct t as [|t0 t]; [now apply split_on_nonempty in Hr|reflexivity].
Qed.

Lemma not_in_joinchat : ~ In 47 s_joinchat.
Proof. apply contains_byte_false. reflexivity. Qed.

Lemma match_join path :
  match_path tpl_join path =
  match path with
  | c :: s =>
      if c =? 47 then
        match strip_prefix s_joinchat_sl s with
        | Some t => if negb (contains_byte 47 t) then Some [(k_token, t)] else None
        | None => None
        end
      else None
  | [] => None
  end.
Proof.
  destruct path as [|c s]; [reflexivity|].
  unfold match_path.
  change (contains_byte 123 tpl_join || contains_byte 125 tpl_join) with true.
  change (has_prefix s_slash tpl_join) with true.
  change (split_on slash tpl_join) with [[]; s_joinchat; s_var_token].
  cbn [negb orb]. unfold s_slash. cbn [has_prefix]. rewrite andb_true_r.
  rewrite (N.eqb_sym 47 c).
  destruct (N.eqb_spec c 47) as [->|Hc]; cbn [negb]; [|reflexivity].
  unfold slash. cbn [split_on]. rewrite N.eqb_refl.
  destruct (strip_prefix s_joinchat_sl s) as [t|] eqn:Es.
  - apply strip_prefix_some in Es. subst s.
    change (s_joinchat_sl ++ t) with (s_joinchat ++ 47 :: t).
    rewrite (split_on_app 47 s_joinchat t not_in_joinchat).
    destruct (contains_byte 47 t) eqn:Ec; cbn [negb].
    + apply contains_byte_spec in Ec. apply in_split in Ec. destruct Ec as (a & b & ->).
      assert (Hl : (2 <= length (split_on 47%N (a ++ 47%N :: b)))%nat).
      { clear. induction a as [|x a IH]; cbn [app split_on].
        - rewrite N.eqb_refl. cbn [length]. pose proof (split_on_nonempty 47 b).
          destruct (split_on 47 b); [congruence|cbn [length]; lia].
        - destruct (x =? 47).
          + cbn [length]. destruct (split_on 47 (a ++ 47 :: b)); cbn [length] in *; lia.
          + destruct (split_on 47 (a ++ 47 :: b)); cbn [length] in *; lia. }
      cbn [length]. destruct (split_on 47 (a ++ 47 :: b)) as [|x [|y l]]; cbn [length] in *; try lia.
      reflexivity.
    + apply contains_byte_false in Ec. rewrite (split_on_noc 47 t Ec).
      cbn [length Nat.eqb]. reflexivity.
  - destruct (split_on 47 s) as [|h t] eqn:E; [now apply split_on_nonempty in E|].
    destruct t as [|t1 [|t2 t]]; try reflexivity.
    cbn [length Nat.eqb match_items]. unfold s_lbrace.
    change (has_prefix [123] []) with false. cbn [negb orb].
    change (beq [] []) with true. cbv iota.
    change (has_prefix [123] s_joinchat) with false. cbn [negb orb].
    destruct (beq_spec s_joinchat h) as [<-|Hn]; [|reflexivity].
    exfalso.
    destruct (split_on_inv _ _ _ _ E) as [_ [[Hd _]|[r [-> Hr]]]]; [discriminate|].
    assert (H : strip_prefix s_joinchat_sl (s_joinchat ++ 47 :: r) = Some r) by (apply strip_prefix_some; reflexivity).
    congruence.
Qed.

(* functional specification of the template loop, independent of the map order *)
Definition path_spec (lower : bytes -> bytes) (path : bytes) : outcome link :=
  match path with
  | c :: s =>
      if c =? 47 then
        if negb (contains_byte 47 s) then
          match s with [] => Err | _ :: _ => Ok (Username (lower s)) end
        else
          match strip_prefix s_joinchat_sl s with
          | Some ((_ :: _) as t) => if negb (contains_byte 47 t) then Ok (Invite t) else Err
          | _ => Err
          end
      else Err
  | [] => Err
  end.

Ltac tt_fin :=
  unfold conv_join, conv_user; cbn [lookup];
  change (beq k_token k_token) with true; change (beq k_username k_username) with true; cbv iota;
  repeat match goal with
         | |- context [match ?t with [] => _ | _ :: _ => _ end] => is_var t; destruct t
         end;
  repeat match goal with
         | |- context [contains_byte 47 ?t] => destruct (contains_byte 47 t)
         end;
  cbn [negb]; reflexivity.

Lemma try_templates_spec lower ord path :
  try_templates (templates lower ord) path = path_spec lower path.
Proof.
  unfold path_spec.
  destruct ord; cbn [templates try_templates]; rewrite match_user, match_join;
  destruct path as [|c s]; try reflexivity;
  destruct (N.eqb_spec c 47) as [->|Hc]; cbn [andb]; try reflexivity.
  - destruct (strip_prefix s_joinchat_sl s) as [t|] eqn:Es.
    + apply strip_prefix_some in Es. subst s.
      replace (contains_byte 47 (s_joinchat_sl ++ t)) with true
        by (symmetry; apply contains_byte_spec; apply in_or_app; left; apply contains_byte_spec; reflexivity).
      cbn [negb]. tt_fin.
    + tt_fin.
  - destruct (contains_byte 47 s) eqn:Ec; cbn [negb].
    + destruct (strip_prefix s_joinchat_sl s) as [t|] eqn:Es; [|reflexivity]. tt_fin.
    + tt_fin.
Qed.

Lemma cons_app_inj (p a b : bytes) (c : N) : c :: p ++ a = c :: p ++ b -> a = b.
Proof. intros H. apply (f_equal (@tl _)) in H. cbn [tl] in H. now apply app_inv_head in H. Qed.

Section Main.
  Variable lower : bytes -> bytes.
  Variable hosts : list bytes.

  Lemma resolve_spec ord u :
    resolve lower hosts ord u =
    if http_scheme (u_scheme u) then
      if list_contains hosts (hostname (fst (eff u))) then path_spec lower (snd (eff u)) else Err
    else Err.
  Proof.
    unfold resolve, resolve_http. destruct (http_scheme (u_scheme u)); [|reflexivity].
    rewrite fix_url_host_eff. cbn [obind u_host u_path].
    destruct (list_contains hosts (hostname (fst (eff u)))); cbn [negb]; [|reflexivity].
    apply try_templates_spec.
  Qed.

  Lemma resolve_total ord u : resolve lower hosts ord u <> Panic.
  Proof.
    rewrite resolve_spec. destruct (http_scheme _); [|discriminate].
    destruct (list_contains _ _); [|discriminate].
    unfold path_spec. destruct (snd (eff u)) as [|c s]; [discriminate|].
    destruct (c =? 47); [|discriminate].
    destruct (negb (contains_byte 47 s)).
    - destruct s; discriminate.
    - destruct (strip_prefix s_joinchat_sl s) as [[|? ?]|]; try discriminate.
      destruct (negb _); discriminate.
  Qed.

  Lemma resolve_order_independent u : resolve lower hosts true u = resolve lower hosts false u.
  Proof. now rewrite !resolve_spec. Qed.

  Definition good_scheme (s : bytes) : Prop := s = [] \/ s = s_http \/ s = s_https.

  Lemma http_scheme_spec s : http_scheme s = true <-> good_scheme s.
  Proof.
    unfold http_scheme, good_scheme. rewrite !orb_true_iff, !beq_eq. intuition.
  Qed.

  Lemma resolve_username_iff ord u d :
    resolve lower hosts ord u = Ok (Username d) <->
    good_scheme (u_scheme u) /\ In (hostname (fst (eff u))) hosts /\
    exists s, snd (eff u) = 47 :: s /\ s <> [] /\ ~ In 47 s /\ d = lower s.
  Proof.
    rewrite resolve_spec, <- http_scheme_spec, <- list_contains_spec.
    destruct (http_scheme (u_scheme u)); [|intuition discriminate].
    destruct (list_contains hosts _); [|intuition discriminate].
    unfold path_spec. destruct (snd (eff u)) as [|c s].
    { split; [discriminate|]. intros (_ & _ & s & H & _). discriminate. }
    destruct (N.eqb_spec c 47) as [->|Hc].
    2:{ split; [discriminate|]. intros (_ & _ & s' & H & _). congruence. }
    destruct (contains_byte 47 s) eqn:Ec; cbn [negb].
    - apply contains_byte_spec in Ec.
      split.
      + destruct (strip_prefix s_joinchat_sl s) as [[|? ?]|]; try discriminate.
        destruct (negb _); discriminate.
      + intros (_ & _ & s' & [= <-] & _ & Hn & _). contradiction.
    - apply contains_byte_false in Ec. split.
      + destruct s as [|x s]; [discriminate|]. intros [= <-].
        repeat split; auto. exists (x :: s). repeat split; auto. discriminate.
      + intros (_ & _ & s' & [= <-] & Hne & _ & ->). destruct s; [congruence|reflexivity].
  Qed.

  Lemma resolve_invite_iff ord u t :
    resolve lower hosts ord u = Ok (Invite t) <->
    good_scheme (u_scheme u) /\ In (hostname (fst (eff u))) hosts /\
    snd (eff u) = 47 :: s_joinchat_sl ++ t /\ t <> [] /\ ~ In 47 t.
  Proof.
    rewrite resolve_spec, <- http_scheme_spec, <- list_contains_spec.
    destruct (http_scheme (u_scheme u)); [|intuition discriminate].
    destruct (list_contains hosts _); [|intuition discriminate].
    unfold path_spec. destruct (snd (eff u)) as [|c s].
    { split; [discriminate|]. intros (_ & _ & H & _). discriminate. }
    destruct (N.eqb_spec c 47) as [->|Hc].
    2:{ split; [discriminate|]. intros (_ & _ & H & _). congruence. }
    destruct (contains_byte 47 s) eqn:Ec; cbn [negb].
    - destruct (strip_prefix s_joinchat_sl s) as [t'|] eqn:Es.
      + apply strip_prefix_some in Es. subst s.
        destruct t' as [|x t'].
        * split; [discriminate|]. intros (_ & _ & H & Hne & _).
          apply cons_app_inj in H. congruence.
        * destruct (contains_byte 47 (x :: t')) eqn:Ec'; cbn [negb].
          -- apply contains_byte_spec in Ec'. split; [discriminate|].
             intros (_ & _ & H & _ & Hn). apply cons_app_inj in H. subst t. contradiction.
          -- apply contains_byte_false in Ec'. split.
             ++ intros [= <-]. repeat split; auto. discriminate.
             ++ intros (_ & _ & H & _). apply cons_app_inj in H. now subst t.
      + split; [discriminate|]. intros (_ & _ & H & _).
        apply (f_equal (@tl _)) in H. cbn [tl] in H. subst s.
        assert (strip_prefix s_joinchat_sl (s_joinchat_sl ++ t) = Some t) by (now apply strip_prefix_some).
        congruence.
    - apply contains_byte_false in Ec. split.
      + destruct s; discriminate.
      + intros (_ & _ & H & _). apply (f_equal (@tl _)) in H. cbn [tl] in H. subst s.
        exfalso. apply Ec. apply in_or_app. left.
        apply contains_byte_spec. reflexivity.
  Qed.
End Main.

(* non-vacuity: concrete links meeting the hypotheses *)
Example ex_user :
  resolve (fun s => s) telegram_hosts true
    {| u_scheme := s_https; u_host := lit "t.me:443"; u_path := lit "/durov" |} = Ok (Username (lit "durov")).
Proof. vm_compute. reflexivity. Qed.

Example ex_invite_noscheme :
  resolve (fun s => s) telegram_hosts false
    {| u_scheme := []; u_host := []; u_path := lit "telegram.me/joinchat/AbC" |} = Ok (Invite (lit "AbC")).
Proof. vm_compute. reflexivity. Qed.

Example ex_bare_host :
  resolve (fun s => s) telegram_hosts false {| u_scheme := []; u_host := []; u_path := lit "t.me" |} = Err.
Proof. vm_compute. reflexivity. Qed.
