(* C19 - model: dependency graphs, executable reachability, the check [secrets_ok].
   A graph is a list of (node id, (kind, ids of the nodes it depends on)).  An edge x -> y reads
   "x is computed from / overwritten with data of y", so the nodes reachable from a secret are its
   backward slice: everything that flows into it.  The graph of the shipped code is regenerated from
   the SSA form of the working tree by harness/flowgraph into gen/FlowGraph.v on every run.
   No proofs here (Misc/TaintProofs.v), so the model stays usable when a proof breaks. *)
From Coq Require Import NArith PArith List Bool FMapPositive.
Import ListNotations.
Open Scope N_scope.

Inductive kind :=
| KNeutral   (* SSA plumbing, constants, pure library functions, caller-supplied / network input *)
| KOS        (* crypto/rand: the operating system's cryptographic source *)
| KPrng      (* math/rand (rand.New, NewSource, Read, Intn, the global source, ...) *)
| KTime      (* time.Now / Since / Until and methods of time.Time *)
| KSeed.     (* a call site of math/rand.Seed *)

Definition graph := list (N * (kind * list N)).

Module PM := PositiveMap.

Definition key (n : N) : positive := N.succ_pos n.

Definition build (g : graph) : PM.t (kind * list N) :=
  fold_right (fun e m => PM.add (key (fst e)) (snd e) m) (PM.empty _) g.

Definition succs (m : PM.t (kind * list N)) (x : N) : list N :=
  match PM.find (key x) m with Some (_, l) => l | None => [] end.

Definition kindb (m : PM.t (kind * list N)) (x : N) : kind :=
  match PM.find (key x) m with Some (k, _) => k | None => KNeutral end.

Definition has {A} (m : PM.t A) (x : N) : bool :=
  match PM.find (key x) m with Some _ => true | None => false end.

(* first element of the work list that has not been visited, and the rest of the list *)
Fixpoint pick (seen : PM.t unit) (work : list N) : option (N * list N) :=
  match work with
  | [] => None
  | x :: w => if has seen x then pick seen w else Some (x, w)
  end.

(* worklist reachability: every iteration visits one NEW node, so fuel = number of nodes suffices.
   [seen] is the visited set (fast membership), [acc] the same set as a list (the result). *)
Fixpoint go (m : PM.t (kind * list N)) (fuel : nat) (work : list N) (seen : PM.t unit) (acc : list N)
  : list N :=
  match fuel with
  | O => acc
  | S f =>
      match pick seen work with
      | None => acc
      | Some (x, w) => go m f (succs m x ++ w) (PM.add (key x) tt seen) (x :: acc)
      end
  end.

Definition reach (g : graph) (s : N) : list N :=
  go (build g) (length g) [s] (PM.empty unit) [].

(* well-formedness, decidable: node ids are distinct and every successor is a node *)
Fixpoint nodupb (seen : PM.t unit) (l : list N) : bool :=
  match l with
  | [] => true
  | x :: t => negb (has seen x) && nodupb (PM.add (key x) tt seen) t
  end.

Definition wfb (g : graph) : bool :=
  let m := build g in   (* built once *)
  nodupb (PM.empty unit) (map fst g) &&
  forallb (fun e => forallb (has m) (snd (snd e))) g.

Definition bad (k : kind) : bool :=
  match k with KPrng | KTime | KSeed => true | _ => false end.

Definition is_os (k : kind) : bool :=
  match k with KOS => true | _ => false end.

Definition memN (x : N) (l : list N) : bool := existsb (N.eqb x) l.

(* one secret: it is a node; nothing reproducible flows into it; some OS randomness does;
   no listed Seed call site flows into it *)
Definition secret_ok (g : graph) (seeds : list N) (s : N) : bool :=
  let m := build g in
  let r := reach g s in
  has m s &&
  forallb (fun n => negb (bad (kindb m n))) r &&
  existsb (fun n => is_os (kindb m n)) r &&
  forallb (fun sd => negb (memN sd r)) seeds.

Definition secrets_ok (g : graph) (secrets seeds : list N) : bool :=
  wfb g && forallb (secret_ok g seeds) secrets.

(* definition sites: [sites] lists, per secret, the alternative origins of its value (one node per
   alternative, produced by the translator's S-rules).  Every secret must have at least one, each one
   must flow into its secret, and each one is held to the same standard as the secret itself. *)
Definition site_ok (g : graph) (seeds : list N) (secret site : N) : bool :=
  secret_ok g seeds site && memN site (reach g secret).

Definition sites_ok (g : graph) (seeds : list N) (sites : list (N * list N)) : bool :=
  forallb (fun p => match snd p with [] => false | _ => forallb (site_ok g seeds (fst p)) (snd p) end) sites.

(* ---- specification side (used by the theorems) ---- *)

Definition edge (g : graph) (x y : N) : Prop :=
  exists k ss, In (x, (k, ss)) g /\ In y ss.

Inductive path (g : graph) : N -> N -> Prop :=
| path_refl : forall x, path g x x
| path_step : forall x y z, edge g x y -> path g y z -> path g x z.

(* n flows into s: s (transitively) depends on n *)
Definition flows (g : graph) (n s : N) : Prop := path g s n.

Definition kind_at (g : graph) (n : N) (k : kind) : Prop := exists ss, In (n, (k, ss)) g.

Definition wf (g : graph) : Prop :=
  NoDup (map fst g) /\
  forall x k ss y, In (x, (k, ss)) g -> In y ss -> In y (map fst g).
