(* C12, resume: what a client puts on the wire first, as a function of what NewMTProto left in
   the MTProto value (record [client] of Misc/Session.v).  Model only; proofs in
   SessionResumeProofs.v, statements in Props/C12m.v.

   Code modelled (pure decisions):
   - mtproto.go CreateConnection: connect to m.addr, then `if !m.encrypted { makeAuthKey }`;
     handshake.go makeAuthKey: the first message is req_pq, sent while m.encrypted = false;
   - network.go sendPacket: `if m.encrypted { Encrypted{AuthKeyHash: m.authKeyHash} } else
     { Unencrypted }`; messages.Encrypted.Serialize puts m.GetServerSalt() into the envelope;
   - mtproto.go Reconnect = Disconnect; CreateConnection on the same MTProto value: none of
     encrypted / key / hash / salt / addr is written in between.
   The live check (harness/root/cmd/e2e resume, lib/props/c12m.py) observes exactly these
   projections at the reference server: kind of the first frame, key id it opens under, salt
   field, address dialled, and the same after the server closed the connection. *)
From Coq Require Import ZArith NArith List Bool.
From MTV Require Import Base.Bytes Base.Outcome Misc.Session.
Import ListNotations.

Inductive wire_frame :=
| WPlainReqPQ                               (* auth_key_id = 0, body req_pq: a key exchange starts *)
| WEncrypted (key_id : bytes) (salt : Z).   (* auth_key_id = key_id, salt field = salt *)

(* CreateConnection runs the key exchange iff the client is not encrypted *)
Definition key_exchange (c : client) : bool := negb (c_encrypted c).

(* the address CreateConnection dials *)
Definition dial_addr (c : client) : bytes := c_addr c.

(* first frame on a new connection: sent by CreateConnection itself when a key exchange is
   due, otherwise by the first request *)
Definition first_frame (c : client) : wire_frame :=
  if c_encrypted c then WEncrypted (c_hash c) (c_salt c) else WPlainReqPQ.

(* Reconnect keeps the MTProto value *)
Definition reconnect (c : client) : client := c.

(* frames of the first k requests on the first connection and of the next n after a reconnect *)
Definition request_frames (c : client) (k n : nat) : list wire_frame :=
  repeat (first_frame c) k ++ repeat (first_frame (reconnect c)) n.
