(* C12 - model of internal/session/file.go (genericFileSessionLoader: Load / Store,
   tokenStorageFormat.writeSession / readSession, encodeInt64ToBase64 / decodeInt64ToBase64)
   and of the decision NewMTProto takes on the loaded session (mtproto.go, mtproto_utils.go
   LoadSession / SaveSession).  Executable, no proofs (those are in Misc/SessionProofs.v).

   The code modelled is the FIXED code (patches/C12):
     - Store checks filepath.Dir(path) instead of the first result of filepath.Split(path)
       (for a bare file name Split gives "" and os.Stat("") fails);
     - Store drops the loader's cache before it writes (the cache is keyed on the file's
       modification time only and a second Store may land on the same tick);
     - the cache keeps a private deep copy and a cache hit returns a copy (Load used to hand out
       the cached pointer): values are not shared with the caller, which is what a functional
       model says anyway - the operation OScribble (the caller overwrites everything it passed
       to Store or got from Load) is therefore a no-op, and the correspondence runs it for real.

   External code enters as Section variables: encoding/base64 (StdEncoding) and
   encoding/json (Marshal / Unmarshal of the four-string struct).  An executable Gallina
   base64 for the model runs is in Misc/SessionBase64.v.  The file system is a function
   path -> option (content, mtime) plus the kind of every directory name; the mtime of a
   write is chosen by the environment (argument of the operation). *)
From Coq Require Import ZArith NArith List Lia Bool.
From MTV Require Import Base.Bytes Base.Outcome.
Import ListNotations.
Open Scope N_scope.

(* ------------------------------------------------------------------------------------ *)
(* interface.go: Session; file.go: tokenStorageFormat                                     *)

Record session := mkSession {
  s_key : bytes;        (* []byte *)
  s_hash : bytes;       (* []byte *)
  s_salt : Z;           (* int64 *)
  s_host : bytes        (* string (UTF-8 bytes) *)
}.

Record tsf := mkTsf { t_key : bytes; t_hash : bytes; t_salt : bytes; t_host : bytes }.

(* ------------------------------------------------------------------------------------ *)
(* int64 <-> uint64 <-> 8 little-endian bytes                                             *)

Definition two63 : Z := 9223372036854775808%Z.
Definition two64 : Z := 18446744073709551616%Z.
Definition two64N : N := 18446744073709551616.

Definition int64_ok (z : Z) : bool := ((- two63 <=? z) && (z <? two63))%Z.

(* uint64(i) *)
Definition u64_of_i64 (z : Z) : N := Z.to_N (z mod two64).
(* int64(u) *)
Definition i64_of_u64 (n : N) : Z :=
  let m := n mod two64N in
  if m <? 9223372036854775808 then Z.of_N m else (Z.of_N m - two64)%Z.

(* encodeInt64ToBase64, before base64: make([]byte, 8); binary.LittleEndian.PutUint64 *)
Definition salt_enc (z : Z) : bytes := le64 (u64_of_i64 z).

(* decodeInt64ToBase64, after base64: binary.LittleEndian.Uint64(buf) reads buf[7] first
   (bounds check => run-time panic on fewer than 8 bytes), bytes past the 8th are ignored *)
Definition salt_dec (buf : bytes) : outcome Z :=
  if (length buf <? 8)%nat then Panic
  else Ok (i64_of_u64 (of_le (firstn 8 buf))).

(* ------------------------------------------------------------------------------------ *)
(* utf8.ValidString - the domain on which json.Marshal keeps a Go string unchanged        *)

Definition cont (b : N) : bool := (128 <=? b) && (b <=? 191).
Definition inr (lo hi b : N) : bool := (lo <=? b) && (b <=? hi).

(* admissible second byte after the lead byte of a 3- resp. 4-byte sequence (no overlong forms,
   no surrogates, nothing above U+10FFFF) *)
Definition sec3 (a b : N) : bool :=
  if a =? 224 then inr 160 191 b else if a =? 237 then inr 128 159 b else cont b.
Definition sec4 (a b : N) : bool :=
  if a =? 240 then inr 144 191 b else if a =? 244 then inr 128 143 b else cont b.

Fixpoint utf8_valid (s : bytes) : bool :=
  match s with
  | [] => true
  | a :: r =>
    if a <? 128 then utf8_valid r
    else if inr 194 223 a then
      match r with b :: r' => cont b && utf8_valid r' | _ => false end
    else if inr 224 239 a then
      match r with
      | b :: c :: r' => sec3 a b && cont c && utf8_valid r'
      | _ => false
      end
    else if inr 240 244 a then
      match r with
      | b :: c :: d :: r' => sec4 a b && cont c && cont d && utf8_valid r'
      | _ => false
      end
    else false
  end.

(* What encoding/json does to a Go string when it marshals it (encodeState.string): the string is
   walked with utf8.DecodeRuneInString; wherever that reports (RuneError, 1) - a byte at which no
   valid sequence starts - the byte is replaced by U+FFFD (EF BF BD) and the walk goes on at the
   next byte.  Valid strings are unchanged (coerce_valid_id).  Unmarshal gives the coerced string. *)
Definition fffd : bytes := [239; 191; 189].

Fixpoint coerce_utf8 (s : bytes) : bytes :=
  match s with
  | [] => []
  | a :: r =>
    if a <? 128 then a :: coerce_utf8 r
    else if inr 194 223 a then
      match r with
      | b :: r' => if cont b then a :: b :: coerce_utf8 r' else fffd ++ coerce_utf8 r
      | [] => fffd ++ coerce_utf8 r
      end
    else if inr 224 239 a then
      match r with
      | b :: c :: r' =>
        if sec3 a b && cont c then a :: b :: c :: coerce_utf8 r' else fffd ++ coerce_utf8 r
      | _ => fffd ++ coerce_utf8 r
      end
    else if inr 240 244 a then
      match r with
      | b :: c :: d :: r' =>
        if sec4 a b && cont c && cont d then a :: b :: c :: d :: coerce_utf8 r'
        else fffd ++ coerce_utf8 r
      | _ => fffd ++ coerce_utf8 r
      end
    else fffd ++ coerce_utf8 r
  end.

Definition tsf_valid (t : tsf) : bool :=
  utf8_valid (t_key t) && utf8_valid (t_hash t) && utf8_valid (t_salt t) && utf8_valid (t_host t).

Definition coerce_tsf (t : tsf) : tsf :=
  mkTsf (coerce_utf8 (t_key t)) (coerce_utf8 (t_hash t)) (coerce_utf8 (t_salt t)) (coerce_utf8 (t_host t)).

(* a session as it comes back when its host name is not valid UTF-8 *)
Definition coerce_session (s : session) : session :=
  mkSession (s_key s) (s_hash s) (s_salt s) (coerce_utf8 (s_host s)).

(* any bytes, any int64; nothing asked of the host name *)
Definition session_bytes_ok (s : session) : bool :=
  bytes_ok (s_key s) && bytes_ok (s_hash s) && int64_ok (s_salt s).

(* what a stored session may be for the round trip to hold: any bytes, any int64, any valid UTF-8 string *)
Definition session_ok (s : session) : bool :=
  bytes_ok (s_key s) && bytes_ok (s_hash s) && int64_ok (s_salt s) && utf8_valid (s_host s).

(* ------------------------------------------------------------------------------------ *)
(* path/filepath on unix: Clean and Dir                                                   *)

Definition slash : N := 47.
Definition dot : N := 46.
Definition s_dot : bytes := [46].
Definition s_dotdot : bytes := [46; 46].

(* strings.Split(p, "/") *)
Fixpoint split_slash (s : bytes) : list bytes :=
  match s with
  | [] => [[]]
  | x :: r =>
    if x =? slash then [] :: split_slash r
    else match split_slash r with
         | h :: t => (x :: h) :: t
         | [] => [[x]]
         end
  end.

(* the element loop of filepath.Clean; [stack] holds the output elements, last first.
   ".." elements are only ever at the bottom of the stack and only when not rooted
   (Go: the [dotdot] index). *)
Fixpoint clean_loop (rooted : bool) (stack comps : list bytes) : list bytes :=
  match comps with
  | [] => stack
  | c :: r =>
    if beq c [] || beq c s_dot then clean_loop rooted stack r
    else if beq c s_dotdot then
      match stack with
      | top :: st' =>
        if beq top s_dotdot then clean_loop rooted (s_dotdot :: stack) r
        else clean_loop rooted st' r
      | [] => if rooted then clean_loop rooted [] r else clean_loop rooted [s_dotdot] r
      end
    else clean_loop rooted (c :: stack) r
  end.

Fixpoint join_slash (l : list bytes) : bytes :=
  match l with
  | [] => []
  | [x] => x
  | x :: r => x ++ slash :: join_slash r
  end.

Definition go_clean (p : bytes) : bytes :=
  match p with
  | [] => s_dot
  | c :: _ =>
    let rooted := c =? slash in
    let body := join_slash (rev (clean_loop rooted [] (split_slash p))) in
    if rooted then slash :: body
    else match body with [] => s_dot | _ => body end
  end.

Fixpoint drop_to_slash (l : bytes) : bytes :=
  match l with
  | [] => []
  | x :: r => if x =? slash then l else drop_to_slash r
  end.

(* path[:i+1] where i is the index of the last '/' (the empty string when there is none) *)
Definition dir_part (p : bytes) : bytes := rev (drop_to_slash (rev p)).

(* filepath.Dir *)
Definition go_dir (p : bytes) : bytes := go_clean (dir_part p).

(* ------------------------------------------------------------------------------------ *)
(* file system                                                                           *)

Inductive dkind := DMissing | DFile | DDir.

Record fsys := mkFs {
  files : bytes -> option (bytes * N);   (* regular files: content and modification time *)
  dirs : bytes -> dkind                   (* what os.Stat says about a directory name *)
}.

Definition fs_set (fs : fsys) (p : bytes) (v : option (bytes * N)) : fsys :=
  mkFs (fun q => if beq q p then v else files fs q) (dirs fs).

(* ------------------------------------------------------------------------------------ *)
(* loader                                                                                *)

Record loader := mkLoader {
  l_path : bytes;
  l_last : N;                   (* lastEdited; only read when l_cached is not nil *)
  l_cached : option session     (* cached *)
}.

(* NewFromFile *)
Definition fresh (p : bytes) : loader := mkLoader p 0 None.

Inductive load_res :=
| LOk (s : session)
| LNotFound          (* errs.NotFound *)
| LErr               (* any other error *)
| LPanic.

(* operations of a history on one path *)
Inductive op :=
| OStore (s : session) (t : N)     (* l.Store(s); the file gets modification time t *)
| OLoad                            (* l.Load() *)
| OFresh                           (* l = NewFromFile(path) *)
| OCrash (k : nat) (t : N)         (* the process dies while the file is being written: the file keeps
                                      the first k bytes of its content; a new process = a new loader *)
| OExt (c : bytes) (t : N)         (* something else writes the file while no loader is alive *)
| OTear (k : nat) (t : N)          (* ANOTHER writer leaves the file cut to its first k bytes, modification time t;
                                      this loader lives on with whatever it has cached *)
| OForeign (s : session) (t : N)   (* another process / another loader on the same path stores s (complete file,
                                      modification time t); this loader's cache is kept *)
| OScribble                        (* the caller overwrites the bytes of every session value it passed to Store or
                                      got from Load so far; the (fixed) code shares no memory with its caller,
                                      so nothing changes *)
| OClient (host : bytes)           (* NewMTProto(Config{AuthKeyFile: path, ServerHost: host}) : observe *)
| OClientSave (host : bytes) (t : N). (* the same, then m.SaveSession(); afterwards a new loader *)

(* what NewMTProto leaves in the MTProto value *)
Record client := mkClient {
  c_encrypted : bool; c_key : bytes; c_hash : bytes; c_salt : Z; c_addr : bytes
}.

Inductive obs :=
| ObsStore (r : outcome unit)
| ObsLoad (r : load_res)
| ObsNone
| ObsClient (r : outcome client)
| ObsClientSave (r : outcome client) (st : outcome unit).

Section Codec.
  Variable b64enc : bytes -> bytes.             (* base64.StdEncoding.EncodeToString *)
  Variable b64dec : bytes -> outcome bytes.     (* base64.StdEncoding.DecodeString; Err = error *)
  Variable marshal : tsf -> bytes.              (* json.Marshal of a tokenStorageFormat *)
  Variable unmarshal : bytes -> outcome tsf.    (* json.Unmarshal into a tokenStorageFormat *)

  (* writeSession *)
  Definition write_session (s : session) : tsf :=
    mkTsf (b64enc (s_key s)) (b64enc (s_hash s)) (b64enc (salt_enc (s_salt s))) (s_host s).

  (* readSession *)
  Definition read_session (t : tsf) : outcome session :=
    do k <- b64dec (t_key t);
    do h <- b64dec (t_hash t);
    do sb <- b64dec (t_salt t);
    do z <- salt_dec sb;
    Ok (mkSession k h z (t_host t)).

  (* the file Store writes *)
  Definition render (s : session) : bytes := marshal (write_session s).

  (* json.Unmarshal + readSession *)
  Definition parse (c : bytes) : outcome session :=
    do t <- unmarshal c; read_session t.

  (* Load *)
  Definition load (fs : fsys) (l : loader) : load_res * loader :=
    match files fs (l_path l) with
    | None =>
      (* os.Stat fails: ENOENT -> NotFound; a path component that is a file -> ENOTDIR *)
      (match dirs fs (go_dir (l_path l)) with DFile => LErr | _ => LNotFound end, l)
    | Some (content, mt) =>
      match l_cached l with
      | Some c =>
        if mt =? l_last l then (LOk c, l)
        else match parse content with
             | Ok s => (LOk s, mkLoader (l_path l) mt (Some s))
             | Err => (LErr, l)
             | Panic => (LPanic, l)
             end
      | None =>
        match parse content with
        | Ok s => (LOk s, mkLoader (l_path l) mt (Some s))
        | Err => (LErr, l)
        | Panic => (LPanic, l)
        end
      end
    end.

  (* Store (fixed): directory test on filepath.Dir(path), cache dropped, whole-file write *)
  Definition store (fs : fsys) (l : loader) (s : session) (t : N) : outcome unit * fsys * loader :=
    match dirs fs (go_dir (l_path l)) with
    | DDir =>
      (Ok tt, fs_set fs (l_path l) (Some (render s, t)), mkLoader (l_path l) (l_last l) None)
    | _ => (Err, fs, l)
    end.

  (* Store as it was on the pinned tree with respect to the cache (kept only for the
     counter-example C12_cache_needs_invalidation; no theorem is about it) *)
  Definition store_keep_cache (fs : fsys) (l : loader) (s : session) (t : N) : outcome unit * fsys * loader :=
    match dirs fs (go_dir (l_path l)) with
    | DDir => (Ok tt, fs_set fs (l_path l) (Some (render s, t)), l)
    | _ => (Err, fs, l)
    end.

  (* environment: torn write *)
  Definition crash (fs : fsys) (p : bytes) (k : nat) (t : N) : fsys :=
    match files fs p with
    | None => fs
    | Some (c, _) => fs_set fs p (Some (firstn k c, t))
    end.

  (* NewMTProto + LoadSession *)
  Definition client_of (s : session) : client :=
    mkClient true (s_key s) (s_hash s) (s_salt s) (s_host s).
  Definition client_new (host : bytes) : client := mkClient false [] [] 0%Z host.

  Definition client_decide (host : bytes) (r : load_res) : outcome client :=
    match r with
    | LOk s => Ok (client_of s)
    | LNotFound => Ok (client_new host)
    | LErr => Err
    | LPanic => Panic
    end.

  Definition new_mtproto (fs : fsys) (p host : bytes) : outcome client * loader :=
    match p with
    | [] => (Err, fresh p)           (* "AuthKeyFile is empty" *)
    | _ => let '(r, l) := load fs (fresh p) in (client_decide host r, l)
    end.

  (* SaveSession *)
  Definition session_of_client (c : client) : session :=
    mkSession (c_key c) (c_hash c) (c_salt c) (c_addr c).

  Definition step (fs : fsys) (l : loader) (o : op) : fsys * loader * obs :=
    match o with
    | OStore s t => let '(r, fs', l') := store fs l s t in (fs', l', ObsStore r)
    | OLoad => let '(r, l') := load fs l in (fs, l', ObsLoad r)
    | OFresh => (fs, fresh (l_path l), ObsNone)
    | OCrash k t => (crash fs (l_path l) k t, fresh (l_path l), ObsNone)
    | OExt c t => (fs_set fs (l_path l) (Some (c, t)), fresh (l_path l), ObsNone)
    | OTear k t => (crash fs (l_path l) k t, l, ObsNone)
    | OForeign s t =>
      (* the other loader's Store: same directory test, whole-file write; our loader untouched *)
      let '(_, fs', _) := store fs (fresh (l_path l)) s t in (fs', l, ObsNone)
    | OScribble => (fs, l, ObsNone)
    | OClient host => (fs, l, ObsClient (fst (new_mtproto fs (l_path l) host)))
    | OClientSave host t =>
      let '(r, lc) := new_mtproto fs (l_path l) host in
      match r with
      | Ok c =>
        let '(sr, fs', _) := store fs lc (session_of_client c) t in
        (fs', fresh (l_path l), ObsClientSave r sr)
      | _ => (fs, fresh (l_path l), ObsClientSave r Err)
      end
    end.

  Fixpoint run (fs : fsys) (l : loader) (ops : list op) : list obs :=
    match ops with
    | [] => []
    | o :: r => let '(fs', l', ob) := step fs l o in ob :: run fs' l' r
    end.

  (* -------------------------------------------------------------------------------- *)
  (* reference store: what the property promises, with no cache and no file format.    *)
  (* The state is the last stored session and how many bytes of its file survive.      *)

  Inductive istate := IAbsent | IFile (s : session) (n : nat).

  Definition ideal_load (st : istate) : load_res :=
    match st with
    | IAbsent => LNotFound
    | IFile s n => if (n <? length (render s))%nat then LErr else LOk s
    end.

  Definition ideal_step (st : istate) (o : op) : istate * obs :=
    match o with
    | OStore s _ => (IFile s (length (render s)), ObsStore (Ok tt))
    | OLoad => (st, ObsLoad (ideal_load st))
    | OFresh => (st, ObsNone)
    | OCrash k _ =>
      (match st with IAbsent => IAbsent | IFile s n => IFile s (Nat.min k n) end, ObsNone)
    | OExt _ _ => (st, ObsNone)       (* not part of the property: excluded by [proper] *)
    | OTear k _ =>
      (match st with IAbsent => IAbsent | IFile s n => IFile s (Nat.min k n) end, ObsNone)
    | OForeign s _ => (IFile s (length (render s)), ObsNone)
    | OScribble => (st, ObsNone)
    | OClient host => (st, ObsClient (client_decide host (ideal_load st)))
    | OClientSave host _ =>
      match client_decide host (ideal_load st) with
      | Ok c => let s := session_of_client c in
                (IFile s (length (render s)), ObsClientSave (Ok c) (Ok tt))
      | r => (st, ObsClientSave r Err)
      end
    end.

  Fixpoint ideal_run (st : istate) (ops : list op) : list obs :=
    match ops with
    | [] => []
    | o :: r => let '(st', ob) := ideal_step st o in ob :: ideal_run st' r
    end.

  (* The reference store together with the two clock facts the modification-time keyed cache
     depends on: the time the file carries, and the time the living loader cached at (None = it
     has nothing cached).  A successful Load caches at the file's time; the loader's own Store,
     a restart, a crash drop the cache. *)
  Record tstate := mkT { ts_st : istate; ts_mtime : N; ts_cached_at : option N }.

  Definition file_time_after (st : istate) (old t : N) : N :=
    match st with IAbsent => old | IFile _ _ => t end.

  Definition tstep (ts : tstate) (o : op) : tstate :=
    let st' := fst (ideal_step (ts_st ts) o) in
    match o with
    | OStore _ t => mkT st' t None
    | OLoad =>
      mkT st' (ts_mtime ts)
          (match ideal_load (ts_st ts) with LOk _ => Some (ts_mtime ts) | _ => ts_cached_at ts end)
    | OFresh => mkT st' (ts_mtime ts) None
    | OCrash _ t => mkT st' (file_time_after (ts_st ts) (ts_mtime ts) t) None
    | OExt _ t => mkT st' t None
    | OTear _ t => mkT st' (file_time_after (ts_st ts) (ts_mtime ts) t) (ts_cached_at ts)
    | OForeign _ t => mkT st' t (ts_cached_at ts)
    | OScribble | OClient _ => mkT st' (ts_mtime ts) (ts_cached_at ts)
    | OClientSave host t =>
      mkT st' (match client_decide host (ideal_load (ts_st ts)) with Ok _ => t | _ => ts_mtime ts end) None
    end.

  (* The code's actual test (Load: info.ModTime().Equal(l.lastEdited)): a change made by ANOTHER
     writer is visible to the living loader iff it carries a time DIFFERENT from the one the loader
     cached at - later or earlier does not matter. *)
  Definition visible_ok (ts : tstate) (o : op) : bool :=
    match o with
    | OTear _ t | OForeign _ t =>
      match ts_cached_at ts with Some c => negb (t =? c) | None => true end
    | _ => true
    end.

  Fixpoint foreign_visible (ts : tstate) (ops : list op) : bool :=
    match ops with
    | [] => true
    | o :: r => visible_ok ts o && foreign_visible (tstep ts o) r
    end.

  (* operations the property speaks about *)
  Definition proper (o : op) : bool :=
    match o with
    | OStore s _ => session_ok s
    | OForeign s _ => session_ok s
    | OExt _ _ => false
    | OClient _ => true
    | OClientSave host _ => utf8_valid host
    | _ => true
    end.
End Codec.

(* The plain reading of "last store wins" for histories of Store / Load / Fresh:
   no codec, no file system, no cache. *)
Definition simple_op (o : op) : bool :=
  match o with
  | OStore s _ => session_ok s
  | OLoad | OFresh | OScribble => true
  | _ => false
  end.

Fixpoint last_store_run (last : option session) (ops : list op) : list obs :=
  match ops with
  | [] => []
  | OStore s _ :: r => ObsStore (Ok tt) :: last_store_run (Some s) r
  | OLoad :: r =>
    ObsLoad (match last with Some s => LOk s | None => LNotFound end) :: last_store_run last r
  | _ :: r => ObsNone :: last_store_run last r
  end.

(* modification times handed out by the environment never go back (equal ticks allowed) *)
Definition op_time (o : op) : option N :=
  match o with
  | OStore _ t | OCrash _ t | OExt _ t | OClientSave _ t | OTear _ t | OForeign _ t => Some t
  | _ => None
  end.

Fixpoint times_nondecreasing (from : N) (ops : list op) : bool :=
  match ops with
  | [] => true
  | o :: r =>
    match op_time o with
    | Some t => (from <=? t) && times_nondecreasing t r
    | None => times_nondecreasing from r
    end
  end.

(* Changes made by another writer while this loader lives on.  The loader's cache is keyed on the
   modification time alone, so such a change is visible to it exactly when it carries a time other
   than the one the loader cached at.  [foreign_newer now ops]: every OTear / OForeign carries a
   time strictly later than every time handed out before it in the history ([now] = latest so far);
   the loader's own stores, crashes and restarts may reuse a tick. *)
Definition foreign_op (o : op) : bool :=
  match o with OTear _ _ | OForeign _ _ => true | _ => false end.

Definition next_now (now : N) (o : op) : N :=
  match op_time o with Some t => N.max now t | None => now end.

Definition foreign_ok (now : N) (o : op) : bool :=
  if foreign_op o then match op_time o with Some t => now <? t | None => true end else true.

Fixpoint foreign_newer (now : N) (ops : list op) : bool :=
  match ops with
  | [] => true
  | o :: r => foreign_ok now o && foreign_newer (next_now now o) r
  end.
