(* The client's side of the connection: transport.ReadMsg called until the stream ends, on the frames a
   peer wrote, under every segmentation.  (FramingProofs.delivery is the same statement for a peer that
   first detects the mode; the client knows its mode and classifies 4-byte payloads as error codes.) *)
From Coq Require Import ZArith NArith List Lia.
From MTV Require Import Base.Bytes Base.Outcome Transport.Framing Transport.FramingProofs.
Import ListNotations.
Open Scope N_scope.

Lemma tr_read_nil v : tr_read flat_read v [] = Fail EEof.
Proof. unfold tr_read. rewrite read_msg_nil. reflexivity. Qed.

Lemma tr_loop_frames v : forall msgs fuel,
  Forall (carriable v) msgs -> Forall (fun m => blen m <> 4) msgs -> (length msgs < fuel)%nat ->
  tr_loop flat_read fuel v (concat (map (frame v) msgs)) = Some (map TData msgs, EEof).
Proof.
  induction msgs as [|m msgs IH]; intros fuel Hall H4 Hf.
  - destruct fuel as [|f]; [lia|]. cbn [map concat tr_loop]. rewrite tr_read_nil. reflexivity.
  - destruct fuel as [|f]; [cbn [length] in Hf; lia|].
    inversion Hall as [|? ? Hm Hrest]; subst. inversion H4 as [|? ? Hm4 Hrest4]; subst.
    cbn [map concat tr_loop].
    rewrite (tr_read_data v _ m _ (read_msg_frame v m _ Hm) Hm4).
    rewrite IH; [reflexivity|exact Hrest|exact Hrest4|cbn [length] in Hf; lia].
Qed.

Theorem tr_delivery v msgs chunks :
  Forall (carriable v) msgs -> Forall (fun m => blen m <> 4) msgs ->
  concat chunks = concat (map (frame v) msgs) ->
  tr_stream v chunks = Some (map TData msgs, EEof).
Proof.
  intros Hall H4 Hc. rewrite tr_stream_flat_eq, Hc. unfold tr_stream_flat.
  apply tr_loop_frames; [exact Hall|exact H4|].
  unfold fuel_for. pose proof (frames_length v msgs). lia.
Qed.
