(* C08 - transport framing (internal/mode/{mode,arbiged,intermediate}.go), the exact-count
   read of the TCP connection (internal/transport/conn_tcp.go through go-dry CancelableReader:
   io.ReadFull) and transport.ReadMsg's treatment of a 4-byte payload and of EOF
   (internal/transport/transport.go).  Executable model, no proofs (FramingProofs.v).

   The Go readers are written against an io.ReadWriter; here they are written once against an
   abstract connection type [C] with a read primitive [rdx n c] (= conn.Read(p) with len p = n)
   and instantiated twice:
     - [conn_read]  : the connection is a LIST OF CHUNKS (the segments in which TCP happens to
                      deliver the stream); models tcpConn.Read = io.ReadFull on the socket;
     - [flat_read]  : the connection is the unsegmented byte string (specification reader).
   Integers: amd64 (int is 64 bit), timeout = 0 (no read deadline), no cancellation. *)
From Coq Require Import ZArith NArith List Lia ZifyN ZifyNat ZifyBool Bool.
From MTV Require Import Base.Bytes Base.Outcome.
Import ListNotations.
Open Scope N_scope.

(* ------------------------------------------------------------------ writer side *)

Inductive variant := Abridged | Intermediate.

(* transportModeAbridged = {0xef}; transportModeIntermediate = {0xee,0xee,0xee,0xee};
   mode.New writes getModeAnnouncement() to the connection *)
Definition announce (v : variant) : bytes :=
  match v with
  | Abridged => [239]
  | Intermediate => [238; 238; 238; 238]
  end.

(* abridged.WriteMsg: msgLength := len(msg)/4; one byte if < 0x7f, else 0x7f, byte(l), byte(l>>8), byte(l>>16) *)
Definition abridged_header (len : N) : bytes :=
  let w := len / 4 in
  if w <? 127 then [w mod 256]
  else [127; w mod 256; (w / 256) mod 256; (w / 65536) mod 256].

(* intermediate.WriteMsg: binary.LittleEndian.PutUint32(size, uint32(len(msg))) *)
Definition intermediate_header (len : N) : bytes := le32 (len mod 4294967296).

Definition header (v : variant) (len : N) : bytes :=
  match v with
  | Abridged => abridged_header len
  | Intermediate => intermediate_header len
  end.

(* the bytes the two conn.Write calls of WriteMsg put on the wire *)
Definition frame (v : variant) (msg : bytes) : bytes := header v (blen msg) ++ msg.

(* WriteMsg, the decision and the header from the length alone (after patches/C08 0002: a message the
   length field cannot hold is refused; the pinned tree wrote byte(l), byte(l>>8), byte(l>>16) of a word
   count >= 2^24 resp. uint32(len) of a length >= 2^32, i.e. a header announcing a DIFFERENT length,
   followed by the whole message).  Abridged also refuses lengths that are not a multiple of 4
   (ErrNotMultiple); intermediate has no alignment check. *)
Definition write_header (v : variant) (len : N) : outcome bytes :=
  match v with
  | Abridged =>
    if negb (len mod 4 =? 0) then Err
    else if 16777216 <=? len / 4 then Err
    else Ok (abridged_header len)
  | Intermediate =>
    if 4294967296 <=? len then Err else Ok (intermediate_header len)
  end.

(* Result = bytes written by the two conn.Write calls. *)
Definition write_msg (v : variant) (msg : bytes) : outcome bytes :=
  match write_header v (blen msg) with
  | Ok h => Ok (h ++ msg)
  | Err => Err
  | Panic => Panic
  end.

(* what a writer that creates the mode and sends [msgs] puts on the wire *)
Definition wire (v : variant) (msgs : list bytes) : bytes :=
  announce v ++ concat (map (frame v) msgs).

(* mode.New followed by one WriteMsg per message, as executed: stops at the first refused message *)
Fixpoint write_all (v : variant) (msgs : list bytes) : outcome bytes :=
  match msgs with
  | [] => Ok []
  | m :: r =>
    match write_msg v m with
    | Ok a => match write_all v r with Ok b => Ok (a ++ b) | Err => Err | Panic => Panic end
    | Err => Err
    | Panic => Panic
    end
  end.

Definition write_stream (v : variant) (msgs : list bytes) : outcome bytes :=
  match write_all v msgs with Ok b => Ok (announce v ++ b) | Err => Err | Panic => Panic end.

(* lengths each format can carry: abridged = 3-byte word count, intermediate = 32-bit byte count *)
Definition carriable (v : variant) (msg : bytes) : Prop :=
  match v with
  | Abridged => blen msg mod 4 = 0 /\ blen msg / 4 < 16777216
  | Intermediate => blen msg < 4294967296
  end.

Definition carriableb (v : variant) (msg : bytes) : bool :=
  match v with
  | Abridged => (blen msg mod 4 =? 0) && (blen msg / 4 <? 16777216)
  | Intermediate => blen msg <? 4294967296
  end.

(* ------------------------------------------------------------------ reader side *)

(* error kinds the property distinguishes: io.EOF (passed through unwrapped everywhere) / anything else *)
Inductive ekind := EEof | EOther.

Inductive rd (A : Type) : Type :=
| Got (a : A)
| Fail (e : ekind).
Arguments Got {A} a.
Arguments Fail {A} e.

(* The TCP connection as the reader sees it: the chunks still to arrive, in order.
   The end of the list is the peer's FIN. *)
Definition conn := list bytes.

(* io.ReadFull(socket, buf) with len buf = n > 0: keeps reading segments until n bytes are there;
   what is left of a segment stays in the kernel buffer (head of the list).
   No byte at all and the stream ends: io.EOF.  Some bytes, then the end: io.ErrUnexpectedEOF
   (tcpConn.Read wraps it: kind other). *)
Definition is_nil (c : bytes) : bool := match c with [] => true | _ :: _ => false end.

(* [fresh] = no byte obtained so far in this call *)
Fixpoint read_full (n : N) (fresh : bool) (cs : conn) : rd (bytes * conn) :=
  match cs with
  | [] => Fail (if fresh then EEof else EOther)
  | c :: rest =>
    if n <=? blen c
    then Got (firstn (N.to_nat n) c, skipn (N.to_nat n) c :: rest)
    else match read_full (n - blen c) (fresh && is_nil c) rest with
         | Got (b, cs') => Got (c ++ b, cs')
         | Fail e => Fail e
         end
  end.

(* tcpConn.Read(p), len p = n.  io.ReadFull with an empty buffer returns (0, nil) without reading. *)
Definition conn_read (n : N) (cs : conn) : rd (bytes * conn) :=
  if n =? 0 then Got ([], cs) else read_full n true cs.

(* the same primitive on the unsegmented stream *)
Definition flat_read (n : N) (s : bytes) : rd (bytes * bytes) :=
  if n =? 0 then Got ([], s)
  else if n <=? blen s then Got (firstn (N.to_nat n) s, skipn (N.to_nat n) s)
  else Fail (match s with [] => EEof | _ :: _ => EOther end).

(* events transport.ReadMsg produces from a frame *)
Inductive tev :=
| TCode (code : Z)      (* ErrCode: the 4-byte payload read as a signed 32-bit little-endian integer *)
| TData (d : bytes).    (* any other payload: handed to the message deserialiser (outside C08) *)

(* int(int32(binary.LittleEndian.Uint32(data))) - the code after patches/C08 (fix: the pinned tree had
   int(binary.LittleEndian.Uint32(data)), which on amd64 turns -404 into 4294966892) *)
Definition to_int32 (u : N) : Z :=
  if u <? 2147483648 then Z.of_N u else Z.of_N u - 4294967296.

Section Reader.
  Context {C : Type}.
  Variable rdx : N -> C -> rd (bytes * C).

  (* abridged.ReadMsg *)
  Definition read_msg_abridged (c : C) : rd (bytes * C) :=
    match rdx 1 c with
    | Fail e => Fail e
    | Got ([h], c1) =>
      match (if h =? 127
             then match rdx 3 c1 with
                  | Fail e => Fail e
                  | Got ([x; y; z], c2) => Got (of_le32 x y z 0, c2)
                  | Got (_, _) => Fail EOther               (* "need to read 3 bytes" *)
                  end
             else Got (h, c1)) with
      | Fail e => Fail e
      | Got (size, c2) =>
        let n := size * 4 in
        match rdx n c2 with
        | Fail e => Fail e
        | Got (m, c3) => if blen m =? n then Got (m, c3) else Fail EOther
        end
      end
    | Got (_, _) => Fail EOther                              (* "need to read at least 1 byte" *)
    end.

  (* intermediate.ReadMsg *)
  Definition read_msg_intermediate (c : C) : rd (bytes * C) :=
    match rdx 4 c with
    | Fail e => Fail e
    | Got ([b0; b1; b2; b3], c1) =>
      let n := of_le32 b0 b1 b2 b3 in
      match rdx n c1 with
      | Fail e => Fail e
      | Got (m, c2) => if blen m =? n then Got (m, c2) else Fail EOther
      end
    | Got (_, _) => Fail EOther                              (* "size is not length of int32" *)
    end.

  Definition read_msg (v : variant) (c : C) : rd (bytes * C) :=
    match v with
    | Abridged => read_msg_abridged c
    | Intermediate => read_msg_intermediate c
    end.

  (* mode.Detect *)
  Definition detect (c : C) : rd (variant * C) :=
    match rdx 1 c with
    | Fail e => Fail e
    | Got ([h], c1) =>
      if h =? 239 then Got (Abridged, c1)
      else if h =? 238 then
        match rdx 3 c1 with
        | Fail e => Fail e
        | Got (t, c2) =>
          if beq (h :: t) [238; 238; 238; 238] then Got (Intermediate, c2)
          else Fail EOther                                   (* ErrAmbiguousModeAnnounce *)
        end
      else Fail EOther                                       (* ErrModeNotSupported *)
    | Got (_, _) => Fail EOther
    end.

  (* a peer that calls ReadMsg until it gets an error; None = out of fuel (excluded by theorem) *)
  Fixpoint read_loop (fuel : nat) (v : variant) (c : C) : option (list bytes * ekind) :=
    match fuel with
    | O => None
    | S f =>
      match read_msg v c with
      | Fail e => Some ([], e)
      | Got (m, c') =>
        match read_loop f v c' with
        | None => None
        | Some (ms, e) => Some (m :: ms, e)
        end
      end
    end.

  (* transport.ReadMsg up to the point where the payload is classified: io.EOF unwrapped,
     other errors wrapped (kind other), len(data) == 4 => ErrCode(int32 LE), else data *)
  Definition tr_read (v : variant) (c : C) : rd (tev * C) :=
    match read_msg v c with
    | Fail e => Fail e
    | Got ([b0; b1; b2; b3], c') => Got (TCode (to_int32 (of_le32 b0 b1 b2 b3)), c')
    | Got (d, c') => Got (TData d, c')
    end.

  Fixpoint tr_loop (fuel : nat) (v : variant) (c : C) : option (list tev * ekind) :=
    match fuel with
    | O => None
    | S f =>
      match tr_read v c with
      | Fail e => Some ([], e)
      | Got (ev, c') =>
        match tr_loop f v c' with
        | None => None
        | Some (evs, e) => Some (ev :: evs, e)
        end
      end
    end.
End Reader.

(* ------------------------------------------------------------------ whole-stream readers *)

(* every successful ReadMsg consumes at least one byte, so this fuel always suffices *)
Definition fuel_for (s : bytes) : nat := S (length s).

(* result of a peer that detects the mode and then reads until the first error *)
Record delivery := { d_mode : option variant; d_msgs : list bytes; d_end : ekind }.

Definition mk_delivery (r : rd (variant * option (list bytes * ekind))) : option delivery :=
  match r with
  | Fail e => Some {| d_mode := None; d_msgs := []; d_end := e |}
  | Got (_, None) => None
  | Got (v, Some (ms, e)) => Some {| d_mode := Some v; d_msgs := ms; d_end := e |}
  end.

(* over a segmented connection (the model of the code under test) *)
Definition read_stream (cs : conn) : option delivery :=
  mk_delivery
    match detect conn_read cs with
    | Fail e => Fail e
    | Got (v, cs') => Got (v, read_loop conn_read (fuel_for (concat cs)) v cs')
    end.

(* over the unsegmented stream (specification) *)
Definition read_stream_flat (s : bytes) : option delivery :=
  mk_delivery
    match detect flat_read s with
    | Fail e => Fail e
    | Got (v, s') => Got (v, read_loop flat_read (fuel_for s) v s')
    end.

(* Transport over a known mode (the client never receives an announcement) *)
Definition tr_stream (v : variant) (cs : conn) : option (list tev * ekind) :=
  tr_loop conn_read (fuel_for (concat cs)) v cs.

Definition tr_stream_flat (v : variant) (s : bytes) : option (list tev * ekind) :=
  tr_loop flat_read (fuel_for s) v s.

(* ------------------------------------------------------------------ helpers for the driver *)

(* cut a stream into chunks of the given sizes; whatever is left over is the last chunk *)
Fixpoint cut (sizes : list N) (s : bytes) : conn :=
  match sizes with
  | [] => match s with [] => [] | _ :: _ => [s] end
  | n :: r => firstn (N.to_nat n) s :: cut r (skipn (N.to_nat n) s)
  end.
