(* C08 - proofs about Transport/Framing.v.
   1. conn_read (io.ReadFull over a list of chunks) is flat_read on the concatenation.
   2. every reader written against the read primitive is therefore a function of [concat chunks] only
      (parametric simulation), for ANY byte stream.
   3. on the unsegmented stream: Detect recognises the announcement, ReadMsg inverts frame for every
      length the format can carry, the loop returns the messages and then EOF.
   4. error code, EOF, format, totality (fuel). *)
From Coq Require Import ZArith NArith List Lia ZifyN ZifyNat ZifyBool Bool.
From MTV Require Import Base.Bytes Base.Outcome Transport.Framing.
Import ListNotations.
Open Scope N_scope.
Ltac Zify.zify_post_hook ::= Z.div_mod_to_equations.

(* ------------------------------------------------------------------ list / length helpers *)

Lemma blen_app (a b : bytes) : blen (a ++ b) = blen a + blen b.
Proof. unfold blen. rewrite app_length. lia. Qed.

Lemma to_nat_blen (a : bytes) : N.to_nat (blen a) = length a.
Proof. unfold blen. lia. Qed.

Lemma blen_nil_inv (a : bytes) : blen a = 0 -> a = [].
Proof. destruct a; [reflexivity|unfold blen; cbn [length]; lia]. Qed.

Lemma firstn_app_exact (a r : bytes) : firstn (length a) (a ++ r) = a.
Proof. rewrite firstn_app, Nat.sub_diag, firstn_all. cbn [firstn]. apply app_nil_r. Qed.

Lemma skipn_app_exact (a r : bytes) : skipn (length a) (a ++ r) = r.
Proof. rewrite skipn_app, Nat.sub_diag, skipn_all. reflexivity. Qed.

(* ------------------------------------------------------------------ 1. chunks vs flat *)

Lemma read_full_enough : forall cs n fresh, 0 < n -> n <= blen (concat cs) ->
  exists cs', read_full n fresh cs = Got (firstn (N.to_nat n) (concat cs), cs')
              /\ concat cs' = skipn (N.to_nat n) (concat cs).
Proof.
  induction cs as [|c rest IH]; intros n fresh Hn Hle.
  - cbn [concat] in Hle. unfold blen in Hle. cbn [length] in Hle. lia.
  - cbn [concat] in *. rewrite blen_app in Hle. cbn [read_full].
    destruct (N.leb_spec n (blen c)) as [Hc|Hc].
    + exists (skipn (N.to_nat n) c :: rest).
      assert (Hz : (N.to_nat n - length c = 0)%nat) by (unfold blen in Hc; lia).
      cbn [concat]. rewrite firstn_app, skipn_app, Hz. cbn [firstn skipn].
      rewrite app_nil_r. split; reflexivity.
    + destruct (IH (n - blen c) (fresh && is_nil c)%bool) as [cs' [E1 E2]]; [lia|lia|].
      exists cs'. rewrite E1, E2.
      assert (Hz : N.to_nat (n - blen c) = (N.to_nat n - length c)%nat) by (unfold blen; lia).
      rewrite firstn_app, skipn_app, Hz.
      rewrite (firstn_all2 c) by (unfold blen in Hc; lia).
      rewrite (skipn_all2 c) by (unfold blen in Hc; lia).
      cbn [app]. split; reflexivity.
Qed.

Lemma read_full_short : forall cs n fresh, blen (concat cs) < n ->
  read_full n fresh cs = Fail (if (fresh && is_nil (concat cs))%bool then EEof else EOther).
Proof.
  induction cs as [|c rest IH]; intros n fresh Hlt.
  - cbn [read_full concat is_nil]. rewrite andb_true_r. reflexivity.
  - cbn [concat] in *. rewrite blen_app in Hlt. cbn [read_full].
    destruct (N.leb_spec n (blen c)) as [Hc|Hc]; [lia|].
    rewrite IH by lia. destruct c; cbn [is_nil app]; rewrite ?andb_true_r, ?andb_false_r; reflexivity.
Qed.

(* relation between results over two connection types *)
Definition rel {A C1 C2 : Type} (R : C1 -> C2 -> Prop) (x : rd (A * C1)) (y : rd (A * C2)) : Prop :=
  match x, y with
  | Got (a, c), Got (a', c') => a = a' /\ R c c'
  | Fail e, Fail e' => e = e'
  | _, _ => False
  end.

Definition same_stream (cs : conn) (s : bytes) : Prop := concat cs = s.

Lemma conn_read_flat : forall n cs s, same_stream cs s ->
  rel same_stream (conn_read n cs) (flat_read n s).
Proof.
  intros n cs s <-. unfold conn_read, flat_read.
  destruct (N.eqb_spec n 0) as [->|Hn].
  - cbn [rel]. split; reflexivity.
  - destruct (N.leb_spec n (blen (concat cs))) as [Hle|Hlt].
    + destruct (read_full_enough cs n true ltac:(lia) Hle) as [cs' [E1 E2]].
      rewrite E1. cbn [rel]. split; [reflexivity|exact E2].
    + rewrite read_full_short by exact Hlt. cbn [rel andb]. destruct (concat cs); reflexivity.
Qed.

(* ------------------------------------------------------------------ 2. parametric simulation *)

Section Sim.
  Context {C1 C2 : Type}.
  Variable R : C1 -> C2 -> Prop.
  Variable r1 : N -> C1 -> rd (bytes * C1).
  Variable r2 : N -> C2 -> rd (bytes * C2).
  Hypothesis Hr : forall n c1 c2, R c1 c2 -> rel R (r1 n c1) (r2 n c2).

  (* one read step on both sides *)
  Ltac step n c1 c2 HR :=
    let H := fresh "H" in
    pose proof (Hr n c1 c2 HR) as H; unfold rel in H;
    destruct (r1 n c1) as [[? ?]|?], (r2 n c2) as [[? ?]|?]; try contradiction;
    [destruct H as [<- ?] | subst; cbn [rel]; try reflexivity].

  Lemma body_sim n c1 c2 : R c1 c2 ->
    rel R (match r1 n c1 with
           | Fail e => Fail e
           | Got (m, c3) => if blen m =? n then Got (m, c3) else Fail EOther
           end)
          (match r2 n c2 with
           | Fail e => Fail e
           | Got (m, c3) => if blen m =? n then Got (m, c3) else Fail EOther
           end).
  Proof.
    intros HR. step n c1 c2 HR.
    destruct (blen b =? n); cbn [rel]; auto.
  Qed.

  Lemma read_msg_sim v c1 c2 : R c1 c2 -> rel R (read_msg r1 v c1) (read_msg r2 v c2).
  Proof.
    intros HR. destruct v; cbn [read_msg].
    - unfold read_msg_abridged. step 1 c1 c2 HR.
      destruct b as [|h [|? ?]]; cbn [rel]; try reflexivity.
      destruct (h =? 127).
      + step 3 c c0 H.
        destruct b as [|x [|y [|z [|? ?]]]]; cbn [rel]; try reflexivity.
        apply body_sim. assumption.
      + apply body_sim. assumption.
    - unfold read_msg_intermediate. step 4 c1 c2 HR.
      destruct b as [|b0 [|b1 [|b2 [|b3 [|? ?]]]]]; cbn [rel]; try reflexivity.
      apply body_sim. assumption.
  Qed.

  Lemma detect_sim c1 c2 : R c1 c2 -> rel R (detect r1 c1) (detect r2 c2).
  Proof.
    intros HR. unfold detect. step 1 c1 c2 HR.
    destruct b as [|h [|? ?]]; cbn [rel]; try reflexivity.
    destruct (h =? 239); [cbn [rel]; auto|].
    destruct (h =? 238); [|cbn [rel]; auto].
    step 3 c c0 H.
    destruct (beq (h :: b) [238; 238; 238; 238]); cbn [rel]; auto.
  Qed.

  Lemma read_loop_sim : forall fuel v c1 c2, R c1 c2 ->
    read_loop r1 fuel v c1 = read_loop r2 fuel v c2.
  Proof.
    induction fuel as [|f IH]; intros v c1 c2 HR; cbn [read_loop]; [reflexivity|].
    pose proof (read_msg_sim v c1 c2 HR) as H. unfold rel in H.
    destruct (read_msg r1 v c1) as [[m c1']|e], (read_msg r2 v c2) as [[m' c2']|e']; try contradiction.
    - destruct H as [<- HR']. rewrite (IH v c1' c2' HR'). reflexivity.
    - subst. reflexivity.
  Qed.

  Lemma tr_read_sim v c1 c2 : R c1 c2 -> rel R (tr_read r1 v c1) (tr_read r2 v c2).
  Proof.
    intros HR. unfold tr_read.
    pose proof (read_msg_sim v c1 c2 HR) as H. unfold rel in H.
    destruct (read_msg r1 v c1) as [[m c1']|e], (read_msg r2 v c2) as [[m' c2']|e']; try contradiction.
    - destruct H as [<- HR'].
      destruct m as [|b0 [|b1 [|b2 [|b3 [|? ?]]]]]; cbn [rel]; auto.
    - subst. cbn [rel]. reflexivity.
  Qed.

  Lemma tr_loop_sim : forall fuel v c1 c2, R c1 c2 ->
    tr_loop r1 fuel v c1 = tr_loop r2 fuel v c2.
  Proof.
    induction fuel as [|f IH]; intros v c1 c2 HR; cbn [tr_loop]; [reflexivity|].
    pose proof (tr_read_sim v c1 c2 HR) as H. unfold rel in H.
    destruct (tr_read r1 v c1) as [[m c1']|e], (tr_read r2 v c2) as [[m' c2']|e']; try contradiction.
    - destruct H as [<- HR']. rewrite (IH v c1' c2' HR'). reflexivity.
    - subst. reflexivity.
  Qed.
End Sim.

(* the model of the code under test is a function of the concatenation of the chunks *)
Theorem read_stream_flat_eq cs : read_stream cs = read_stream_flat (concat cs).
Proof.
  unfold read_stream, read_stream_flat.
  pose proof (detect_sim same_stream conn_read flat_read conn_read_flat cs (concat cs) eq_refl) as H.
  unfold rel in H.
  destruct (detect conn_read cs) as [[v cs']|e], (detect flat_read (concat cs)) as [[v' s']|e']; try contradiction.
  - destruct H as [<- HR].
    rewrite (read_loop_sim same_stream conn_read flat_read conn_read_flat _ v cs' s' HR). reflexivity.
  - subst. reflexivity.
Qed.

Theorem tr_stream_flat_eq v cs : tr_stream v cs = tr_stream_flat v (concat cs).
Proof.
  unfold tr_stream, tr_stream_flat.
  apply (tr_loop_sim same_stream conn_read flat_read conn_read_flat). reflexivity.
Qed.

Theorem read_msg_flat v cs : rel same_stream (read_msg conn_read v cs) (read_msg flat_read v (concat cs)).
Proof. apply (read_msg_sim same_stream conn_read flat_read conn_read_flat). reflexivity. Qed.

Theorem tr_read_flat v cs : rel same_stream (tr_read conn_read v cs) (tr_read flat_read v (concat cs)).
Proof. apply (tr_read_sim same_stream conn_read flat_read conn_read_flat). reflexivity. Qed.

Theorem detect_flat cs : rel same_stream (detect conn_read cs) (detect flat_read (concat cs)).
Proof. apply (detect_sim same_stream conn_read flat_read conn_read_flat). reflexivity. Qed.

Theorem segmentation_independent c1 c2 : concat c1 = concat c2 -> read_stream c1 = read_stream c2.
Proof. intros H. rewrite !read_stream_flat_eq, H. reflexivity. Qed.

Theorem tr_segmentation_independent v c1 c2 : concat c1 = concat c2 -> tr_stream v c1 = tr_stream v c2.
Proof. intros H. rewrite !tr_stream_flat_eq, H. reflexivity. Qed.

(* ------------------------------------------------------------------ 3. the unsegmented stream *)

Lemma flat_read_app a r n : blen a = n -> flat_read n (a ++ r) = Got (a, r).
Proof.
  intros <-. unfold flat_read. destruct (N.eqb_spec (blen a) 0) as [E|E].
  - rewrite (blen_nil_inv a E). reflexivity.
  - rewrite blen_app. destruct (N.leb_spec (blen a) (blen a + blen r)); [|lia].
    rewrite to_nat_blen, firstn_app_exact, skipn_app_exact. reflexivity.
Qed.

Lemma flat_read_nil n : 0 < n -> flat_read n [] = Fail EEof.
Proof.
  intros H. unfold flat_read. destruct (N.eqb_spec n 0); [lia|].
  destruct (N.leb_spec n (blen [])) as [H1|H1]; [unfold blen in H1; cbn [length] in H1; lia|reflexivity].
Qed.

Lemma flat_read_inv n s a s' : flat_read n s = Got (a, s') -> s = a ++ s' /\ blen a = n.
Proof.
  unfold flat_read. destruct (N.eqb_spec n 0) as [->|Hn].
  - intros H. injection H as <- <-. split; reflexivity.
  - destruct (N.leb_spec n (blen s)) as [Hle|Hlt]; [|discriminate].
    intros H. injection H as <- <-. split; [symmetry; apply firstn_skipn|].
    unfold blen in *. rewrite firstn_length. lia.
Qed.

Definition body_of (n : N) (r : rd (bytes * bytes)) : rd (bytes * bytes) :=
  match r with
  | Fail e => Fail e
  | Got (m, c3) => if blen m =? n then Got (m, c3) else Fail EOther
  end.

Lemma abridged_small h s : h <> 127 ->
  read_msg_abridged flat_read ([h] ++ s) = body_of (h * 4) (flat_read (h * 4) s).
Proof.
  intros Hh. unfold read_msg_abridged. rewrite (flat_read_app [h] s 1) by reflexivity.
  destruct (N.eqb_spec h 127); [contradiction|]. reflexivity.
Qed.

Lemma abridged_big x y z s :
  read_msg_abridged flat_read ([127] ++ [x; y; z] ++ s) =
  body_of (of_le32 x y z 0 * 4) (flat_read (of_le32 x y z 0 * 4) s).
Proof.
  unfold read_msg_abridged. rewrite (flat_read_app [127] _ 1) by reflexivity.
  change (127 =? 127) with true. cbv iota.
  rewrite (flat_read_app [x; y; z] s 3) by reflexivity. reflexivity.
Qed.

Lemma intermediate_hdr b0 b1 b2 b3 s :
  read_msg_intermediate flat_read ([b0; b1; b2; b3] ++ s) =
  body_of (of_le32 b0 b1 b2 b3) (flat_read (of_le32 b0 b1 b2 b3) s).
Proof.
  unfold read_msg_intermediate. rewrite (flat_read_app [b0; b1; b2; b3] s 4) by reflexivity. reflexivity.
Qed.

Lemma body_exact m r : body_of (blen m) (flat_read (blen m) (m ++ r)) = Got (m, r).
Proof. rewrite flat_read_app by reflexivity. unfold body_of. rewrite N.eqb_refl. reflexivity. Qed.

(* ReadMsg inverts frame on every length the format can carry *)
Lemma read_msg_frame v m r : carriable v m ->
  read_msg flat_read v (frame v m ++ r) = Got (m, r).
Proof.
  intros Hc. destruct v; cbn [read_msg]; unfold frame, header; rewrite <- app_assoc.
  - destruct Hc as [H4 Hw]. unfold abridged_header.
    destruct (N.ltb_spec (blen m / 4) 127) as [Hs|Hb].
    + rewrite N.mod_small by lia.
      rewrite abridged_small by lia.
      replace (blen m / 4 * 4) with (blen m) by lia. apply body_exact.
    + change ([127; (blen m / 4) mod 256; (blen m / 4 / 256) mod 256; (blen m / 4 / 65536) mod 256] ++ m ++ r)
        with ([127] ++ [(blen m / 4) mod 256; (blen m / 4 / 256) mod 256; (blen m / 4 / 65536) mod 256] ++ m ++ r).
      rewrite abridged_big.
      replace (of_le32 ((blen m / 4) mod 256) ((blen m / 4 / 256) mod 256) ((blen m / 4 / 65536) mod 256) 0 * 4)
        with (blen m) by (unfold of_le32; lia).
      apply body_exact.
  - cbn [carriable] in Hc. unfold intermediate_header. rewrite N.mod_small by exact Hc.
    unfold le32. rewrite intermediate_hdr.
    rewrite of_le32_le32 by exact Hc. apply body_exact.
Qed.

Lemma read_msg_nil v : read_msg flat_read v [] = Fail EEof.
Proof.
  destruct v; cbn [read_msg]; [unfold read_msg_abridged|unfold read_msg_intermediate];
    rewrite flat_read_nil by lia; reflexivity.
Qed.

Lemma detect_announce v r : detect flat_read (announce v ++ r) = Got (v, r).
Proof.
  destruct v; unfold detect, announce.
  - rewrite (flat_read_app [239] r 1) by reflexivity. reflexivity.
  - change ([238; 238; 238; 238] ++ r) with ([238] ++ [238; 238; 238] ++ r).
    rewrite (flat_read_app [238] _ 1) by reflexivity.
    change (238 =? 239) with false. change (238 =? 238) with true. cbv iota.
    rewrite (flat_read_app [238; 238; 238] r 3) by reflexivity. reflexivity.
Qed.

Lemma detect_nil : detect flat_read [] = Fail EEof.
Proof. unfold detect. rewrite flat_read_nil by lia. reflexivity. Qed.

Lemma read_loop_frames v : forall msgs fuel,
  Forall (carriable v) msgs -> (length msgs < fuel)%nat ->
  read_loop flat_read fuel v (concat (map (frame v) msgs)) = Some (msgs, EEof).
Proof.
  induction msgs as [|m msgs IH]; intros fuel Hall Hf.
  - destruct fuel as [|f]; [lia|]. cbn [map concat read_loop]. rewrite read_msg_nil. reflexivity.
  - destruct fuel as [|f]; [cbn [length] in Hf; lia|].
    inversion Hall as [|? ? Hm Hrest]; subst.
    cbn [map concat read_loop]. rewrite read_msg_frame by exact Hm.
    rewrite IH; [reflexivity|exact Hrest|cbn [length] in Hf; lia].
Qed.

Lemma header_nonempty v n : (1 <= length (header v n))%nat.
Proof.
  destruct v; cbn [header]; [unfold abridged_header; destruct (n / 4 <? 127)|unfold intermediate_header, le32];
    cbn [length]; lia.
Qed.

Lemma frames_length v msgs : (length msgs <= length (concat (map (frame v) msgs)))%nat.
Proof.
  induction msgs as [|m msgs IH]; cbn [map concat length]; [lia|].
  unfold frame at 1. rewrite !app_length. pose proof (header_nonempty v (blen m)). lia.
Qed.

Theorem delivery_flat v msgs : Forall (carriable v) msgs ->
  read_stream_flat (wire v msgs) =
  Some {| d_mode := Some v; d_msgs := msgs; d_end := EEof |}.
Proof.
  intros Hall. unfold read_stream_flat, wire. rewrite detect_announce.
  rewrite read_loop_frames; [reflexivity|exact Hall|].
  unfold fuel_for. rewrite app_length. pose proof (frames_length v msgs). lia.
Qed.

Theorem delivery v msgs chunks : Forall (carriable v) msgs ->
  concat chunks = wire v msgs ->
  read_stream chunks = Some {| d_mode := Some v; d_msgs := msgs; d_end := EEof |}.
Proof. intros Hall Hc. rewrite read_stream_flat_eq, Hc. apply delivery_flat. exact Hall. Qed.

(* ------------------------------------------------------------------ 4a. totality: fuel_for suffices *)

Lemma body_of_inv n s m s' : body_of n (flat_read n s) = Got (m, s') -> s = m ++ s'.
Proof.
  unfold body_of. destruct (flat_read n s) as [[a c]|e] eqn:E; [|discriminate].
  destruct (blen a =? n); [|discriminate]. intros H. injection H as <- <-.
  apply flat_read_inv in E. tauto.
Qed.

(* whatever ReadMsg delivers is in the stream, behind a non-empty header *)
Lemma read_msg_sound v s m s' : read_msg flat_read v s = Got (m, s') ->
  exists hdr, hdr <> [] /\ s = hdr ++ m ++ s'.
Proof.
  destruct v; cbn [read_msg].
  - unfold read_msg_abridged. destruct (flat_read 1 s) as [[b c1]|e] eqn:E1; [|discriminate].
    apply flat_read_inv in E1. destruct E1 as [-> Hb].
    destruct b as [|h [|? ?]]; try discriminate.
    destruct (h =? 127).
    + destruct (flat_read 3 c1) as [[b3 c2]|e] eqn:E3; [|discriminate].
      apply flat_read_inv in E3. destruct E3 as [-> _].
      destruct b3 as [|x [|y [|z [|? ?]]]]; try discriminate.
      intros H. apply body_of_inv in H. subst c2.
      exists ([h] ++ [x; y; z]). split; [discriminate|]. rewrite <- app_assoc. reflexivity.
    + intros H. apply body_of_inv in H. subst c1. exists [h]. split; [discriminate|reflexivity].
  - unfold read_msg_intermediate. destruct (flat_read 4 s) as [[b c1]|e] eqn:E1; [|discriminate].
    apply flat_read_inv in E1. destruct E1 as [-> Hb].
    destruct b as [|b0 [|b1 [|b2 [|b3 [|? ?]]]]]; try discriminate.
    intros H. apply body_of_inv in H. subst c1. exists [b0; b1; b2; b3]. split; [discriminate|reflexivity].
Qed.

Lemma read_msg_consumes v s m s' : read_msg flat_read v s = Got (m, s') -> (length s' < length s)%nat.
Proof.
  intros H. apply read_msg_sound in H. destruct H as [hdr [Hne ->]].
  rewrite !app_length. destruct hdr; [congruence|cbn [length]; lia].
Qed.

Lemma read_loop_total v : forall fuel s, (length s < fuel)%nat -> read_loop flat_read fuel v s <> None.
Proof.
  induction fuel as [|f IH]; intros s Hf; [lia|]. cbn [read_loop].
  destruct (read_msg flat_read v s) as [[m s']|e] eqn:E; [|discriminate].
  apply read_msg_consumes in E. specialize (IH s' ltac:(lia)).
  destruct (read_loop flat_read f v s') as [[ms e]|]; [discriminate|congruence].
Qed.

Lemma detect_consumes s v s' : detect flat_read s = Got (v, s') -> (length s' < length s)%nat.
Proof.
  unfold detect. destruct (flat_read 1 s) as [[b c1]|e] eqn:E1; [|discriminate].
  apply flat_read_inv in E1. destruct E1 as [-> _].
  destruct b as [|h [|? ?]]; try discriminate.
  destruct (h =? 239).
  - intros H. injection H as <- <-. cbn [app length]. lia.
  - destruct (h =? 238); [|discriminate].
    destruct (flat_read 3 c1) as [[t c2]|e] eqn:E3; [|discriminate].
    apply flat_read_inv in E3. destruct E3 as [-> _].
    destruct (beq (h :: t) [238; 238; 238; 238]); [|discriminate].
    intros H. injection H as <- <-. cbn [app length]. rewrite app_length. lia.
Qed.

Theorem read_stream_total cs : read_stream cs <> None.
Proof.
  rewrite read_stream_flat_eq. unfold read_stream_flat.
  destruct (detect flat_read (concat cs)) as [[v s']|e] eqn:E; [|discriminate].
  apply detect_consumes in E.
  pose proof (read_loop_total v (fuel_for (concat cs)) s' ltac:(unfold fuel_for; lia)) as H.
  cbn [mk_delivery]. destruct (read_loop flat_read (fuel_for (concat cs)) v s') as [[ms e]|]; [discriminate|congruence].
Qed.

Lemma tr_read_consumes v s ev s' : tr_read flat_read v s = Got (ev, s') -> (length s' < length s)%nat.
Proof.
  unfold tr_read. destruct (read_msg flat_read v s) as [[m c]|e] eqn:E; [|discriminate].
  apply read_msg_consumes in E.
  destruct m as [|b0 [|b1 [|b2 [|b3 [|? ?]]]]]; intros H; injection H as <- <-; exact E.
Qed.

Theorem tr_stream_total v cs : tr_stream v cs <> None.
Proof.
  rewrite tr_stream_flat_eq. unfold tr_stream_flat, fuel_for.
  generalize (concat cs). intros s. generalize (Nat.lt_succ_diag_r (length s)). generalize (S (length s)).
  intros fuel. revert s. induction fuel as [|f IH]; intros s Hf; [lia|]. cbn [tr_loop].
  destruct (tr_read flat_read v s) as [[ev s']|e] eqn:E; [|discriminate].
  apply tr_read_consumes in E. specialize (IH s' ltac:(lia)).
  destruct (tr_loop flat_read f v s') as [[ms e]|]; [discriminate|congruence].
Qed.

(* ------------------------------------------------------------------ 4b. error code *)

Lemma to_int32_signed z : (-2147483648 <= z < 2147483648)%Z ->
  to_int32 (Z.to_N (z mod 4294967296)) = z.
Proof.
  intros Hz. unfold to_int32.
  destruct (N.ltb_spec (Z.to_N (z mod 4294967296)) 2147483648); lia.
Qed.

Lemma carriable_le32 v u : carriable v (le32 u).
Proof. destruct v; cbn [carriable]; unfold le32, blen; cbn [length]; [split; reflexivity|reflexivity]. Qed.

Lemma tr_read_code_flat v u r : u < 4294967296 ->
  tr_read flat_read v (frame v (le32 u) ++ r) = Got (TCode (to_int32 u), r).
Proof.
  intros Hu. unfold tr_read. rewrite read_msg_frame by apply carriable_le32.
  unfold le32. rewrite of_le32_le32 by exact Hu. reflexivity.
Qed.

Theorem errcode v z chunks r : (-2147483648 <= z < 2147483648)%Z ->
  concat chunks = frame v (le32 (Z.to_N (z mod 4294967296))) ++ r ->
  exists chunks', tr_read conn_read v chunks = Got (TCode z, chunks') /\ concat chunks' = r.
Proof.
  intros Hz Hc. pose proof (tr_read_flat v chunks) as H. rewrite Hc in H.
  rewrite tr_read_code_flat in H by lia. rewrite to_int32_signed in H by exact Hz.
  unfold rel in H. destruct (tr_read conn_read v chunks) as [[ev cs']|e]; [|contradiction].
  destruct H as [-> HR]. exists cs'. split; [reflexivity|exact HR].
Qed.

(* a payload whose length is not 4 is never an error code *)
Lemma tr_read_data v (c : bytes) d c' : read_msg flat_read v c = Got (d, c') -> blen d <> 4 ->
  tr_read flat_read v c = Got (TData d, c').
Proof.
  intros E Hd. unfold tr_read. rewrite E.
  destruct d as [|b0 [|b1 [|b2 [|b3 [|? ?]]]]]; try reflexivity.
  exfalso. apply Hd. reflexivity.
Qed.

Theorem data_not_code v m chunks r : carriable v m -> blen m <> 4 ->
  concat chunks = frame v m ++ r ->
  exists chunks', tr_read conn_read v chunks = Got (TData m, chunks') /\ concat chunks' = r.
Proof.
  intros Hm H4 Hc. pose proof (tr_read_flat v chunks) as H. rewrite Hc in H.
  rewrite (tr_read_data v _ m r (read_msg_frame v m r Hm) H4) in H.
  unfold rel in H. destruct (tr_read conn_read v chunks) as [[ev cs']|e]; [|contradiction].
  destruct H as [-> HR]. exists cs'. split; [reflexivity|exact HR].
Qed.

(* ------------------------------------------------------------------ 4c. end of stream *)

Theorem eof_all chunks : concat chunks = [] ->
  detect conn_read chunks = Fail EEof /\
  (forall v, read_msg conn_read v chunks = Fail EEof) /\
  (forall v, tr_read conn_read v chunks = Fail EEof) /\
  read_stream chunks = Some {| d_mode := None; d_msgs := []; d_end := EEof |} /\
  (forall v, tr_stream v chunks = Some ([], EEof)).
Proof.
  intros Hc. repeat split.
  - pose proof (detect_flat chunks) as H. rewrite Hc, detect_nil in H. unfold rel in H.
    destruct (detect conn_read chunks) as [[? ?]|e]; [contradiction|congruence].
  - intros v. pose proof (read_msg_flat v chunks) as H. rewrite Hc, read_msg_nil in H. unfold rel in H.
    destruct (read_msg conn_read v chunks) as [[? ?]|e]; [contradiction|congruence].
  - intros v. pose proof (tr_read_flat v chunks) as H. rewrite Hc in H. unfold tr_read at 2 in H.
    rewrite read_msg_nil in H. unfold rel in H.
    destruct (tr_read conn_read v chunks) as [[? ?]|e]; [contradiction|congruence].
  - rewrite read_stream_flat_eq, Hc. reflexivity.
  - intros v. rewrite tr_stream_flat_eq, Hc. unfold tr_stream_flat, fuel_for. cbn [length tr_loop].
    unfold tr_read. rewrite read_msg_nil. reflexivity.
Qed.

(* ------------------------------------------------------------------ 4d. format *)

Lemma abridged_header_small n : n mod 4 = 0 -> n / 4 < 127 -> abridged_header n = [n / 4].
Proof.
  intros _ H. unfold abridged_header. destruct (N.ltb_spec (n / 4) 127); [|lia].
  rewrite N.mod_small by lia. reflexivity.
Qed.

Lemma abridged_header_big n : 127 <= n / 4 ->
  abridged_header n = [127; (n / 4) mod 256; (n / 4 / 256) mod 256; (n / 4 / 65536) mod 256].
Proof. intros H. unfold abridged_header. destruct (N.ltb_spec (n / 4) 127); [lia|reflexivity]. Qed.

Lemma abridged_header_big_value n : 127 <= n / 4 -> n / 4 < 16777216 ->
  exists x y z, abridged_header n = [127; x; y; z] /\ x < 256 /\ y < 256 /\ z < 256 /\
                x + 256 * y + 65536 * z = n / 4.
Proof.
  intros H1 H2. rewrite abridged_header_big by exact H1.
  eexists _, _, _. split; [reflexivity|]. repeat split; lia.
Qed.

Lemma intermediate_header_value n : n < 4294967296 ->
  exists a b c d, intermediate_header n = [a; b; c; d] /\ a < 256 /\ b < 256 /\ c < 256 /\ d < 256 /\
                  a + 256 * b + 65536 * c + 16777216 * d = n.
Proof.
  intros H. unfold intermediate_header. rewrite (N.mod_small n 4294967296) by exact H. unfold le32.
  eexists _, _, _, _. split; [reflexivity|]. repeat split; lia.
Qed.

Lemma write_msg_ok v m : carriable v m -> write_msg v m = Ok (frame v m).
Proof.
  unfold write_msg, write_header, frame, header.
  destruct v; cbn [carriable].
  - intros [H4 Hw]. rewrite H4. cbn [N.eqb negb].
    destruct (N.leb_spec 16777216 (blen m / 4)); [lia|reflexivity].
  - intros H. destruct (N.leb_spec 4294967296 (blen m)); [lia|reflexivity].
Qed.

Lemma write_msg_abridged_unaligned m : blen m mod 4 <> 0 -> write_msg Abridged m = Err.
Proof.
  intros H. unfold write_msg, write_header.
  destruct (N.eqb_spec (blen m mod 4) 0); [contradiction|reflexivity].
Qed.

(* a message the format cannot carry is refused, nothing is written for it *)
Lemma write_msg_refuses v m : ~ carriable v m -> write_msg v m = Err.
Proof.
  unfold write_msg, write_header. destruct v; cbn [carriable]; intros H.
  - destruct (N.eqb_spec (blen m mod 4) 0) as [E|E]; cbn [negb]; [|reflexivity].
    destruct (N.leb_spec 16777216 (blen m / 4)); [reflexivity|]. exfalso. apply H. split; assumption.
  - destruct (N.leb_spec 4294967296 (blen m)); [reflexivity|contradiction].
Qed.

Lemma write_header_spec v m :
  write_msg v m = match write_header v (blen m) with Ok h => Ok (h ++ m) | Err => Err | Panic => Panic end.
Proof. reflexivity. Qed.

Lemma write_all_ok v msgs : Forall (carriable v) msgs -> write_all v msgs = Ok (concat (map (frame v) msgs)).
Proof.
  induction 1 as [|m msgs Hm _ IH]; cbn [write_all map concat]; [reflexivity|].
  rewrite write_msg_ok by exact Hm. rewrite IH. reflexivity.
Qed.

Lemma write_stream_ok v msgs : Forall (carriable v) msgs -> write_stream v msgs = Ok (wire v msgs).
Proof. intros H. unfold write_stream, wire. rewrite write_all_ok by exact H. reflexivity. Qed.

Theorem end_to_end v msgs : Forall (carriable v) msgs ->
  exists s, write_stream v msgs = Ok s /\
    forall chunks, concat chunks = s ->
      read_stream chunks = Some {| d_mode := Some v; d_msgs := msgs; d_end := EEof |}.
Proof.
  intros H. exists (wire v msgs). split; [apply write_stream_ok; exact H|].
  intros chunks Hc. apply delivery; assumption.
Qed.
