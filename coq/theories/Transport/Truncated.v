(* Transport/Truncated.v - a stream that ends INSIDE a frame.

   C08_delivery is about streams that end between frames.  When the connection is closed (or the writer gives up)
   in the middle of a frame, the reader must deliver exactly the complete frames before it and then fail: the
   incomplete frame is never handed out as a message, however the bytes that did arrive were segmented.
   [read_msg_extend]   ReadMsg depends only on the bytes it consumes: what it returns on a stream it returns on
                       every extension of that stream (with the extension left over);
   [truncated_msg]     hence on a proper prefix of a frame it cannot succeed;
   [truncated_flat] / [truncated]   the whole-stream statement, for the peer that runs Detect + ReadMsg;
   [tr_truncated]      the same for the client's reader (transport.ReadMsg over a known mode);
   [truncated_in_body] the failure is "unexpected end" (kind other), not io.EOF, whenever at least one byte of
                       the frame's body has arrived.  (A stream cut exactly behind a length header - no body byte -
                       ends with io.EOF: the code passes the first read's io.EOF on unwrapped.  Not a message
                       either way.) *)
From Coq Require Import ZArith NArith List Lia ZifyN ZifyNat ZifyBool Bool.
From MTV Require Import Base.Bytes Base.Outcome Transport.Framing Transport.FramingProofs Transport.TrDelivery.
Import ListNotations.
Open Scope N_scope.

Lemma flat_read_extend n s a s' q : flat_read n s = Got (a, s') -> flat_read n (s ++ q) = Got (a, s' ++ q).
Proof.
  intros H. apply flat_read_inv in H. destruct H as [-> Hn]. rewrite <- app_assoc. apply flat_read_app. exact Hn.
Qed.

Lemma body_of_extend n s m s' q : body_of n (flat_read n s) = Got (m, s') ->
  body_of n (flat_read n (s ++ q)) = Got (m, s' ++ q).
Proof.
  unfold body_of. destruct (flat_read n s) as [[a c]|e] eqn:E; [|discriminate].
  rewrite (flat_read_extend n s a c q E). destruct (blen a =? n); [|discriminate].
  intros H. injection H as <- <-. reflexivity.
Qed.

Lemma read_msg_extend v s m s' q : read_msg flat_read v s = Got (m, s') ->
  read_msg flat_read v (s ++ q) = Got (m, s' ++ q).
Proof.
  destruct v; cbn [read_msg].
  - unfold read_msg_abridged. destruct (flat_read 1 s) as [[b c1]|e] eqn:E1; [|discriminate].
    rewrite (flat_read_extend 1 s b c1 q E1).
    destruct b as [|h [|? ?]]; try discriminate.
    destruct (h =? 127).
    + destruct (flat_read 3 c1) as [[b3 c2]|e] eqn:E3; [|discriminate].
      rewrite (flat_read_extend 3 c1 b3 c2 q E3).
      destruct b3 as [|x [|y [|z [|? ?]]]]; try discriminate.
      apply body_of_extend.
    + apply body_of_extend.
  - unfold read_msg_intermediate. destruct (flat_read 4 s) as [[b c1]|e] eqn:E1; [|discriminate].
    rewrite (flat_read_extend 4 s b c1 q E1).
    destruct b as [|b0 [|b1 [|b2 [|b3 [|? ?]]]]]; try discriminate.
    apply body_of_extend.
Qed.

(* a proper prefix of a frame is not a message *)
Lemma truncated_msg v m p q : carriable v m -> frame v m = p ++ q -> q <> [] ->
  exists e, read_msg flat_read v p = Fail e.
Proof.
  intros Hc Hf Hq. destruct (read_msg flat_read v p) as [[m' s']|e] eqn:E; [|eauto].
  exfalso. pose proof (read_msg_extend v p m' s' q E) as X.
  rewrite <- Hf in X. pose proof (read_msg_frame v m [] Hc) as Y. rewrite app_nil_r in Y.
  rewrite Y in X. injection X as _ X. destruct s'; [cbn in X; congruence|discriminate].
Qed.

Lemma read_loop_truncated v m p q : carriable v m -> frame v m = p ++ q -> q <> [] ->
  forall msgs fuel, Forall (carriable v) msgs -> (length msgs < fuel)%nat ->
  exists e, read_loop flat_read fuel v (concat (map (frame v) msgs) ++ p) = Some (msgs, e).
Proof.
  intros Hc Hf Hq. destruct (truncated_msg v m p q Hc Hf Hq) as [e He].
  induction msgs as [|m0 msgs IH]; intros fuel Hall Hfuel.
  - destruct fuel as [|f]; [lia|]. exists e. cbn [map concat read_loop app]. rewrite He. reflexivity.
  - destruct fuel as [|f]; [cbn [length] in Hfuel; lia|].
    inversion Hall as [|? ? Hm Hrest]; subst.
    destruct (IH f Hrest ltac:(cbn [length] in Hfuel; lia)) as [e' IH'].
    exists e'. cbn [map concat read_loop]. rewrite <- app_assoc. rewrite read_msg_frame by exact Hm.
    rewrite IH'. reflexivity.
Qed.

Theorem truncated_flat v msgs m p q : Forall (carriable v) msgs -> carriable v m ->
  frame v m = p ++ q -> q <> [] ->
  exists e, read_stream_flat (wire v msgs ++ p) = Some {| d_mode := Some v; d_msgs := msgs; d_end := e |}.
Proof.
  intros Hall Hc Hf Hq. unfold read_stream_flat, wire. rewrite <- app_assoc, detect_announce.
  destruct (read_loop_truncated v m p q Hc Hf Hq msgs (fuel_for (announce v ++ concat (map (frame v) msgs) ++ p)) Hall) as [e He].
  - unfold fuel_for. rewrite !app_length. pose proof (frames_length v msgs). lia.
  - exists e. rewrite He. reflexivity.
Qed.

Theorem truncated v msgs m p q chunks : Forall (carriable v) msgs -> carriable v m ->
  frame v m = p ++ q -> q <> [] -> concat chunks = wire v msgs ++ p ->
  exists e, read_stream chunks = Some {| d_mode := Some v; d_msgs := msgs; d_end := e |}.
Proof.
  intros Hall Hc Hf Hq Hch. rewrite read_stream_flat_eq, Hch. exact (truncated_flat v msgs m p q Hall Hc Hf Hq).
Qed.

(* ---- the client's reader ----------------------------------------------------------------------------- *)

Lemma tr_read_truncated v m p q : carriable v m -> frame v m = p ++ q -> q <> [] ->
  exists e, tr_read flat_read v p = Fail e.
Proof.
  intros Hc Hf Hq. destruct (truncated_msg v m p q Hc Hf Hq) as [e He]. exists e. unfold tr_read. rewrite He. reflexivity.
Qed.

Lemma tr_read_frame v m r : carriable v m -> blen m <> 4 -> tr_read flat_read v (frame v m ++ r) = Got (TData m, r).
Proof.
  intros Hc H4. apply tr_read_data; [apply read_msg_frame; exact Hc|exact H4].
Qed.

Lemma tr_loop_truncated v m p q : carriable v m -> frame v m = p ++ q -> q <> [] ->
  forall msgs fuel, Forall (carriable v) msgs -> Forall (fun x => blen x <> 4) msgs -> (length msgs < fuel)%nat ->
  exists e, tr_loop flat_read fuel v (concat (map (frame v) msgs) ++ p) = Some (map TData msgs, e).
Proof.
  intros Hc Hf Hq. destruct (tr_read_truncated v m p q Hc Hf Hq) as [e He].
  induction msgs as [|m0 msgs IH]; intros fuel Hall H4 Hfuel.
  - destruct fuel as [|f]; [lia|]. exists e. cbn [map concat tr_loop app]. rewrite He. reflexivity.
  - destruct fuel as [|f]; [cbn [length] in Hfuel; lia|].
    inversion Hall as [|? ? Hm Hrest]; subst. inversion H4 as [|? ? Hm4 Hrest4]; subst.
    destruct (IH f Hrest Hrest4 ltac:(cbn [length] in Hfuel; lia)) as [e' IH'].
    exists e'. cbn [map concat tr_loop]. rewrite <- app_assoc. rewrite tr_read_frame by assumption.
    rewrite IH'. reflexivity.
Qed.

Theorem tr_truncated v msgs m p q chunks : Forall (carriable v) msgs -> Forall (fun x => blen x <> 4) msgs ->
  carriable v m -> frame v m = p ++ q -> q <> [] -> concat chunks = concat (map (frame v) msgs) ++ p ->
  exists e, tr_stream v chunks = Some (map TData msgs, e).
Proof.
  intros Hall H4 Hc Hf Hq Hch. rewrite tr_stream_flat_eq, Hch. unfold tr_stream_flat.
  apply (tr_loop_truncated v m p q Hc Hf Hq msgs _ Hall H4).
  unfold fuel_for. rewrite app_length. pose proof (frames_length v msgs). lia.
Qed.

(* ---- which failure ------------------------------------------------------------------------------------ *)

Lemma flat_read_partial n s : s <> [] -> blen s < n -> flat_read n s = Fail EOther.
Proof.
  intros Hs Hn. unfold flat_read. destruct (N.eqb_spec n 0); [lia|].
  destruct (N.leb_spec n (blen s)); [lia|]. destruct s; [congruence|reflexivity].
Qed.

(* the whole header and at least one, but not every, byte of the body have arrived: unexpected end, not EOF *)
Theorem truncated_in_body v m b1 b2 : carriable v m -> m = b1 ++ b2 -> b1 <> [] -> b2 <> [] ->
  read_msg flat_read v (header v (blen m) ++ b1) = Fail EOther.
Proof.
  intros Hc Hm H1 H2.
  assert (Hlt : blen b1 < blen m).
  { rewrite Hm, blen_app. destruct b2; [congruence|]. unfold blen. cbn [length]. lia. }
  destruct v; cbn [read_msg header].
  - destruct Hc as [H4 Hw]. unfold abridged_header.
    destruct (N.ltb_spec (blen m / 4) 127) as [Hs|Hb].
    + rewrite N.mod_small by lia. rewrite abridged_small by lia.
      replace (blen m / 4 * 4) with (blen m) by lia. rewrite flat_read_partial by assumption. reflexivity.
    + change ([127; (blen m / 4) mod 256; (blen m / 4 / 256) mod 256; (blen m / 4 / 65536) mod 256] ++ b1)
        with ([127] ++ [(blen m / 4) mod 256; (blen m / 4 / 256) mod 256; (blen m / 4 / 65536) mod 256] ++ b1).
      rewrite abridged_big.
      replace (of_le32 ((blen m / 4) mod 256) ((blen m / 4 / 256) mod 256) ((blen m / 4 / 65536) mod 256) 0 * 4)
        with (blen m) by (unfold of_le32; lia).
      rewrite flat_read_partial by assumption. reflexivity.
  - cbn [carriable] in Hc. unfold intermediate_header. rewrite N.mod_small by exact Hc.
    unfold le32. rewrite intermediate_hdr. rewrite of_le32_le32 by exact Hc.
    rewrite flat_read_partial by assumption. reflexivity.
Qed.
