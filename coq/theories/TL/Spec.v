(* C02: the TL serialisation as the schema line defines it, written from the TL definition
   alone (no Go descriptors): schema-level values [sval], the serialiser [spec] driven by the
   parsed combinators, and the abstraction [abs] from codec values to schema values. *)
From Coq Require Import String.
From Coq Require Import ZArith NArith List Lia Bool.
From MTV Require Import Base.Bytes Base.Outcome Base.Str TL.Types TL.Codec TL.Typing TL.TLText.
Import ListNotations.
Open Scope N_scope.

(* a value as the schema sees it: a constructor applied to arguments; a conditional argument
   is either present or absent *)
Inductive sval :=
| SInt (n : N) | SLong (n : N) | SDouble (n : N) | SBool (b : bool)
| SStr (s : bytes)                 (* string and bytes have the same serialisation *)
| SBig (w256 : bool) (n : N)
| SVec (l : list sval)
| SCtor (id : N) (args : list (option sval))   (* boxed constructor / function call *)
| SEnum (id : N)                   (* parameterless constructor of an enum-like type *)
| SOpaque.                         (* outside the schema (container, gzip, wrapped slice, nil) *)

(* flags word: one bit per present conditional argument *)
Fixpoint spec_flags (ps : list param) (args : list (option sval)) : N :=
  match ps with
  | [] => 0
  | p :: ps' =>
      match p_ty p with
      | PNat => spec_flags ps' args          (* the flags parameter itself takes no argument *)
      | PCond b _ =>
          match args with
          | Some _ :: args' => N.lor (N.shiftl 1 b) (spec_flags ps' args')
          | None :: args' => spec_flags ps' args'
          | [] => 0
          end
      | _ => match args with _ :: args' => spec_flags ps' args' | [] => 0 end
      end
  end.

Fixpoint concat_opt (l : list (option bytes)) : option bytes :=
  match l with
  | [] => Some []
  | Some a :: r => match concat_opt r with Some b => Some (a ++ b) | None => None end
  | None :: _ => None
  end.

Section Spec.
  Variable S : list comb.

  Definition find_comb (id : N) : option comb := find (fun c => c_id c =? id) S.

  (* parameters in declaration order; the flags word stands where `#` is declared *)
  Fixpoint spec_params (flags : N) (ps : list param) (es : list (option (option bytes))) : option bytes :=
    (* es: per argument, None = absent, Some e = its serialisation (Some None = not serialisable) *)
    match ps with
    | [] => match es with [] => Some [] | _ => None end
    | p :: ps' =>
        match p_ty p with
        | PNat => match spec_params flags ps' es with Some r => Some (le32 flags ++ r) | None => None end
        | PUnknown => None
        | PPlain _ =>
            match es with
            | Some (Some e) :: es' => match spec_params flags ps' es' with Some r => Some (e ++ r) | None => None end
            | _ => None                      (* a mandatory argument cannot be absent *)
            end
        | PCond _ TTTrue =>
            match es with
            | _ :: es' => spec_params flags ps' es'     (* `true` is carried by the bit alone *)
            | [] => None
            end
        | PCond _ _ =>
            match es with
            | Some (Some e) :: es' => match spec_params flags ps' es' with Some r => Some (e ++ r) | None => None end
            | None :: es' => spec_params flags ps' es'
            | _ => None
            end
        end
    end.

  Fixpoint spec (v : sval) : option bytes :=
    match v with
    | SInt n => Some (le32 n)
    | SLong n => Some (le64 n)
    | SDouble n => Some (le64 n)
    | SBool b => Some (le32 (if b then crc_true else crc_false))
    | SStr s => put_bytes s                         (* refuses 2^24 bytes and more *)
    | SBig w256 n => if w256 then (if n <? 256 ^ 32 then Some (be_bytes 32 n) else None)
                     else (if n <? 256 ^ 16 then Some (be_bytes 16 n) else None)
    | SVec l =>
        match concat_opt (map spec l) with
        | Some body => Some (le32 crc_vector ++ le32 (N.of_nat (length l) mod two32) ++ body)
        | None => None
        end
    | SEnum id => Some (le32 id)
    | SCtor id args =>
        match find_comb id with
        | None => None
        | Some c =>
            match spec_params (spec_flags (c_params c) args) (c_params c)
                              (map (fun a => match a with Some x => Some (spec x) | None => None end) args) with
            | Some body => Some (le32 id ++ body)
            | None => None
            end
        end
    | SOpaque => None
    end.
End Spec.

(* abstraction of a codec value: which constructor, which arguments are present *)
Section Abs.
  Variable U : universe.

  Definition abs_field (abs : gval -> sval) (fl : N) (fd : field) (v : gval) : option sval :=
    match f_tag fd with
    | TagNone => Some (abs v)
    | TagFlag b => if N.testbit fl b then Some (abs v) else None
    | TagBit b => if N.testbit fl b then Some (SBool true) else None
    | TagBad => Some SOpaque
    end.

  Fixpoint abs (v : gval) : sval :=
    match v with
    | VInt n => SInt n
    | VLong n => SLong n
    | VDouble n => SDouble n
    | VBool b => SBool b
    | VStr s => SStr s
    | VBytes _ s => SStr s
    | VEnum c => SEnum c
    | VBig w _ n => SBig w n
    | VVec _ l => SVec (map abs l)
    | VObj tid fs =>
        match get_struct U tid with
        | Some sd =>
            match s_crc sd with
            | Some crc =>
                SCtor crc
                  ((fix go (fds : list field) (vs : list gval) {struct vs} : list (option sval) :=
                      match fds, vs with
                      | fd :: fds', x :: vs' => abs_field abs (flags_of (s_fields sd) fs) fd x :: go fds' vs'
                      | _, _ => []
                      end) (s_fields sd) fs)
            | None => SOpaque
            end
        | None => SOpaque
        end
    | VNil | VContainer _ | VGzip _ | VWrapped _ => SOpaque
    end.
End Abs.
