(* What exactly [norm] may change.  [canonical U t v] is a decidable description of the fixed
   points of [norm U]: relative to the flags word [flags_of] computes for each struct value
   inside v,
     - a conditional field (`flag:b`) whose bit is clear holds the zero value of its type,
     - a field encoded in the flags word (`flag:b,encoded_in_bitflags`) holds [VBool true]
       when bit b is set and the zero value of its type ([VBool false]) when it is clear,
     - slices that travel are non-nil (a nil slice comes back as an empty one),
     - and so on recursively in nested objects and vector elements.
   [canonical U t v = true <-> norm U v = v] holds for EVERY value (no typing hypothesis), so
   on canonical values the round trip returns the value itself.  Values are self-describing
   (an object carries its type id), so the field type [t] plays no role in the recursion; the
   argument is kept so that the predicate reads like [wt U t v]. *)
From Coq Require Import ZArith NArith List Lia ZifyN ZifyNat ZifyBool Bool.
From MTV Require Import Base.Bytes Base.Outcome TL.Types TL.Codec TL.Typing TL.RoundTrip.
Import ListNotations.
Open Scope N_scope.

(* pointwise test over a value list no longer than the field list ([norm_fields] truncates) *)
Section All2p.
  Variables A B : Type.
  Variable f : A -> B -> bool.
  Fixpoint all2p (l1 : list A) (l2 : list B) {struct l2} : bool :=
    match l1, l2 with
    | _, [] => true
    | a :: l1', b :: l2' => f a b && all2p l1' l2'
    | [], _ :: _ => false
    end.
End All2p.
Arguments all2p {A B}.

(* x is the zero value of type t *)
Definition is_zero_of (t : fty) (x : gval) : bool :=
  match t, x with
  | TI32, VInt 0 | TU32, VInt 0 => true
  | TI64, VLong 0 => true
  | TF64, VDouble 0 => true
  | TBool, VBool false => true
  | TStr, VStr [] => true
  | TBytes, VBytes true [] => true
  | TEnum _, VEnum 0 => true
  | TIface _, VNil | TPtr _, VNil | TI128, VNil | TI256, VNil | TBad, VNil => true
  | TVec _, VVec true [] => true
  | _, _ => false
  end.

Definition is_vtrue (x : gval) : bool := match x with VBool true => true | _ => false end.

Definition canon_field (canon : gval -> bool) (fl : N) (fd : field) (x : gval) : bool :=
  match f_tag fd with
  | TagNone => canon x
  | TagFlag b => if N.testbit fl b then canon x else is_zero_of (f_ty fd) x
  | TagBit b => if N.testbit fl b then is_vtrue x else is_zero_of (f_ty fd) x
  | TagBad => true
  end.

Section Canon.
Variable U : universe.

Fixpoint canon (v : gval) : bool :=
  match v with
  | VVec isnil l => negb isnil && forallb canon l
  | VBytes isnil _ => negb isnil
  | VObj tid fs =>
      match get_struct U tid with
      | Some sd => all2p (canon_field canon (flags_of (s_fields sd) fs)) (s_fields sd) fs
      | None => true
      end
  | _ => true
  end.

Definition canonical (t : fty) (v : gval) : bool := canon v.

Notation norm := (norm U).
Notation norm_fields := (norm_fields U).

Lemma is_zero_of_spec t x : is_zero_of t x = true <-> zero_of t = x.
Proof.
  destruct t; destruct x; cbn [is_zero_of zero_of]; split; intros H; try discriminate H; try reflexivity;
    repeat match goal with
    | H : match ?y with _ => _ end = true |- _ => destruct y; try discriminate H
    | H : _ ?a = _ ?b |- _ => injection H as H; subst
    | H : _ ?a ?a' = _ ?b ?b' |- _ => injection H as H; subst
    end; try reflexivity.
Qed.

Lemma is_vtrue_spec x : is_vtrue x = true <-> VBool true = x.
Proof.
  destruct x; cbn [is_vtrue]; split; intros H; try discriminate H; try reflexivity.
  - destruct b; [reflexivity|discriminate].
  - injection H as <-. reflexivity.
Qed.

Lemma cons_eq_iff {A} (a b : A) l m : a :: l = b :: m <-> a = b /\ l = m.
Proof. split; [intros H; injection H; auto|intros [-> ->]; reflexivity]. Qed.

Lemma canon_field_spec fl fd x : (canon x = true <-> norm x = x) ->
  (canon_field canon fl fd x = true <-> norm_field norm fl fd x = x).
Proof.
  intros IH. unfold canon_field, norm_field. destruct (f_tag fd) as [|b|b|].
  - exact IH.
  - destruct (N.testbit fl b); [exact IH|apply is_zero_of_spec].
  - destruct (N.testbit fl b); [apply is_vtrue_spec|apply is_zero_of_spec].
  - split; reflexivity.
Qed.

Lemma canon_fields_spec fl : forall fs, Forall (fun x => canon x = true <-> norm x = x) fs ->
  forall fds, all2p (canon_field canon fl) fds fs = true <-> norm_fields fl fds fs = fs.
Proof.
  induction 1 as [|x vs Hx _ IH]; intros fds.
  - destruct fds; cbn [all2p Typing.norm_fields]; split; reflexivity.
  - destruct fds as [|fd fds]; cbn [all2p Typing.norm_fields].
    + split; discriminate.
    + rewrite andb_true_iff, cons_eq_iff, (canon_field_spec fl fd x Hx), IH. reflexivity.
Qed.

Lemma map_id_iff {A} (f : A -> A) l : map f l = l <-> Forall (fun x => f x = x) l.
Proof.
  induction l as [|x l IH]; cbn [map].
  - split; [constructor|reflexivity].
  - rewrite cons_eq_iff, IH. split; [intros [? ?]; constructor; auto|intros H; inversion H; auto].
Qed.

(* the exact characterisation: canonical values are the fixed points of norm *)
Theorem canon_iff v : canon v = true <-> norm v = v.
Proof.
  induction v using gval_ind'; try (cbn [canon Typing.norm]; split; reflexivity).
  - (* VBytes *)
    cbn [canon Typing.norm]. destruct isnil; cbn [negb]; split; try reflexivity; discriminate.
  - (* VObj *)
    cbn [canon]. destruct (get_struct U tid) as [sd|] eqn:Hg.
    + rewrite (norm_obj U tid fs sd Hg), (canon_fields_spec _ fs H). split.
      * intros ->. reflexivity.
      * intros E. injection E; auto.
    + rewrite (norm_obj_none U tid fs Hg). split; reflexivity.
  - (* VVec *)
    cbn [canon Typing.norm]. rewrite andb_true_iff, forallb_forall. split.
    + intros [Hn Hall]. destruct isnil; [discriminate|]. f_equal. apply map_id_iff.
      rewrite Forall_forall in *. intros x Hx. apply (H x Hx). auto.
    + intros E. injection E as <- E. split; [reflexivity|]. apply map_id_iff in E.
      rewrite Forall_forall in *. intros x Hx. apply (H x Hx). auto.
Qed.

Theorem canonical_iff t v : canonical t v = true <-> norm v = v.
Proof. apply canon_iff. Qed.

(* norm lands in the canonical values ... *)
Lemma canonical_norm t v : wt U t v = true -> canonical t (norm v) = true.
Proof. intros _. apply canonical_iff. apply norm_idem_all. Qed.

(* ... leaves them alone ... *)
Lemma norm_canonical_id t v : wt U t v = true -> canonical t v = true -> norm v = v.
Proof. intros _. apply canonical_iff. Qed.

(* ... and changes every other value: canonical is not stronger than needed *)
Lemma canonical_of_fixed t v : norm v = v -> canonical t v = true.
Proof. apply canonical_iff. Qed.

Lemma not_canonical_changes t v : canonical t v = false -> norm v <> v.
Proof. intros H E. apply (canonical_iff t) in E. congruence. Qed.

(* the content of the predicate for one struct value, field by field *)
Lemma canonical_obj_field t tid fs sd j fd x :
  get_struct U tid = Some sd -> canonical t (VObj tid fs) = true ->
  nth_error (s_fields sd) j = Some fd -> nth_error fs j = Some x ->
  match f_tag fd with
  | TagNone => canonical (f_ty fd) x = true
  | TagFlag b => if N.testbit (flags_of (s_fields sd) fs) b then canonical (f_ty fd) x = true
                 else x = zero_of (f_ty fd)
  | TagBit b => x = if N.testbit (flags_of (s_fields sd) fs) b then VBool true else zero_of (f_ty fd)
  | TagBad => True
  end.
Proof.
  intros Hg Hc Hf Hx. unfold canonical in *. cbn [canon] in Hc. rewrite Hg in Hc.
  revert Hc Hf Hx. generalize (flags_of (s_fields sd) fs) as fl. intros fl.
  generalize (s_fields sd) as fds. revert j. induction fs as [|y fs IH]; intros j fds Hc Hf Hx.
  - destruct j; discriminate.
  - destruct fds as [|fd0 fds]; [destruct j; discriminate|]. cbn [all2p] in Hc.
    apply andb_prop in Hc as [Hc0 Hc]. destruct j as [|j]; cbn [nth_error] in Hf, Hx.
    + apply some_inj in Hf. apply some_inj in Hx. subst fd0 y. unfold canon_field in Hc0.
      destruct (f_tag fd) as [|b|b|]; auto.
      * destruct (N.testbit fl b); auto. symmetry. now apply is_zero_of_spec.
      * destruct (N.testbit fl b); symmetry; [now apply is_vtrue_spec|now apply is_zero_of_spec].
    + eapply IH; eauto.
Qed.

End Canon.

(* ---------- the round trip on canonical values returns the value itself ---------- *)
Theorem roundtrip_exact : forall U inflate, pseudo_ok U = true ->
  forall v t bs, wt U t v = true -> canonical U t v = true -> enc U v = Ok bs ->
  forall h rest, exists f0, forall f, (f0 <= f)%nat ->
    dec U inflate f (JVal t) (h, bs ++ rest) = DOk ([v], (h, rest)).
Proof.
  intros U inflate HU v t bs Hwt Hc Henc h rest.
  destruct (roundtrip U inflate HU v t bs Hwt Henc h rest) as [f0 Hf0].
  exists f0. intros f Hf. rewrite (Hf0 f Hf), (norm_canonical_id U t v Hwt Hc). reflexivity.
Qed.

Corollary roundtrip_named_exact : forall U inflate, pseudo_ok U = true ->
  forall tid fs bs, wt U (TPtr tid) (VObj tid fs) = true -> canonical U (TPtr tid) (VObj tid fs) = true ->
  enc U (VObj tid fs) = Ok bs ->
  exists f0, forall f, (f0 <= f)%nat -> decode_named U inflate f tid bs = DOk (VObj tid fs).
Proof.
  intros U inflate HU tid fs bs Hwt Hc Henc.
  destruct (roundtrip_named U inflate HU tid fs bs Hwt Henc) as [f0 Hf0].
  exists f0. intros f Hf. rewrite (Hf0 f Hf), (norm_canonical_id U _ _ Hwt Hc). reflexivity.
Qed.

Corollary roundtrip_unknown_exact : forall U inflate, pseudo_ok U = true ->
  forall tid fs bs, wt U (TIface 0) (VObj tid fs) = true -> canonical U (TIface 0) (VObj tid fs) = true ->
  enc U (VObj tid fs) = Ok bs ->
  exists f0, forall f, (f0 <= f)%nat -> decode_unknown U inflate f [] bs = DOk (VObj tid fs).
Proof.
  intros U inflate HU tid fs bs Hwt Hc Henc.
  destruct (roundtrip_unknown U inflate HU tid fs bs Hwt Henc) as [f0 Hf0].
  exists f0. intros f Hf. rewrite (Hf0 f Hf), (norm_canonical_id U _ _ Hwt Hc). reflexivity.
Qed.

(* ---------- the hypothesis cannot be dropped ----------
   One struct, flags word first, a conditional int `flags.0?int` and a `flags.0?true` member of
   the SAME group.  This is TL semantics, not a defect of the codec: the wire carries ONE bit
   for the whole group, so "x present, b false" has no encoding; it is written as "group
   present" and read back as "x present, b true". *)
Definition grp_U : universe :=
  {| u_structs := [ {| s_crc := Some 305419896; s_flagidx := Some 0%nat;
                       s_fields := [ {| f_ty := TI32; f_tag := TagFlag 0 |};
                                     {| f_ty := TBool; f_tag := TagBit 0 |} ];
                       s_impls := [0] |} ];
     u_enum_impls := []; u_reg := [(305419896, RStruct 0)]; u_true := 7; u_false := 8; u_null := 9 |}.

Example canonical_needed :
  let v := VObj 0 [VInt 7; VBool false] in
  pseudo_ok grp_U = true /\ wt grp_U (TPtr 0) v = true /\ wt grp_U (TIface 0) v = true /\
  canonical grp_U (TPtr 0) v = false /\
  norm grp_U v = VObj 0 [VInt 7; VBool true] /\
  exists bs, enc grp_U v = Ok bs /\
    (forall f, decode_named grp_U (fun _ => None) f 0 bs <> DOk v) /\
    (forall f, decode_unknown grp_U (fun _ => None) f [] bs <> DOk v) /\
    (forall f, (8 <= f)%nat -> decode_named grp_U (fun _ => None) f 0 bs = DOk (VObj 0 [VInt 7; VBool true])).
Proof.
  cbv zeta. repeat (split; [reflexivity|]). eexists. split; [reflexivity|]. repeat split.
  - intros f. do 8 (destruct f as [|f]; [vm_compute; discriminate|]). vm_compute. discriminate.
  - intros f. do 8 (destruct f as [|f]; [vm_compute; discriminate|]). vm_compute. discriminate.
  - intros f Hf. do 8 (destruct f as [|f]; [lia|]). vm_compute. reflexivity.
Qed.

(* the canonical sibling of the same value does come back unchanged *)
Example canonical_sibling_exact :
  let v := VObj 0 [VInt 7; VBool true] in
  canonical grp_U (TPtr 0) v = true /\
  exists bs, enc grp_U v = Ok bs /\
    forall f, (8 <= f)%nat -> decode_named grp_U (fun _ => None) f 0 bs = DOk v.
Proof.
  cbv zeta. split; [reflexivity|]. eexists. split; [reflexivity|].
  intros f Hf. do 8 (destruct f as [|f]; [lia|]). vm_compute. reflexivity.
Qed.

Check canonical.
Check canonical_iff.
Print Assumptions canonical_iff.
Print Assumptions roundtrip_exact.
Print Assumptions roundtrip_named_exact.
Print Assumptions roundtrip_unknown_exact.
