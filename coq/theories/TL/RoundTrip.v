(* Round trip of the TL codec model: decoding the encoding of a well-typed value yields its
   normal form and consumes exactly the bytes the encoder produced. *)
From Coq Require Import ZArith NArith List Lia ZifyN ZifyNat ZifyBool Bool.
From MTV Require Import Base.Bytes Base.Outcome TL.Types TL.Codec TL.Typing.
Import ListNotations.
Open Scope N_scope.
Ltac Zify.zify_post_hook ::= Z.div_mod_to_equations.

(* ---------- nested induction on values ---------- *)
Section Ind.
Variable P : gval -> Prop.
Hypothesis HInt : forall n, P (VInt n).
Hypothesis HLong : forall n, P (VLong n).
Hypothesis HDouble : forall n, P (VDouble n).
Hypothesis HBool : forall b, P (VBool b).
Hypothesis HStr : forall s, P (VStr s).
Hypothesis HBytes : forall isnil b, P (VBytes isnil b).
Hypothesis HEnum : forall c, P (VEnum c).
Hypothesis HNil : P VNil.
Hypothesis HObj : forall tid fs, Forall P fs -> P (VObj tid fs).
Hypothesis HVec : forall isnil l, Forall P l -> P (VVec isnil l).
Hypothesis HBig : forall w hi n, P (VBig w hi n).
Hypothesis HContainer : forall items, P (VContainer items).
Hypothesis HGzip : forall v, P v -> P (VGzip v).
Hypothesis HWrapped : forall v, P v -> P (VWrapped v).
Fixpoint gval_ind' (v : gval) : P v :=
  match v with
  | VInt n => HInt n | VLong n => HLong n | VDouble n => HDouble n | VBool b => HBool b
  | VStr s => HStr s | VBytes i b => HBytes i b | VEnum c => HEnum c | VNil => HNil
  | VObj tid fs => HObj tid fs ((fix go (l : list gval) : Forall P l :=
       match l with [] => Forall_nil _ | x :: r => Forall_cons _ (gval_ind' x) (go r) end) fs)
  | VVec i l => HVec i l ((fix go (l : list gval) : Forall P l :=
       match l with [] => Forall_nil _ | x :: r => Forall_cons _ (gval_ind' x) (go r) end) l)
  | VBig w h n => HBig w h n
  | VContainer items => HContainer items
  | VGzip v => HGzip v (gval_ind' v)
  | VWrapped v => HWrapped v (gval_ind' v)
  end.
End Ind.

(* ---------- small helpers ---------- *)
Lemma some_inj {A} (a b : A) : Some a = Some b -> a = b.
Proof. congruence. Qed.

Lemma obind_ok {A B} (x : outcome A) (f : A -> outcome B) b :
  obind x f = Ok b -> exists a, x = Ok a /\ f a = Ok b.
Proof. destruct x; cbn [obind]; [eauto|discriminate|discriminate]. Qed.

Lemma dbind_ok {A B} (r : dres A) (f : A -> dres B) b :
  dbind r f = DOk b -> exists a, r = DOk a /\ f a = DOk b.
Proof. destruct r; cbn [dbind]; try discriminate; eauto. Qed.

Lemma blen_app (a b : bytes) : blen (a ++ b) = blen a + blen b.
Proof. unfold blen. rewrite app_length. lia. Qed.

Lemma blen_le32 n : blen (le32 n) = 4.
Proof. reflexivity. Qed.

Lemma blen_le64 n : blen (le64 n) = 8.
Proof. reflexivity. Qed.

Lemma all2_nil_l {A B} (f : A -> B -> bool) l : all2 f [] l = true -> l = [].
Proof. destruct l; [reflexivity|discriminate]. Qed.

Lemma all2_cons_l {A B} (f : A -> B -> bool) a l1 l :
  all2 f (a :: l1) l = true -> exists b l2, l = b :: l2 /\ f a b = true /\ all2 f l1 l2 = true.
Proof.
  destruct l as [|b l2]; [discriminate|]. cbn [all2]. intros H. apply andb_prop in H as [H1 H2]. eauto.
Qed.

(* ---------- the flags word ---------- *)
Lemma log2_lt32 a : a < 2 ^ 32 -> N.log2 a < 32.
Proof. intros. destruct (N.eq_dec a 0) as [->|]; [cbn; lia|]. apply N.log2_lt_pow2; lia. Qed.

Lemma lor_lt32 a b : a < 2 ^ 32 -> b < 2 ^ 32 -> N.lor a b < 2 ^ 32.
Proof.
  intros Ha Hb. destruct (N.eq_dec (N.lor a b) 0) as [->|Hn]; [cbn; lia|].
  apply N.log2_lt_pow2; [lia|]. rewrite N.log2_lor. apply N.max_lub_lt; now apply log2_lt32.
Qed.

Lemma tag_ok_bit fd b : tag_ok fd = true -> tag_bit (f_tag fd) = Some b -> b < 32.
Proof.
  unfold tag_ok. destruct (f_tag fd); cbn [tag_bit]; try discriminate; intros H E; apply some_inj in E; subst.
  - lia.
  - apply andb_prop in H as [H _]. lia.
Qed.

Lemma flags_of_lt fds : forallb tag_ok fds = true -> forall vs, flags_of fds vs < two32.
Proof.
  unfold two32. induction fds as [|fd fds IH]; intros Hb vs; cbn [flags_of]; [lia|].
  destruct vs as [|v vs]; [lia|].
  cbn [forallb] in Hb. apply andb_prop in Hb as [Hfd Hb]. specialize (IH Hb vs).
  destruct (tag_bit (f_tag fd)) as [b|] eqn:E; auto. destruct (is_zero v); auto.
  assert (Hb32 : b < 32) by (eapply tag_ok_bit; eauto).
  change 4294967296 with (2 ^ 32) in *. apply lor_lt32; auto.
  rewrite N.shiftl_1_l. apply N.pow_lt_mono_r; lia.
Qed.

(* a conditional group counts as present exactly when one of its members is non-zero *)
Lemma flags_bit_spec fds vs b :
  N.testbit (flags_of fds vs) b = true <->
  exists j fd v, nth_error fds j = Some fd /\ nth_error vs j = Some v /\
                 tag_bit (f_tag fd) = Some b /\ is_zero v = false.
Proof.
  revert vs. induction fds as [|fd0 fds IH]; intros vs.
  - cbn [flags_of]. rewrite N.bits_0. split; [discriminate|].
    intros (j & fd & v & H & _). destruct j; discriminate.
  - destruct vs as [|v0 vs].
    + cbn [flags_of]. rewrite N.bits_0. split; [discriminate|].
      intros (j & fd & v & _ & H & _). destruct j; discriminate.
    + cbn [flags_of]. split.
      * intros H.
        assert (Hrec : N.testbit (flags_of fds vs) b = true ->
                       exists j fd v, nth_error (fd0 :: fds) j = Some fd /\ nth_error (v0 :: vs) j = Some v /\
                                      tag_bit (f_tag fd) = Some b /\ is_zero v = false).
        { intros H'. apply IH in H' as (j & fd & v & H1 & H2 & H3 & H4). exists (S j), fd, v. auto. }
        destruct (tag_bit (f_tag fd0)) as [b0|] eqn:E; auto.
        destruct (is_zero v0) eqn:Ez; auto.
        rewrite N.lor_spec in H. apply orb_prop in H as [H|H]; auto.
        rewrite N.shiftl_1_l in H. destruct (N.eq_dec b0 b) as [->|Hne].
        -- exists 0%nat, fd0, v0. auto.
        -- rewrite N.pow2_bits_false in H by auto. discriminate.
      * intros (j & fd & v & H1 & H2 & H3 & H4). destruct j as [|j]; cbn [nth_error] in H1, H2.
        -- apply some_inj in H1. apply some_inj in H2. subst fd0 v0. rewrite H3, H4.
           rewrite N.lor_spec, N.shiftl_1_l, N.pow2_bits_true. reflexivity.
        -- assert (H' : N.testbit (flags_of fds vs) b = true) by (apply IH; eauto 8).
           destruct (tag_bit (f_tag fd0)); auto. destruct (is_zero v0); auto.
           rewrite N.lor_spec, H'. apply orb_true_r.
Qed.

Lemma flags_bit_iff fds vs b : forallb tag_ok fds = true ->
  N.testbit (flags_of fds vs) b = true <->
  exists j fd v, nth_error fds j = Some fd /\ nth_error vs j = Some v /\
                 tag_bit (f_tag fd) = Some b /\ is_zero v = false.
Proof. intros _. apply flags_bit_spec. Qed.

(* if the group bit is set, every TagFlag member of the group, zero-valued or not, is
   written and comes back (as its normal form) *)
Lemma present_member_survives U fl fds vs j fd v b :
  nth_error fds j = Some fd -> nth_error vs j = Some v ->
  f_tag fd = TagFlag b -> N.testbit fl b = true ->
  nth_error (norm_fields U fl fds vs) j = Some (norm U v).
Proof.
  revert vs j. induction fds as [|fd0 fds IH]; intros vs j Hf Hv Ht Hb; [destruct j; discriminate|].
  destruct vs as [|v0 vs]; [destruct j; discriminate|]. cbn [norm_fields].
  destruct j as [|j]; cbn [nth_error] in *.
  - apply some_inj in Hf. apply some_inj in Hv. subst fd0 v0. unfold norm_field. now rewrite Ht, Hb.
  - eauto.
Qed.

(* and an absent group comes back as zero values *)
Lemma absent_member_zero U fl fds vs j fd v b :
  nth_error fds j = Some fd -> nth_error vs j = Some v ->
  tag_bit (f_tag fd) = Some b -> N.testbit fl b = false ->
  nth_error (norm_fields U fl fds vs) j = Some (zero_of (f_ty fd)).
Proof.
  revert vs j. induction fds as [|fd0 fds IH]; intros vs j Hf Hv Ht Hb; [destruct j; discriminate|].
  destruct vs as [|v0 vs]; [destruct j; discriminate|]. cbn [norm_fields].
  destruct j as [|j]; cbn [nth_error] in *.
  - apply some_inj in Hf. apply some_inj in Hv. subst fd0 v0. unfold norm_field.
    destruct (f_tag fd); cbn [tag_bit] in Ht; try discriminate; apply some_inj in Ht; subst; now rewrite Hb.
  - eauto.
Qed.

(* ---------- every encoding is at least one word long ---------- *)
Lemma put_bytes_len m bs : put_bytes m = Some bs -> 4 <= blen bs.
Proof.
  unfold put_bytes. destruct (blen m <? 254) eqn:E1.
  - intros H. apply some_inj in H. subst bs. rewrite !blen_app, blen_zeros. unfold padlen.
    change (blen [blen m]) with 1. lia.
  - destruct (blen m <? two24); [|discriminate]. intros H. apply some_inj in H. subst bs.
    rewrite !blen_app. match goal with |- context [blen [?a; ?b; ?c; ?d]] => change (blen [a; b; c; d]) with 4 end. lia.
Qed.

Lemma enc_len4 U v bs : enc U v = Ok bs -> 4 <= blen bs.
Proof.
  destruct v; cbn [enc]; intros H.
  - apply Ok_inj in H. subst. rewrite blen_le32. lia.
  - apply Ok_inj in H. subst. rewrite blen_le64. lia.
  - apply Ok_inj in H. subst. rewrite blen_le64. lia.
  - apply Ok_inj in H. subst. rewrite blen_le32. lia.
  - destruct (put_bytes s) eqn:E; [|discriminate]. apply Ok_inj in H. subst. eapply put_bytes_len; eauto.
  - destruct (put_bytes b) eqn:E; [|discriminate]. apply Ok_inj in H. subst. eapply put_bytes_len; eauto.
  - apply Ok_inj in H. subst. rewrite blen_le32. lia.
  - discriminate.
  - destruct (get_struct U tid) as [sd|]; [|discriminate]. destruct (s_crc sd); [|discriminate].
    destruct (existsb bad_field (s_fields sd)); [discriminate|].
    apply obind_ok in H as [body [_ H]]. apply Ok_inj in H. subst. rewrite blen_app, blen_le32. lia.
  - apply obind_ok in H as [body [_ H]]. apply Ok_inj in H. subst. rewrite blen_app, blen_le32. lia.
  - destruct (negb hasint); [discriminate|]. destruct w256.
    + destruct (n <? 256 ^ 32); [|discriminate]. apply Ok_inj in H. subst. unfold blen. rewrite be_bytes_length. lia.
    + destruct (n <? 256 ^ 16); [|discriminate]. apply Ok_inj in H. subst. unfold blen. rewrite be_bytes_length. lia.
  - apply Ok_inj in H. subst. rewrite blen_app, blen_le32. lia.
  - discriminate.
  - discriminate.
Qed.

Lemma concat_len4 U l : forall body, concat_out (map (enc U) l) = Ok body ->
  4 * N.of_nat (length l) <= blen body.
Proof.
  induction l as [|v l IH]; intros body H; cbn [map concat_out length] in *.
  - lia.
  - apply obind_ok in H as [a [Ha H]]. apply obind_ok in H as [b [Hb H]]. apply Ok_inj in H. subst.
    rewrite blen_app. specialize (IH _ Hb). apply enc_len4 in Ha. lia.
Qed.

(* ---------- the encoder's second loop without the flags word ---------- *)
Fixpoint asm_plain (flags : N) (fds : list field) (es : list (outcome bytes)) : outcome bytes :=
  match fds, es with
  | [], [] => Ok []
  | fd :: fds', e :: es' =>
      do b <- (if selected flags fd then e else Ok []);
      do c <- asm_plain flags fds' es';
      Ok (b ++ c)
  | _, _ => Panic
  end.

Lemma assemble_plain fi flags m : (forall x, (m <= x)%nat -> flag_here fi x = false) ->
  forall fds es i j, (m <= i)%nat -> (m <= j)%nat ->
  assemble fi flags i j fds es = asm_plain flags fds es.
Proof.
  intros Hm. induction fds as [|fd fds IH]; intros es i j Hi Hj; destruct es as [|e es]; cbn [assemble asm_plain]; auto.
  rewrite (Hm i Hi). cbn [obind]. unfold emit_at. rewrite (Hm j Hj).
  destruct (selected flags fd).
  - destruct e as [a| |]; cbn [obind]; auto. rewrite IH by lia. reflexivity.
  - cbn [obind]. rewrite IH by lia. reflexivity.
Qed.

Lemma has_tagged_untagged fds : has_tagged fds = false -> forallb untagged fds = true.
Proof.
  unfold has_tagged. induction fds as [|fd fds IH]; cbn [existsb forallb]; auto.
  intros H. apply orb_false_elim in H as [H1 H2]. rewrite (IH H2). unfold untagged.
  destruct (f_tag fd); try discriminate. reflexivity.
Qed.

(* the pseudo objects (true / false / null) are decoded by DecodeUnknownObject without
   looking at any field: the round trip needs them to be field-less (as they are) *)
Definition pseudo_empty (U : universe) (tid : N) : bool :=
  match get_struct U tid with
  | Some sd => match s_fields sd with [] => true | _ :: _ => false end
  | None => true
  end.
Definition pseudo_ok (U : universe) : bool :=
  pseudo_empty U (u_true U) && pseudo_empty U (u_false U) && pseudo_empty U (u_null U).

Section RT.
Variable U : universe.
Variable inflate : bytes -> option bytes.

Notation dec := (dec U inflate).
Notation enc := (enc U).
Notation wt := (wt U).
Notation norm := (norm U).
Notation norm_fields := (norm_fields U).

Ltac step := rewrite dec_S; unfold dec_body; cbv beta iota zeta.
Ltac fuel f0 f Hf := exists f0; intros f Hf; destruct f as [|f]; [lia|]; step.

Definition RTP (v : gval) : Prop := forall t bs h rest, wt t v = true -> enc v = Ok bs ->
  exists f0, forall f, (f0 <= f)%nat -> dec f (JVal t) (h, bs ++ rest) = DOk ([norm v], (h, rest)).

(* fields once the flags word is behind us (or there is none) *)
Lemma plain_rt fi flags parsed :
  match fi with Some _ => parsed = true | None => True end ->
  forall fds vs i cur body h rest,
  (forall x, (i <= x)%nat -> flag_here fi x = false) ->
  Forall RTP vs ->
  all2 (wt_field wt) fds vs = true ->
  forallb tag_ok fds = true ->
  (cur = flags \/ forallb untagged fds = true) ->
  asm_plain flags fds (map enc vs) = Ok body ->
  exists f0, forall f, (f0 <= f)%nat ->
    dec f (JFields fi i parsed cur fds) (h, body ++ rest) = DOk (norm_fields flags fds vs, (h, rest)).
Proof.
  intros Hparsed. induction fds as [|fd fds IH]; intros vs i cur body h rest Hnf HP Hwt Hok Hcur Hasm.
  - apply all2_nil_l in Hwt. subst vs. cbn [map asm_plain] in Hasm. apply Ok_inj in Hasm. subst body.
    fuel 1%nat f Hf. rewrite (Hnf i (le_n i)). cbn [app norm_fields].
    destruct fi; [rewrite Hparsed|]; reflexivity.
  - apply all2_cons_l in Hwt as (v & vs' & -> & Hwv & Hwt).
    cbn [map asm_plain] in Hasm.
    apply obind_ok in Hasm as [a [Ha Hasm]]. apply obind_ok in Hasm as [c [Hc Hasm]].
    apply Ok_inj in Hasm. subst body.
    inversion HP as [|? ? HPv HPvs]; subst.
    cbn [forallb] in Hok. apply andb_prop in Hok as [Hfd Hok].
    assert (Hcur' : cur = flags \/ forallb untagged fds = true).
    { destruct Hcur as [->|H]; auto. cbn [forallb] in H. apply andb_prop in H as [_ H]. auto. }
    assert (Hnf' : forall x, (S i <= x)%nat -> flag_here fi x = false) by (intros; apply Hnf; lia).
    destruct (IH vs' (S i) cur c h rest Hnf' HPvs Hwt Hok Hcur' Hc) as [f2 Hf2].
    assert (Hfl : untagged fd = false -> cur = flags).
    { intros Hu. destruct Hcur as [->|H]; auto. cbn [forallb] in H. rewrite Hu in H. discriminate. }
    cbn [norm_fields]. unfold norm_field, selected, wt_field, tag_ok, untagged in *.
    destruct (f_tag fd) as [|b|b|] eqn:Et.
    + (* mandatory *)
      destruct (HPv _ _ h (c ++ rest) Hwv Ha) as [f1 Hf1].
      fuel (S (Nat.max f1 f2)) f Hf. rewrite (Hnf i (le_n i)), Et.
      rewrite <- app_assoc, Hf1 by lia. cbn [dbind]. rewrite Hf2 by lia. reflexivity.
    + (* conditional *)
      rewrite (Hfl eq_refl) in *. destruct (N.testbit flags b) eqn:Eb.
      * destruct (HPv _ _ h (c ++ rest) Hwv Ha) as [f1 Hf1].
        fuel (S (Nat.max f1 f2)) f Hf. rewrite (Hnf i (le_n i)), Et, Eb.
        rewrite <- app_assoc, Hf1 by lia. cbn [dbind]. rewrite Hf2 by lia. reflexivity.
      * apply Ok_inj in Ha. subst a. cbn [app].
        fuel (S f2) f Hf. rewrite (Hnf i (le_n i)), Et, Eb. rewrite Hf2 by lia. reflexivity.
    + (* encoded in the flags word *)
      rewrite (Hfl eq_refl) in *. apply Ok_inj in Ha. subst a. cbn [app].
      fuel (S f2) f Hf. rewrite (Hnf i (le_n i)), Et.
      destruct (N.testbit flags b) eqn:Eb; rewrite Hf2 by lia; reflexivity.
    + discriminate.
Qed.

(* fields up to and including the flags word: encoder indices i = j, nothing parsed yet *)
Lemma fields_rt p flags : flags < two32 ->
  forall fds vs i cur body h rest,
  (i <= p)%nat -> (p < i + length fds)%nat ->
  forallb untagged (firstn (p - i) fds) = true ->
  Forall RTP vs ->
  all2 (wt_field wt) fds vs = true ->
  forallb tag_ok fds = true ->
  assemble (Some p) flags i i fds (map enc vs) = Ok body ->
  exists f0, forall f, (f0 <= f)%nat ->
    dec f (JFields (Some p) i false cur fds) (h, body ++ rest) = DOk (norm_fields flags fds vs, (h, rest)).
Proof.
  intros Hlt. induction fds as [|fd fds IH]; intros vs i cur body h rest Hip Hlen Hunt HP Hwt Hok Hasm.
  - cbn [length] in Hlen. lia.
  - destruct (Nat.eq_dec p i) as [->|Hne].
    + (* the flags word sits here *)
      assert (Hnf : forall x, (S i <= x)%nat -> flag_here (Some i) x = false).
      { intros x Hx. cbn [flag_here]. apply Nat.eqb_neq. lia. }
      destruct (all2_cons_l _ _ _ _ Hwt) as (v & vs' & -> & _ & _).
      cbn [map assemble] in Hasm. cbn [flag_here] in Hasm. rewrite Nat.eqb_refl in Hasm.
      unfold emit_at in Hasm. cbn [flag_here] in Hasm. rewrite Nat.eqb_refl in Hasm. cbn [obind] in Hasm.
      replace (i =? S i)%nat with false in Hasm by (symmetry; apply Nat.eqb_neq; lia).
      apply obind_ok in Hasm as [b [Hb Hasm]]. apply obind_ok in Hasm as [c [Hc Hasm]].
      apply Ok_inj in Hasm. subst body.
      rewrite (assemble_plain _ _ (S i) Hnf) in Hc by (destruct (selected flags fd); lia).
      assert (Hpl : asm_plain flags (fd :: fds) (map enc (v :: vs')) = Ok (b ++ c)).
      { cbn [map asm_plain]. destruct (selected flags fd); rewrite Hb; cbn [obind]; rewrite Hc; reflexivity. }
      destruct (plain_rt (Some i) flags true eq_refl (fd :: fds) (v :: vs') (S i) flags (b ++ c) h rest
                  Hnf HP Hwt Hok (or_introl eq_refl) Hpl) as [f1 Hf1].
      fuel (S f1) f Hf. cbn [flag_here]. rewrite Nat.eqb_refl.
      rewrite <- app_assoc. rewrite pop32_le32 by exact Hlt. cbn [of_opt dbind].
      rewrite Hf1 by lia. reflexivity.
    + (* still before the flags word: a mandatory field *)
      assert (Hfh : flag_here (Some p) i = false) by (cbn [flag_here]; apply Nat.eqb_neq; lia).
      destruct (p - i)%nat as [|k] eqn:Ek; [lia|].
      cbn [firstn forallb] in Hunt. apply andb_prop in Hunt as [Hu Hunt].
      apply all2_cons_l in Hwt as (v & vs' & -> & Hwv & Hwt).
      inversion HP as [|? ? HPv HPvs]; subst.
      cbn [forallb] in Hok. apply andb_prop in Hok as [_ Hok].
      cbn [map assemble] in Hasm. rewrite Hfh in Hasm. cbn [obind] in Hasm.
      unfold emit_at in Hasm. rewrite Hfh in Hasm.
      unfold untagged in Hu. unfold selected in Hasm. unfold wt_field in Hwv.
      destruct (f_tag fd) eqn:Et; try discriminate.
      apply obind_ok in Hasm as [a [Ha Hasm]]. apply obind_ok in Hasm as [c [Hc Hasm]].
      apply Ok_inj in Hasm. subst body. cbn [app].
      destruct (IH vs' (S i) cur c h rest) as [f2 Hf2]; auto; try lia.
      { cbn [length] in Hlen. lia. }
      { replace (p - S i)%nat with k by lia. exact Hunt. }
      destruct (HPv _ _ h (c ++ rest) Hwv Ha) as [f1 Hf1].
      fuel (S (Nat.max f1 f2)) f Hf. rewrite Hfh, Et.
      rewrite <- app_assoc, Hf1 by lia. cbn [dbind]. rewrite Hf2 by lia.
      cbn [norm_fields]. unfold norm_field. rewrite Et. reflexivity.
Qed.

Lemma wf_flagidx sd : wf_struct sd = true ->
  (if has_tagged (s_fields sd) then s_flagidx sd else None) = s_flagidx sd.
Proof.
  unfold wf_struct. intros H. apply andb_prop in H as [_ H].
  destruct (s_flagidx sd) as [k|].
  - apply andb_prop in H as [H _]. apply andb_prop in H as [H _]. now rewrite H.
  - now destruct (has_tagged (s_fields sd)).
Qed.

Lemma struct_rt sd fs body h rest :
  wf_struct sd = true -> Forall RTP fs -> all2 (wt_field wt) (s_fields sd) fs = true ->
  assemble (s_flagidx sd) (flags_of (s_fields sd) fs) 0 0 (s_fields sd) (map enc fs) = Ok body ->
  exists f0, forall f, (f0 <= f)%nat ->
    dec f (JFields (s_flagidx sd) 0 false 0 (s_fields sd)) (h, body ++ rest)
    = DOk (norm_fields (flags_of (s_fields sd) fs) (s_fields sd) fs, (h, rest)).
Proof.
  intros Hwf HP Hwt Hasm. unfold wf_struct in Hwf.
  apply andb_prop in Hwf as [Hwf Hidx]. apply andb_prop in Hwf as [Hok _].
  destruct (s_flagidx sd) as [p|].
  - apply andb_prop in Hidx as [Hidx Hlen]. apply andb_prop in Hidx as [_ Hunt].
    apply Nat.ltb_lt in Hlen.
    eapply fields_rt; eauto; try lia.
    + apply flags_of_lt; auto.
    + now rewrite Nat.sub_0_r.
  - assert (Hnf : forall x, (0 <= x)%nat -> flag_here None x = false) by reflexivity.
    rewrite (assemble_plain _ _ 0%nat Hnf) in Hasm by lia.
    eapply plain_rt; eauto.
    right. apply has_tagged_untagged. now destruct (has_tagged (s_fields sd)).
Qed.

Lemma body_rt tid sd fs body h rest :
  get_struct U tid = Some sd ->
  wf_struct sd = true -> Forall RTP fs -> all2 (wt_field wt) (s_fields sd) fs = true ->
  assemble (s_flagidx sd) (flags_of (s_fields sd) fs) 0 0 (s_fields sd) (map enc fs) = Ok body ->
  exists f0, forall f, (f0 <= f)%nat ->
    dec f (JBody tid) (h, body ++ rest) = DOk ([norm (VObj tid fs)], (h, rest)).
Proof.
  intros Hg Hwf HP Hwt Hasm.
  destruct (struct_rt sd fs body h rest Hwf HP Hwt Hasm) as [f1 Hf1].
  fuel (S f1) f Hf. rewrite Hg. rewrite (wf_flagidx sd Hwf).
  replace (has_tagged (s_fields sd) && match s_flagidx sd with Some _ => false | None => true end) with false.
  2:{ unfold wf_struct in Hwf. apply andb_prop in Hwf as [_ H]. destruct (s_flagidx sd).
      - now rewrite andb_false_r.
      - destruct (has_tagged (s_fields sd)); [discriminate|reflexivity]. }
  rewrite Hf1 by lia. cbn [dbind]. unfold one. now rewrite (norm_obj U tid fs sd Hg).
Qed.

Lemma list_rt e : forall l body h rest,
  Forall RTP l -> forallb (wt e) l = true -> concat_out (map enc l) = Ok body ->
  exists f0, forall f, (f0 <= f)%nat ->
    dec f (JList e (length l)) (h, body ++ rest) = DOk (map norm l, (h, rest)).
Proof.
  induction l as [|v l IH]; intros body h rest HP Hwt Hc.
  - cbn [map concat_out] in Hc. apply Ok_inj in Hc. subst body. fuel 1%nat f Hf. reflexivity.
  - cbn [map concat_out] in Hc. apply obind_ok in Hc as [a [Ha Hc]]. apply obind_ok in Hc as [b [Hb Hc]].
    apply Ok_inj in Hc. subst body.
    cbn [forallb] in Hwt. apply andb_prop in Hwt as [Hwv Hwl]. inversion HP as [|? ? HPv HPl]; subst.
    destruct (IH b h rest HPl Hwl Hb) as [f2 Hf2]. destruct (HPv e a h (b ++ rest) Hwv Ha) as [f1 Hf1].
    cbn [length]. fuel (S (Nat.max f1 f2)) f Hf.
    rewrite <- app_assoc, Hf1 by lia. cbn [dbind]. rewrite Hf2 by lia. reflexivity.
Qed.

Hypothesis HU : pseudo_ok U = true.

Lemma pseudo_fields tid sd : (tid = u_true U \/ tid = u_false U \/ tid = u_null U) ->
  get_struct U tid = Some sd -> s_fields sd = [].
Proof.
  intros Ht Hg. unfold pseudo_ok in HU.
  apply andb_prop in HU as [H12 H3]. apply andb_prop in H12 as [H1 H2].
  assert (H : pseudo_empty U tid = true) by (destruct Ht as [->|[->| ->]]; assumption).
  unfold pseudo_empty in H. rewrite Hg in H. destruct (s_fields sd); [reflexivity|discriminate].
Qed.

(* an object read through the registry (DecodeUnknownObject) *)
Lemma reg_rt tid sd crc fs body h rest :
  get_struct U tid = Some sd -> wf_struct sd = true -> s_crc sd = Some crc -> reg_ok U tid crc = true ->
  Forall RTP fs -> all2 (wt_field wt) (s_fields sd) fs = true ->
  assemble (s_flagidx sd) (flags_of (s_fields sd) fs) 0 0 (s_fields sd) (map enc fs) = Ok body ->
  exists f0, forall f, (f0 <= f)%nat ->
    dec f JReg (h, (le32 crc ++ body) ++ rest) = DOk ([norm (VObj tid fs)], (h, rest)).
Proof.
  intros Hg Hwf Hcrc Hreg HP Hwt Hasm.
  assert (Hlt : crc < two32).
  { unfold wf_struct in Hwf. apply andb_prop in Hwf as [Hwf _]. apply andb_prop in Hwf as [_ Hwf].
    rewrite Hcrc in Hwf. now apply N.ltb_lt. }
  assert (Hpseudo : (tid = u_true U \/ tid = u_false U \/ tid = u_null U) ->
                    fs = [] /\ body = [] /\ norm (VObj tid fs) = VObj tid []).
  { intros Ht. pose proof (pseudo_fields tid sd Ht Hg) as Hnil. rewrite Hnil in *.
    apply all2_nil_l in Hwt. subst fs. cbn [map assemble] in Hasm. apply Ok_inj in Hasm. subst body.
    repeat split. rewrite (norm_obj U tid [] sd Hg), Hnil. reflexivity. }
  unfold reg_ok in Hreg.
  destruct (N.eqb_spec crc crc_true) as [->|Nt].
  { apply N.eqb_eq in Hreg. destruct Hpseudo as (-> & -> & ->); auto.
    fuel 1%nat f Hf. rewrite <- app_assoc, pop32_le32 by exact Hlt. subst tid. reflexivity. }
  destruct (N.eqb_spec crc crc_false) as [->|Nf].
  { apply N.eqb_eq in Hreg. destruct Hpseudo as (-> & -> & ->); auto.
    fuel 1%nat f Hf. rewrite <- app_assoc, pop32_le32 by exact Hlt. subst tid. reflexivity. }
  destruct (N.eqb_spec crc crc_null) as [->|Nn].
  { apply N.eqb_eq in Hreg. destruct Hpseudo as (-> & -> & ->); auto.
    fuel 1%nat f Hf. rewrite <- app_assoc, pop32_le32 by exact Hlt. subst tid. reflexivity. }
  destruct (N.eqb_spec crc crc_vector) as [->|Nv]; [discriminate|].
  destruct (lookup_reg U crc) as [[t| | |]|] eqn:El; try discriminate.
  apply N.eqb_eq in Hreg. subst t.
  destruct (body_rt tid sd fs body h rest Hg Hwf HP Hwt Hasm) as [f1 Hf1].
  fuel (S f1) f Hf. rewrite <- app_assoc, pop32_le32 by exact Hlt. cbn [of_opt dbind].
  apply N.eqb_neq in Nt, Nf, Nn, Nv. rewrite Nt, Nf, Nn, Nv, El. apply Hf1. lia.
Qed.

Theorem roundtrip_all : forall v, RTP v.
Proof.
  induction v using gval_ind'; intros t bs h rest Hwt Henc.
  - (* VInt *)
    cbn [Codec.enc] in Henc. apply Ok_inj in Henc. subst bs.
    destruct t; try discriminate; cbn [Typing.wt] in Hwt; apply N.ltb_lt in Hwt;
      fuel 1%nat f Hf; rewrite pop32_le32 by exact Hwt; reflexivity.
  - (* VLong *)
    cbn [Codec.enc] in Henc. apply Ok_inj in Henc. subst bs.
    destruct t; try discriminate; cbn [Typing.wt] in Hwt; apply N.ltb_lt in Hwt.
    fuel 1%nat f Hf. rewrite pop64_le64 by (unfold two64, two32 in *; lia). reflexivity.
  - (* VDouble *)
    cbn [Codec.enc] in Henc. apply Ok_inj in Henc. subst bs.
    destruct t; try discriminate; cbn [Typing.wt] in Hwt; apply N.ltb_lt in Hwt.
    fuel 1%nat f Hf. rewrite pop64_le64 by (unfold two64, two32 in *; lia). reflexivity.
  - (* VBool *)
    cbn [Codec.enc] in Henc. apply Ok_inj in Henc. subst bs.
    destruct t; try discriminate.
    fuel 1%nat f Hf. rewrite pop32_le32 by (destruct b; reflexivity). destruct b; reflexivity.
  - (* VStr *)
    cbn [Codec.enc] in Henc. destruct (put_bytes s) as [b|] eqn:E; [|discriminate].
    apply Ok_inj in Henc. subst bs.
    destruct t; try discriminate.
    fuel 1%nat f Hf. rewrite (pop_put _ _ rest E). reflexivity.
  - (* VBytes *)
    cbn [Codec.enc] in Henc. destruct (put_bytes b) as [b'|] eqn:E; [|discriminate].
    apply Ok_inj in Henc. subst bs.
    destruct t; try discriminate.
    fuel 1%nat f Hf. rewrite (pop_put _ _ rest E). reflexivity.
  - (* VEnum *)
    cbn [Codec.enc] in Henc. apply Ok_inj in Henc. subst bs.
    destruct t; try discriminate; cbn [Typing.wt] in Hwt; apply N.ltb_lt in Hwt.
    fuel 1%nat f Hf. rewrite pop32_le32 by exact Hwt. reflexivity.
  - (* VNil *)
    discriminate.
  - (* VObj *)
    cbn [Codec.enc] in Henc.
    destruct (get_struct U tid) as [sd|] eqn:Hg; [|discriminate].
    destruct (s_crc sd) as [crc|] eqn:Hcrc; [|discriminate].
    destruct (existsb bad_field (s_fields sd)); [discriminate|].
    apply obind_ok in Henc as [body [Hasm Henc]]. apply Ok_inj in Henc. subst bs.
    destruct t; try discriminate; cbn [Typing.wt] in Hwt.
    + (* through an interface *)
      rewrite Hg, Hcrc in Hwt.
      apply andb_prop in Hwt as [Hwt Hall]. apply andb_prop in Hwt as [Hwt Hreg].
      apply andb_prop in Hwt as [Hwf Himpl].
      destruct (reg_rt tid sd crc fs body h rest Hg Hwf Hcrc Hreg H Hall Hasm) as [f1 Hf1].
      fuel (S f1) f Hf. rewrite Hf1 by lia. cbn [dbind].
      rewrite (norm_obj U tid fs sd Hg). cbn [implements]. rewrite Hg, Himpl. reflexivity.
    + (* through a pointer *)
      apply andb_prop in Hwt as [Htid Hwt]. apply N.eqb_eq in Htid. subst tid0.
      rewrite Hg in Hwt. apply andb_prop in Hwt as [Hwf Hall].
      assert (Hlt : crc < two32).
      { unfold wf_struct in Hwf. apply andb_prop in Hwf as [Hwf' _]. apply andb_prop in Hwf' as [_ Hwf'].
        rewrite Hcrc in Hwf'. now apply N.ltb_lt. }
      destruct (body_rt tid sd fs body h rest Hg Hwf H Hall Hasm) as [f1 Hf1].
      fuel (S f1) f Hf. rewrite Hg. rewrite <- app_assoc, pop32_le32 by exact Hlt. cbn [of_opt dbind].
      rewrite Hcrc, N.eqb_refl. apply Hf1. lia.
  - (* VVec *)
    cbn [Codec.enc] in Henc. apply obind_ok in Henc as [body [Hc Henc]]. apply Ok_inj in Henc. subst bs.
    destruct t; try discriminate; cbn [Typing.wt] in Hwt.
    apply andb_prop in Hwt as [Hwt Hall]. apply andb_prop in Hwt as [_ Hlen]. apply N.ltb_lt in Hlen.
    destruct (list_rt t l body h rest H Hall Hc) as [f1 Hf1].
    pose proof (concat_len4 U l body Hc) as Hb.
    fuel (S f1) f Hf. rewrite <- !app_assoc. rewrite pop32_le32 by reflexivity. cbn [of_opt dbind].
    rewrite N.eqb_refl. cbn [negb].
    rewrite N.mod_small by exact Hlen. rewrite pop32_le32 by exact Hlen. cbn [of_opt dbind].
    replace (blen (body ++ rest) / 4 <? N.of_nat (length l)) with false.
    2:{ symmetry. apply N.ltb_ge. rewrite blen_app. lia. }
    rewrite Nat2N.id, Hf1 by lia. reflexivity.
  - (* VBig *)
    cbn [Codec.enc] in Henc.
    destruct t; try discriminate; destruct w; try discriminate; destruct hi; try discriminate;
      cbn [Typing.wt] in Hwt; cbn [negb] in Henc; rewrite Hwt in Henc; apply Ok_inj in Henc; subst bs;
      apply N.ltb_lt in Hwt.
    + fuel 1%nat f Hf. rewrite take_app.
      * cbn [of_opt dbind]. rewrite of_be_be_bytes by exact Hwt. reflexivity.
      * unfold blen. now rewrite be_bytes_length.
      * intros Heq. apply (f_equal (@length _)) in Heq. rewrite app_length, be_bytes_length in Heq.
        cbn [length] in Heq. lia.
    + fuel 1%nat f Hf. rewrite take_app.
      * cbn [of_opt dbind]. rewrite of_be_be_bytes by exact Hwt. reflexivity.
      * unfold blen. now rewrite be_bytes_length.
      * intros Heq. apply (f_equal (@length _)) in Heq. rewrite app_length, be_bytes_length in Heq.
        cbn [length] in Heq. lia.
  - destruct t; discriminate.
  - destruct t; discriminate.
  - destruct t; discriminate.
Qed.

Theorem roundtrip : forall v t bs, wt t v = true -> enc v = Ok bs ->
  forall h rest, exists f0, forall f, (f0 <= f)%nat ->
    dec f (JVal t) (h, bs ++ rest) = DOk ([norm v], (h, rest)).
Proof. intros v t bs Hwt Henc h rest. exact (roundtrip_all v t bs h rest Hwt Henc). Qed.

(* tl.Decode(tl.Marshal(x), &T{}) *)
Corollary roundtrip_named : forall tid fs bs,
  wt (TPtr tid) (VObj tid fs) = true -> enc (VObj tid fs) = Ok bs ->
  exists f0, forall f, (f0 <= f)%nat -> decode_named U inflate f tid bs = DOk (norm (VObj tid fs)).
Proof.
  intros tid fs bs Hwt Henc. destruct (roundtrip _ _ _ Hwt Henc [] []) as [f0 Hf0].
  exists f0. intros f Hf. unfold decode_named. rewrite app_nil_r in Hf0. rewrite Hf0 by exact Hf. reflexivity.
Qed.

(* tl.DecodeUnknownObject(tl.Marshal(x)) *)
Corollary roundtrip_unknown : forall tid fs bs,
  wt (TIface 0) (VObj tid fs) = true -> enc (VObj tid fs) = Ok bs ->
  exists f0, forall f, (f0 <= f)%nat -> decode_unknown U inflate f [] bs = DOk (norm (VObj tid fs)).
Proof.
  intros tid fs bs Hwt Henc. cbn [Codec.enc] in Henc. cbn [Typing.wt] in Hwt.
  destruct (get_struct U tid) as [sd|] eqn:Hg; [|discriminate].
  destruct (s_crc sd) as [crc|] eqn:Hcrc; [|discriminate].
  destruct (existsb bad_field (s_fields sd)); [discriminate|].
  apply obind_ok in Henc as [body [Hasm Henc]]. apply Ok_inj in Henc. subst bs.
  apply andb_prop in Hwt as [Hwt Hall]. apply andb_prop in Hwt as [Hwt Hreg].
  apply andb_prop in Hwt as [Hwf Himpl].
  assert (HP : Forall RTP fs) by (apply Forall_forall; intros; apply roundtrip_all).
  destruct (reg_rt tid sd crc fs body [] [] Hg Hwf Hcrc Hreg HP Hall Hasm) as [f0 Hf0].
  exists f0. intros f Hf. unfold decode_unknown. rewrite app_nil_r in Hf0. rewrite Hf0 by exact Hf. reflexivity.
Qed.

End RT.

(* Without [pseudo_ok] the statement is false: a struct registered under the id of boolFalse
   that has a field is written with the field and read back without it. *)
Definition cex_U : universe :=
  {| u_structs := [ {| s_crc := Some crc_false; s_flagidx := None;
                       s_fields := [ {| f_ty := TI32; f_tag := TagNone |} ]; s_impls := [0] |} ];
     u_enum_impls := []; u_reg := []; u_true := 1; u_false := 0; u_null := 2 |}.

Example pseudo_ok_needed :
  let v := VObj 0 [VInt 5] in
  pseudo_ok cex_U = false /\ wt cex_U (TIface 0) v = true /\
  exists bs, enc cex_U v = Ok bs /\
    forall f, dec cex_U (fun _ => None) f (JVal (TIface 0)) ([], bs ++ []) <> DOk ([norm cex_U v], ([], [])).
Proof.
  cbv zeta. split; [reflexivity|]. split; [reflexivity|]. eexists. split; [reflexivity|].
  intros [|[|f]]; vm_compute; discriminate.
Qed.

(* ---------- the normal form is a fixed point, and encodes to the same bytes ---------- *)
Section Norm.
Variable U : universe.
Notation enc := (enc U).
Notation wt := (wt U).
Notation norm := (norm U).
Notation norm_fields := (norm_fields U).

Lemma is_zero_zero_of t : is_zero (zero_of t) = true.
Proof. destruct t; reflexivity. Qed.

Lemma norm_nonzero v : is_zero v = false -> is_zero (norm v) = false.
Proof.
  destruct v; cbn [Typing.norm]; auto.
  destruct (get_struct U tid); auto.
Qed.

Lemma nth_norm_fields fl : forall fds vs j,
  nth_error (norm_fields fl fds vs) j =
  match nth_error fds j, nth_error vs j with
  | Some fd, Some v => Some (norm_field norm fl fd v)
  | _, _ => None
  end.
Proof.
  induction fds as [|fd fds IH]; intros vs j.
  - destruct vs; cbn [Typing.norm_fields]; destruct j; reflexivity.
  - destruct vs as [|v vs]; cbn [Typing.norm_fields].
    + destruct j as [|j]; cbn [nth_error]; [reflexivity|]. now destruct (nth_error fds j).
    + destruct j as [|j]; cbn [nth_error]; [reflexivity|]. apply IH.
Qed.

Lemma flags_norm_fields fds vs :
  flags_of fds (norm_fields (flags_of fds vs) fds vs) = flags_of fds vs.
Proof.
  apply N.bits_inj. intros b. apply eq_true_iff_eq. rewrite !flags_bit_spec.
  set (fl := flags_of fds vs). split.
  - intros (j & fd & v' & Hf & Hv & Ht & Hz). rewrite nth_norm_fields, Hf in Hv.
    destruct (nth_error vs j) as [v|] eqn:Ev; [|discriminate]. apply some_inj in Hv. subst v'.
    destruct (N.testbit fl b) eqn:Eb.
    + subst fl. now apply flags_bit_spec in Eb.
    + exfalso. unfold norm_field in Hz.
      destruct (f_tag fd); cbn [tag_bit] in Ht; try discriminate; apply some_inj in Ht; subst b0;
        rewrite Eb, is_zero_zero_of in Hz; discriminate.
  - intros (j & fd & v & Hf & Hv & Ht & Hz).
    assert (Eb : N.testbit fl b = true) by (subst fl; apply flags_bit_spec; eauto 8).
    exists j, fd, (norm_field norm fl fd v). rewrite nth_norm_fields, Hf, Hv. repeat split; auto.
    unfold norm_field.
    destruct (f_tag fd); cbn [tag_bit] in Ht; try discriminate; apply some_inj in Ht; subst b0; rewrite Eb.
    + now apply norm_nonzero.
    + reflexivity.
Qed.

Lemma norm_obj_none tid fs : get_struct U tid = None -> norm (VObj tid fs) = VObj tid fs.
Proof. intros H. cbn [Typing.norm]. now rewrite H. Qed.

Lemma norm_idem_all v : norm (norm v) = norm v.
Proof.
  induction v using gval_ind'; try reflexivity.
  - destruct (get_struct U tid) as [sd|] eqn:Hg.
    + rewrite (norm_obj U tid fs sd Hg). rewrite (norm_obj U tid _ sd Hg). f_equal.
      rewrite flags_norm_fields. generalize (flags_of (s_fields sd) fs) as fl. intros fl.
      generalize (s_fields sd) as fds. induction H as [|v vs Hv _ IH]; intros fds.
      * destruct fds; reflexivity.
      * destruct fds as [|fd fds]; [reflexivity|]. cbn [Typing.norm_fields]. f_equal; [|apply IH].
        unfold norm_field. destruct (f_tag fd); auto; destruct (N.testbit fl b); auto.
    + rewrite (norm_obj_none _ _ Hg). now apply norm_obj_none.
  - cbn [Typing.norm]. f_equal. rewrite map_map. induction H as [|v l Hv _ IH]; cbn [map]; [reflexivity|].
    now rewrite Hv, IH.
Qed.

Lemma norm_idem t v : wt t v = true -> norm (norm v) = norm v.
Proof. intros _. apply norm_idem_all. Qed.

Definition ENP (v : gval) : Prop := forall t, wt t v = true -> enc (norm v) = enc v.

Lemma assemble_norm fi fl : forall fds fs i j,
  Forall ENP fs -> all2 (wt_field wt) fds fs = true ->
  assemble fi fl i j fds (map enc (norm_fields fl fds fs)) = assemble fi fl i j fds (map enc fs).
Proof.
  induction fds as [|fd fds IH]; intros fs i j HP Hwt.
  - apply all2_nil_l in Hwt. subst fs. reflexivity.
  - apply all2_cons_l in Hwt as (v & vs & -> & Hwv & Hwt). inversion HP as [|? ? HPv HPvs]; subst.
    cbn [Typing.norm_fields map assemble]. rewrite IH by assumption.
    unfold selected, norm_field, wt_field in *.
    destruct (f_tag fd); auto.
    + now rewrite (HPv _ Hwv).
    + destruct (N.testbit fl b); auto. now rewrite (HPv _ Hwv).
Qed.

Lemma enc_norm_obj tid fs sd :
  get_struct U tid = Some sd -> Forall ENP fs -> all2 (wt_field wt) (s_fields sd) fs = true ->
  enc (norm (VObj tid fs)) = enc (VObj tid fs).
Proof.
  intros Hg HP Hall. rewrite (norm_obj U tid fs sd Hg). cbn [Codec.enc]. rewrite Hg.
  destruct (s_crc sd); auto. destruct (existsb bad_field (s_fields sd)); auto.
  rewrite flags_norm_fields, assemble_norm by assumption. reflexivity.
Qed.

Lemma enc_norm_all v : ENP v.
Proof.
  induction v using gval_ind'; intros t Hwt; try reflexivity.
  - destruct (get_struct U tid) as [sd|] eqn:Hg.
    2:{ now rewrite (norm_obj_none _ _ Hg). }
    apply (enc_norm_obj tid fs sd Hg H).
    destruct t; try discriminate; cbn [Typing.wt] in Hwt.
    + rewrite Hg in Hwt. now apply andb_prop in Hwt as [_ Hwt].
    + apply andb_prop in Hwt as [_ Hwt]. rewrite Hg in Hwt. now apply andb_prop in Hwt as [_ Hwt].
  - destruct t; try discriminate; cbn [Typing.wt] in Hwt. apply andb_prop in Hwt as [_ Hall].
    cbn [Typing.norm Codec.enc]. rewrite map_length.
    replace (map enc (map norm l)) with (map enc l); [reflexivity|].
    induction H as [|v l Hv _ IH]; cbn [map forallb] in *; [reflexivity|].
    apply andb_prop in Hall as [Hwv Hall]. now rewrite (Hv _ Hwv), IH.
Qed.

Lemma enc_norm t v : wt t v = true -> enc (norm v) = enc v.
Proof. intros H. exact (enc_norm_all v t H). Qed.

End Norm.

Check roundtrip.
Check roundtrip_named.
Check roundtrip_unknown.
Check flags_bit_iff.
Check present_member_survives.
Check norm_idem.
Check enc_norm.
Print Assumptions roundtrip_named.
Print Assumptions roundtrip_unknown.
Print Assumptions enc_norm.
Print Assumptions norm_idem.
Print Assumptions roundtrip.
