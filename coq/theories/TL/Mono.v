(* Fuel monotonicity of the TL decoder model: once [dec] returns anything but [DFuel]
   (a value, an error or a panic), every larger amount of fuel returns the same thing. *)
From Coq Require Import ZArith NArith List Lia ZifyN ZifyNat ZifyBool Bool.
From MTV Require Import Base.Bytes Base.Outcome TL.Types TL.Codec.
Import ListNotations.
Open Scope N_scope.

Section Mono.
Variable U : universe.
Variable inflate : bytes -> option bytes.

Section Body.
Variables rec rec' : job -> st -> R.
Hypothesis Hrec : forall j s, rec j s <> DFuel -> rec' j s = rec j s.

Lemma step_rec {B} j s (k k' : list gval * st -> dres B) :
  (forall a, k a <> DFuel -> k' a = k a) ->
  dbind (rec j s) k <> DFuel -> dbind (rec' j s) k' = dbind (rec j s) k.
Proof.
  intros Hk H. destruct (rec j s) as [a| | |] eqn:E; cbn [dbind] in *;
    try (rewrite (Hrec j s) by (rewrite E; discriminate); rewrite E; cbn [dbind]; auto; fail).
  congruence.
Qed.

Lemma step_plain {A B} (x : dres A) (k k' : A -> dres B) :
  (forall a, k a <> DFuel -> k' a = k a) ->
  dbind x k <> DFuel -> dbind x k' = dbind x k.
Proof. intros Hk H. destruct x; cbn [dbind] in *; auto. Qed.

Ltac mono_step :=
  match goal with
  | |- ?a <> DFuel -> ?a = ?a => intros _; reflexivity
  | |- rec ?j ?s <> DFuel -> rec' ?j ?s = rec ?j ?s => apply Hrec
  | |- dbind (rec _ _) _ <> DFuel -> dbind (rec' _ _) _ = _ => apply step_rec; intros [? ?]
  | |- dbind ?x _ <> DFuel -> dbind ?x _ = _ => apply step_plain; intros [? ?]
  | |- (match ?x with _ => _ end) <> DFuel -> _ => destruct x
  end.

Lemma dec_body_mono j s :
  dec_body U inflate rec j s <> DFuel -> dec_body U inflate rec' j s = dec_body U inflate rec j s.
Proof.
  unfold dec_body. destruct s as [h bs]. destruct j as [t|tid|fi i parsed fl fds|e n| |n]; cbv zeta.
  - destruct t; repeat mono_step.
  - repeat mono_step.
  - repeat mono_step.
  - repeat mono_step.
  - repeat mono_step.
  - repeat mono_step.
Qed.
End Body.

Lemma dec_mono_aux f : forall f' j s, (f <= f')%nat ->
  dec U inflate f j s <> DFuel -> dec U inflate f' j s = dec U inflate f j s.
Proof.
  induction f as [|f IH]; intros f' j s Hle H; [cbn [dec] in H; congruence|].
  destruct f' as [|f']; [lia|]. rewrite !dec_S in *.
  apply dec_body_mono; [|exact H]. intros j0 s0 H0. apply IH; [lia|exact H0].
Qed.

Lemma dec_mono f j s r : dec U inflate f j s = r -> r <> DFuel ->
  forall f', (f <= f')%nat -> dec U inflate f' j s = r.
Proof. intros <- Hr f' Hle. now apply dec_mono_aux. Qed.

End Mono.
