(* Round trip of the two hand-written codecs of internal/mtproto/objects/types.go inside the TL codec model:

     MessageContainer.MarshalTL / UnmarshalTL   (msg_container#73f1f8dc: count, then per message msg_id, seq_no, size, body)
     GzipPacked.UnmarshalTL / DecodeFromButItsVector (gzip_packed#3072cfa1: a TL byte string that inflates to ONE boxed object)

   [container_roundtrip]: decoding the encoding of a container returns the container - every message id, seq_no and
   body, in order, nothing else consumed - for every list of fewer than 2^31 messages whose ids are 64-bit patterns,
   seq_nos 32-bit patterns and bodies shorter than 2^31 bytes (the bounds of the int32 fields of the format; the decoder
   refuses anything beyond them, [container_count_refused] / [container_size_refused]).  Bodies are opaque byte strings
   (the library decodes them later, message by message), empty bodies included.
   [gzip_decodes]: a gzip_packed whose payload inflates (by the compress/gzip oracle) to the encoding of a well-typed
   object decodes to that object's normal form, with the OUTER hints, consuming exactly the packed byte string.
   gzip_packed is decode-only in the library ([enc_gzip_panics], known finding C01 marshal-gzip). *)
From Coq Require Import ZArith NArith List Lia ZifyN ZifyNat ZifyBool Bool.
From MTV Require Import Base.Bytes Base.Outcome TL.Types TL.Codec TL.Typing TL.RoundTrip.
Import ListNotations.
Open Scope N_scope.
Ltac Zify.zify_post_hook ::= Z.div_mod_to_equations.

Definition item_ok (it : N * N * bytes) : bool :=
  let '(mid, seq, body) := it in (mid <? two64) && (seq <? two32) && (blen body <? two32 / 2).

Lemma enc_item_len it : 16 <= blen (enc_item it).
Proof.
  destruct it as [[mid seq] body]. unfold enc_item. rewrite !blen_app, blen_le64, !blen_le32. lia.
Qed.

Lemma concat_items_len items : 16 * N.of_nat (length items) <= blen (concat (map enc_item items)).
Proof.
  induction items as [|it items IH]; cbn [map concat length]; [unfold blen; cbn; lia|].
  rewrite blen_app. pose proof (enc_item_len it). lia.
Qed.

Section CRT.
Variable U : universe.
Variable inflate : bytes -> option bytes.
Notation dec := (dec U inflate).

Ltac step := rewrite dec_S; unfold dec_body; cbv beta iota zeta.

(* the message loop of MessageContainer.UnmarshalTL *)
Lemma items_rt : forall items h rest, forallb item_ok items = true ->
  forall f, (length items < f)%nat ->
    dec f (JItems (length items)) (h, concat (map enc_item items) ++ rest) = DOk ([VContainer items], (h, rest)).
Proof.
  induction items as [|[[mid seq] body] items IH]; intros h rest Hok f Hf.
  - destruct f as [|f]; [cbn [length] in Hf; lia|]. step. reflexivity.
  - cbn [forallb] in Hok. apply andb_prop in Hok as [Hit Hok]. unfold item_ok in Hit.
    apply andb_prop in Hit as [Hit Hb]. apply andb_prop in Hit as [Hm Hs].
    apply N.ltb_lt in Hm, Hs, Hb.
    destruct f as [|f]; [lia|]. cbn [length] in *. step.
    cbn [map concat]. unfold enc_item at 1. rewrite <- !app_assoc.
    rewrite pop64_le64 by (unfold two64, two32 in *; lia). cbn [of_opt dbind].
    rewrite pop32_le32 by exact Hs. cbn [of_opt dbind].
    assert (Hb32 : blen body < two32) by (unfold two32 in *; lia).
    rewrite N.mod_small by exact Hb32. rewrite pop32_le32 by exact Hb32. cbn [of_opt dbind].
    replace (two32 / 2 <=? blen body) with false by (symmetry; apply N.leb_gt; exact Hb).
    assert (Htake : take (blen body) (body ++ concat (map enc_item items) ++ rest)
                    = Some (body, concat (map enc_item items) ++ rest)).
    { destruct body as [|b0 body'].
      - unfold take. cbn. reflexivity.
      - apply take_app; [reflexivity|discriminate]. }
    rewrite Htake. cbn [of_opt dbind].
    match goal with |- context [Codec.dec U inflate f ?j ?s] =>
      replace (Codec.dec U inflate f j s) with (@DOk (list gval * st) ([VContainer items], (h, rest)))
        by (symmetry; apply IH; [exact Hok|lia]) end.
    reflexivity.
Qed.

Hypothesis Hreg : lookup_reg U crc_container = Some RContainer.

Theorem container_roundtrip : forall items bs, forallb item_ok items = true -> N.of_nat (length items) < two32 / 2 ->
  enc U (VContainer items) = Ok bs ->
  forall h rest, exists f0, forall f, (f0 <= f)%nat ->
    dec f JReg (h, bs ++ rest) = DOk ([VContainer items], (h, rest)).
Proof.
  intros items bs Hok Hn Henc h rest. cbn [Codec.enc] in Henc. apply Ok_inj in Henc. subst bs.
  exists (S (S (length items))). intros f Hf. destruct f as [|f]; [lia|]. step.
  rewrite <- !app_assoc. rewrite pop32_le32 by reflexivity. cbn [of_opt dbind].
  replace (crc_container =? crc_vector) with false by reflexivity.
  replace (crc_container =? crc_false) with false by reflexivity.
  replace (crc_container =? crc_true) with false by reflexivity.
  replace (crc_container =? crc_null) with false by reflexivity.
  rewrite Hreg.
  assert (Hn32 : N.of_nat (length items) < two32) by (unfold two32 in *; lia).
  rewrite N.mod_small by exact Hn32. rewrite pop32_le32 by exact Hn32. cbn [of_opt dbind].
  replace (two32 / 2 <=? N.of_nat (length items)) with false by (symmetry; apply N.leb_gt; exact Hn).
  replace (blen (concat (map enc_item items) ++ rest) / 16 <? N.of_nat (length items)) with false.
  2:{ symmetry. apply N.ltb_ge. rewrite blen_app. pose proof (concat_items_len items). lia. }
  cbn [orb]. rewrite Nat2N.id. apply items_rt; [exact Hok|lia].
Qed.

(* tl.DecodeUnknownObject(tl.Marshal(&objects.MessageContainer{...})) *)
Corollary container_roundtrip_unknown : forall items bs, forallb item_ok items = true ->
  N.of_nat (length items) < two32 / 2 -> enc U (VContainer items) = Ok bs ->
  exists f0, forall f, (f0 <= f)%nat -> decode_unknown U inflate f [] bs = DOk (VContainer items).
Proof.
  intros items bs Hok Hn Henc. destruct (container_roundtrip items bs Hok Hn Henc [] []) as [f0 Hf0].
  exists f0. intros f Hf. unfold decode_unknown. rewrite app_nil_r in Hf0. rewrite Hf0 by exact Hf. reflexivity.
Qed.

(* the decoder refuses what the int32 fields cannot carry, and counts the data cannot hold: never a panic,
   never an allocation by the announced number *)
Theorem container_count_refused : forall n h r f,
  two32 / 2 <= n \/ blen r / 16 < n -> n < two32 ->
  dec (S f) JReg (h, le32 crc_container ++ le32 n ++ r) = DErr.
Proof.
  intros n h r f Hbad Hn. step. rewrite pop32_le32 by reflexivity. cbn [of_opt dbind].
  replace (crc_container =? crc_vector) with false by reflexivity.
  replace (crc_container =? crc_false) with false by reflexivity.
  replace (crc_container =? crc_true) with false by reflexivity.
  replace (crc_container =? crc_null) with false by reflexivity.
  rewrite Hreg. rewrite pop32_le32 by exact Hn. cbn [of_opt dbind].
  destruct (N.leb_spec (two32 / 2) n) as [H1|H1]; [reflexivity|].
  destruct (N.ltb_spec (blen r / 16) n) as [H2|H2]; [reflexivity|]. lia.
Qed.

Theorem container_size_refused : forall mid seq size h r f k,
  mid < two64 -> seq < two32 -> size < two32 -> two32 / 2 <= size ->
  dec (S f) (JItems (S k)) (h, le64 mid ++ le32 seq ++ le32 size ++ r) = DErr.
Proof.
  intros mid seq size h r f k Hm Hs Hz Hbad. step.
  rewrite pop64_le64 by (unfold two64, two32 in *; lia). cbn [of_opt dbind].
  rewrite pop32_le32 by exact Hs. cbn [of_opt dbind].
  rewrite pop32_le32 by exact Hz. cbn [of_opt dbind].
  replace (two32 / 2 <=? size) with true by (symmetry; apply N.leb_le; exact Hbad). reflexivity.
Qed.

(* ---------- gzip_packed ---------- *)
Hypothesis HU : pseudo_ok U = true.
Hypothesis Hgz : lookup_reg U crc_gzip = Some RGzip.

Lemma jreg_of_iface : forall f s vs s',
  dec (S f) (JVal (TIface 0)) s = DOk (vs, s') -> dec f JReg s = DOk (vs, s').
Proof.
  intros f [h bs] vs s'. step. destruct (dec f JReg (h, bs)) as [[vs1 s1]| | |]; cbn [dbind]; try discriminate.
  destruct vs1 as [|v [|v2 vs2]]; try discriminate.
  destruct (implements U 0 v); [|discriminate]. intros [= <- <-]. reflexivity.
Qed.

Theorem gzip_decodes : forall v raw payload packed,
  wt U (TIface 0) v = true -> enc U v = Ok raw ->
  inflate payload = Some raw -> put_bytes payload = Some packed ->
  forall h rest, exists f0, forall f, (f0 <= f)%nat ->
    dec f JReg (h, le32 crc_gzip ++ packed ++ rest) = DOk ([VGzip (norm U v)], (h, rest)).
Proof.
  intros v raw payload packed Hwt Henc Hinf Hput h rest.
  destruct (roundtrip U inflate HU v (TIface 0) raw Hwt Henc h []) as [f1 Hf1].
  exists (S (S f1)). intros f Hf. destruct f as [|f]; [lia|]. step.
  rewrite pop32_le32 by reflexivity. cbn [of_opt dbind].
  replace (crc_gzip =? crc_vector) with false by reflexivity.
  replace (crc_gzip =? crc_false) with false by reflexivity.
  replace (crc_gzip =? crc_true) with false by reflexivity.
  replace (crc_gzip =? crc_null) with false by reflexivity.
  rewrite Hgz. rewrite (pop_put _ _ rest Hput). cbn [of_opt dbind]. rewrite Hinf.
  destruct f as [|f]; [lia|].
  assert (Hj : dec (S f) JReg (h, raw) = DOk ([norm U v], (h, []))).
  { apply jreg_of_iface. rewrite <- (app_nil_r raw). apply Hf1. lia. }
  rewrite Hj. reflexivity.
Qed.

Corollary gzip_decodes_unknown : forall v raw payload packed,
  wt U (TIface 0) v = true -> enc U v = Ok raw ->
  inflate payload = Some raw -> put_bytes payload = Some packed ->
  exists f0, forall f, (f0 <= f)%nat ->
    decode_unknown U inflate f [] (le32 crc_gzip ++ packed) = DOk (VGzip (norm U v)).
Proof.
  intros v raw payload packed Hwt Henc Hinf Hput.
  destruct (gzip_decodes v raw payload packed Hwt Henc Hinf Hput [] []) as [f0 Hf0].
  exists f0. intros f Hf. unfold decode_unknown. rewrite app_nil_r in Hf0. rewrite Hf0 by exact Hf. reflexivity.
Qed.

End CRT.

(* gzip_packed is decode-only: GzipPacked.MarshalTL panics ("not implemented") *)
Lemma enc_gzip_panics U v : enc U (VGzip v) = Panic.
Proof. reflexivity. Qed.
