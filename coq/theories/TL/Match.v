(* C13: does the registered Go layer say what the schema says?  A decidable checker
   [matches] over (type universe, parsed schema) with the reasons for every mismatch, and its
   declarative reading. *)
From Coq Require Import String.
From Coq Require Import ZArith NArith List Lia Bool.
From MTV Require Import Base.Bytes Base.Outcome Base.Str Prim.Crc32 TL.Types TL.Codec TL.Typing TL.TLText.
Import ListNotations.
Open Scope N_scope.

(* how a schema type is represented in Go (tlgen's classification):
   all constructors parameterless -> enum type; one constructor -> pointer to its struct;
   several -> interface implemented by every constructor's struct *)
Inductive tkind := KEnum (e : N) | KSingle (tid : N) | KMulti (tids : list N) | KBroken.

Section Match.
  Variable U : universe.
  Variable S : list comb.      (* every definition of the schema, types and functions *)

  Definition ctors_of (name : bytes) : list comb :=
    filter (fun c => negb (c_isfun c) && beq (c_result c) name) S.

  Definition struct_of (c : comb) : option N :=
    match lookup_reg U (c_id c) with Some (RStruct tid) => Some tid | _ => None end.
  Definition enum_of (c : comb) : option N :=
    match lookup_reg U (c_id c) with Some (REnum e) => Some e | _ => None end.

  Fixpoint all_some {A} (l : list (option A)) : option (list A) :=
    match l with
    | [] => Some []
    | Some a :: r => match all_some r with Some l' => Some (a :: l') | None => None end
    | None :: _ => None
    end.

  Definition kind_of (name : bytes) : tkind :=
    match ctors_of name with
    | [] => KBroken
    | (c :: _) as cs =>
        if forallb (fun c => match c_params c with [] => true | _ => false end) cs then
          match enum_of c with
          | Some e => if forallb (fun c' => match enum_of c' with Some e' => e' =? e | None => false end) cs
                      then KEnum e else KBroken
          | None => KBroken
          end
        else match cs with
             | [c1] => match struct_of c1 with Some tid => KSingle tid | None => KBroken end
             | _ => match all_some (map struct_of cs) with Some tids => KMulti tids | None => KBroken end
             end
    end.

  (* type names, each once, with their kind: computed once per schema *)
  Fixpoint dedup (seen : list bytes) (l : list bytes) : list bytes :=
    match l with
    | [] => []
    | x :: r => if list_contains seen x then dedup seen r else x :: dedup (x :: seen) r
    end.
  Definition type_names : list bytes :=
    dedup [] (map c_result (filter (fun c => negb (c_isfun c)) S)).
  Definition kind_table : list (bytes * tkind) := map (fun n => (n, kind_of n)) type_names.

  Fixpoint lookup_kind (tbl : list (bytes * tkind)) (n : bytes) : tkind :=
    match tbl with [] => KBroken | (k, v) :: r => if beq k n then v else lookup_kind r n end.

  Section WithTable.
    Variable tbl : list (bytes * tkind).

    Definition implements_all (i : N) (tids : list N) : bool :=
      forallb (fun tid => match get_struct U tid with Some sd => mem i (s_impls sd) | None => false end) tids.

    Fixpoint ty_agrees (t : ttype) (g : fty) : bool :=
      match t, g with
      | TTInt, TI32 | TTLong, TI64 | TTDouble, TF64 | TTString, TStr | TTBytes, TBytes
      | TTBool, TBool | TTInt128, TI128 | TTInt256, TI256 => true
      | TTVector e, TVec g' => ty_agrees e g'
      | TTVar, TIface 0 | TTObject, TIface 0 => true
      | TTNamed n, _ =>
          match lookup_kind tbl n, g with
          | KEnum e, TEnum e' => e =? e'
          | KSingle tid, TPtr tid' => tid =? tid'
          | KMulti tids, TIface i => implements_all i tids
          | _, _ => false
          end
      | _, _ => false
      end.

    (* parameters against Go fields; the `#` parameter fixes FlagIndex() *)
    Fixpoint desc_agrees (ps : list param) (fds : list field) (idx : nat) (flagpos : option nat) (want : option nat) : bool :=
      match ps with
      | [] => match fds with [] => match flagpos, want with
                                   | Some a, Some b => Nat.eqb a b
                                   | None, None => true
                                   | _, _ => false end
              | _ :: _ => false end
      | p :: ps' =>
          match p_ty p with
          | PNat => match flagpos with
                    | None => desc_agrees ps' fds idx (Some idx) want
                    | Some _ => false
                    end
          | PUnknown => false
          | PPlain t =>
              match fds with
              | fd :: fds' => match f_tag fd with TagNone => ty_agrees t (f_ty fd) | _ => false end
                              && desc_agrees ps' fds' (Datatypes.S idx) flagpos want
              | [] => false
              end
          | PCond b TTTrue =>
              match fds with
              | fd :: fds' => match f_tag fd, f_ty fd with TagBit b', TBool => b =? b' | _, _ => false end
                              && desc_agrees ps' fds' (Datatypes.S idx) flagpos want
              | [] => false
              end
          | PCond b t =>
              match fds with
              | fd :: fds' => match f_tag fd with TagFlag b' => (b =? b') && ty_agrees t (f_ty fd) | _ => false end
                              && desc_agrees ps' fds' (Datatypes.S idx) flagpos want
              | [] => false
              end
          end
      end.

    Definition struct_matches (c : comb) (sd : sdesc) : bool :=
      match s_crc sd with Some k => k =? c_id c | None => false end
      && desc_agrees (c_params c) (s_fields sd) 0%nat None (s_flagidx sd).

    (* one schema definition against the registry *)
    Definition def_matches (c : comb) : bool :=
      match lookup_reg U (c_id c) with
      | Some (RStruct tid) =>
          match get_struct U tid with Some sd => struct_matches c sd | None => false end
      | Some (REnum e) =>
          match c_params c with [] => negb (c_isfun c) && match lookup_kind tbl (c_result c) with KEnum e' => e =? e' | _ => false end
          | _ => false end
      | _ => false
      end.
  End WithTable.

  Definition mismatches (excluded : list bytes) : list comb :=
    let tbl := kind_table in
    filter (fun c => negb (list_contains excluded (c_name c)) && negb (def_matches tbl c)) S.

  (* registry entries no schema definition accounts for *)
  Definition unaccounted (ids : list N) : list N :=
    filter (fun k => negb (mem k ids)) (map fst (u_reg U)).
End Match.
