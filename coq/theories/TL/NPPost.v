(* Shared helper for TL/NoPanic.v and TL/Total.v: the partial-correctness postcondition of
   the decoder that holds UNCONDITIONALLY (any universe, any hints, any oracle, any fuel):
     - result shape: JVal/JBody/JReg return exactly one value, JItems returns [VContainer _];
     - the output hint list is a tail of the input one;
     - the output bytes are a suffix of the input bytes, and a successful JVal / JReg has
       consumed at least 4 of them.
   Also: the Hoare-style inversion tactics over [dbind] used by all three proof files. *)
From Coq Require Import ZArith NArith List Lia ZifyN ZifyNat ZifyBool Bool.
From MTV Require Import Base.Bytes Base.Outcome TL.Types TL.Codec TL.Typing.
Import ListNotations.
Ltac Zify.zify_post_hook ::= Z.div_mod_to_equations.

(* ---------- byte-level facts ---------- *)

Definition suffix (b' b : bytes) : Prop := exists pre, b = pre ++ b'.

Lemma suffix_refl b : suffix b b.
Proof. now exists []. Qed.

Lemma suffix_trans a b c : suffix a b -> suffix b c -> suffix a c.
Proof. intros [p ->] [q ->]. exists (q ++ p). now rewrite app_assoc. Qed.

Lemma suffix_app p b : suffix b (p ++ b).
Proof. now exists p. Qed.

Lemma suffix_length b' b : suffix b' b -> (length b' <= length b)%nat.
Proof. intros [p ->]. rewrite app_length. lia. Qed.

Lemma pop32_split l n r : pop32 l = Some (n, r) -> exists pre, l = pre ++ r /\ length pre = 4%nat.
Proof.
  unfold pop32. destruct l as [|a [|b [|c [|d r']]]]; try discriminate.
  intros [= <- <-]. now exists [a; b; c; d].
Qed.

Lemma pop64_split l n r : pop64 l = Some (n, r) -> exists pre, l = pre ++ r /\ length pre = 8%nat.
Proof.
  unfold pop64. destruct (pop32 l) as [[lo r1]|] eqn:E1; [|discriminate].
  destruct (pop32 r1) as [[hi r2]|] eqn:E2; [|discriminate]. intros [= <- <-].
  apply pop32_split in E1 as [p1 [-> L1]]. apply pop32_split in E2 as [p2 [-> L2]].
  exists (p1 ++ p2). rewrite app_assoc, app_length. split; [reflexivity|lia].
Qed.

(* every raw read is bounded by what is there *)
Lemma take_split n l a r : take n l = Some (a, r) ->
  l = a ++ r /\ length a = N.to_nat n /\ (n <= blen l)%N.
Proof.
  unfold take. destruct (N.eqb_spec n 0) as [->|Hn0].
  { intros [= <- <-]. cbn [app length N.to_nat]. split; [reflexivity|]. split; [reflexivity|]. unfold blen. lia. }
  destruct l as [|x l']; [discriminate|].
  destruct (N.ltb_spec (blen (x :: l')) n) as [H|H]; [discriminate|].
  intros [= <- <-]. rewrite firstn_skipn. split; [reflexivity|]. split; [|assumption].
  apply firstn_length_le. unfold blen in H. lia.
Qed.

Lemma take_pad_split n l a r : take_pad n l = Some (a, r) -> l = a ++ r /\ length a = N.to_nat n.
Proof.
  unfold take_pad. destruct (N.eqb_spec n 0) as [->|Hn].
  - intros [= <- <-]. now split.
  - intros H. apply take_split in H. tauto.
Qed.

(* PopMessage: the message is a contiguous piece of the input, and header + message +
   alignment is at least one word *)
Lemma pop_bytes_split l m r : pop_bytes l = Some (m, r) ->
  exists p1 p2, l = p1 ++ m ++ p2 ++ r /\ (4 <= length p1 + length m + length p2)%nat.
Proof.
  unfold pop_bytes. destruct l as [|b l']; [discriminate|].
  destruct (N.eqb_spec b 254) as [->|Hb].
  - destruct l' as [|a [|b' [|c r']]]; try discriminate.
    destruct (take _ r') as [[m' r'']|] eqn:E1; [|discriminate].
    destruct (take_pad _ r'') as [[p r3]|] eqn:E2; [|discriminate].
    destruct (all_zero p); [|discriminate]. intros [= <- <-].
    apply take_split in E1 as [-> _]. apply take_pad_split in E2 as [-> _].
    exists [254; a; b'; c], p. split; [reflexivity|]. cbn [length]. lia.
  - destruct (take b l') as [[m' r']|] eqn:E1; [|discriminate].
    destruct (take_pad _ r') as [[p r3]|] eqn:E2; [|discriminate].
    destruct (all_zero p); [|discriminate]. intros [= <- <-].
    apply take_split in E1 as [-> [L1 _]]. apply take_pad_split in E2 as [-> L2].
    exists [b], p. split; [reflexivity|]. cbn [length]. rewrite L1, L2. unfold padlen. lia.
Qed.

Lemma pop_bytes_suffix l m r : pop_bytes l = Some (m, r) -> suffix r l /\ (length r + 4 <= length l)%nat.
Proof.
  intros H. apply pop_bytes_split in H as [p1 [p2 [-> L]]]. split.
  - exists (p1 ++ m ++ p2). now rewrite <- !app_assoc.
  - rewrite !app_length. lia.
Qed.

Lemma pop32_suffix l n r : pop32 l = Some (n, r) -> suffix r l /\ length l = (4 + length r)%nat.
Proof. intros H. apply pop32_split in H as [p [-> L]]. split; [apply suffix_app|]. rewrite app_length. lia. Qed.

Lemma pop64_suffix l n r : pop64 l = Some (n, r) -> suffix r l /\ length l = (8 + length r)%nat.
Proof. intros H. apply pop64_split in H as [p [-> L]]. split; [apply suffix_app|]. rewrite app_length. lia. Qed.

Lemma take_suffix n l a r : take n l = Some (a, r) -> suffix r l /\ length l = (N.to_nat n + length r)%nat.
Proof. intros H. apply take_split in H as [-> [L _]]. split; [apply suffix_app|]. rewrite app_length. lia. Qed.

(* ---------- dbind inversion ---------- *)

Lemma dbind_ok {A B} (r : dres A) (f : A -> dres B) b :
  dbind r f = DOk b -> exists a, r = DOk a /\ f a = DOk b.
Proof. destruct r; cbn [dbind]; try discriminate. eauto. Qed.

(* one step of symbolic execution of a hypothesis [H : <decoder expression> = <result>] *)
Ltac dstep H :=
  match type of H with
  | dbind (of_opt ?o) _ = _ =>
      let E := fresh "E" in destruct o as [[? ?]|] eqn:E; cbn [of_opt dbind] in H; [|try discriminate H]
  | dbind ?r _ = _ =>
      let E := fresh "E" in destruct r as [[? ?]| | |] eqn:E; cbn [dbind] in H; try discriminate H
  | (if ?b then _ else _) = _ => let E := fresh "E" in destruct b eqn:E; try discriminate H
  | match ?x with _ => _ end = _ => let E := fresh "E" in destruct x eqn:E; try discriminate H
  end.

(* ---------- the postcondition ---------- *)

Definition slen (s : st) : nat := length (snd s).

Definition hsub (h' h : list fty) : Prop :=
  forall P : fty -> bool, forallb P h = true -> forallb P h' = true.

Lemma hsub_refl h : hsub h h.
Proof. intros P H; exact H. Qed.

Lemma hsub_trans a b c : hsub a b -> hsub b c -> hsub a c.
Proof. intros H1 H2 P H. auto. Qed.

Lemma hsub_tail x h : hsub h (x :: h).
Proof. intros P H. cbn [forallb] in H. apply andb_true_iff in H. tauto. Qed.

Definition shape_ok (j : job) (vs : list gval) : Prop :=
  match j with
  | JVal _ | JBody _ | JReg => exists v, vs = [v]
  | JItems _ => exists items, vs = [VContainer items]
  | JFields _ _ _ _ _ | JList _ _ => True
  end.

(* bytes a successful run of the job has consumed at least *)
Definition eats (j : job) : nat := match j with JVal _ | JReg => 4%nat | _ => 0%nat end.

Definition post (j : job) (s : st) (vs : list gval) (s' : st) : Prop :=
  shape_ok j vs /\ hsub (fst s') (fst s) /\ suffix (snd s') (snd s) /\ (slen s' + eats j <= slen s)%nat.

Definition rec_post (rec : job -> st -> dres (list gval * st)) : Prop :=
  forall j s vs s', rec j s = DOk (vs, s') -> post j s vs s'.

(* turn every equation about a byte primitive / a recursive call in the context into its facts *)
Ltac facts Hrec :=
  repeat match goal with
  | E : pop32 _ = Some _ |- _ => apply pop32_suffix in E; destruct E as [? ?]
  | E : pop64 _ = Some _ |- _ => apply pop64_suffix in E; destruct E as [? ?]
  | E : pop_bytes _ = Some _ |- _ => apply pop_bytes_suffix in E; destruct E as [? ?]
  | E : take _ _ = Some _ |- _ => apply take_suffix in E; destruct E as [? ?]
  | E : _ _ _ = DOk (_, _) |- _ => apply Hrec in E; destruct E as [? [? [? ?]]]
  end;
  unfold slen in *; cbn [fst snd eats shape_ok] in *.

Ltac suf := eauto 8 using suffix_refl, suffix_trans.
Ltac hs := eauto 6 using hsub_refl, hsub_trans, hsub_tail.

Section Post.
  Variable U : universe.
  Variable inflate : bytes -> option bytes.

  Lemma post_intro j s vs s' :
    shape_ok j vs -> hsub (fst s') (fst s) -> suffix (snd s') (snd s) -> (slen s' + eats j <= slen s)%nat ->
    post j s vs s'.
  Proof. unfold post; tauto. Qed.

  Ltac fin_post :=
    repeat match goal with H : exists _, _ = _ |- _ => destruct H as [? ->] end;
    apply post_intro; unfold slen; cbn [fst snd eats shape_ok]; [eauto|hs|suf|lia].

  Lemma dec_body_post rec : rec_post rec -> rec_post (dec_body U inflate rec).
  Proof.
    intros Hrec j [h bs] vs s' H. unfold dec_body in H.
    destruct j as [t|tid|fi i parsed fl fds|e n| |n].
    - (* JVal *)
      destruct t; unfold one in H; repeat dstep H; try discriminate H;
        try (injection H as <- <-); facts Hrec;
        try fin_post.
    - (* JBody *)
      unfold one in H; repeat dstep H; injection H as <- <-; facts Hrec.
      fin_post.
    - (* JFields *)
      cbv zeta in H. repeat dstep H; try discriminate H; try (injection H as <- <-); facts Hrec;
        fin_post.
    - (* JList *)
      repeat dstep H; try (injection H as <- <-); facts Hrec;
        fin_post.
    - (* JReg *)
      unfold one in H. repeat dstep H; try discriminate H; try (injection H as <- <-); facts Hrec;
        fin_post.
    - (* JItems *)
      unfold one in H. repeat dstep H; try discriminate H; try (injection H as <- <-); facts Hrec;
        fin_post.
  Qed.

  Theorem dec_post fuel : rec_post (dec U inflate fuel).
  Proof.
    induction fuel as [|f IH]; [intros j s vs s' H; discriminate H|].
    intros j s vs s' H. rewrite dec_S in H. exact (dec_body_post _ IH _ _ _ _ H).
  Qed.
End Post.

(* ---------- a tiny concrete universe for the Examples of NoPanic.v / Total.v ---------- *)
(* struct 0: crc 100, flags word at index 0, fields
     a : flags.0?int   b : flags.1?Object   c : Vector<*struct0>   d : flags.2?true
   enum type 0 with the value 200; the message container and gzip_packed are registered *)
Definition exU : universe := {|
  u_structs := [ {| s_crc := Some 100; s_flagidx := Some 0%nat;
                    s_fields := [ {| f_ty := TI32; f_tag := TagFlag 0 |};
                                  {| f_ty := TIface 0; f_tag := TagFlag 1 |};
                                  {| f_ty := TVec (TPtr 0); f_tag := TagNone |};
                                  {| f_ty := TBool; f_tag := TagBit 2 |} ];
                    s_impls := [0%N] |} ];
  u_enum_impls := [[0%N]];
  u_reg := [(100%N, RStruct 0); (200%N, REnum 0); (crc_container, RContainer); (crc_gzip, RGzip)];
  u_true := 0; u_false := 0; u_null := 0 |}.

(* struct0 { flags = 0b011, a = 7, b = enum 200, c = [] } *)
Definition ex_obj : bytes :=
  le32 100 ++ le32 3 ++ le32 7 ++ le32 200 ++ le32 crc_vector ++ le32 0.

(* msg_container { one message: msg_id 1, seq 2, 4 bytes of body } *)
Definition ex_container : bytes :=
  le32 crc_container ++ le32 1 ++ le64 1 ++ le32 2 ++ le32 4 ++ [1; 2; 3; 4]%N.

(* a toy oracle: the gzip payload [9] inflates to ex_obj *)
Definition ex_inflate (p : bytes) : option bytes := if beq p [9%N] then Some ex_obj else None.
Definition ex_gzip : bytes := le32 crc_gzip ++ [1; 9; 0; 0]%N.
