(* C-TL totality, part 1: the decoder never reaches a Go panic site on a universe that
   satisfies the decidable condition [np_universe] (Typing.v), whatever the input bytes,
   the fuel and the gzip oracle are.

   Panic sites of [dec_body] and what excludes them:
     - pointer field whose struct has no CRC            <- ptrs_ok (part of np_struct / hints_ok)
     - tagged fields but no FlagIndex()                 <- np_struct
     - flags word never reached by the field loop       <- np_struct (k <= #fields) + loop invariant
     - vector hint that is not a slice type             <- hints_ok
     - "result is not a singleton" matches              <- result-shape postcondition (NPPost.v)  *)
From Coq Require Import ZArith NArith List Lia ZifyN ZifyNat ZifyBool Bool.
From MTV Require Import Base.Bytes Base.Outcome TL.Types TL.Codec TL.Typing TL.NPPost.
Import ListNotations.
Ltac Zify.zify_post_hook ::= Z.div_mod_to_equations.

Section NoPanic.
  Variable U : universe.
  Variable inflate : bytes -> option bytes.

  Definition fields_ptrs_ok (fds : list field) : bool := forallb (fun fd => ptrs_ok U (f_ty fd)) fds.

  (* the invariant the field loop maintains from [JBody]: until the flags word has been
     parsed, its index is still ahead (or here) and within the fields that remain *)
  Definition flag_inv (fi : option nat) (i : nat) (parsed : bool) (fds : list field) : Prop :=
    match fi with
    | Some k => parsed = true \/ (i <= k <= i + length fds)%nat
    | None => True
    end.

  Definition job_ok (j : job) (s : st) : Prop :=
    hints_ok U (fst s) = true /\
    match j with
    | JVal t => ptrs_ok U t = true
    | JBody _ => True
    | JFields fi i parsed _ fds => fields_ptrs_ok fds = true /\ flag_inv fi i parsed fds
    | JList e _ => ptrs_ok U e = true
    | JReg => True
    | JItems _ => True
    end.

  Lemma np_get tid sd : np_universe U = true -> get_struct U tid = Some sd -> np_struct U sd = true.
  Proof.
    unfold np_universe, get_struct. intros H E. apply nth_error_In in E.
    rewrite forallb_forall in H. auto.
  Qed.

  Lemma hints_sub h' h : hsub h' h -> hints_ok U h = true -> hints_ok U h' = true.
  Proof. intros Hs H. exact (Hs _ H). Qed.

  Lemma hints_cons e l : hints_ok U (TVec e :: l) = true -> ptrs_ok U e = true /\ hints_ok U l = true.
  Proof. unfold hints_ok. cbn [forallb is_vec andb ptrs_ok]. intros H. apply andb_true_iff in H. exact H. Qed.

  Lemma hints_nonvec t l : is_vec t = false -> hints_ok U (t :: l) = true -> False.
  Proof. unfold hints_ok. cbn [forallb]. intros ->. discriminate. Qed.

  Lemma fields_cons f l :
    fields_ptrs_ok (f :: l) = true -> ptrs_ok U (f_ty f) = true /\ fields_ptrs_ok l = true.
  Proof. unfold fields_ptrs_ok. cbn [forallb]. intros H. apply andb_true_iff in H. exact H. Qed.

  Lemma flag_inv_next fi i parsed f l :
    flag_here fi i = false -> flag_inv fi i parsed (f :: l) -> flag_inv fi (S i) parsed l.
  Proof. unfold flag_here, flag_inv. destruct fi as [k|]; [|trivial]. cbn [length]. intros E [->|H]; [now left|right; lia]. Qed.

  Lemma flag_inv_parsed fi i fds : flag_inv fi i true fds.
  Proof. destruct fi; cbn [flag_inv]; auto. Qed.

  Lemma flag_inv_nil k i : flag_here (Some k) i = false -> flag_inv (Some k) i false [] -> False.
  Proof. unfold flag_here, flag_inv. cbn [length]. intros E [H|H]; [discriminate H|lia]. Qed.

  Hypothesis HU : np_universe U = true.

  Lemma body_inv tid sd : get_struct U tid = Some sd ->
    has_tagged (s_fields sd) && match s_flagidx sd with None => true | Some _ => false end = false /\
    fields_ptrs_ok (s_fields sd) = true /\
    flag_inv (if has_tagged (s_fields sd) then s_flagidx sd else None) 0 false (s_fields sd).
  Proof.
    intros E. pose proof (np_get _ _ HU E) as H. unfold np_struct in H. apply andb_true_iff in H as [H1 H2].
    fold (fields_ptrs_ok (s_fields sd)) in H2. unfold flag_inv.
    destruct (has_tagged (s_fields sd)); [|now repeat split].
    destruct (s_flagidx sd) as [k|]; [|discriminate H1].
    repeat split; auto. right. apply Nat.leb_le in H1. lia.
  Qed.

  Lemma dec_body_np rec :
    rec_post rec ->
    (forall j s, job_ok j s -> rec j s <> DPanic) ->
    forall j s, job_ok j s -> dec_body U inflate rec j s <> DPanic.
  Proof.
    intros Hrec Hnp j [h bs] [Hh Hj] H. cbn [fst] in Hh. unfold dec_body in H.
    assert (Hcall : forall j' s', rec j' s' = DPanic -> job_ok j' s' -> False)
      by (intros j' s' E Hok; exact (Hnp _ _ Hok E)).
    destruct j as [t|tid|fi i parsed fl fds|e n| |n].
    all: unfold one in H; cbv zeta in H.
    all: try destruct t.
    all: repeat dstep H; try discriminate H; facts Hrec; subst.
    (* a result of the wrong shape contradicts the postcondition of the callee *)
    all: try (match goal with X : exists _, _ = _ |- _ => destruct X as [? X]; discriminate X end).
    (* a hint that is not a slice type contradicts hints_ok *)
    all: try (exfalso; eapply hints_nonvec; [|exact Hh]; reflexivity).
    (* unpack the invariants *)
    all: try (apply hints_cons in Hh; destruct Hh as [? ?]).
    all: try (match type of Hj with _ /\ _ => destruct Hj as [Hf Hi] end).
    all: try (match goal with Hf : fields_ptrs_ok (_ :: _) = true |- _ => apply fields_cons in Hf; destruct Hf as [? ?] end).
    all: try (match goal with E : get_struct _ _ = Some _ |- _ =>
                pose proof (body_inv _ _ E) as [? [? ?]] end).
    (* a panic of the callee contradicts the induction hypothesis *)
    all: try (match goal with E : _ _ _ = DPanic |- _ =>
               apply (Hcall _ _ E); split; cbn [fst snd];
               eauto using hints_sub, flag_inv_next, flag_inv_parsed end).
    (* the explicit panic sites *)
    - (* pointer to a struct without CRC *)
      cbn [ptrs_ok] in Hj. rewrite E, E1 in Hj. discriminate Hj.
    - (* tagged fields without FlagIndex *) congruence.
    - (* flags word never reached *) eauto using flag_inv_nil.
  Qed.

  Theorem dec_no_panic_aux fuel : forall j s, job_ok j s -> dec U inflate fuel j s <> DPanic.
  Proof.
    induction fuel as [|f IH]; intros j s Hok; [discriminate|].
    rewrite dec_S. apply dec_body_np; auto. apply dec_post.
  Qed.
End NoPanic.

(* ================= the theorems ================= *)

Theorem dec_no_panic : forall U inflate, np_universe U = true ->
  forall fuel j s, job_ok U j s -> dec U inflate fuel j s <> DPanic.
Proof. intros U inflate HU fuel j s. apply dec_no_panic_aux; assumption. Qed.

(* tl.DecodeUnknownObject never panics, given slice-typed hints *)
Theorem decode_unknown_no_panic : forall U inflate, np_universe U = true ->
  forall h, hints_ok U h = true ->
  forall fuel bs, decode_unknown U inflate fuel h bs <> DPanic.
Proof.
  intros U inflate HU h Hh fuel bs. unfold decode_unknown.
  destruct (dec U inflate fuel JReg (h, bs)) as [[vs s']| | |] eqn:E; cbn [dbind]; try discriminate.
  - apply dec_post in E as [[v ->] _]. discriminate.
  - exfalso. revert E. apply dec_no_panic; [assumption|]. split; [exact Hh|exact I].
Qed.

(* tl.Decode(data, &T{}) never panics when T has a CRC *)
Theorem decode_named_no_panic : forall U inflate, np_universe U = true ->
  forall fuel tid bs,
  (match get_struct U tid with Some sd => s_crc sd <> None | None => True end) ->
  decode_named U inflate fuel tid bs <> DPanic.
Proof.
  intros U inflate HU fuel tid bs Hc. unfold decode_named.
  destruct (dec U inflate fuel (JVal (TPtr tid)) ([], bs)) as [[vs s']| | |] eqn:E; cbn [dbind]; try discriminate.
  - apply dec_post in E as [[v ->] _]. discriminate.
  - exfalso. revert E. apply dec_no_panic; [assumption|]. split; [reflexivity|].
    cbn [ptrs_ok]. destruct (get_struct U tid) as [sd|]; [|reflexivity].
    destruct (s_crc sd); [reflexivity|congruence].
Qed.

(* ================= the hypotheses are satisfiable ================= *)

Example ex_np_universe : np_universe exU = true.
Proof. vm_compute. reflexivity. Qed.

(* dec_no_panic: a job/state pair satisfying the invariant, and the run it talks about *)
Example ex_dec_no_panic :
  job_ok exU (JVal (TPtr 0)) ([TVec (TPtr 0)], ex_obj) /\
  dec exU ex_inflate 20 (JVal (TPtr 0)) ([TVec (TPtr 0)], ex_obj)
  = DOk ([VObj 0 [VInt 7; VEnum 200; VVec false []; VBool false]], ([TVec (TPtr 0)], [])).
Proof. split; [split|]; vm_compute; reflexivity. Qed.

(* decode_unknown_no_panic: slice hints, object / container / gzip inputs *)
Example ex_decode_unknown :
  hints_ok exU [TVec TI32] = true /\
  decode_unknown exU ex_inflate 20 [TVec TI32] ex_obj
    = DOk (VObj 0 [VInt 7; VEnum 200; VVec false []; VBool false]) /\
  decode_unknown exU ex_inflate 20 [] ex_container = DOk (VContainer [(1, 2, [1; 2; 3; 4])]) /\
  decode_unknown exU ex_inflate 20 [] ex_gzip
    = DOk (VGzip (VObj 0 [VInt 7; VEnum 200; VVec false []; VBool false])) /\
  decode_unknown exU ex_inflate 20 [TVec TI32] (le32 crc_vector ++ le32 1 ++ le32 5)
    = DOk (VWrapped (VVec false [VInt 5])).
Proof. repeat split; vm_compute; reflexivity. Qed.

(* decode_named_no_panic: struct 0 has a CRC *)
Example ex_decode_named :
  (match get_struct exU 0 with Some sd => s_crc sd <> None | None => True end) /\
  decode_named exU ex_inflate 20 0 ex_obj = DOk (VObj 0 [VInt 7; VEnum 200; VVec false []; VBool false]).
Proof. split; [cbn; discriminate|vm_compute; reflexivity]. Qed.

(* the conditions are necessary: a non-slice hint makes DecodeUnknownObject panic *)
Example ex_bad_hint_panics :
  hints_ok exU [TI32] = false /\
  decode_unknown exU ex_inflate 20 [TI32] (le32 crc_vector ++ le32 0) = DPanic.
Proof. split; vm_compute; reflexivity. Qed.

Print Assumptions dec_no_panic.
Print Assumptions decode_unknown_no_panic.
Print Assumptions decode_named_no_panic.
