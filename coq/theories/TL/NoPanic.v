(* C-TL totality, part 1: the decoder never reaches a Go panic site on a universe that
   satisfies the decidable condition [np_universe] (Typing.v), whatever the input bytes,
   the fuel and the gzip oracle are.

   Panic sites of [dec_body] and what excludes them:
     - pointer field whose struct has no CRC            <- ptrs_ok (part of np_struct / hints_ok)
     - tagged fields but no FlagIndex()                 <- np_struct
     - flags word never reached by the field loop       <- np_struct (k <= #fields) + loop invariant
     - vector hint that is not a slice type             <- hints_ok
     - "result is not a singleton" matches              <- result-shape postcondition (NPPost.v)  *)
From Coq Require Import ZArith NArith List Lia ZifyN ZifyNat ZifyBool Bool.
From MTV Require Import Base.Bytes Base.Outcome TL.Types TL.Codec TL.Typing TL.NPPost.
Import ListNotations.
Ltac Zify.zify_post_hook ::= Z.div_mod_to_equations.

Section NoPanic.
  Variable U : universe.
  Variable inflate : bytes -> option bytes.

  Definition fields_ptrs_ok (fds : list field) : bool := forallb (fun fd => ptrs_ok U (f_ty fd)) fds.

  (* the invariant the field loop maintains from [JBody]: until the flags word has been
     parsed, its index is still ahead (or here) and within the fields that remain *)
  Definition flag_inv (fi : option nat) (i : nat) (parsed : bool) (fds : list field) : Prop :=
    match fi with
    | Some k => parsed = true \/ (i <= k <= i + length fds)%nat
    | None => True
    end.

  Definition job_ok (j : job) (s : st) : Prop :=
    hints_ok U (fst s) = true /\
    match j with
    | JVal t => ptrs_ok U t = true
    | JBody _ => True
    | JFields fi i parsed _ fds => fields_ptrs_ok fds = true /\ flag_inv fi i parsed fds
    | JList e _ => ptrs_ok U e = true
    | JReg => True
    | JItems _ => True
    end.

  Lemma np_get tid sd : np_universe U = true -> get_struct U tid = Some sd -> np_struct U sd = true.
  Proof.
    unfold np_universe, get_struct. intros H E. apply nth_error_In in E.
    rewrite forallb_forall in H. auto.
  Qed.

  Lemma hints_sub h' h : hsub h' h -> hints_ok U h = true -> hints_ok U h' = true.
  Proof. intros Hs H. exact (Hs _ H). Qed.

  Hypothesis HU : np_universe U = true.

  Lemma dec_body_np rec :
    rec_post rec ->
    (forall j s, job_ok j s -> rec j s <> DPanic) ->
    forall j s, job_ok j s -> dec_body U inflate rec j s <> DPanic.
  Proof.
    intros Hrec Hnp j [h bs] [Hh Hj] H. cbn [fst] in Hh. unfold dec_body in H.
    assert (Hcall : forall j' s', rec j' s' = DPanic -> job_ok j' s' -> False)
      by (intros j' s' E Hok; exact (Hnp _ _ Hok E)).
    destruct j as [t|tid|fi i parsed fl fds|e n| |n].
    all: unfold one in H; cbv zeta in H.
    all: try destruct t.
    all: repeat dstep H; try discriminate H; facts Hrec.
    all: try (match goal with X : exists _, _ = _ |- _ => destruct X as [? X]; discriminate X end).
    all: try match goal with E : _ _ _ = DPanic |- _ =>
               apply (Hcall _ _ E); split; cbn [fst snd]; eauto using hints_sub end.
    Show.
  Admitted.
End NoPanic.
