(* Well-formedness of type descriptors, typing of values, the normal form a round trip
   produces.  Everything is a decidable boolean so that it can be evaluated on the registry
   regenerated from the tree (Inst/*.v) and satisfied by concrete Examples. *)
From Coq Require Import ZArith NArith List Lia Bool.
From MTV Require Import Base.Bytes Base.Outcome TL.Types TL.Codec.
Import ListNotations.
Open Scope N_scope.

Definition two64 : N := 18446744073709551616.

Section All2.
  Variables A B : Type.
  Variable f : A -> B -> bool.
  Fixpoint all2 (l1 : list A) (l2 : list B) {struct l2} : bool :=
    match l1, l2 with
    | [], [] => true
    | a :: l1', b :: l2' => f a b && all2 l1' l2'
    | _, _ => false
    end.
End All2.
Arguments all2 {A B}.

Definition untagged (fd : field) : bool := match f_tag fd with TagNone => true | _ => false end.

Definition tag_ok (fd : field) : bool :=
  match f_tag fd with
  | TagNone => true
  | TagFlag b => b <? 32
  | TagBit b => (b <? 32) && match f_ty fd with TBool => true | _ => false end
  | TagBad => false
  end.

(* a struct descriptor on which encoder and decoder agree about the layout:
   tags parse, the id is a 32-bit number, the type has FlagIndex() exactly when it has
   conditional fields, and everything before the flags word is unconditional *)
Definition wf_struct (sd : sdesc) : bool :=
  forallb tag_ok (s_fields sd) &&
  match s_crc sd with Some c => c <? two32 | None => false end &&
  match s_flagidx sd with
  | Some k => has_tagged (s_fields sd) && forallb untagged (firstn k (s_fields sd))
              && Nat.ltb k (length (s_fields sd))
  | None => negb (has_tagged (s_fields sd))
  end.

(* what the decoder needs of EVERY descriptor in order not to panic *)
Fixpoint ptrs_ok (U : universe) (t : fty) : bool :=
  match t with
  | TPtr tid => match get_struct U tid with
                | Some sd => match s_crc sd with Some _ => true | None => false end
                | None => true
                end
  | TVec e => ptrs_ok U e
  | _ => true
  end.

Definition np_struct (U : universe) (sd : sdesc) : bool :=
  (if has_tagged (s_fields sd)
   then match s_flagidx sd with Some k => Nat.leb k (length (s_fields sd)) | None => false end
   else true) &&
  forallb (fun fd => ptrs_ok U (f_ty fd)) (s_fields sd).

Definition np_universe (U : universe) : bool := forallb (np_struct U) (u_structs U).

Definition is_vec (t : fty) : bool := match t with TVec _ => true | _ => false end.
Definition hints_ok (U : universe) (h : list fty) : bool := forallb (fun t => is_vec t && ptrs_ok U t) h.

(* the struct type is what DecodeUnknownObject instantiates for its own id *)
Definition reg_ok (U : universe) (tid c : N) : bool :=
  if c =? crc_true then tid =? u_true U
  else if c =? crc_false then tid =? u_false U
  else if c =? crc_null then tid =? u_null U
  else if c =? crc_vector then false
  else match lookup_reg U c with Some (RStruct t) => t =? tid | _ => false end.

Section Typing.
  Variable U : universe.

  Definition wt_field (wt : fty -> gval -> bool) (fd : field) (v : gval) : bool :=
    match f_tag fd with
    | TagBit _ => match v with VBool _ => true | _ => false end
    | _ => wt (f_ty fd) v
    end.

  Fixpoint wt (t : fty) (v : gval) {struct v} : bool :=
    match t, v with
    | TI32, VInt n | TU32, VInt n => n <? two32
    | TEnum _, VEnum c => c <? two32
    | TI64, VLong n | TF64, VDouble n => n <? two64
    | TBool, VBool _ => true
    | TStr, VStr _ => true
    | TBytes, VBytes isnil b => if isnil then match b with [] => true | _ => false end else true
    | TI128, VBig false true n => n <? 256 ^ 16
    | TI256, VBig true true n => n <? 256 ^ 32
    | TVec e, VVec isnil l =>
        (if isnil then match l with [] => true | _ => false end else true)
        && (N.of_nat (length l) <? two32) && forallb (wt e) l
    | TPtr tid, VObj tid' fs =>
        (tid =? tid') &&
        match get_struct U tid' with
        | Some sd => wf_struct sd && all2 (wt_field wt) (s_fields sd) fs
        | None => false
        end
    | TIface i, VObj tid fs =>
        match get_struct U tid with
        | Some sd => wf_struct sd && mem i (s_impls sd)
                     && match s_crc sd with Some c => reg_ok U tid c | None => false end
                     && all2 (wt_field wt) (s_fields sd) fs
        | None => false
        end
    | TPtr _, VNil | TIface _, VNil | TI128, VNil | TI256, VNil => true   (* only ever absent: enc refuses nil *)
    | _, _ => false
    end.

  (* ---- normal form: what decode (encode v) is ---- *)
  Definition norm_field (norm : gval -> gval) (fl : N) (fd : field) (v : gval) : gval :=
    match f_tag fd with
    | TagNone => norm v
    | TagFlag b => if N.testbit fl b then norm v else zero_of (f_ty fd)
    | TagBit b => if N.testbit fl b then VBool true else zero_of (f_ty fd)
    | TagBad => v
    end.

  Fixpoint norm (v : gval) : gval :=
    match v with
    | VVec _ l => VVec false (map norm l)
    | VBytes _ b => VBytes false b
    | VObj tid fs =>
        match get_struct U tid with
        | Some sd =>
            VObj tid
              ((fix go (fds : list field) (vs : list gval) {struct vs} : list gval :=
                  match fds, vs with
                  | fd :: fds', x :: vs' => norm_field norm (flags_of (s_fields sd) fs) fd x :: go fds' vs'
                  | _, _ => []
                  end) (s_fields sd) fs)
        | None => v
        end
    | _ => v
    end.

  Fixpoint norm_fields (fl : N) (fds : list field) (vs : list gval) {struct vs} : list gval :=
    match fds, vs with
    | fd :: fds', x :: vs' => norm_field norm fl fd x :: norm_fields fl fds' vs'
    | _, _ => []
    end.

  Lemma norm_obj tid fs sd : get_struct U tid = Some sd ->
    norm (VObj tid fs) = VObj tid (norm_fields (flags_of (s_fields sd) fs) (s_fields sd) fs).
  Proof.
    intros H. cbn [norm]. rewrite H. f_equal.
    generalize (flags_of (s_fields sd) fs) as fl. generalize (s_fields sd) as fds.
    induction fs as [|x vs IH]; intros fds fl; destruct fds as [|fd fds]; cbn [norm_fields]; try reflexivity.
    f_equal. apply IH.
  Qed.
End Typing.
