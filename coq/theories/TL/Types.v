(* TL type universe (what reflection shows the encoder/decoder), values, and the byte-level
   primitives of cursor_w.go / cursor_r.go. *)
From Coq Require Import ZArith NArith List Lia ZifyN ZifyNat ZifyBool Bool.
From MTV Require Import Base.Bytes.
Import ListNotations.
Open Scope N_scope.
Ltac Zify.zify_post_hook ::= Z.div_mod_to_equations.

(* ---------- types ---------- *)
Inductive fty :=
| TI32 | TU32 | TI64 | TF64 | TBool | TStr | TBytes
| TEnum (e : N)        (* named uint32 type with a CRC method *)
| TIface (i : N)       (* interface type; 0 = tl.Object *)
| TPtr (tid : N)       (* pointer to the struct type [tid] (implements tl.Object) *)
| TI128 | TI256        (* *tl.Int128 / *tl.Int256 (custom Marshaler/Unmarshaler) *)
| TVec (e : fty)
| TBad.                (* anything the codec does not support *)

Inductive tag :=
| TagNone              (* no tl tag: mandatory field *)
| TagFlag (b : N)      (* `tl:"flag:b"` *)
| TagBit (b : N)       (* `tl:"flag:b,encoded_in_bitflags"` *)
| TagBad.              (* "-", unparsable, bit outside 0..31, option without flag *)

Record field := { f_ty : fty; f_tag : tag }.

Record sdesc := {
  s_crc : option N;           (* None: CRC() panics (objects.Null) *)
  s_flagidx : option nat;     (* FlagIndex() if the type implements FlagIndexGetter *)
  s_fields : list field;
  s_impls : list N            (* interfaces *T implements *)
}.

Inductive rkind := RStruct (tid : N) | REnum (e : N) | RContainer | RGzip.

Record universe := {
  u_structs : list sdesc;             (* index = tid *)
  u_enum_impls : list (list N);       (* index = enum type id: interfaces it implements *)
  u_reg : list (N * rkind);           (* objectByCrc (+ enumCrcs) *)
  u_true : N; u_false : N; u_null : N (* tids of tl.PseudoTrue / PseudoFalse / PseudoNil *)
}.

Definition get_struct (U : universe) (tid : N) : option sdesc := nth_error (u_structs U) (N.to_nat tid).

Fixpoint assoc {A} (k : N) (l : list (N * A)) : option A :=
  match l with [] => None | (k', a) :: r => if k =? k' then Some a else assoc k r end.

Definition lookup_reg (U : universe) (crc : N) : option rkind := assoc crc (u_reg U).

Definition mem (x : N) (l : list N) : bool := existsb (N.eqb x) l.

(* ---------- values ---------- *)
Inductive gval :=
| VInt (n : N)                       (* int32 / uint32: the 32-bit pattern *)
| VLong (n : N)                      (* int64: the 64-bit pattern *)
| VDouble (n : N)                    (* float64: IEEE bits *)
| VBool (b : bool)
| VStr (s : bytes)
| VBytes (isnil : bool) (b : bytes)  (* []byte; nil slice vs empty slice *)
| VEnum (c : N)
| VNil                               (* nil pointer / nil interface *)
| VObj (tid : N) (fs : list gval)    (* non-nil pointer to struct tid *)
| VVec (isnil : bool) (l : list gval)
| VBig (w256 : bool) (hasint : bool) (n : N)   (* *Int128 / *Int256; hasint=false: nil *big.Int inside *)
| VContainer (items : list (N * N * bytes))    (* MessageContainer: msg_id, seq_no, raw body *)
| VGzip (v : gval)                   (* GzipPacked{Obj} *)
| VWrapped (v : gval).               (* WrappedSlice (decode only) *)

(* reflect.Value.IsZero (go >= 1.22: floats compare with == 0, so -0.0 is zero too) *)
Definition neg_zero : N := 9223372036854775808.
Definition is_zero (v : gval) : bool :=
  match v with
  | VInt 0 | VLong 0 | VEnum 0 => true
  | VDouble n => (n =? 0) || (n =? neg_zero)
  | VBool false => true
  | VStr [] => true
  | VBytes true _ => true
  | VVec true _ => true
  | VNil => true
  | _ => false
  end.

Definition zero_of (t : fty) : gval :=
  match t with
  | TI32 | TU32 => VInt 0 | TI64 => VLong 0 | TF64 => VDouble 0 | TBool => VBool false
  | TStr => VStr [] | TBytes => VBytes true [] | TEnum _ => VEnum 0
  | TIface _ | TPtr _ | TI128 | TI256 | TBad => VNil
  | TVec _ => VVec true []
  end.

(* ---------- constants (const.go, objects) ---------- *)
Definition crc_vector : N := 481674261.   (* 0x1cb5c415 *)
Definition crc_false : N := 3162085175.   (* 0xbc799737 *)
Definition crc_true : N := 2574415285.    (* 0x997275b5 *)
Definition crc_null : N := 1450380236.    (* 0x56730bcc *)
Definition crc_container : N := 1945237724. (* 0x73f1f8dc *)
Definition crc_gzip : N := 812830625.     (* 0x3072cfa1 *)
Definition two32 : N := 4294967296.
Definition two24 : N := 16777216.

(* ---------- byte strings (PutMessage / PopMessage) ---------- *)
Definition padlen (n : N) : N := (4 - n mod 4) mod 4.

(* PutMessage with the repaired bound: 2^24 and above is refused *)
Definition put_bytes (m : bytes) : option bytes :=
  let n := blen m in
  if n <? 254 then Some ([n] ++ m ++ zeros (padlen (1 + n)))
  else if n <? two24 then Some ([254; n mod 256; (n / 256) mod 256; (n / 65536) mod 256] ++ m ++ zeros (padlen n))
  else None.

(* Decoder.read: nothing is read for an empty request; otherwise a short read is an error *)
Definition take (n : N) (l : bytes) : option (bytes * bytes) :=
  if n =? 0 then Some ([], l)
  else match l with
       | [] => None
       | _ :: _ => if blen l <? n then None else Some (firstn (N.to_nat n) l, skipn (N.to_nat n) l)
       end.

(* the alignment bytes are read only when there are any *)
Definition take_pad (n : N) (l : bytes) : option (bytes * bytes) :=
  if n =? 0 then Some ([], l) else take n l.

Definition all_zero (l : bytes) : bool := forallb (N.eqb 0) l.

Definition pop_bytes (l : bytes) : option (bytes * bytes) :=
  match l with
  | [] => None
  | b :: r =>
    if b =? 254 then
      match r with
      | a :: b' :: c :: r' =>
          let n := a + 256 * b' + 65536 * c in
          match take n r' with
          | None => None
          | Some (m, r'') =>
            match take_pad (padlen n) r'' with
            | None => None
            | Some (p, r3) => if all_zero p then Some (m, r3) else None
            end
          end
      | _ => None
      end
    else
      match take b r with
      | None => None
      | Some (m, r') =>
        match take_pad (padlen (1 + b)) r' with
        | None => None
        | Some (p, r3) => if all_zero p then Some (m, r3) else None
        end
      end
  end.

Definition pop32 (l : bytes) : option (N * bytes) :=
  match l with a :: b :: c :: d :: r => Some (of_le32 a b c d, r) | _ => None end.

Definition pop64 (l : bytes) : option (N * bytes) :=
  match pop32 l with
  | Some (lo, r) => match pop32 r with Some (hi, r') => Some (lo + two32 * hi, r') | None => None end
  | None => None
  end.

(* big-endian fixed width (dry.BigIntBytes) *)
Fixpoint be_bytes (w : nat) (n : N) : bytes :=
  match w with O => [] | S w' => be_bytes w' (n / 256) ++ [n mod 256] end.

(* ---------- facts ---------- *)
Lemma take_app (a b : bytes) n : n = blen a -> a ++ b <> [] -> take n (a ++ b) = Some (a, b).
Proof.
  intros -> Hne. unfold take, blen. destruct (N.eqb_spec (N.of_nat (length a)) 0) as [H0|H0].
  - destruct a; [reflexivity|cbn [length] in H0; lia].
  - destruct (a ++ b) as [|x l] eqn:E; [congruence|]. rewrite <- E.
    rewrite app_length.
    destruct (N.ltb_spec (N.of_nat (length a + length b)) (N.of_nat (length a))); [lia|].
    rewrite Nat2N.id, firstn_app, Nat.sub_diag, firstn_all, skipn_app, Nat.sub_diag, skipn_all.
    cbn [firstn skipn app]. now rewrite app_nil_r.
Qed.

Lemma all_zero_zeros n : all_zero (zeros n) = true.
Proof. unfold zeros. induction (N.to_nat n); cbn [repeat all_zero forallb]; auto. Qed.

Lemma blen_zeros n : blen (zeros n) = n.
Proof. apply length_zeros. Qed.

Lemma zeros_nonempty n : n <> 0 -> zeros n <> [].
Proof. unfold zeros. destruct (N.to_nat n) eqn:E; [lia|discriminate]. Qed.

Lemma take_pad_zeros n rest : take_pad n (zeros n ++ rest) = Some (zeros n, rest).
Proof.
  unfold take_pad. destruct (N.eqb_spec n 0) as [->|Hn]; [reflexivity|].
  apply take_app; [now rewrite blen_zeros|].
  pose proof (zeros_nonempty n Hn). destruct (zeros n); [congruence|discriminate].
Qed.

Theorem pop_put m bs rest : put_bytes m = Some bs -> pop_bytes (bs ++ rest) = Some (m, rest).
Proof.
  unfold put_bytes. set (n := blen m).
  destruct (N.ltb_spec n 254) as [H|H].
  - intros [= <-]. cbn [app pop_bytes].
    destruct (N.eqb_spec n 254); [lia|].
    rewrite <- app_assoc.
    assert (Hne : m ++ zeros (padlen (1 + n)) ++ rest <> []).
    { destruct m as [|x m]; [|discriminate]. cbn [app]. subst n. cbn.
      discriminate. }
    rewrite take_app by (auto; reflexivity).
    rewrite take_pad_zeros. now rewrite all_zero_zeros.
  - unfold two24. destruct (N.ltb_spec n 16777216) as [H2|H2]; [|discriminate].
    intros [= <-]. cbn [app pop_bytes]. rewrite N.eqb_refl.
    replace (n mod 256 + 256 * ((n / 256) mod 256) + 65536 * ((n / 65536) mod 256)) with n by lia.
    rewrite <- app_assoc.
    assert (Hne : m ++ zeros (padlen n) ++ rest <> []).
    { destruct m as [|x m]; [|discriminate]. subst n. cbn in H. lia. }
    rewrite take_app by (auto; reflexivity).
    rewrite take_pad_zeros. now rewrite all_zero_zeros.
Qed.

Lemma put_bytes_too_large m : two24 <= blen m -> put_bytes m = None.
Proof.
  unfold put_bytes, two24. intros H.
  destruct (N.ltb_spec (blen m) 254); [lia|].
  destruct (N.ltb_spec (blen m) 16777216); [lia|reflexivity].
Qed.

Lemma pop32_le32 n rest : n < two32 -> pop32 (le32 n ++ rest) = Some (n, rest).
Proof. unfold two32. intros H. cbn [le32 app pop32]. now rewrite of_le32_le32. Qed.

Lemma pop64_le64 n rest : n < two32 * two32 -> pop64 (le64 n ++ rest) = Some (n, rest).
Proof.
  unfold two32. intros H. unfold pop64, le64. rewrite <- app_assoc.
  rewrite pop32_le32 by (unfold two32; lia). rewrite pop32_le32 by (unfold two32; lia).
  f_equal. f_equal. unfold two32. lia.
Qed.

Lemma be_bytes_length w n : length (be_bytes w n) = w.
Proof. revert n; induction w as [|w IH]; intros n; cbn [be_bytes]; [reflexivity|]. rewrite app_length, IH. cbn. lia. Qed.

Lemma of_be_acc_app acc a b : of_be_acc acc (a ++ b) = of_be_acc (of_be_acc acc a) b.
Proof. revert acc; induction a as [|x a IH]; intros acc; cbn [app of_be_acc]; auto. Qed.

Lemma of_be_be_bytes w n : n < 256 ^ N.of_nat w -> of_be (be_bytes w n) = n.
Proof.
  unfold of_be. revert n; induction w as [|w IH]; intros n H.
  - cbn in *. lia.
  - cbn [be_bytes]. rewrite of_be_acc_app. cbn [of_be_acc].
    rewrite Nat2N.inj_succ, N.pow_succ_r' in H.
    rewrite IH by (apply N.div_lt_upper_bound; lia). lia.
Qed.
