(* Model of internal/encoding/tl encoder.go + decoder.go (+ the hand-written container and
   gzip decoders of objects/types.go), generic in the type universe.
   Encoder: value-directed, as the reflection walk is.  Decoder: type-directed, fuel +
   open recursion over a single [job] type; state = (vector hints, remaining bytes).
   Every Go panic site is an explicit [Panic]/[DPanic]. *)
From Coq Require Import ZArith NArith List Lia Bool.
From MTV Require Import Base.Bytes Base.Outcome TL.Types.
Import ListNotations.
Open Scope N_scope.

(* =================== encoder =================== *)

Definition tag_bit (t : tag) : option N :=
  match t with TagFlag b | TagBit b => Some b | _ => None end.

(* first pass of encodeStruct: a conditional group is present iff one of its fields is non-zero *)
Fixpoint flags_of (fds : list field) (vs : list gval) : N :=
  match fds, vs with
  | fd :: fds', v :: vs' =>
      let r := flags_of fds' vs' in
      match tag_bit (f_tag fd) with
      | Some b => if is_zero v then r else N.lor (N.shiftl 1 b) r
      | None => r
      end
  | _, _ => 0
  end.

(* does the field go to the wire as a value of its own? *)
Definition selected (flags : N) (fd : field) : bool :=
  match f_tag fd with
  | TagNone => true
  | TagFlag b => N.testbit flags b
  | TagBit _ => false
  | TagBad => false
  end.

Definition flag_here (fi : option nat) (i : nat) : bool :=
  match fi with Some p => Nat.eqb p i | None => false end.

(* second loop of encodeStruct: position j of the temporary list; the flags word is written
   at position FlagIndex() whatever sits there; the injected placeholder anywhere else is an
   "int kind" error *)
Definition emit_at (fi : option nat) (flags : N) (j : nat) (elem : option (outcome bytes)) : outcome bytes :=
  if flag_here fi j then Ok (le32 flags)
  else match elem with None => Err | Some e => e end.

Fixpoint assemble (fi : option nat) (flags : N) (i j : nat) (fds : list field) (es : list (outcome bytes))
  : outcome bytes :=
  match fds, es with
  | [], [] => Ok []
  | fd :: fds', e :: es' =>
      let ph := flag_here fi i in
      let j1 := if ph then S j else j in
      let sel := selected flags fd in
      let j2 := if sel then S j1 else j1 in
      do a <- (if ph then emit_at fi flags j None else Ok []);
      do b <- (if sel then emit_at fi flags j1 (Some e) else Ok []);
      do c <- assemble fi flags (S i) j2 fds' es';
      Ok (a ++ b ++ c)
  | _, _ => Panic (* value with a wrong number of fields: not a Go value of that type *)
  end.

Definition bad_field (fd : field) : bool :=
  match f_tag fd, f_ty fd with
  | TagBad, _ => true
  | TagBit _, TBool => false
  | TagBit _, _ => true         (* "only bool values can be encoded in bitflag" *)
  | _, _ => false
  end.

Fixpoint concat_out (l : list (outcome bytes)) : outcome bytes :=
  match l with
  | [] => Ok []
  | x :: r => do a <- x; do b <- concat_out r; Ok (a ++ b)
  end.

Definition enc_item (it : N * N * bytes) : bytes :=
  let '(mid, seq, body) := it in
  le64 mid ++ le32 seq ++ le32 (blen body mod two32) ++ body.

Section Enc.
  Variable U : universe.

  Fixpoint enc (v : gval) : outcome bytes :=
    match v with
    | VInt n => Ok (le32 n)
    | VEnum c => Ok (le32 c)
    | VLong n => Ok (le64 n)
    | VDouble n => Ok (le64 n)
    | VBool b => Ok (le32 (if b then crc_true else crc_false))
    | VStr s => match put_bytes s with Some b => Ok b | None => Err end
    | VBytes _ s => match put_bytes s with Some b => Ok b | None => Err end
    | VNil => Err                                   (* "value can't be nil" *)
    | VBig w256 hasint n =>
        if negb hasint then Panic                   (* nil *big.Int *)
        else if w256 then (if n <? 256 ^ 32 then Ok (be_bytes 32 n) else Panic)
        else (if n <? 256 ^ 16 then Ok (be_bytes 16 n) else Panic)   (* dry.BigIntBytes panics *)
    | VVec _ l =>
        do body <- concat_out (map enc l);
        Ok (le32 crc_vector ++ le32 (N.of_nat (length l) mod two32) ++ body)
    | VObj tid fs =>
        match get_struct U tid with
        | None => Err
        | Some sd =>
          match s_crc sd with
          | None => Panic                           (* CRC() panics *)
          | Some crc =>
            if existsb bad_field (s_fields sd) then Err
            else
              do body <- assemble (s_flagidx sd) (flags_of (s_fields sd) fs) 0 0 (s_fields sd) (map enc fs);
              Ok (le32 crc ++ body)
          end
        end
    | VContainer items =>
        Ok (le32 crc_container ++ le32 (N.of_nat (length items) mod two32) ++ concat (map enc_item items))
    | VGzip _ => Panic                              (* GzipPacked.MarshalTL: "not implemented" *)
    | VWrapped _ => Panic                           (* unexported field reached through reflection *)
    end.
End Enc.

(* =================== decoder =================== *)

Inductive dres (A : Type) := DOk (a : A) | DErr | DPanic | DFuel.
Arguments DOk {A} a. Arguments DErr {A}. Arguments DPanic {A}. Arguments DFuel {A}.

Definition dbind {A B} (r : dres A) (f : A -> dres B) : dres B :=
  match r with DOk a => f a | DErr => DErr | DPanic => DPanic | DFuel => DFuel end.

Definition of_opt {A} (o : option A) : dres A := match o with Some a => DOk a | None => DErr end.

Notation "'dlet' x <- a ; b" := (dbind a (fun x => b))
  (at level 200, x pattern, a at level 100, b at level 200, right associativity).

Definition st := (list fty * bytes)%type.

Inductive job :=
| JVal (t : fty)
| JBody (tid : N)
| JFields (fi : option nat) (i : nat) (parsed : bool) (fl : N) (fds : list field)
| JList (e : fty) (n : nat)
| JReg
| JItems (n : nat).

Definition has_tagged (fds : list field) : bool :=
  existsb (fun fd => match f_tag fd with TagNone => false | _ => true end) fds.

(* the dynamic type of a decoded object implements interface i? *)
Definition implements (U : universe) (i : N) (v : gval) : bool :=
  match v with
  | VObj tid _ => match get_struct U tid with Some sd => mem i (s_impls sd) | None => false end
  | VEnum c => match lookup_reg U c with
               | Some (REnum e) => mem i (nth (N.to_nat e) (u_enum_impls U) [])
               | _ => false end
  | VContainer _ | VGzip _ | VWrapped _ => i =? 0
  | _ => false
  end.

Section Dec.
  Variable U : universe.
  Variable inflate : bytes -> option bytes.   (* compress/gzip, as GzipPacked.popMessageAsBytes uses it *)

  Definition R := dres (list gval * st).

  Definition one (v : gval) (s : st) : R := DOk ([v], s).

  Definition dec_body (rec : job -> st -> R) (j : job) (s : st) : R :=
    let '(h, bs) := s in
    match j with
    | JVal TI32 | JVal TU32 => dlet (n, r) <- of_opt (pop32 bs); one (VInt n) (h, r)
    | JVal (TEnum _) => dlet (n, r) <- of_opt (pop32 bs); one (VEnum n) (h, r)
    | JVal TI64 => dlet (n, r) <- of_opt (pop64 bs); one (VLong n) (h, r)
    | JVal TF64 => dlet (n, r) <- of_opt (pop64 bs); one (VDouble n) (h, r)
    | JVal TBool =>
        dlet (n, r) <- of_opt (pop32 bs);
        if n =? crc_true then one (VBool true) (h, r)
        else if n =? crc_false then one (VBool false) (h, r) else DErr
    | JVal TStr => dlet (b, r) <- of_opt (pop_bytes bs); one (VStr b) (h, r)
    | JVal TBytes => dlet (b, r) <- of_opt (pop_bytes bs); one (VBytes false b) (h, r)
    | JVal TI128 => dlet (b, r) <- of_opt (take 16 bs); one (VBig false true (of_be b)) (h, r)
    | JVal TI256 => dlet (b, r) <- of_opt (take 32 bs); one (VBig true true (of_be b)) (h, r)
    | JVal (TVec e) =>
        dlet (c, r) <- of_opt (pop32 bs);
        if negb (c =? crc_vector) then DErr else
        dlet (n, r') <- of_opt (pop32 r);
        if blen r' / 4 <? n then DErr else      (* repaired: count bounded by the remaining data *)
        dlet (vs, s') <- rec (JList e (N.to_nat n)) (h, r');
        one (VVec false vs) s'
    | JVal (TPtr tid) =>
        match get_struct U tid with
        | None => DErr
        | Some sd =>
          dlet (c, r) <- of_opt (pop32 bs);
          match s_crc sd with
          | None => DPanic
          | Some crc => if c =? crc then rec (JBody tid) (h, r) else DErr
          end
        end
    | JVal (TIface i) =>
        dlet (vs, s') <- rec JReg s;
        match vs with
        | [v] => if implements U i v then DOk ([v], s') else DErr   (* repaired: checked conversion *)
        | _ => DPanic
        end
    | JVal TBad => DErr
    | JBody tid =>
        match get_struct U tid with
        | None => DErr
        | Some sd =>
          if has_tagged (s_fields sd) && match s_flagidx sd with None => true | Some _ => false end
          then DPanic   (* "has type bit flag tags, but doesn't implement tl.FlagIndexGetter" *)
          else
            dlet (vs, s') <- rec (JFields (if has_tagged (s_fields sd) then s_flagidx sd else None)
                                           0%nat false 0 (s_fields sd)) s;
            one (VObj tid vs) s'
        end
    | JFields fi i parsed fl fds =>
        if flag_here fi i then
          dlet (fl', r) <- of_opt (pop32 bs);
          rec (JFields fi (S i) true fl' fds) (h, r)
        else
          match fds with
          | [] => match fi with
                  | Some _ => if parsed then DOk ([], s) else DPanic   (* Field index out of range *)
                  | None => DOk ([], s)
                  end
          | fd :: fds' =>
              let next v s1 := dlet (vs, s2) <- rec (JFields fi (S i) parsed fl fds') s1; DOk (v :: vs, s2) in
              let decode :=
                dlet (v, s1) <- rec (JVal (f_ty fd)) s;
                match v with [x] => next x s1 | _ => DPanic end in
              match f_tag fd with
              | TagNone => decode
              | TagFlag b => if N.testbit fl b then decode else next (zero_of (f_ty fd)) s
              | TagBit b => if N.testbit fl b then next (VBool true) s else next (zero_of (f_ty fd)) s
              | TagBad => DErr
              end
          end
    | JList e n =>
        match n with
        | O => DOk ([], s)
        | S n' =>
            dlet (v, s1) <- rec (JVal e) s;
            dlet (vs, s2) <- rec (JList e n') s1;
            DOk (v ++ vs, s2)
        end
    | JReg =>
        dlet (c, r) <- of_opt (pop32 bs);
        if c =? crc_vector then
          match h with
          | [] => DErr                         (* ErrMustParseSlicesExplicitly *)
          | TVec e :: h' =>
              dlet (n, r') <- of_opt (pop32 r);
              if blen r' / 4 <? n then DErr else
              dlet (vs, s') <- rec (JList e (N.to_nat n)) (h', r');
              one (VWrapped (VVec false vs)) s'
          | _ :: _ => DPanic                   (* hint is not a slice type *)
          end
        else if c =? crc_false then one (VObj (u_false U) []) (h, r)
        else if c =? crc_true then one (VObj (u_true U) []) (h, r)
        else if c =? crc_null then one (VObj (u_null U) []) (h, r)
        else
          match lookup_reg U c with
          | None => DErr
          | Some (RStruct tid) => rec (JBody tid) (h, r)
          | Some (REnum _) => one (VEnum c) (h, r)         (* repaired: enum ids are values *)
          | Some RContainer =>
              dlet (n, r') <- of_opt (pop32 r);
              if (two32 / 2 <=? n) || (blen r' / 16 <? n) then DErr else   (* repaired: count checked *)
              rec (JItems (N.to_nat n)) (h, r')
          | Some RGzip =>
              dlet (payload, r') <- of_opt (pop_bytes r);
              match inflate payload with
              | None => DErr
              | Some raw =>
                  dlet (vs, _) <- rec JReg (h, raw);   (* the packed message is decoded with the outer hints *)
                  match vs with [v] => one (VGzip v) (h, r') | _ => DPanic end
              end
          end
    | JItems n =>
        (* accumulates a single VContainer *)
        match n with
        | O => one (VContainer []) s
        | S n' =>
            dlet (mid, r1) <- of_opt (pop64 bs);
            dlet (seq, r2) <- of_opt (pop32 r1);
            dlet (size, r3) <- of_opt (pop32 r2);
            if two32 / 2 <=? size then DErr else            (* repaired: negative size *)
            dlet (body, r4) <- of_opt (take size r3);
            dlet (vs, s') <- rec (JItems n') (h, r4);
            match vs with
            | [VContainer items] => one (VContainer ((mid, seq, body) :: items)) s'
            | _ => DPanic
            end
        end
    end.

  Fixpoint dec (fuel : nat) (j : job) (s : st) : R :=
    match fuel with
    | O => DFuel
    | S f => dec_body (dec f) j s
    end.

  Lemma dec_S f j s : dec (S f) j s = dec_body (dec f) j s.
  Proof. reflexivity. Qed.

  (* tl.Decode(data, &T{}) for struct type tid *)
  Definition decode_named (fuel : nat) (tid : N) (bs : bytes) : dres gval :=
    dlet (vs, _) <- dec fuel (JVal (TPtr tid)) ([], bs);
    match vs with [v] => DOk v | _ => DPanic end.

  (* tl.DecodeUnknownObject(data, hints...) *)
  Definition decode_unknown (fuel : nat) (hints : list fty) (bs : bytes) : dres gval :=
    dlet (vs, _) <- dec fuel JReg (hints, bs);
    match vs with [v] => DOk v | _ => DPanic end.
End Dec.

(* fuel that always suffices is linear in the input (proved in TL/Total.v) *)
Definition fuel_for (U : universe) (bs : bytes) : nat :=
  (2 + fold_right Nat.max 0%nat (map (fun sd => length (s_fields sd)) (u_structs U))) * (length bs + 2).
