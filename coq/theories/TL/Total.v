(* C-TL totality, part 2: termination with input-linear fuel, and bounded allocation.

   Termination.  The measure is
       need U j s = G * (|remaining bytes| / 4) + off j,      G = maxfields U + 3
   Every successful JVal / JReg consumes at least one 4-byte word and, between two
   consecutive word reads on one path of nested calls, the decoder nests at most
   JVal -> JReg -> JBody -> JFields^(#fields) -> JVal, i.e. #fields + 3 levels.
   [fuel_for U bs] = (maxfields U + 2) * (|bs| + 2) counts BYTES, not words, so it
   dominates [need] with a lot of room.
   gzip_packed restarts the decoder on the inflated stream; a bound in terms of the outer
   input alone cannot exist, so the general statement is relative to the nesting depth of
   the oracle on the input ([gz_depth_le]); "no gzip" is depth 0.

   Allocation.  Every element count the decoder uses to size a slice / container and every
   raw read is bounded by the number of bytes still unread. *)
From Coq Require Import ZArith NArith List Lia ZifyN ZifyNat ZifyBool Bool.
From MTV Require Import Base.Bytes Base.Outcome TL.Types TL.Codec TL.Typing TL.NPPost.
Import ListNotations.
Ltac Zify.zify_post_hook ::= Z.div_mod_to_equations.

(* ================= termination ================= *)

Definition maxfields (U : universe) : nat :=
  fold_right Nat.max 0%nat (map (fun sd => length (s_fields sd)) (u_structs U)).

Lemma fuel_for_eq U bs : fuel_for U bs = ((2 + maxfields U) * (length bs + 2))%nat.
Proof. reflexivity. Qed.

Lemma maxfields_get U tid sd : get_struct U tid = Some sd -> (length (s_fields sd) <= maxfields U)%nat.
Proof.
  unfold get_struct, maxfields. intros E. apply nth_error_In in E.
  induction (u_structs U) as [|x l IH]; [destruct E|].
  cbn [map fold_right]. destruct E as [->|E]; [lia|]. specialize (IH E). lia.
Qed.

(* nesting levels per consumed word *)
Definition G (U : universe) : nat := (maxfields U + 3)%nat.

Definition off (U : universe) (j : job) : nat :=
  match j with
  | JVal _ => 2
  | JReg => 1
  | JBody _ => maxfields U + 3
  | JFields _ _ _ _ fds => length fds + 2
  | JList _ _ => 3
  | JItems _ => 1
  end%nat.

Definition need (U : universe) (j : job) (s : st) : nat := (G U * (slen s / 4) + off U j)%nat.

Lemma lin Gc qa qb dd ka kb : (qa + dd <= qb -> ka <= kb + Gc * dd -> Gc * qa + ka <= Gc * qb + kb)%nat.
Proof. intros. nia. Qed.

Section Term.
  Variable U : universe.
  Variable inflate : bytes -> option bytes.
  Variable B : nat.     (* bound on the size of anything the oracle returns *)

  (* the oracle, applied to contiguous pieces of [bs], nests at most [d] deep, and every
     stream it produces on the way has at most B bytes *)
  Fixpoint gz_depth_le (d : nat) (bs : bytes) : Prop :=
    forall pre p post raw, bs = pre ++ p ++ post -> inflate p = Some raw ->
      match d with
      | O => False
      | S d' => (length raw <= B)%nat /\ gz_depth_le d' raw
      end.

  Lemma gz_suffix d b' b : suffix b' b -> gz_depth_le d b -> gz_depth_le d b'.
  Proof.
    intros [q ->] H. destruct d; cbn [gz_depth_le] in *; intros pre p post raw -> Hp;
      apply (H (q ++ pre) p post raw); auto; now rewrite <- app_assoc.
  Qed.

  (* fuel one gzip layer may cost *)
  Definition K : nat := (G U * (B / 4) + 1)%nat.

  Definition needgz (d : nat) (j : job) (s : st) : nat := (d * K + need U j s)%nat.

  Lemma dec_body_nofuel rec f :
    rec_post rec ->
    (forall d j s, gz_depth_le d (snd s) -> (needgz d j s <= f)%nat -> rec j s <> DFuel) ->
    forall d j s, gz_depth_le d (snd s) -> (needgz d j s <= S f)%nat ->
    dec_body U inflate rec j s <> DFuel.
  Proof.
    intros Hrec Hnf d j [h bs] Hgz Hfuel H. cbn [snd] in Hgz. unfold dec_body in H.
    assert (Hcall : forall d' j' s', rec j' s' = DFuel -> gz_depth_le d' (snd s') ->
                                     (needgz d' j' s' <= f)%nat -> False)
      by (intros d' j' s' E Hg Hn; exact (Hnf _ _ _ Hg Hn E)).
    unfold needgz, need, slen in *. cbn [snd] in *.
    destruct j as [t|tid|fi i parsed fl fds|e n| |n].
    all: unfold one in H; cbv zeta in H.
    all: try destruct t.
    all: repeat dstep H; try discriminate H.
    (* the gzip restart: the payload is a piece of the current stream *)
    all: try (match goal with Ei : inflate ?p = Some _, Ep : pop_bytes _ = Some (?p, _) |- _ =>
                pose proof (pop_bytes_split _ _ _ Ep) as [p1 [p2 [Hsplit _]]] end).
    all: try (match goal with E : get_struct _ _ = Some _ |- _ => pose proof (maxfields_get _ _ _ E) end).
    all: facts Hrec.
    all: try (match goal with E : _ ?j' ?s' = DFuel |- _ =>
                apply (Hcall d j' s' E);
                [ cbn [snd]; (eapply gz_suffix; [|exact Hgz]); suf
                | cbn [snd off length] in *;
                  match goal with |- (_ + (?a + ?ka) <= _)%nat =>
                    match type of Hfuel with (_ + (?b + ?kb) <= _)%nat =>
                      cut (a + (ka + 1) <= b + kb)%nat; [clear -Hfuel; lia|] end end;
                  first [ apply lin with (dd := 2%nat); [lia|unfold G; lia]
                        | apply lin with (dd := 1%nat); [lia|unfold G; lia]
                        | apply lin with (dd := 0%nat); [lia|unfold G; lia] ] ] end).
    (* what is left is the gzip restart *)
    match goal with
    | Ei : inflate ?p = Some ?raw, Er : rec JReg (?hh, ?raw) = DFuel,
      Hs : ?b = ?p1 ++ ?p ++ ?rest, Hsuf : suffix ?b bs |- _ =>
        assert (Hb : gz_depth_le d b) by (eapply gz_suffix; [exact Hsuf|exact Hgz]);
        destruct d as [|d']; cbn [gz_depth_le] in Hb; specialize (Hb p1 p rest raw Hs Ei); [exact Hb|];
        destruct Hb as [HB Hd'];
        apply (Hcall d' JReg (hh, raw) Er); [exact Hd'|]; cbn [snd off] in *;
        assert (G U * (length raw / 4) <= G U * (B / 4))%nat
          by (apply Nat.mul_le_mono_l, Nat.div_le_mono; [discriminate|exact HB]);
        unfold K in *; lia
    end.
  Qed.

  Theorem dec_nofuel_gz fuel : forall d j s,
    gz_depth_le d (snd s) -> (needgz d j s <= fuel)%nat -> dec U inflate fuel j s <> DFuel.
  Proof.
    induction fuel as [|f IH]; intros d j s Hgz Hn.
    - exfalso. unfold needgz, need in Hn. destruct j; cbn [off] in Hn; lia.
    - rewrite dec_S. eapply dec_body_nofuel; eauto. apply dec_post.
  Qed.

  Lemma gz0_of_none : (forall p, inflate p = None) -> forall bs, gz_depth_le 0 bs.
  Proof. intros Hn bs pre p post raw _ E. rewrite Hn in E. discriminate E. Qed.
End Term.

(* the two API entry points only relay DFuel *)
Lemma decode_unknown_fuel U inflate fuel h bs :
  dec U inflate fuel JReg (h, bs) <> DFuel -> decode_unknown U inflate fuel h bs <> DFuel.
Proof.
  unfold decode_unknown. destruct (dec U inflate fuel JReg (h, bs)) as [[vs s']| | |]; cbn [dbind];
    try congruence. intros _. destruct vs as [|v [|w l]]; discriminate.
Qed.

Lemma decode_named_fuel U inflate fuel tid bs :
  dec U inflate fuel (JVal (TPtr tid)) ([], bs) <> DFuel -> decode_named U inflate fuel tid bs <> DFuel.
Proof.
  unfold decode_named. destruct (dec U inflate fuel (JVal (TPtr tid)) ([], bs)) as [[vs s']| | |]; cbn [dbind];
    try congruence. intros _. destruct vs as [|v [|w l]]; discriminate.
Qed.

(* ---------- without gzip: input-linear fuel ---------- *)

(* the general statement: [need] is linear in the remaining length *)
Theorem dec_nofuel_nogzip : forall U inflate, (forall p, inflate p = None) ->
  forall fuel j s, (need U j s <= fuel)%nat -> dec U inflate fuel j s <> DFuel.
Proof.
  intros U inflate Hn fuel j s H. apply (dec_nofuel_gz U inflate 0 fuel 0 j s).
  - now apply gz0_of_none.
  - unfold needgz. lia.
Qed.

Definition fuel_len (U : universe) (n : nat) : nat := ((2 + maxfields U) * (n + 2))%nat.

Lemma fuel_for_len U bs : fuel_for U bs = fuel_len U (length bs).
Proof. reflexivity. Qed.

Lemma need_le_fuel_len U j h bs n :
  (off U j <= 2)%nat -> (length bs <= n)%nat -> (need U j (h, bs) <= fuel_len U n)%nat.
Proof.
  unfold need, fuel_len, G, slen. cbn [snd]. intros Ho Hn.
  assert (4 * (length bs / 4) <= n)%nat by lia.
  generalize dependent (length bs / 4)%nat. intros q Hq. nia.
Qed.

Theorem dec_terminates_nogzip : forall U inflate, (forall p, inflate p = None) ->
  forall h bs,
    decode_unknown U inflate (fuel_for U bs) h bs <> DFuel /\
    forall tid, decode_named U inflate (fuel_for U bs) tid bs <> DFuel.
Proof.
  intros U inflate Hn h bs. rewrite fuel_for_len. split; [|intros tid].
  - apply decode_unknown_fuel, dec_nofuel_nogzip; [assumption|].
    apply need_le_fuel_len; cbn [off]; lia.
  - apply decode_named_fuel, dec_nofuel_nogzip; [assumption|].
    apply need_le_fuel_len; cbn [off]; lia.
Qed.

(* ---------- with gzip: relative to the nesting depth of the oracle on the input ---------- *)

(* sharp form *)
Theorem dec_nofuel_gzip : forall U inflate B d fuel j s,
  gz_depth_le inflate B d (snd s) -> (d * K U B + need U j s <= fuel)%nat ->
  dec U inflate fuel j s <> DFuel.
Proof. intros U inflate B d fuel j s Hg Hn. exact (dec_nofuel_gz U inflate B fuel d j s Hg Hn). Qed.

Lemma K_le_fuel_len U B n : (B <= n)%nat -> (K U B <= fuel_len U n)%nat.
Proof.
  intros H. unfold K. pose proof (need_le_fuel_len U JReg [] (repeat 0%N B) n) as X.
  unfold need, slen in X. cbn [snd off] in X. rewrite repeat_length in X. apply X; lia.
Qed.

(* If every stream the oracle produces has at most B bytes and gzip_packed objects nest at
   most d deep in the input, then (d+1) times the no-gzip fuel for max(B, |bs|) bytes
   suffices.  No bound in terms of |bs| alone exists: see [gzip_quine_defeats_any_fuel]. *)
Theorem dec_terminates_gzip_relative : forall U inflate B d h bs,
  gz_depth_le inflate B d bs ->
  let fuel := ((d + 1) * fuel_len U (Nat.max B (length bs)))%nat in
  decode_unknown U inflate fuel h bs <> DFuel /\
  forall tid, decode_named U inflate fuel tid bs <> DFuel.
Proof.
  intros U inflate B d h bs Hg fuel.
  assert (HK : (K U B <= fuel_len U (Nat.max B (length bs)))%nat) by (apply K_le_fuel_len; lia).
  assert (Hb : forall j hh, (off U j <= 2)%nat -> (d * K U B + need U j (hh, bs) <= fuel)%nat).
  { intros j hh Ho. pose proof (need_le_fuel_len U j hh bs (Nat.max B (length bs)) Ho ltac:(lia)).
    subst fuel. rewrite Nat.mul_add_distr_r, Nat.mul_1_l.
    apply Nat.add_le_mono; [apply Nat.mul_le_mono_l; exact HK|assumption]. }
  split; [|intros tid].
  - apply decode_unknown_fuel, (dec_nofuel_gzip U inflate B d); [exact Hg|]. apply Hb. cbn [off]. lia.
  - apply decode_named_fuel, (dec_nofuel_gzip U inflate B d); [exact Hg|]. apply Hb. cbn [off]. lia.
Qed.

(* the no-gzip theorem is the depth-0 instance *)
Corollary nogzip_is_depth0 : forall inflate B, (forall p, inflate p = None) -> forall bs, gz_depth_le inflate B 0 bs.
Proof. intros inflate B H bs. now apply gz0_of_none. Qed.

(* ================= allocation ================= *)

(* raw reads: everything goes through [take] (fixed-width ints, string bodies, padding,
   container message bodies), and [take] never hands out more than is there *)
Theorem take_bounded n bs a r : take n bs = Some (a, r) -> (n <= blen bs)%N /\ blen a = n /\ bs = a ++ r.
Proof. intros H. apply take_split in H as [H1 [H2 H3]]. unfold blen. repeat split; auto. lia. Qed.

Theorem pop_bytes_bounded l m r : pop_bytes l = Some (m, r) -> (length m + length r <= length l)%nat.
Proof. intros H. apply pop_bytes_split in H as [p1 [p2 [-> _]]]. rewrite !app_length. lia. Qed.

(* element counts: the two guards of dec_body *)
Lemma vec_guard r' n : (blen r' / 4 <? n)%N = false -> (N.to_nat n <= length r' / 4)%nat.
Proof. unfold blen. lia. Qed.

Lemma items_guard r' n : ((two32 / 2 <=? n) || (blen r' / 16 <? n))%N = false -> (N.to_nat n <= length r' / 16)%nat.
Proof. unfold blen, two32. lia. Qed.

(* a request for n elements issued on state s is covered by the unread bytes:
   4 bytes per vector element, 16 per container message *)
Definition alloc_okb (j : job) (s : st) : bool :=
  match j with
  | JList _ n => Nat.leb n (slen s / 4)
  | JItems n => Nat.leb n (slen s / 16)
  | _ => true
  end.
Definition alloc_ok (j : job) (s : st) : Prop := alloc_okb j s = true.

(* the jobs that size a slice from a count read off the wire *)
Definition allocating (j : job) : bool :=
  match j with JVal (TVec _) | JReg => true | _ => false end.

Section Alloc.
  Variable U : universe.
  Variable inflate : bytes -> option bytes.

  (* One step: the two allocating jobs invoke [rec] only on requests that satisfy the bound
     (they cannot tell two continuations apart that differ only on oversized requests);
     for the other jobs this is plain extensionality of dec_body in [rec]. *)
  Theorem alloc_bounded rec rec' j s :
    (forall j' s', (allocating j = true -> alloc_ok j' s') -> rec' j' s' = rec j' s') ->
    dec_body U inflate rec' j s = dec_body U inflate rec j s.
  Proof.
    intros Hext. destruct s as [h bs]. unfold dec_body.
    assert (Hna : allocating j = false -> forall j' s', rec' j' s' = rec j' s')
      by (intros Ha j' s'; apply Hext; rewrite Ha; discriminate).
    destruct j as [t|tid|fi i parsed fl fds|e n| |n]; [destruct t|..]; cbv zeta; unfold one;
      first [specialize (Hna eq_refl) | clear Hna];
      repeat (match goal with
         | |- ?x = ?x => reflexivity
         | |- dbind (of_opt ?o) _ = dbind (of_opt ?o) _ =>
             let E := fresh "E" in destruct o as [[? ?]|] eqn:E; cbn [of_opt dbind]
         | |- dbind (rec' ?j ?s) _ = dbind (rec ?j ?s) _ =>
             first [ rewrite (Hna j s)
                   | rewrite (Hext j s) by (intros _; unfold alloc_ok, alloc_okb, slen, blen, two32 in *; cbn [snd]; lia) ];
             destruct (rec j s) as [[? ?]| | |]; cbn [dbind]
         | |- rec' ?j ?s = rec ?j ?s =>
             first [ apply Hna
                   | apply Hext; intros _; unfold alloc_ok, alloc_okb, slen, blen, two32 in *; cbn [snd]; lia ]
         | |- (if ?b then _ else _) = (if ?b then _ else _) => let E := fresh "E" in destruct b eqn:E
         | |- match ?x with _ => _ end = match ?x with _ => _ end => let E := fresh "E" in destruct x eqn:E
         end).
  Qed.

  (* the same, read as a trap: in an allocating job, replacing the continuation's answer to
     every oversized request by an arbitrary [x] is unobservable.  (JList / JItems
     themselves only continue a loop whose size was fixed, and checked, on entry.) *)
  Corollary alloc_bounded_trap (x : R) rec j s : allocating j = true ->
    dec_body U inflate (fun j' s' => if alloc_okb j' s' then rec j' s' else x) j s = dec_body U inflate rec j s.
  Proof. intros Ha. apply alloc_bounded. intros j' s' Hok. now rewrite (Hok Ha). Qed.

  (* Whole run: instrument the decoder with a trap -- an arbitrary result [x] substituted
     for any oversized request coming from an allocating job.  The instrumented decoder is
     the decoder, for every [x]: the trap is never sprung. *)
  Fixpoint dec_trap (x : R) (fuel : nat) (j : job) (s : st) : R :=
    match fuel with
    | O => DFuel
    | S f => dec_body U inflate
               (fun j' s' => if allocating j && negb (alloc_okb j' s') then x else dec_trap x f j' s') j s
    end.

  Theorem alloc_bounded_run x fuel : forall j s, dec_trap x fuel j s = dec U inflate fuel j s.
  Proof.
    induction fuel as [|f IH]; intros j s; [reflexivity|]. cbn [dec_trap dec].
    apply alloc_bounded. intros j' s' Hok. destruct (allocating j); cbn [andb]; [|apply IH].
    rewrite (Hok eq_refl). cbn [negb]. apply IH.
  Qed.
End Alloc.

(* ================= the hypotheses are satisfiable; the bounds are meaningful ================= *)

Definition no_inflate (p : bytes) : option bytes := None.

(* dec_terminates_nogzip on the tiny universe: 24 input bytes, fuel 6 * 26 = 156, need 43 *)
Example ex_terminates_nogzip :
  (forall p, no_inflate p = None) /\
  fuel_for exU ex_obj = 156%nat /\ need exU JReg ([], ex_obj) = 43%nat /\
  decode_unknown exU no_inflate (fuel_for exU ex_obj) [] ex_obj
    = DOk (VObj 0 [VInt 7; VEnum 200; VVec false []; VBool false]) /\
  decode_named exU no_inflate (fuel_for exU ex_obj) 0 ex_obj
    = DOk (VObj 0 [VInt 7; VEnum 200; VVec false []; VBool false]) /\
  decode_unknown exU no_inflate (fuel_for exU ex_container) [] ex_container
    = DOk (VContainer [(1, 2, [1; 2; 3; 4])]).
Proof. split; [reflexivity|]. repeat split; vm_compute; reflexivity. Qed.

(* dec_terminates_gzip_relative: ex_gzip has nesting depth 1 w.r.t. the toy oracle, B = 24 *)
Lemma ex_inflate_inv p raw : ex_inflate p = Some raw -> p = [9%N] /\ raw = ex_obj.
Proof.
  unfold ex_inflate. destruct (beq_spec p [9%N]) as [->|]; [|discriminate]. intros [= <-]. now split.
Qed.

Example ex_gz_depth : gz_depth_le ex_inflate 24 1 ex_gzip.
Proof.
  intros pre p post raw _ Hi. apply ex_inflate_inv in Hi as [-> ->]. split; [vm_compute; lia|].
  intros pre' p' post' raw' Heq Hi. apply ex_inflate_inv in Hi as [-> ->].
  assert (H : In 9%N ex_obj) by (rewrite Heq, !in_app_iff; right; left; now left).
  vm_compute in H. repeat (destruct H as [H|H]; [discriminate H|]). exact H.
Qed.

Example ex_terminates_gzip :
  decode_unknown exU ex_inflate ((1 + 1) * fuel_len exU (Nat.max 24 (length ex_gzip))) [] ex_gzip
    = DOk (VGzip (VObj 0 [VInt 7; VEnum 200; VVec false []; VBool false])).
Proof. vm_compute. reflexivity. Qed.

(* why the gzip statement must be relative: an oracle with a fixed point (a gzip stream
   that inflates to itself) makes the decoder run out of ANY fuel on an 8-byte input *)
Definition quine : bytes := le32 crc_gzip ++ [1; 9; 0; 0]%N.
Definition inflate_quine (p : bytes) : option bytes := Some quine.

Lemma quine_step rec : rec JReg ([], quine) = DFuel -> dec_body exU inflate_quine rec JReg ([], quine) = DFuel.
Proof. intros H. vm_compute in H. vm_compute. rewrite H. reflexivity. Qed.

Theorem gzip_quine_defeats_any_fuel : forall fuel, decode_unknown exU inflate_quine fuel [] quine = DFuel.
Proof.
  assert (H : forall fuel, dec exU inflate_quine fuel JReg ([], quine) = DFuel).
  { induction fuel as [|f IH]; [reflexivity|]. rewrite dec_S. apply quine_step, IH. }
  intros fuel. unfold decode_unknown. rewrite H. reflexivity.
Qed.

(* allocation: a vector that announces 2^32-1 elements (or just one more than there is data
   for) is refused before anything is sized; so is a container; so is an over-long string *)
Example ex_alloc_refused :
  decode_unknown exU no_inflate 50 [TVec TI32] (le32 crc_vector ++ le32 4294967295 ++ le32 5) = DErr /\
  decode_unknown exU no_inflate 50 [TVec TI32] (le32 crc_vector ++ le32 2 ++ le32 5) = DErr /\
  decode_unknown exU no_inflate 50 [] (le32 crc_container ++ le32 2 ++ le64 1 ++ le32 2 ++ le32 4 ++ [1; 2; 3; 4]%N) = DErr /\
  take 5 [1; 2; 3; 4]%N = None /\
  alloc_ok (JList TI32 1) ([], le32 5) /\ ~ alloc_ok (JList TI32 2) ([], le32 5).
Proof. repeat split; try (vm_compute; reflexivity). vm_compute. discriminate. Qed.

(* the instrumented decoder with a trap that would turn an oversized request into a panic *)
Example ex_alloc_run :
  dec_trap exU no_inflate DPanic 50 JReg ([TVec TI32], le32 crc_vector ++ le32 1 ++ le32 5)
  = DOk ([VWrapped (VVec false [VInt 5])], ([], [])).
Proof. vm_compute. reflexivity. Qed.

Print Assumptions dec_terminates_nogzip.
Print Assumptions dec_nofuel_nogzip.
Print Assumptions dec_terminates_gzip_relative.
Print Assumptions gzip_quine_defeats_any_fuel.
Print Assumptions alloc_bounded.
Print Assumptions alloc_bounded_run.
Print Assumptions take_bounded.
