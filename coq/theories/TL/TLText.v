(* The TL schema language, parsed inside Coq from the schema text embedded verbatim
   (gen/SchemaText.v): one total function from a line to a combinator description, the
   canonical form whose CRC-32 is the constructor id, and the section structure. *)
From Coq Require Import String.
From Coq Require Import ZArith NArith List Lia Bool.
From MTV Require Import Base.Bytes Base.Outcome Base.Str Prim.Crc32.
Import ListNotations.
Open Scope N_scope.

Inductive ttype :=
| TTInt | TTLong | TTDouble | TTString | TTBytes | TTBool | TTTrue | TTInt128 | TTInt256
| TTVector (e : ttype)        (* Vector<T>: boxed vector (id, count, elements) *)
| TTBareVector (e : ttype)    (* vector<T>: bare vector (count, elements; no id) - mtproto.tl only *)
| TTBareCtor (name : bytes)   (* %Type: bare constructor *)
| TTVar                       (* !X : the generic argument *)
| TTObject                    (* Object (mtproto.tl): any boxed object *)
| TTNamed (name : bytes).     (* boxed type by name *)

Inductive ptype := PNat | PPlain (t : ttype) | PCond (bit : N) (t : ttype) | PUnknown.

Record param := { p_name : bytes; p_ty : ptype }.

Record comb := {
  c_name : bytes;
  c_id : N;
  c_params : list param;
  c_result : bytes;      (* result type as written, without ';' *)
  c_generic : bool;      (* has {X:Type} *)
  c_isfun : bool
}.

Inductive line :=
| LBlank | LComment | LSection (functions : bool)
| LBuiltin              (* `int ? = Int;` and friends: no #id *)
| LDef (c : comb)
| LBad.

Definition sp : N := 32.
Definition is_digit (c : N) : bool := (48 <=? c) && (c <=? 57).

Fixpoint dec_acc (acc : N) (s : bytes) : option N :=
  match s with
  | [] => Some acc
  | c :: r => if is_digit c then dec_acc (10 * acc + (c - 48)) r else None
  end.
Definition parse_dec (s : bytes) : option N := match s with [] => None | _ => dec_acc 0 s end.

Definition hexdig (c : N) : option N :=
  if (48 <=? c) && (c <=? 57) then Some (c - 48)
  else if (97 <=? c) && (c <=? 102) then Some (c - 87)
  else if (65 <=? c) && (c <=? 70) then Some (c - 55)
  else None.
Fixpoint hex_acc (acc : N) (s : bytes) : option N :=
  match s with
  | [] => Some acc
  | c :: r => match hexdig c with Some d => hex_acc (16 * acc + d) r | None => None end
  end.
Definition parse_hex (s : bytes) : option N := match s with [] => None | _ => hex_acc 0 s end.

Definition s_vector_lt := Eval vm_compute in lit "Vector<".
Definition s_vector_lc := Eval vm_compute in lit "vector<".
Definition s_flags_dot := Eval vm_compute in lit "flags.".

Definition last_is (c : N) (s : bytes) : bool := match rev s with x :: _ => x =? c | [] => false end.
Definition drop_last (s : bytes) : bytes := rev (tl (rev s)).

Fixpoint parse_ttype (fuel : nat) (s : bytes) : ttype :=
  match fuel with
  | O => TTNamed s
  | S f =>
    if beq s (lit "int") then TTInt
    else if beq s (lit "long") then TTLong
    else if beq s (lit "double") then TTDouble
    else if beq s (lit "string") then TTString
    else if beq s (lit "bytes") then TTBytes
    else if beq s (lit "Bool") then TTBool
    else if beq s (lit "true") then TTTrue
    else if beq s (lit "int128") then TTInt128
    else if beq s (lit "int256") then TTInt256
    else if beq s (lit "Object") then TTObject
    else if beq s (lit "!X") then TTVar
    else if has_prefix s_vector_lt s && last_is 62 s
         then TTVector (parse_ttype f (drop_last (skipn 7 s)))
    else if has_prefix s_vector_lc s && last_is 62 s
         then TTBareVector (parse_ttype f (drop_last (skipn 7 s)))
    else match s with
         | 37 :: r => TTBareCtor r
         | _ => TTNamed s
         end
  end.

Definition parse_ptype (s : bytes) : ptype :=
  if beq s [35] then PNat
  else if has_prefix s_flags_dot s then
    let r := skipn 6 s in
    let i := index_byte 63 r in   (* '?' *)
    if (i <? 0)%Z then PUnknown
    else match parse_dec (firstn (Z.to_nat i) r) with
         | Some b => let t := skipn (S (Z.to_nat i)) r in PCond b (parse_ttype (length t) t)
         | None => PUnknown
         end
  else PPlain (parse_ttype (length s) s).

Definition parse_param (tok : bytes) : option param :=
  let i := index_byte 58 tok in   (* ':' *)
  if (i <? 0)%Z then None
  else Some {| p_name := firstn (Z.to_nat i) tok; p_ty := parse_ptype (skipn (S (Z.to_nat i)) tok) |}.

Fixpoint parse_params (toks : list bytes) : option (list param * bool * list bytes) :=
  (* params until "=", generic marker, remaining tokens (the result) *)
  match toks with
  | [] => None
  | t :: r =>
      if beq t [61] then Some ([], false, r)
      else match parse_params r with
           | None => None
           | Some (ps, g, res) =>
               match t with
               | 123 :: _ => Some (ps, true, res)          (* {X:Type} *)
               | _ => match parse_param t with
                      | Some p => Some (p :: ps, g, res)
                      | None => None
                      end
               end
           end
  end.

Definition nonempty (l : list bytes) : list bytes := filter (fun t => negb (beq t [])) l.

Fixpoint join_sp (l : list bytes) : bytes :=
  match l with [] => [] | [x] => x | x :: r => x ++ [sp] ++ join_sp r end.

Definition strip_semi (s : bytes) : bytes := if last_is 59 s then drop_last s else s.

Definition parse_line (isfun : bool) (s : bytes) : line :=
  let toks := nonempty (split_on sp s) in
  match toks with
  | [] => LBlank
  | t0 :: rest =>
      if has_prefix (lit "//") t0 then LComment
      else if has_prefix (lit "---") t0 then LSection (beq t0 (lit "---functions---"))
      else
        let i := index_byte 35 t0 in
        if (i <? 0)%Z then LBuiltin
        else match parse_hex (skipn (S (Z.to_nat i)) t0), parse_params rest with
             | Some id, Some (ps, g, res) =>
                 LDef {| c_name := firstn (Z.to_nat i) t0; c_id := id; c_params := ps;
                         c_result := strip_semi (join_sp res); c_generic := g; c_isfun := isfun |}
             | _, _ => LBad
             end
  end.

(* whole schema: the section marker switches between types and functions *)
Fixpoint parse_lines (isfun : bool) (ls : list bytes) : list line :=
  match ls with
  | [] => []
  | l :: r =>
      let p := parse_line isfun l in
      match p with
      | LSection f => p :: parse_lines f r
      | _ => p :: parse_lines isfun r
      end
  end.

Definition defs (ls : list line) : list comb :=
  flat_map (fun l => match l with LDef c => [c] | _ => [] end) ls.

Definition count_bad (ls : list line) : nat := length (filter (fun l => match l with LBad => true | _ => false end) ls).

(* ---------- canonical form and id ---------- *)
Fixpoint replace_byte (a : N) (b : bytes) (s : bytes) : bytes :=
  match s with [] => [] | c :: r => (if c =? a then b else [c]) ++ replace_byte a b r end.

(* %Type names the bare constructor of Type: its canonical spelling is the constructor name *)
Fixpoint bare_names (s : bytes) : bytes :=
  match s with
  | 37 :: c :: r => (if (65 <=? c) && (c <=? 90) then c + 32 else c) :: bare_names r
  | c :: r => c :: bare_names r
  | [] => []
  end.

Definition is_true_flag (tok : bytes) : bool :=
  match parse_param tok with
  | Some {| p_ty := PCond _ TTTrue |} => true
  | _ => false
  end.

Definition canon_tok (tok : bytes) : bytes :=
  (* :bytes -> :string, ?bytes -> ?string (only as the whole type of a parameter) *)
  let i := index_byte 58 tok in
  let tok1 :=
    if (i <? 0)%Z then tok else
    let nm := firstn (S (Z.to_nat i)) tok in
    let ty := skipn (S (Z.to_nat i)) tok in
    if beq ty (lit "bytes") then nm ++ lit "string"
    else if has_suffix (lit "?bytes") ty then nm ++ firstn (length ty - 5) ty ++ lit "string"
    else tok in
  bare_names (replace_byte 125 [] (replace_byte 123 [] (replace_byte 62 [] (replace_byte 60 [sp] tok1)))).

Definition canonical (s : bytes) : bytes :=
  let toks := nonempty (split_on sp s) in
  match toks with
  | [] => []
  | t0 :: rest =>
      let i := index_byte 35 t0 in
      let name := if (i <? 0)%Z then t0 else firstn (Z.to_nat i) t0 in
      let rest' := filter (fun t => negb (is_true_flag t)) rest in
      join_sp (name :: map (fun t => canon_tok (strip_semi t)) rest')
  end.

Definition line_id_ok (s : bytes) : bool :=
  match parse_line false s with
  | LDef c => crc32 (canonical s) =? c_id c
  | _ => true
  end.
