(* C13: the declarative reading of the boolean schema / descriptor matcher of TL/Match.v.
   [desc_agrees] says: the Go fields are the schema's non-`#` parameters, in order, with the
   agreed type and conditional-flag bit, and FlagIndex() is the position of the flags word. *)
From Coq Require Import String.
From Coq Require Import ZArith NArith List Lia ZifyN ZifyNat ZifyBool Bool.
From MTV Require Import Base.Bytes Base.Outcome Base.Str TL.Types TL.Codec TL.Typing TL.TLText TL.Match.
Import ListNotations.
Open Scope N_scope.
Ltac Zify.zify_post_hook ::= Z.div_mod_to_equations.

Definition is_nat (p : param) : bool := match p_ty p with PNat => true | _ => false end.
Definition non_nat (p : param) : bool := negb (is_nat p).

(* one schema parameter against one Go field *)
Inductive field_rel (U : universe) (tbl : list (bytes * tkind)) : param -> field -> Prop :=
| FR_plain p fd t :
    p_ty p = PPlain t -> f_tag fd = TagNone -> ty_agrees U tbl t (f_ty fd) = true ->
    field_rel U tbl p fd
| FR_true p fd b :
    p_ty p = PCond b TTTrue -> f_tag fd = TagBit b -> f_ty fd = TBool ->
    field_rel U tbl p fd
| FR_cond p fd b t :
    p_ty p = PCond b t -> t <> TTTrue -> f_tag fd = TagFlag b -> ty_agrees U tbl t (f_ty fd) = true ->
    field_rel U tbl p fd.

(* where the flags word is: nowhere (and then FlagIndex() is not implemented), or at exactly
   one place, and FlagIndex() is the number of parameters before it *)
Definition flags_position (ps : list param) (want : option nat) : Prop :=
  (want = None /\ forallb non_nat ps = true) \/
  (exists pre pn post, ps = (pre ++ pn :: post)%list /\ is_nat pn = true /\
     forallb non_nat pre = true /\ forallb non_nat post = true /\ want = Some (length pre)).

(* ---------- the per-field test, as a boolean ---------- *)
Definition field_agrees (U : universe) (tbl : list (bytes * tkind)) (p : param) (fd : field) : bool :=
  match p_ty p with
  | PPlain t => match f_tag fd with TagNone => ty_agrees U tbl t (f_ty fd) | _ => false end
  | PCond b TTTrue => match f_tag fd, f_ty fd with TagBit b', TBool => b =? b' | _, _ => false end
  | PCond b t => match f_tag fd with TagFlag b' => (b =? b') && ty_agrees U tbl t (f_ty fd) | _ => false end
  | _ => false
  end.

Lemma field_rel_non_nat U tbl p fd : field_rel U tbl p fd -> is_nat p = false.
Proof. unfold is_nat. intros [? ? ? H|? ? ? H|? ? ? ? H]; now rewrite H. Qed.

Lemma field_agrees_iff U tbl p fd : field_agrees U tbl p fd = true <-> field_rel U tbl p fd.
Proof.
  unfold field_agrees. split.
  - destruct (p_ty p) as [|t|b t|] eqn:Ep; try discriminate.
    + destruct (f_tag fd) eqn:Et; try discriminate. intros H. eapply FR_plain; eauto.
    + assert (Hc : t = TTTrue \/ t <> TTTrue) by (destruct t; auto; right; discriminate).
      destruct Hc as [->|Hn].
      * destruct (f_tag fd) as [| |b'|] eqn:Et; try discriminate.
        destruct (f_ty fd) eqn:Ety; try discriminate.
        intros H. apply N.eqb_eq in H. subst b'. eapply FR_true; eauto.
      * intros H.
        assert (H' : match f_tag fd with TagFlag b' => (b =? b') && ty_agrees U tbl t (f_ty fd) | _ => false end = true)
          by (destruct t; auto; congruence).
        destruct (f_tag fd) as [|b'| |] eqn:Et; try discriminate.
        apply andb_prop in H' as [Hb Hty]. apply N.eqb_eq in Hb. subst b'. eapply FR_cond; eauto.
  - intros [p' fd' t Hp Ht Hty|p' fd' b Hp Ht Hty|p' fd' b t Hp Hn Ht Hty]; rewrite Hp, Ht.
    + exact Hty.
    + rewrite Hty. apply N.eqb_refl.
    + rewrite N.eqb_refl, Hty. destruct t; auto; congruence.
Qed.

(* one step of the matcher on a parameter that is not the flags word *)
Lemma desc_agrees_cons U tbl p ps fds idx flagpos want : is_nat p = false ->
  desc_agrees U tbl (p :: ps) fds idx flagpos want =
  match fds with
  | fd :: fds' => field_agrees U tbl p fd && desc_agrees U tbl ps fds' (Datatypes.S idx) flagpos want
  | [] => false
  end.
Proof.
  unfold is_nat, field_agrees. cbn [desc_agrees].
  destruct (p_ty p) as [|t|b t|]; try discriminate; intros _.
  - reflexivity.
  - destruct t; reflexivity.
  - destruct fds; reflexivity.
Qed.

Lemma desc_agrees_nat U tbl p ps fds idx flagpos want : is_nat p = true ->
  desc_agrees U tbl (p :: ps) fds idx flagpos want =
  match flagpos with
  | None => desc_agrees U tbl ps fds idx (Some idx) want
  | Some _ => false
  end.
Proof.
  unfold is_nat. cbn [desc_agrees]. destruct (p_ty p); try discriminate. reflexivity.
Qed.

(* ---------- the position of the flags word, with the matcher's accumulators ---------- *)
Definition flags_position_gen (ps : list param) (idx : nat) (flagpos want : option nat) : Prop :=
  match flagpos with
  | Some a => forallb non_nat ps = true /\ want = Some a
  | None =>
      (want = None /\ forallb non_nat ps = true) \/
      (exists pre pn post, ps = (pre ++ pn :: post)%list /\ is_nat pn = true /\
         forallb non_nat pre = true /\ forallb non_nat post = true /\ want = Some (idx + length pre)%nat)
  end.

Lemma fpg_cons_non_nat p ps idx flagpos want : is_nat p = false ->
  flags_position_gen (p :: ps) idx flagpos want <-> flags_position_gen ps (Datatypes.S idx) flagpos want.
Proof.
  intros Hp. unfold flags_position_gen. destruct flagpos as [a|].
  - cbn [forallb]. unfold non_nat at 1. rewrite Hp. cbn [negb andb]. reflexivity.
  - split.
    + intros [[Hw Hall]|(pre & pn & post & Heq & Hn & Hpre & Hpost & Hw)].
      * left. split; auto. cbn [forallb] in Hall. apply andb_prop in Hall as [_ Hall]. exact Hall.
      * right. destruct pre as [|x pre].
        -- cbn [app] in Heq. injection Heq as -> ->. congruence.
        -- cbn [app] in Heq. injection Heq as -> ->. exists pre, pn, post.
           cbn [forallb] in Hpre. apply andb_prop in Hpre as [_ Hpre].
           repeat split; auto. rewrite Hw. cbn [length]. f_equal. lia.
    + intros [[Hw Hall]|(pre & pn & post & Heq & Hn & Hpre & Hpost & Hw)].
      * left. split; auto. cbn [forallb]. unfold non_nat at 1. now rewrite Hp, Hall.
      * right. exists (p :: pre), pn, post. subst ps. repeat split; auto.
        -- cbn [forallb]. unfold non_nat at 1. now rewrite Hp, Hpre.
        -- rewrite Hw. cbn [length]. f_equal. lia.
Qed.

Lemma fpg_cons_nat p ps idx want : is_nat p = true ->
  flags_position_gen (p :: ps) idx None want <-> flags_position_gen ps idx (Some idx) want.
Proof.
  intros Hp. unfold flags_position_gen. split.
  - intros [[_ Hall]|(pre & pn & post & Heq & Hn & Hpre & Hpost & Hw)].
    + cbn [forallb] in Hall. unfold non_nat at 1 in Hall. rewrite Hp in Hall. discriminate.
    + destruct pre as [|x pre].
      * cbn [app] in Heq. injection Heq as -> ->. split; auto. rewrite Hw. cbn [length]. f_equal. lia.
      * cbn [app] in Heq. injection Heq as -> ->. cbn [forallb] in Hpre. unfold non_nat at 1 in Hpre.
        rewrite Hp in Hpre. discriminate.
  - intros [Hall Hw]. right. exists [], p, ps. cbn [app forallb length]. repeat split; auto.
    rewrite Hw. f_equal. lia.
Qed.

Lemma fpg_cons_nat_some p ps idx a want : is_nat p = true ->
  ~ flags_position_gen (p :: ps) idx (Some a) want.
Proof.
  intros Hp [Hall _]. cbn [forallb] in Hall. unfold non_nat at 1 in Hall. rewrite Hp in Hall. discriminate.
Qed.

Lemma desc_agrees_gen U tbl : forall ps fds idx flagpos want,
  desc_agrees U tbl ps fds idx flagpos want = true <->
  (Forall2 (field_rel U tbl) (filter non_nat ps) fds /\ flags_position_gen ps idx flagpos want).
Proof.
  induction ps as [|p ps IH]; intros fds idx flagpos want.
  - cbn [desc_agrees filter]. unfold flags_position_gen. cbn [forallb]. split.
    + destruct fds; [|discriminate]. intros H. split; [constructor|].
      destruct flagpos as [a|], want as [b|]; try discriminate.
      * apply Nat.eqb_eq in H. subst. auto.
      * auto.
    + intros [HF HP]. inversion HF; subst.
      destruct flagpos as [a|].
      * destruct HP as [_ ->]. apply Nat.eqb_refl.
      * destruct HP as [[-> _]|(pre & pn & post & Heq & _)]; [reflexivity|].
        destruct pre; discriminate.
  - destruct (is_nat p) eqn:Hp.
    + rewrite desc_agrees_nat by exact Hp. cbn [filter]. unfold non_nat at 1. rewrite Hp. cbn [negb].
      destruct flagpos as [a|].
      * split; [discriminate|]. intros [_ H]. exfalso. eapply fpg_cons_nat_some; eauto.
      * rewrite IH. rewrite fpg_cons_nat by exact Hp. reflexivity.
    + rewrite desc_agrees_cons by exact Hp. cbn [filter]. unfold non_nat at 1. rewrite Hp. cbn [negb].
      rewrite fpg_cons_non_nat by exact Hp. split.
      * destruct fds as [|fd fds]; [discriminate|]. intros H. apply andb_prop in H as [Hf H].
        apply IH in H as [HF HP]. split; auto. constructor; auto. now apply field_agrees_iff.
      * intros [HF HP]. inversion HF as [|? fd ? fds' Hf HF']; subst.
        apply field_agrees_iff in Hf. rewrite Hf. cbn [andb]. apply IH. auto.
Qed.

(* the fields are the schema's parameters in order, type, conditional-flag bit, and
   FlagIndex() is the position of the flags word *)
Theorem desc_agrees_iff : forall U tbl ps fds want,
  desc_agrees U tbl ps fds 0 None want = true <->
  (Forall2 (field_rel U tbl) (filter (fun p => negb (is_nat p)) ps) fds /\ flags_position ps want).
Proof.
  intros U tbl ps fds want. rewrite desc_agrees_gen. unfold flags_position_gen, flags_position.
  cbn [Nat.add]. reflexivity.
Qed.

(* a parameter of unknown form makes the matcher say no *)
Corollary desc_agrees_no_unknown U tbl ps fds want :
  desc_agrees U tbl ps fds 0 None want = true -> forall p, In p ps -> p_ty p <> PUnknown.
Proof.
  intros H p Hin Hu. apply desc_agrees_iff in H as [HF _].
  assert (Hin' : In p (filter (fun p => negb (is_nat p)) ps)).
  { apply filter_In. split; auto. unfold is_nat. now rewrite Hu. }
  clear Hin. induction HF as [|q fd l l' Hq _ IH]; [contradiction|].
  destruct Hin' as [->|Hin']; auto.
  destruct Hq as [? ? ? H|? ? ? H|? ? ? ? H]; congruence.
Qed.

(* one schema definition against the registry: what "matches" means *)
Theorem def_matches_struct : forall U tbl c,
  def_matches U tbl c = true ->
  (exists tid sd, lookup_reg U (c_id c) = Some (RStruct tid) /\ get_struct U tid = Some sd /\
     s_crc sd = Some (c_id c) /\
     desc_agrees U tbl (c_params c) (s_fields sd) 0 None (s_flagidx sd) = true) \/
  (exists e, lookup_reg U (c_id c) = Some (REnum e) /\ c_params c = [] /\ c_isfun c = false /\
     lookup_kind tbl (c_result c) = KEnum e).
Proof.
  intros U tbl c. unfold def_matches.
  destruct (lookup_reg U (c_id c)) as [[tid|e| |]|] eqn:El; try discriminate.
  - destruct (get_struct U tid) as [sd|] eqn:Hg; [|discriminate].
    unfold struct_matches. intros H. apply andb_prop in H as [Hk Hd].
    destruct (s_crc sd) as [k|] eqn:Hc; [|discriminate]. apply N.eqb_eq in Hk. subst k.
    left. exists tid, sd. auto.
  - destruct (c_params c) eqn:Ep; [|discriminate]. intros H. apply andb_prop in H as [Hf Hk].
    destruct (lookup_kind tbl (c_result c)) as [e'| | |] eqn:Ek; try discriminate.
    apply N.eqb_eq in Hk. subst e'. right. exists e. repeat split; auto.
    now destruct (c_isfun c).
Qed.

Lemma filter_nil_iff {A} (f : A -> bool) l : filter f l = [] <-> forall x, In x l -> f x = false.
Proof.
  induction l as [|a l IH]; cbn [filter].
  - split; [intros _ x []|reflexivity].
  - destruct (f a) eqn:E.
    + split; [discriminate|]. intros H. specialize (H a (or_introl eq_refl)). congruence.
    + rewrite IH. split.
      * intros H x [<-|Hin]; auto.
      * intros H x Hin. apply H. now right.
Qed.

(* the report is empty exactly when every definition that is not excluded matches *)
Theorem mismatches_nil_iff : forall U S excluded,
  mismatches U S excluded = [] <->
  forall c, In c S -> list_contains excluded (c_name c) = false -> def_matches U (kind_table U S) c = true.
Proof.
  intros U S excluded. unfold mismatches. rewrite filter_nil_iff. split.
  - intros H c Hin Hex. specialize (H c Hin). rewrite Hex in H. cbn [negb andb] in H.
    now destruct (def_matches U (kind_table U S) c).
  - intros H c Hin. destruct (list_contains excluded (c_name c)) eqn:Hex; [reflexivity|].
    rewrite (H c Hin Hex). reflexivity.
Qed.

Check desc_agrees_iff.
Check def_matches_struct.
Check mismatches_nil_iff.
Print Assumptions desc_agrees_iff.
Print Assumptions desc_agrees_no_unknown.
Print Assumptions def_matches_struct.
Print Assumptions mismatches_nil_iff.
