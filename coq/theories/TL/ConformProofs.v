(* Typing preservation between the codec model and the parsed schema: the schema-level reading
   [abs U v] of a well-typed codec value conforms (Conform.conforms) to the TL type its Go type
   stands for (Match.ty_agrees).

   The statement needs more than typing and [ty_agrees], because both are lax in three places:
     - [wt U (TEnum e) (VEnum c)] only says c < 2^32: any word is accepted in an enum field;
     - [ty_agrees] accepts ANY interface implemented by all constructors of a multi-constructor
       type, in particular tl.Object (interface 0), which every struct implements;
     - [kind_of] goes from the schema to the registry (id -> struct type), while [abs] goes from
       the struct type to ITS id (CRC()).
   Every extra hypothesis below is a boolean function that vm_compute evaluates on a concrete
   registry and schema (see the Examples at the end, which also show that none can be dropped). *)
From Coq Require Import String.
From Coq Require Import ZArith NArith List Lia ZifyN ZifyNat ZifyBool Bool.
From MTV Require Import Base.Bytes Base.Outcome Base.Str TL.Types TL.Codec TL.Typing TL.TLText
  TL.Match TL.Spec TL.Conform TL.RoundTrip TL.MatchProofs TL.SpecProofs.
Import ListNotations.
Open Scope N_scope.
Ltac Zify.zify_post_hook ::= Z.div_mod_to_equations.

(* ====================== the side conditions ====================== *)

(* (a) the ids of the schema are pairwise distinct: [find_comb S (c_id c)] is c for every c of S *)
Fixpoint distinct_l (l : list N) : bool :=
  match l with [] => true | x :: r => negb (mem x r) && distinct_l r end.
Definition ids_distinct (S : list comb) : bool := distinct_l (map c_id S).

(* (b) the registry is consistent with CRC(): an entry (crc, RStruct tid) names a struct type
   whose own id is crc *)
Definition reg_consistent (U : universe) : bool :=
  forallb (fun p => match snd p with
                    | RStruct tid =>
                        match get_struct U tid with
                        | Some sd => match s_crc sd with Some k => k =? fst p | None => true end
                        | None => true
                        end
                    | _ => true
                    end) (u_reg U).

(* (c) exactness of a Go type for a TL type: the Go type holds no value outside the TL type.
   Interface i for type n: every struct type implementing i that the schema defines is, by its own
   id, a constructor of n. *)
Definition ctor_of (S : list comb) (sd : sdesc) (n : bytes) : bool :=
  match s_crc sd with
  | Some k => match find_comb S k with
              | Some c => negb (c_isfun c) && beq (c_result c) n
              | None => true
              end
  | None => true
  end.
Definition iface_only (U : universe) (S : list comb) (i : N) (n : bytes) : bool :=
  forallb (fun sd => negb (mem i (s_impls sd)) || ctor_of S sd n) (u_structs U).

(* enum type e for type n: every registered id of e is a parameterless constructor of n *)
Definition enum_ctor (S : list comb) (crc : N) (n : bytes) : bool :=
  match find_comb S crc with
  | Some c => negb (c_isfun c) && beq (c_result c) n && match c_params c with [] => true | _ :: _ => false end
  | None => false
  end.
Definition enum_only (U : universe) (S : list comb) (e : N) (n : bytes) : bool :=
  forallb (fun p => match snd p with
                    | REnum e' => negb (e' =? e) || enum_ctor S (fst p) n
                    | _ => true
                    end) (u_reg U).

Fixpoint ty_exact (U : universe) (S : list comb) (tt : ttype) (t : fty) : bool :=
  match tt, t with
  | TTVector e, TVec g => ty_exact U S e g
  | TTNamed n, TEnum e => enum_only U S e n
  | TTNamed n, TIface i => iface_only U S i n
  | _, _ => true
  end.

(* ... for every (parameter, field) pair of every struct type that matches its schema definition *)
Definition param_ty (p : param) : option ttype :=
  match p_ty p with PPlain t | PCond _ t => Some t | _ => None end.
Definition pair_exact (U : universe) (S : list comb) (p : param) (fd : field) : bool :=
  match param_ty p with Some t => ty_exact U S t (f_ty fd) | None => true end.
Definition fields_exact (U : universe) (S : list comb) : bool :=
  let tbl := kind_table U S in
  forallb (fun sd => match s_crc sd with
                     | Some k =>
                         match find_comb S k with
                         | Some c => negb (struct_matches U tbl c sd)
                                     || all2 (pair_exact U S) (filter non_nat (c_params c)) (s_fields sd)
                         | None => true
                         end
                     | None => true
                     end) (u_structs U).

(* (d) on the value: an enum constant in a PRESENT position of Go type e is a registered id of e
   (what the decoder of an interface-typed field checks; a typed enum field takes any word) *)
Section Enums.
  Variable U : universe.
  Fixpoint enums_members (t : fty) (v : gval) {struct v} : bool :=
    match v with
    | VEnum c => match t with
                 | TEnum e => match lookup_reg U c with Some (REnum e') => e' =? e | _ => false end
                 | _ => true
                 end
    | VVec _ l => match t with TVec e => forallb (enums_members e) l | _ => true end
    | VObj tid fs =>
        match get_struct U tid with
        | Some sd =>
            all2 (fun fd x => if selected (flags_of (s_fields sd) fs) fd then enums_members (f_ty fd) x else true)
                 (s_fields sd) fs
        | None => true
        end
    | _ => true
    end.
End Enums.

(* ====================== monotonicity of conforms in the fuel ====================== *)
Lemma conf_args_mono (c1 c2 : ttype -> sval -> bool) :
  (forall t x, c1 t x = true -> c2 t x = true) ->
  forall ps args, conf_args c1 ps args = true -> conf_args c2 ps args = true.
Proof.
  intros H. induction ps as [|p ps IH]; intros args; cbn [conf_args]; auto.
  destruct (p_ty p) as [|t|b t|]; auto.
  - destruct args as [|[x|] args]; try discriminate. intros E. apply andb_prop in E as [E1 E2].
    rewrite (H _ _ E1), (IH _ E2). reflexivity.
  - assert (Hgen : match args with
                   | Some x :: args' => c1 t x && conf_args c1 ps args'
                   | None :: args' => conf_args c1 ps args'
                   | [] => false end = true ->
                   match args with
                   | Some x :: args' => c2 t x && conf_args c2 ps args'
                   | None :: args' => conf_args c2 ps args'
                   | [] => false end = true).
    { destruct args as [|[x|] args]; try discriminate; auto.
      intros E. apply andb_prop in E as [E1 E2]. rewrite (H _ _ E1), (IH _ E2). reflexivity. }
    destruct t; try exact Hgen.
    destruct args as [|[x|] args]; try discriminate; auto.
    destruct x; try discriminate. destruct b0; try discriminate. auto.
Qed.

Lemma forallb_mono {A} (f g : A -> bool) l :
  (forall x, f x = true -> g x = true) -> forallb f l = true -> forallb g l = true.
Proof.
  intros H. induction l as [|a l IH]; cbn [forallb]; auto.
  intros E. apply andb_prop in E as [E1 E2]. rewrite (H _ E1), (IH E2). reflexivity.
Qed.

Lemma conforms_named S f n id args :
  conforms S (Datatypes.S f) (TTNamed n) (SCtor id args) =
  match find_comb S id with
  | Some c => negb (c_isfun c) && beq (c_result c) n && conf_args (conforms S f) (c_params c) args
  | None => false
  end.
Proof. reflexivity. Qed.

Lemma conforms_enum S f n id :
  conforms S (Datatypes.S f) (TTNamed n) (SEnum id) =
  match find_comb S id with
  | Some c => negb (c_isfun c) && beq (c_result c) n && conf_args (conforms S f) (c_params c) []
  | None => false
  end.
Proof. reflexivity. Qed.

Definition any_obj (S : list comb) (f : nat) (id : N) (args : list (option sval)) : bool :=
  match find_comb S id with
  | Some c => negb (c_isfun c) && true && conf_args (conforms S f) (c_params c) args
  | None => false
  end
  || match find_comb S id with
     | Some c => c_isfun c && conf_args (conforms S f) (c_params c) args
     | None => false
     end.

Lemma conforms_var S f id args : conforms S (Datatypes.S f) TTVar (SCtor id args) = any_obj S f id args.
Proof. reflexivity. Qed.
Lemma conforms_object S f id args : conforms S (Datatypes.S f) TTObject (SCtor id args) = any_obj S f id args.
Proof. reflexivity. Qed.
Lemma conforms_vec S f e l : conforms S (Datatypes.S f) (TTVector e) (SVec l) = forallb (conforms S f e) l.
Proof. reflexivity. Qed.

Lemma conforms_mono S : forall f t v, conforms S f t v = true -> conforms S (Datatypes.S f) t v = true.
Proof.
  induction f as [|f IH]; intros t v H; [discriminate|].
  assert (Hargs : forall ps args, conf_args (conforms S f) ps args = true ->
                                  conf_args (conforms S (Datatypes.S f)) ps args = true)
    by (apply conf_args_mono; exact IH).
  destruct t, v; try exact H; try discriminate H.
  - (* vector *)
    rewrite conforms_vec in H |- *. revert H. apply forallb_mono. exact (IH t).
  - (* !X *)
    rewrite conforms_var in H |- *. unfold any_obj in *.
    destruct (find_comb S id) as [c|]; [|discriminate].
    apply orb_prop in H as [H0|H0]; apply andb_prop in H0 as [H1 H2]; rewrite H1, (Hargs _ _ H2);
      [reflexivity|apply orb_true_r].
  - (* Object *)
    rewrite conforms_object in H |- *. unfold any_obj in *.
    destruct (find_comb S id) as [c|]; [|discriminate].
    apply orb_prop in H as [H0|H0]; apply andb_prop in H0 as [H1 H2]; rewrite H1, (Hargs _ _ H2);
      [reflexivity|apply orb_true_r].
  - (* named, constructor *)
    rewrite conforms_named in H |- *. destruct (find_comb S id) as [c|]; [|discriminate].
    apply andb_prop in H as [H1 H2]. rewrite H1, (Hargs _ _ H2). reflexivity.
  - (* named, enum *)
    rewrite conforms_enum in H |- *. destruct (find_comb S id) as [c|]; [|discriminate].
    apply andb_prop in H as [H1 H2]. rewrite H1, (Hargs _ _ H2). reflexivity.
Qed.

Theorem conforms_mono_le S f f' t v : (f <= f')%nat -> conforms S f t v = true -> conforms S f' t v = true.
Proof. induction 1 as [|m Hle IH]; auto. intros Hc. apply conforms_mono. auto. Qed.

(* ====================== small facts ====================== *)
Lemma assoc_in {A} k (l : list (N * A)) a : assoc k l = Some a -> In (k, a) l.
Proof.
  induction l as [|[k' a'] l IH]; cbn [assoc]; [discriminate|].
  destruct (N.eqb_spec k k') as [->|Hn].
  - intros H. apply some_inj in H. subst. now left.
  - intros H. right. auto.
Qed.

Lemma mem_in x l : mem x l = true <-> In x l.
Proof.
  unfold mem. rewrite existsb_exists. split.
  - intros [y [Hy He]]. apply N.eqb_eq in He. now subst.
  - intros H. exists x. split; auto. apply N.eqb_refl.
Qed.

Lemma find_comb_in S k c : find_comb S k = Some c -> In c S /\ c_id c = k.
Proof. unfold find_comb. intros H. apply find_some in H as [H1 H2]. apply N.eqb_eq in H2. auto. Qed.

Lemma find_comb_distinct S c : ids_distinct S = true -> In c S -> find_comb S (c_id c) = Some c.
Proof.
  unfold ids_distinct, find_comb. induction S as [|a S IH]; intros Hd Hin; [contradiction|].
  cbn [map distinct_l] in Hd. apply andb_prop in Hd as [Hn Hd]. cbn [find].
  destruct Hin as [->|Hin]; [now rewrite N.eqb_refl|].
  destruct (N.eqb_spec (c_id a) (c_id c)) as [He|Hne]; [|auto].
  exfalso. apply negb_true_iff in Hn.
  assert (Hm : mem (c_id a) (map c_id S) = true); [|congruence].
  apply mem_in. rewrite He. now apply in_map.
Qed.

Lemma lookup_kind_table (f : bytes -> tkind) l n k :
  lookup_kind (map (fun x => (x, f x)) l) n = k -> k = KBroken \/ k = f n.
Proof.
  induction l as [|x l IH]; cbn [map lookup_kind].
  - intros <-. now left.
  - destruct (beq_spec x n) as [->|Hn]; [intros <-; now right|auto].
Qed.

(* a single-constructor type: its only constructor, and the struct the registry gives for it *)
Lemma kind_single_inv U S n tid : kind_of U S n = KSingle tid ->
  exists c1, In c1 S /\ c_isfun c1 = false /\ c_result c1 = n /\ lookup_reg U (c_id c1) = Some (RStruct tid).
Proof.
  unfold kind_of. destruct (ctors_of S n) as [|c1 cs] eqn:E; [discriminate|].
  match goal with |- (if ?b then _ else _) = _ -> _ => destruct b end.
  - destruct (enum_of U c1); [|discriminate].
    match goal with |- (if ?b then _ else _) = _ -> _ => destruct b end; discriminate.
  - destruct cs as [|c2 cs].
    + unfold struct_of. destruct (lookup_reg U (c_id c1)) as [[t| | |]|] eqn:El; try discriminate.
      intros H. injection H as <-.
      assert (Hin : In c1 (ctors_of S n)) by (rewrite E; now left).
      unfold ctors_of in Hin. apply filter_In in Hin as [Hin Hc]. apply andb_prop in Hc as [Hf Hr].
      exists c1. repeat split; auto.
      * now destruct (c_isfun c1).
      * now apply beq_eq.
    + destruct (all_some (map (struct_of U) (c1 :: c2 :: cs))); discriminate.
Qed.

Lemma Forall2_imp {A B} (R1 R2 : A -> B -> Prop) l1 l2 :
  (forall a b, R1 a b -> R2 a b) -> Forall2 R1 l1 l2 -> Forall2 R2 l1 l2.
Proof. intros H. induction 1; constructor; auto. Qed.

Lemma all2_and_Forall2 {A B} (R : A -> B -> Prop) (f : A -> B -> bool) l1 l2 :
  Forall2 R l1 l2 -> all2 f l1 l2 = true -> Forall2 (fun a b => R a b /\ f a b = true) l1 l2.
Proof.
  induction 1 as [|a b l1 l2 Hab _ IH]; [constructor|].
  cbn [all2]. intros H. apply andb_prop in H as [H1 H2]. constructor; auto.
Qed.

Lemma fold_max_le {A} (g : A -> nat) l m :
  (fold_right Nat.max 0 (map g l) <= m)%nat -> Forall (fun a => (g a <= m)%nat) l.
Proof.
  induction l as [|a l IH]; cbn [map fold_right]; intros H; constructor; [lia|apply IH; lia].
Qed.

(* ---------- what a successful encoding says about the parts ---------- *)
Lemma concat_out_each U l : forall body, concat_out (map (enc U) l) = Ok body ->
  Forall (fun v => exists b, enc U v = Ok b) l.
Proof.
  induction l as [|v l IH]; intros body H; constructor; cbn [map concat_out] in H;
    apply obind_ok in H as [a [Ha H]]; apply obind_ok in H as [b [Hb _]]; eauto.
Qed.

Lemma seg_spec_sel fl (f : gval -> option bytes) : forall fds vs b,
  seg_spec fl fds (map f vs) = Some b ->
  Forall2 (fun fd v => selected fl fd = true -> exists e, f v = Some e) fds vs.
Proof.
  induction fds as [|fd fds IH]; intros vs b; destruct vs as [|v vs]; cbn [map seg_spec]; try discriminate.
  - constructor.
  - destruct (selected fl fd) eqn:Es; cbv iota.
    + destruct (f v) as [e|] eqn:Ef; [|discriminate].
      destruct (seg_spec fl fds (map f vs)) eqn:E; [|discriminate].
      intros _. constructor; eauto.
    + destruct (seg_spec fl fds (map f vs)) eqn:E; [|discriminate].
      intros _. constructor; [intros Hs; congruence|eauto].
Qed.

Lemma lay_sel fl (f : gval -> option bytes) : forall fds vs k b,
  lay fl k fds (map f vs) = Some b ->
  Forall2 (fun fd v => selected fl fd = true -> exists e, f v = Some e) fds vs.
Proof.
  induction fds as [|fd fds IH]; intros vs k b H.
  - destruct k as [[|k]|]; destruct vs; cbn [map lay seg_spec] in H; try discriminate; constructor.
  - assert (Hstep : forall k', match vs with
                               | [] => None
                               | v :: vs' =>
                                   match (if selected fl fd then f v else Some []) with
                                   | Some b0 => match lay fl k' fds (map f vs') with Some c => Some (b0 ++ c)%list | None => None end
                                   | None => None
                                   end
                               end = Some b ->
                               Forall2 (fun fd v => selected fl fd = true -> exists e, f v = Some e) (fd :: fds) vs).
    { intros k'. destruct vs as [|v vs]; [discriminate|].
      destruct (selected fl fd) eqn:Es; cbv iota.
      - destruct (f v) as [e|] eqn:Ef; [|discriminate].
        destruct (lay fl k' fds (map f vs)) eqn:E; [|discriminate].
        intros _. constructor; eauto.
      - destruct (lay fl k' fds (map f vs)) eqn:E; [|discriminate].
        intros _. constructor; [intros Hs; congruence|eauto]. }
    destruct k as [[|k]|].
    + cbn [lay] in H. destruct (seg_spec fl (fd :: fds) (map f vs)) eqn:E; [|discriminate].
      eapply seg_spec_sel; eauto.
    + apply (Hstep (option_map Nat.pred (Some (Datatypes.S k)))). destruct vs; exact H.
    + apply (Hstep (option_map Nat.pred None)). destruct vs; exact H.
Qed.

(* the selected fields of an encodable object are encodable *)
Lemma enc_obj_fields U tid fs sd k bs :
  get_struct U tid = Some sd -> s_crc sd = Some k -> wf_struct sd = true ->
  enc U (VObj tid fs) = Ok bs ->
  Forall2 (fun fd v => selected (flags_of (s_fields sd) fs) fd = true -> exists e, enc U v = Ok e)
          (s_fields sd) fs.
Proof.
  intros Hg Hc Hwf He. cbn [enc] in He. rewrite Hg, Hc, (wf_no_bad_field sd Hwf) in He.
  apply obind_ok in He as [body [Hasm _]]. apply o2o_some in Hasm.
  rewrite (assemble_lay sd _ _ Hwf), map_map in Hasm.
  apply lay_sel in Hasm. eapply Forall2_imp; [|exact Hasm]. cbv beta.
  intros fd v H Hs. destruct (H Hs) as [e He']. apply o2o_some in He'. eauto.
Qed.

(* ====================== the theorem ====================== *)
Section Main.
Variable U : universe.
Variable S : list comb.
Hypothesis Hids : ids_distinct S = true.
Hypothesis Hreg : reg_consistent U = true.
Hypothesis Hfx : fields_exact U S = true.

Notation tbl := (kind_table U S).
Notation ais := (all_in_schema U S tbl).

Definition CP (v : gval) : Prop := forall t tt fuel,
  ais v = true -> wt U t v = true -> ty_agrees U tbl tt t = true -> ty_exact U S tt t = true ->
  enums_members U t v = true -> (exists bs, enc U v = Ok bs) ->
  (sdepth (abs U v) <= fuel)%nat ->
  conforms S fuel tt (abs U v) = true.

(* what the induction gives for one field, once it is known to be present *)
Definition FQ (fl : N) (f : nat) (fd : field) (v : gval) : Prop :=
  selected fl fd = true ->
  forall tt, ty_agrees U tbl tt (f_ty fd) = true -> ty_exact U S tt (f_ty fd) = true ->
  (sdepth (abs U v) <= f)%nat -> conforms S f tt (abs U v) = true.

Lemma fields_FQ fl f : forall fds vs,
  Forall CP vs -> forallb ais vs = true ->
  all2 (wt_field (wt U)) fds vs = true ->
  all2 (fun fd x => if selected fl fd then enums_members U (f_ty fd) x else true) fds vs = true ->
  Forall2 (fun fd v => selected fl fd = true -> exists e, enc U v = Ok e) fds vs ->
  Forall2 (FQ fl f) fds vs.
Proof.
  induction fds as [|fd fds IH]; intros vs HP Ha Hw He Hs.
  - apply all2_nil_l in Hw. subst. constructor.
  - apply all2_cons_l in Hw as (v & vs' & -> & Hwv & Hw).
    inversion HP as [|v0 l0 Hv HP']; subst v0 l0.
    cbn [forallb] in Ha. apply andb_prop in Ha as [Hav Ha].
    cbn [all2] in He. apply andb_prop in He as [Hev He].
    inversion Hs as [|fd0 v0 l1 l2 Hsv Hs']; subst fd0 v0 l1 l2.
    constructor; [|auto].
    intros Hsel tt Hty Hex Hd. rewrite Hsel in Hev.
    apply (Hv (f_ty fd) tt f); auto.
    unfold selected in Hsel. unfold wt_field in Hwv. destruct (f_tag fd); try discriminate; auto.
Qed.

Lemma conf_args_fields fl f : forall ps fds vs,
  Forall2 (fun p fd => field_rel U tbl p fd /\ pair_exact U S p fd = true) (filter non_nat ps) fds ->
  Forall2 (FQ fl f) fds vs ->
  Forall (fun a => (match a with Some x => sdepth x | None => 0 end <= f)%nat) (abs_fields U fl fds vs) ->
  conf_args (conforms S f) ps (abs_fields U fl fds vs) = true.
Proof.
  induction ps as [|p ps IH]; intros fds vs HF HQ HD.
  - cbn [filter] in HF. inversion HF; subst. inversion HQ; subst. reflexivity.
  - destruct (is_nat p) eqn:Hp.
    + cbn [filter] in HF. unfold non_nat at 1 in HF. rewrite Hp in HF. cbn [negb] in HF.
      cbn [conf_args]. unfold is_nat in Hp. destruct (p_ty p); try discriminate. auto.
    + cbn [filter] in HF. unfold non_nat at 1 in HF. rewrite Hp in HF. cbn [negb] in HF.
      inversion HF as [|p0 fd l1 fds' Hpf HF']; subst p0 l1 fds. destruct Hpf as [Hrel Hpe].
      inversion HQ as [|fd0 v l1 vs' Hq HQ']; subst fd0 l1 vs.
      cbn [abs_fields] in HD |- *. inversion HD as [|a0 l0 Hd0 HD']; subst a0 l0.
      specialize (IH fds' vs' HF' HQ' HD').
      unfold pair_exact, param_ty in Hpe. unfold FQ, selected in Hq. unfold abs_field in Hd0 |- *.
      destruct Hrel as [p' fd' t Hpt Htag Hty|p' fd' b Hpt Htag Hfty|p' fd' b t Hpt Hn Htag Hty];
        cbn [conf_args]; rewrite Hpt in Hpe |- *; rewrite Htag in Hq, Hd0 |- *.
      * rewrite IH, andb_true_r. apply Hq; auto.
      * destruct (N.testbit fl b); exact IH.
      * destruct (N.testbit fl b) eqn:Eb.
        -- destruct t; try congruence; rewrite IH, andb_true_r; apply Hq; auto.
        -- destruct t; try congruence; exact IH.
Qed.

(* the arguments of an object conform to the parameters of its schema definition *)
Lemma obj_args tid fs sd k c f bs :
  Forall CP fs ->
  get_struct U tid = Some sd -> wf_struct sd = true -> s_crc sd = Some k -> find_comb S k = Some c ->
  desc_agrees U tbl (c_params c) (s_fields sd) 0 None (s_flagidx sd) = true ->
  forallb ais fs = true ->
  all2 (wt_field (wt U)) (s_fields sd) fs = true ->
  enums_members U (TPtr tid) (VObj tid fs) = true ->
  enc U (VObj tid fs) = Ok bs ->
  (sdepth (abs U (VObj tid fs)) <= Datatypes.S f)%nat ->
  conf_args (conforms S f) (c_params c) (abs_fields U (flags_of (s_fields sd) fs) (s_fields sd) fs) = true.
Proof.
  intros HP Hg Hwf Hcrc Hfind Hdesc Hall Hwt Hen Henc Hd.
  rewrite (abs_obj U tid fs sd k Hg Hcrc) in Hd. cbn [sdepth] in Hd. apply le_S_n in Hd.
  apply fold_max_le in Hd.
  cbn [enums_members] in Hen. rewrite Hg in Hen.
  pose proof (enc_obj_fields U tid fs sd k bs Hg Hcrc Hwf Henc) as Hsel.
  apply conf_args_fields; auto.
  - apply desc_agrees_gen in Hdesc as [HF HPp].
    apply all2_and_Forall2; auto.
    unfold fields_exact in Hfx. cbv zeta in Hfx. rewrite forallb_forall in Hfx.
    assert (Hin : In sd (u_structs U)) by (eapply nth_error_In; exact Hg).
    specialize (Hfx sd Hin). cbv beta in Hfx. rewrite Hcrc, Hfind in Hfx.
    assert (Hm : struct_matches U tbl c sd = true).
    { unfold struct_matches. rewrite Hcrc. apply find_comb_in in Hfind as [_ ->].
      rewrite N.eqb_refl. apply desc_agrees_gen. split; auto. }
    rewrite Hm in Hfx. exact Hfx.
  - apply fields_FQ; auto.
Qed.

Ltac kill_ty H :=
  cbn [ty_agrees] in H; try discriminate H;
  try (match type of H with context [lookup_kind ?a ?b] => destruct (lookup_kind a b) end; discriminate H).

Lemma abs_conforms_all : forall v, CP v.
Proof.
  induction v using gval_ind'; intros t tt fuel Ha Hw Hty Hex Hen [bs Henc] Hd;
    try discriminate Ha; try discriminate Henc;
    (destruct fuel as [|f]; [cbn [abs sdepth] in Hd; try lia|]).
  - (* VInt *) destruct t; try discriminate Hw; destruct tt; kill_ty Hty. exact Hw.
  - (* VLong *) destruct t; try discriminate Hw; destruct tt; kill_ty Hty. exact Hw.
  - (* VDouble *) destruct t; try discriminate Hw; destruct tt; kill_ty Hty. exact Hw.
  - (* VBool *) destruct t; try discriminate Hw; destruct tt; kill_ty Hty. reflexivity.
  - (* VStr *) destruct t; try discriminate Hw; destruct tt; kill_ty Hty. reflexivity.
  - (* VBytes *) destruct t; try discriminate Hw; destruct tt; kill_ty Hty. reflexivity.
  - (* VEnum *)
    destruct t; try discriminate Hw. destruct tt; kill_ty Hty.
    cbn [ty_exact] in Hex. cbn [enums_members] in Hen.
    destruct (lookup_reg U c) as [[|e'| |]|] eqn:El; try discriminate Hen.
    apply N.eqb_eq in Hen. subst e'. apply assoc_in in El.
    unfold enum_only in Hex. rewrite forallb_forall in Hex. specialize (Hex _ El).
    cbn [fst snd] in Hex. rewrite N.eqb_refl in Hex. cbn [negb orb] in Hex.
    unfold enum_ctor in Hex. cbn [abs]. rewrite conforms_enum.
    destruct (find_comb S c) as [c0|]; [|discriminate Hex].
    apply andb_prop in Hex as [Hex Hps]. rewrite Hex.
    destruct (c_params c0); [reflexivity|discriminate Hps].
  - (* VObj *)
    cbn [abs] in Hd. destruct (get_struct U tid) as [sd|]; [|cbn [sdepth] in Hd; lia].
    destruct (s_crc sd); cbn [sdepth] in Hd; lia.
  - (* VObj *)
    cbn [all_in_schema] in Ha. apply andb_prop in Ha as [Hsch Hall].
    destruct (struct_in_schema_inv _ _ _ _ Hsch) as (sd & k & c & Hg & Hwf & Hcrc & Hfind & Hdesc).
    assert (Hwt : all2 (wt_field (wt U)) (s_fields sd) fs = true).
    { destruct t; try discriminate Hw; cbn [wt] in Hw.
      - rewrite Hg in Hw. now apply andb_prop in Hw as [_ Hw].
      - apply andb_prop in Hw as [_ Hw]. rewrite Hg in Hw. now apply andb_prop in Hw as [_ Hw]. }
    assert (Hen' : enums_members U (TPtr tid) (VObj tid fs) = true) by exact Hen.
    pose proof (obj_args tid fs sd k c f bs H Hg Hwf Hcrc Hfind Hdesc Hall Hwt Hen' Henc Hd) as Hargs.
    rewrite (abs_obj U tid fs sd k Hg Hcrc).
    destruct t; try discriminate Hw.
    + (* interface *)
      cbn [wt] in Hw. rewrite Hg in Hw.
      apply andb_prop in Hw as [Hw _]. apply andb_prop in Hw as [Hw _]. apply andb_prop in Hw as [_ Himp].
      destruct tt; kill_ty Hty.
      * rewrite conforms_var. unfold any_obj. rewrite Hfind, Hargs. destruct (c_isfun c); reflexivity.
      * rewrite conforms_object. unfold any_obj. rewrite Hfind, Hargs. destruct (c_isfun c); reflexivity.
      * cbn [ty_exact] in Hex. unfold iface_only in Hex. rewrite forallb_forall in Hex.
        assert (Hin : In sd (u_structs U)) by (eapply nth_error_In; exact Hg).
        specialize (Hex sd Hin). cbv beta in Hex. rewrite Himp in Hex. cbn [negb orb] in Hex.
        unfold ctor_of in Hex. rewrite Hcrc, Hfind in Hex.
        rewrite conforms_named, Hfind, Hex, Hargs. reflexivity.
    + (* pointer *)
      cbn [wt] in Hw. apply andb_prop in Hw as [Ht _]. apply N.eqb_eq in Ht. subst tid0.
      destruct tt; kill_ty Hty.
      cbn [ty_agrees] in Hty. destruct (lookup_kind tbl name) eqn:Ek; try discriminate Hty.
      apply N.eqb_eq in Hty. subst tid0.
      apply lookup_kind_table in Ek as [Ek|Ek]; [discriminate Ek|]. symmetry in Ek.
      apply kind_single_inv in Ek as (c1 & Hin1 & Hf1 & Hr1 & Hl1).
      apply assoc_in in Hl1. unfold reg_consistent in Hreg. rewrite forallb_forall in Hreg.
      specialize (Hreg _ Hl1). cbn [fst snd] in Hreg. rewrite Hg, Hcrc in Hreg. apply N.eqb_eq in Hreg.
      pose proof (find_comb_distinct S c1 Hids Hin1) as Hf. rewrite <- Hreg, Hfind in Hf.
      apply some_inj in Hf. subst c1.
      rewrite conforms_named, Hfind, Hf1, Hr1, beq_refl, Hargs. reflexivity.
  - (* VVec *)
    cbn [all_in_schema] in Ha.
    destruct t; try discriminate Hw. cbn [wt] in Hw. apply andb_prop in Hw as [_ Hw].
    destruct tt; kill_ty Hty. cbn [ty_agrees] in Hty. cbn [ty_exact] in Hex. cbn [enums_members] in Hen.
    cbn [enc] in Henc. apply obind_ok in Henc as [body [Hc _]]. apply concat_out_each in Hc.
    change (abs U (VVec isnil l)) with (SVec (map (abs U) l)) in Hd |- *.
    cbn [sdepth] in Hd. apply le_S_n in Hd. apply fold_max_le in Hd.
    rewrite conforms_vec. rewrite forallb_forall. intros x Hx. apply in_map_iff in Hx as [v [<- Hin]].
    rewrite Forall_forall in H, Hc, Hd. rewrite forallb_forall in Ha, Hw, Hen.
    apply (H v Hin t tt f); auto. apply Hd. now apply in_map.
  - (* VBig *)
    destruct t; try discriminate Hw; destruct tt; kill_ty Hty;
      destruct w; try discriminate Hw; destruct hi; try discriminate Hw; exact Hw.
Qed.

End Main.

(* abs of a well-typed, encodable codec value is a value the schema accepts at the TL type its Go
   type stands for.  [enc = Ok] is used only to exclude nil pointers / interfaces / big ints in
   present positions (wt tolerates them, the encoder refuses them). *)
Theorem abs_conforms : forall U S,
  ids_distinct S = true -> reg_consistent U = true -> fields_exact U S = true ->
  forall v t tt bs, let tbl := kind_table U S in
  all_in_schema U S tbl v = true -> wt U t v = true -> ty_agrees U tbl tt t = true ->
  ty_exact U S tt t = true -> enums_members U t v = true ->
  enc U v = Ok bs ->
  conforms S (sdepth (abs U v)) tt (abs U v) = true.
Proof.
  intros U S Hids Hreg Hfx v t tt bs tbl Ha Hw Hty Hex Hen Henc.
  apply (abs_conforms_all U S Hids Hreg Hfx v t tt); eauto.
Qed.

(* any larger fuel will do *)
Corollary abs_conforms_fuel : forall U S,
  ids_distinct S = true -> reg_consistent U = true -> fields_exact U S = true ->
  forall v t tt bs fuel, let tbl := kind_table U S in
  all_in_schema U S tbl v = true -> wt U t v = true -> ty_agrees U tbl tt t = true ->
  ty_exact U S tt t = true -> enums_members U t v = true ->
  enc U v = Ok bs -> (sdepth (abs U v) <= fuel)%nat ->
  conforms S fuel tt (abs U v) = true.
Proof.
  intros U S Hids Hreg Hfx v t tt bs fuel tbl Ha Hw Hty Hex Hen Henc Hle.
  eapply conforms_mono_le; [exact Hle|]. eapply abs_conforms; eauto.
Qed.

(* a request: the arguments of a call conform to the parameters of the combinator of the struct's
   own id.  Nothing in [conforms_call] asks the combinator to be a function, so the statement holds
   for every struct type of the schema; for a request type it is the statement about the call. *)
Theorem abs_conforms_call : forall U S,
  ids_distinct S = true -> reg_consistent U = true -> fields_exact U S = true ->
  forall tid fs bs, let tbl := kind_table U S in
  all_in_schema U S tbl (VObj tid fs) = true -> wt U (TPtr tid) (VObj tid fs) = true ->
  enums_members U (TPtr tid) (VObj tid fs) = true ->
  enc U (VObj tid fs) = Ok bs ->
  conforms_call S (sdepth (abs U (VObj tid fs))) (abs U (VObj tid fs)) = true.
Proof.
  intros U S Hids Hreg Hfx tid fs bs tbl Ha Hw Hen Henc.
  cbn [all_in_schema] in Ha. apply andb_prop in Ha as [Hsch Hall].
  destruct (struct_in_schema_inv _ _ _ _ Hsch) as (sd & k & c & Hg & Hwf & Hcrc & Hfind & Hdesc).
  assert (Hwt : all2 (wt_field (wt U)) (s_fields sd) fs = true).
  { cbn [wt] in Hw. apply andb_prop in Hw as [_ Hw]. rewrite Hg in Hw. now apply andb_prop in Hw as [_ Hw]. }
  assert (HP : Forall (CP U S) fs).
  { apply Forall_forall. intros v _. apply abs_conforms_all; auto. }
  assert (Hd : (sdepth (abs U (VObj tid fs)) <= Datatypes.S (sdepth (abs U (VObj tid fs))))%nat) by lia.
  pose proof (obj_args U S Hfx tid fs sd k c _ bs HP Hg Hwf Hcrc Hfind Hdesc Hall Hwt Hen Henc Hd) as Hargs.
  rewrite (abs_obj U tid fs sd k Hg Hcrc) in Hargs |- *.
  unfold conforms_call. rewrite Hfind.
  exact Hargs.
Qed.

(* ====================== a worked instance ====================== *)
(* an enum type (Color), a single-constructor type (Point), a two-constructor type (Shape, Go
   interface 5) with a conditional group and a `true` flag, vectors of both, and a generic function *)
Definition cx_S : list comb := defs [
  parse_line false (lit "red#00000011 = Color;");
  parse_line false (lit "green#00000012 = Color;");
  parse_line false (lit "pt#00000021 x:int y:int = Point;");
  parse_line false (lit "circle#00000031 c:Point r:int = Shape;");
  parse_line false (lit "poly#00000032 flags:# pts:Vector<Point> col:flags.0?Color name:flags.0?string closed:flags.1?true = Shape;");
  parse_line false (lit "scene#00000041 shapes:Vector<Shape> bg:Color = Scene;");
  parse_line true  (lit "draw#00000051 {X:Type} s:Scene extra:!X = X;") ].

Definition fdn (t : fty) : field := {| f_ty := t; f_tag := TagNone |}.
Definition cx_structs (shapes : fty) : list sdesc :=
  [ {| s_crc := Some 33; s_flagidx := None; s_fields := [fdn TI32; fdn TI32]; s_impls := [0] |};
    {| s_crc := Some 49; s_flagidx := None; s_fields := [fdn (TPtr 0); fdn TI32]; s_impls := [0; 5] |};
    {| s_crc := Some 50; s_flagidx := Some 0%nat;
       s_fields := [ fdn (TVec (TPtr 0));
                     {| f_ty := TEnum 0; f_tag := TagFlag 0 |};
                     {| f_ty := TStr; f_tag := TagFlag 0 |};
                     {| f_ty := TBool; f_tag := TagBit 1 |} ];
       s_impls := [0; 5] |};
    {| s_crc := Some 65; s_flagidx := None; s_fields := [fdn (TVec shapes); fdn (TEnum 0)]; s_impls := [0] |};
    {| s_crc := Some 81; s_flagidx := None; s_fields := [fdn (TPtr 3); fdn (TIface 0)]; s_impls := [0] |} ].
Definition cx_Uof (shapes : fty) : universe :=
  {| u_structs := cx_structs shapes;
     u_enum_impls := [[0]];
     u_reg := [(17, REnum 0); (18, REnum 0); (33, RStruct 0); (49, RStruct 1); (50, RStruct 2);
               (65, RStruct 3); (81, RStruct 4)];
     u_true := 7; u_false := 8; u_null := 9 |}.
Definition cx_U : universe := cx_Uof (TIface 5).
Definition cx_tbl := kind_table cx_U cx_S.

Definition pt (x y : N) : gval := VObj 0 [VInt x; VInt y].
(* the first polygon has its group 0 present (the colour is not zero, so the empty name travels
   too) and is closed; the second has nothing optional: its VEnum 0 is no colour, and is absent *)
Definition cx_scene : gval :=
  VObj 3 [ VVec false [ VObj 1 [pt 1 2; VInt 3];
                        VObj 2 [VVec false [pt 0 0; pt 4 5]; VEnum 18; VStr []; VBool true];
                        VObj 2 [VVec true []; VEnum 0; VStr []; VBool false] ];
           VEnum 17 ].
Definition cx_call : gval := VObj 4 [cx_scene; pt 7 7].
Definition t_scene : ttype := TTNamed (lit "Scene").

Example cx_side_conditions :
  length cx_S = 7%nat /\ mismatches cx_U cx_S [] = [] /\
  ids_distinct cx_S = true /\ reg_consistent cx_U = true /\ fields_exact cx_U cx_S = true.
Proof. repeat split; vm_compute; reflexivity. Qed.

Example cx_hypotheses :
  all_in_schema cx_U cx_S cx_tbl cx_scene = true /\ wt cx_U (TPtr 3) cx_scene = true /\
  ty_agrees cx_U cx_tbl t_scene (TPtr 3) = true /\ ty_exact cx_U cx_S t_scene (TPtr 3) = true /\
  enums_members cx_U (TPtr 3) cx_scene = true /\ is_ok (enc cx_U cx_scene) = true.
Proof. repeat split; vm_compute; reflexivity. Qed.

(* the conclusion, computed ... *)
Example cx_conclusion_computed :
  sdepth (abs cx_U cx_scene) = 6%nat /\
  conforms cx_S (sdepth (abs cx_U cx_scene)) t_scene (abs cx_U cx_scene) = true /\
  conforms cx_S 5 t_scene (abs cx_U cx_scene) = false /\
  conforms_call cx_S (sdepth (abs cx_U cx_call)) (abs cx_U cx_call) = true.
Proof. repeat split; vm_compute; reflexivity. Qed.

(* ... and obtained from the theorem, every hypothesis by evaluation *)
Example cx_conclusion_by_theorem :
  conforms cx_S (sdepth (abs cx_U cx_scene)) t_scene (abs cx_U cx_scene) = true /\
  conforms_call cx_S (sdepth (abs cx_U cx_call)) (abs cx_U cx_call) = true.
Proof.
  destruct (enc cx_U cx_scene) as [bs| |] eqn:E1; try (vm_compute in E1; discriminate E1).
  destruct (enc cx_U cx_call) as [bs2| |] eqn:E2; try (vm_compute in E2; discriminate E2).
  split.
  - apply (abs_conforms cx_U cx_S) with (t := TPtr 3) (bs := bs); try exact E1; vm_compute; reflexivity.
  - apply (abs_conforms_call cx_U cx_S) with (bs := bs2); try exact E2; vm_compute; reflexivity.
Qed.

(* ====================== no hypothesis can be dropped ====================== *)
(* Each example satisfies every hypothesis of [abs_conforms] but one, and the conclusion fails. *)
Definition hyps (U : universe) (S : list comb) (v : gval) (t : fty) (tt : ttype) : list bool :=
  let tbl := kind_table U S in
  [ ids_distinct S; reg_consistent U; fields_exact U S;
    all_in_schema U S tbl v; wt U t v; ty_agrees U tbl tt t; ty_exact U S tt t; enums_members U t v;
    is_ok (enc U v) ].
Definition concl (U : universe) (S : list comb) (v : gval) (tt : ttype) : bool :=
  conforms S (sdepth (abs U v)) tt (abs U v).

(* typing and [ty_agrees] alone (the statement without [enums_members]): any word sits in an enum field *)
Example enum_membership_needed :
  let v := VEnum 5 in let tt := TTNamed (lit "Color") in
  hyps cx_U cx_S v (TEnum 0) tt = [true; true; true; true; true; true; true; false; true] /\
  concl cx_U cx_S v tt = false.
Proof. cbv zeta. split; vm_compute; reflexivity. Qed.

(* typing and [ty_agrees] alone (the statement without [ty_exact]): a Go field of type tl.Object
   "agrees" with every multi-constructor type, since every struct implements tl.Object: a Point
   where the schema says Shape.  No condition on U and S alone can exclude this: t and tt are
   universally quantified in the statement, and the registry below is a faithful one. *)
Example exactness_needed_at_top :
  let v := pt 1 2 in let tt := TTNamed (lit "Shape") in
  hyps cx_U cx_S v (TIface 0) tt = [true; true; true; true; true; true; false; true; true] /\
  concl cx_U cx_S v tt = false.
Proof. cbv zeta. split; vm_compute; reflexivity. Qed.

(* ... and the same inside a struct: the Go field `Shapes []tl.Object` matches `shapes:Vector<Shape>`
   for Match.def_matches, and holds a Point *)
Definition cx_U0 : universe := cx_Uof (TIface 0).
Example exactness_needed_in_fields :
  let v := VObj 3 [VVec false [pt 1 2]; VEnum 17] in
  mismatches cx_U0 cx_S [] = [] /\
  hyps cx_U0 cx_S v (TPtr 3) t_scene = [true; true; false; true; true; true; true; true; true] /\
  concl cx_U0 cx_S v t_scene = false.
Proof. cbv zeta. repeat split; vm_compute; reflexivity. Qed.

(* the registry maps A's id to a struct type whose CRC() is B's id: the type table says "A is
   represented by struct 0", the value says "I am a b" *)
Definition cy_S : list comb := defs [ parse_line false (lit "a#00000001 x:int = A;");
                                      parse_line false (lit "b#00000002 x:int = B;") ].
Definition cy_U : universe :=
  {| u_structs := [ {| s_crc := Some 2; s_flagidx := None; s_fields := [fdn TI32]; s_impls := [0] |} ];
     u_enum_impls := []; u_reg := [(1, RStruct 0); (2, RStruct 0)]; u_true := 7; u_false := 8; u_null := 9 |}.
Example reg_consistent_needed :
  let v := VObj 0 [VInt 1] in let tt := TTNamed (lit "A") in
  hyps cy_U cy_S v (TPtr 0) tt = [true; false; true; true; true; true; true; true; true] /\
  concl cy_U cy_S v tt = false.
Proof. cbv zeta. split; vm_compute; reflexivity. Qed.

(* two definitions with one id: [find_comb] (the schema serialiser's lookup) finds the first *)
Definition cz_S : list comb := defs [ parse_line false (lit "a#00000001 x:int = A;");
                                      parse_line false (lit "b#00000001 x:int = B;") ].
Definition cz_U : universe :=
  {| u_structs := [ {| s_crc := Some 1; s_flagidx := None; s_fields := [fdn TI32]; s_impls := [0] |} ];
     u_enum_impls := []; u_reg := [(1, RStruct 0)]; u_true := 7; u_false := 8; u_null := 9 |}.
Example ids_distinct_needed :
  let v := VObj 0 [VInt 1] in let tt := TTNamed (lit "B") in
  hyps cz_U cz_S v (TPtr 0) tt = [false; true; true; true; true; true; true; true; true] /\
  concl cz_U cz_S v tt = false.
Proof. cbv zeta. split; vm_compute; reflexivity. Qed.

(* a nil pointer in a mandatory position is well typed; only the encoder refuses it *)
Example enc_needed :
  let v := VObj 1 [VNil; VInt 3] in let tt := TTNamed (lit "Shape") in
  hyps cx_U cx_S v (TIface 5) tt = [true; true; true; true; true; true; true; true; false] /\
  concl cx_U cx_S v tt = false.
Proof. cbv zeta. split; vm_compute; reflexivity. Qed.

Check conforms_mono_le.
Check abs_conforms.
Check abs_conforms_fuel.
Check abs_conforms_call.
Print Assumptions conforms_mono_le.
Print Assumptions abs_conforms_fuel.
Print Assumptions abs_conforms_call.
Print Assumptions cx_conclusion_by_theorem.
Print Assumptions abs_conforms.
