(* C02: the Go reflection encoder (Codec.enc) produces exactly the serialisation the TL schema
   defines (Spec.spec), for every value all of whose struct types match their schema
   definition (Match.struct_matches), and conversely.
   Both sides are brought to one reference layout [lay]: the selected fields in order, with
   the flags word injected in front of field number FlagIndex(). *)
From Coq Require Import String.
From Coq Require Import ZArith NArith List Lia ZifyN ZifyNat ZifyBool Bool.
From MTV Require Import Base.Bytes Base.Outcome Base.Str TL.Types TL.Codec TL.Typing TL.TLText
  TL.Match TL.Spec TL.RoundTrip TL.MatchProofs.
Import ListNotations.
Open Scope N_scope.
Ltac Zify.zify_post_hook ::= Z.div_mod_to_equations.

(* ---------- which values are covered ---------- *)
Definition struct_in_schema (U : universe) (S : list comb) (tbl : list (bytes * tkind)) (tid : N) : bool :=
  match get_struct U tid with
  | Some sd =>
      wf_struct sd &&
      match s_crc sd with
      | Some k => match find_comb S k with Some c => struct_matches U tbl c sd | None => false end
      | None => false
      end
  | None => false
  end.

Section AllIn.
  Variable U : universe.
  Variable S : list comb.
  Variable tbl : list (bytes * tkind).

  Fixpoint all_in_schema (v : gval) : bool :=
    match v with
    | VVec _ l => forallb all_in_schema l
    | VObj tid fs => struct_in_schema U S tbl tid && forallb all_in_schema fs
    | VContainer _ | VGzip _ | VWrapped _ => false
    | _ => true
    end.
End AllIn.

(* ---------- small vocabulary ---------- *)
Definition o2o (x : outcome bytes) : option bytes := match x with Ok b => Some b | _ => None end.
Definition le_opt (a b : option bytes) : Prop := forall e, a = Some e -> b = Some e.

Lemma o2o_some x b : o2o x = Some b <-> x = Ok b.
Proof. destruct x; cbn [o2o]; split; congruence. Qed.

Definition ser (S : list comb) (a : option sval) : option (option bytes) :=
  match a with Some x => Some (spec S x) | None => None end.

Fixpoint abs_fields (U : universe) (fl : N) (fds : list field) (vs : list gval) {struct vs} : list (option sval) :=
  match fds, vs with
  | fd :: fds', x :: vs' => abs_field (abs U) fl fd x :: abs_fields U fl fds' vs'
  | _, _ => []
  end.

Lemma abs_obj U tid fs sd crc : get_struct U tid = Some sd -> s_crc sd = Some crc ->
  abs U (VObj tid fs) = SCtor crc (abs_fields U (flags_of (s_fields sd) fs) (s_fields sd) fs).
Proof.
  intros H Hc. cbn [abs]. rewrite H, Hc. f_equal.
  generalize (flags_of (s_fields sd) fs) as fl. generalize (s_fields sd) as fds.
  induction fs as [|x vs IH]; intros fds fl; destruct fds as [|fd fds]; cbn [abs_fields]; try reflexivity.
  f_equal. apply IH.
Qed.

Lemma spec_ctor S id args :
  spec S (SCtor id args) =
  match find_comb S id with
  | None => None
  | Some c =>
      match spec_params (spec_flags (c_params c) args) (c_params c) (map (ser S) args) with
      | Some body => Some (le32 id ++ body)
      | None => None
      end
  end.
Proof. reflexivity. Qed.

Lemma spec_vec S l :
  spec S (SVec l) =
  match concat_opt (map (spec S) l) with
  | Some body => Some (le32 crc_vector ++ le32 (N.of_nat (length l) mod two32) ++ body)
  | None => None
  end.
Proof. reflexivity. Qed.

(* ---------- the reference layout ---------- *)
(* the selected fields, in order *)
Fixpoint seg_spec (fl : N) (fds : list field) (ss : list (option bytes)) {struct fds} : option bytes :=
  match fds, ss with
  | [], [] => Some []
  | fd :: fds', s :: ss' =>
      match (if selected fl fd then s else Some []) with
      | Some b => match seg_spec fl fds' ss' with Some c => Some (b ++ c) | None => None end
      | None => None
      end
  | _, _ => None
  end.

(* ... with the flags word in front of field number k *)
Fixpoint lay (fl : N) (k : option nat) (fds : list field) (ss : list (option bytes)) {struct fds} : option bytes :=
  match k with
  | Some O => match seg_spec fl fds ss with Some c => Some (le32 fl ++ c) | None => None end
  | _ =>
      match fds, ss with
      | [], [] => Some []
      | fd :: fds', s :: ss' =>
          match (if selected fl fd then s else Some []) with
          | Some b => match lay fl (option_map Nat.pred k) fds' ss' with Some c => Some (b ++ c) | None => None end
          | None => None
          end
      | _, _ => None
      end
  end.

Lemma lay_none fl : forall fds ss, lay fl None fds ss = seg_spec fl fds ss.
Proof.
  induction fds as [|fd fds IH]; intros ss; destruct ss as [|s ss]; cbn [lay seg_spec option_map]; try reflexivity.
  now rewrite IH.
Qed.

Lemma seg_spec_length fl : forall fds ss b, seg_spec fl fds ss = Some b -> length ss = length fds.
Proof.
  induction fds as [|fd fds IH]; intros ss b; destruct ss as [|s ss]; cbn [seg_spec length]; try discriminate; auto.
  destruct (if selected fl fd then s else Some []); [|discriminate].
  destruct (seg_spec fl fds ss) eqn:E; [|discriminate]. intros _. f_equal. eauto.
Qed.

Lemma lay_length fl : forall fds ss k b, lay fl k fds ss = Some b -> length ss = length fds.
Proof.
  induction fds as [|fd fds IH]; intros ss k b H.
  - destruct k as [[|k]|]; destruct ss; cbn [lay seg_spec] in H; try discriminate; reflexivity.
  - destruct k as [[|k]|].
    + cbn [lay] in H. destruct (seg_spec fl (fd :: fds) ss) eqn:E; [|discriminate].
      eapply seg_spec_length; eauto.
    + destruct ss as [|s ss]; cbn [lay] in H; [discriminate|].
      destruct (if selected fl fd then s else Some []); [|discriminate].
      destruct (lay fl (option_map Nat.pred (Some (Datatypes.S k))) fds ss) eqn:E; [|discriminate].
      cbn [length]. f_equal. eauto.
    + destruct ss as [|s ss]; cbn [lay] in H; [discriminate|].
      destruct (if selected fl fd then s else Some []); [|discriminate].
      destruct (lay fl (option_map Nat.pred None) fds ss) eqn:E; [|discriminate].
      cbn [length]. f_equal. eauto.
Qed.

(* the layout is monotone in the serialisations of the selected fields *)
Lemma seg_spec_mono fl (f g : gval -> option bytes) : forall fds vs,
  Forall2 (fun fd v => selected fl fd = true -> le_opt (f v) (g v)) fds vs ->
  le_opt (seg_spec fl fds (map f vs)) (seg_spec fl fds (map g vs)).
Proof.
  induction 1 as [|fd v fds vs Hh _ IH]; intros e; cbn [map seg_spec]; auto.
  destruct (selected fl fd).
  - destruct (f v) as [b|] eqn:Ef; [|discriminate].
    assert (Hg : g v = Some b) by (apply Hh; auto). rewrite Hg.
    destruct (seg_spec fl fds (map f vs)) as [c|] eqn:Es; [|discriminate]. rewrite (IH c eq_refl). auto.
  - destruct (seg_spec fl fds (map f vs)) as [c|] eqn:Es; [|discriminate]. rewrite (IH c eq_refl). auto.
Qed.

Lemma lay_mono fl (f g : gval -> option bytes) : forall fds vs,
  Forall2 (fun fd v => selected fl fd = true -> le_opt (f v) (g v)) fds vs ->
  forall k, le_opt (lay fl k fds (map f vs)) (lay fl k fds (map g vs)).
Proof.
  induction 1 as [|fd v fds vs Hh HF IH]; intros k e.
  - destruct k as [[|k]|]; cbn [map lay seg_spec]; auto.
  - assert (Hstep : forall k', le_opt
      (match (if selected fl fd then f v else Some []) with
       | Some b => match lay fl k' fds (map f vs) with Some c => Some (b ++ c) | None => None end
       | None => None end)
      (match (if selected fl fd then g v else Some []) with
       | Some b => match lay fl k' fds (map g vs) with Some c => Some (b ++ c) | None => None end
       | None => None end)).
    { intros k' e'. destruct (selected fl fd).
      - destruct (f v) as [b|] eqn:Ef; [|discriminate].
    assert (Hg : g v = Some b) by (apply Hh; auto). rewrite Hg.
        destruct (lay fl k' fds (map f vs)) as [c|] eqn:Es; [|discriminate]. rewrite (IH k' c Es). auto.
      - destruct (lay fl k' fds (map f vs)) as [c|] eqn:Es; [|discriminate]. rewrite (IH k' c Es). auto. }
    destruct k as [[|k]|].
    + cbn [lay]. intros H.
      destruct (seg_spec fl (fd :: fds) (map f (v :: vs))) as [c|] eqn:Es; [|discriminate].
      rewrite (seg_spec_mono fl f g (fd :: fds) (v :: vs) (Forall2_cons _ _ Hh HF) c Es). exact H.
    + cbn [map lay]. apply Hstep.
    + cbn [map lay]. apply Hstep.
Qed.

Lemma concat_opt_mono (f g : gval -> option bytes) l :
  Forall (fun v => le_opt (f v) (g v)) l -> le_opt (concat_opt (map f l)) (concat_opt (map g l)).
Proof.
  induction 1 as [|v l Hv _ IH]; intros e; cbn [map concat_opt]; auto.
  destruct (f v) as [a|] eqn:Ef; [|discriminate].
  assert (Hg : g v = Some a) by (apply Hv; auto). rewrite Hg.
  destruct (concat_opt (map f l)) as [b|] eqn:Ec; [|discriminate]. rewrite (IH b eq_refl). auto.
Qed.

Lemma concat_out_opt l : o2o (concat_out l) = concat_opt (map o2o l).
Proof.
  induction l as [|x l IH]; cbn [concat_out map concat_opt]; [reflexivity|].
  rewrite <- IH. destruct x; cbn [obind o2o]; try reflexivity.
  destruct (concat_out l); reflexivity.
Qed.

(* ---------- the encoder's second loop is the reference layout ---------- *)
Lemma asm_seg fl : forall fds es, o2o (asm_plain fl fds es) = seg_spec fl fds (map o2o es).
Proof.
  induction fds as [|fd fds IH]; intros es; destruct es as [|e es]; cbn [asm_plain map seg_spec]; try reflexivity.
  rewrite <- IH. destruct (selected fl fd).
  - destruct e; cbn [obind o2o]; try reflexivity. destruct (asm_plain fl fds es); reflexivity.
  - cbn [obind]. destruct (asm_plain fl fds es); reflexivity.
Qed.

Lemma assemble_lay_none fl fds es : o2o (assemble None fl 0 0 fds es) = lay fl None fds (map o2o es).
Proof.
  rewrite (assemble_plain None fl 0%nat) by (auto; reflexivity). rewrite lay_none. apply asm_seg.
Qed.

Lemma assemble_lay_some fl : forall fds es i k,
  forallb untagged (firstn k fds) = true -> (k < length fds)%nat ->
  o2o (assemble (Some (i + k)%nat) fl i i fds es) = lay fl (Some k) fds (map o2o es).
Proof.
  induction fds as [|fd fds IH]; intros es i k Hunt Hlen; [cbn [length] in Hlen; lia|].
  destruct k as [|k].
  - (* the flags word sits here *)
    rewrite Nat.add_0_r.
    destruct es as [|e es]; [reflexivity|].
    assert (Hnf : forall x, (Datatypes.S i <= x)%nat -> flag_here (Some i) x = false).
    { intros x Hx. cbn [flag_here]. apply Nat.eqb_neq. lia. }
    cbn [map assemble lay]. cbn [flag_here]. rewrite Nat.eqb_refl.
    unfold emit_at. cbn [flag_here]. rewrite Nat.eqb_refl. cbn [obind].
    replace (i =? Datatypes.S i)%nat with false by (symmetry; apply Nat.eqb_neq; lia).
    rewrite (assemble_plain _ _ (Datatypes.S i) Hnf) by (destruct (selected fl fd); lia).
    cbn [seg_spec]. rewrite <- asm_seg.
    destruct (selected fl fd).
    + destruct e; cbn [obind o2o]; try reflexivity. destruct (asm_plain fl fds es); reflexivity.
    + cbn [obind]. destruct (asm_plain fl fds es); reflexivity.
  - (* still before the flags word: a mandatory field *)
    cbn [firstn forallb] in Hunt. apply andb_prop in Hunt as [Hu Hunt].
    cbn [length] in Hlen.
    assert (Hfh : flag_here (Some (i + Datatypes.S k)%nat) i = false) by (cbn [flag_here]; apply Nat.eqb_neq; lia).
    assert (Hsel : selected fl fd = true).
    { unfold untagged in Hu. unfold selected. destruct (f_tag fd); try discriminate. reflexivity. }
    destruct es as [|e es]; [reflexivity|].
    cbn [map assemble lay option_map Nat.pred]. rewrite Hfh, Hsel. cbn [obind]. unfold emit_at. rewrite Hfh.
    replace (i + Datatypes.S k)%nat with (Datatypes.S i + k)%nat by lia.
    rewrite <- (IH es (Datatypes.S i) k Hunt) by lia.
    destruct e; cbn [obind o2o]; try reflexivity.
    destruct (assemble (Some (Datatypes.S i + k)%nat) fl (Datatypes.S i) (Datatypes.S i) fds es); reflexivity.
Qed.

Lemma assemble_lay sd fl es : wf_struct sd = true ->
  o2o (assemble (s_flagidx sd) fl 0 0 (s_fields sd) es) = lay fl (s_flagidx sd) (s_fields sd) (map o2o es).
Proof.
  unfold wf_struct. intros H. apply andb_prop in H as [_ H].
  destruct (s_flagidx sd) as [k|].
  - apply andb_prop in H as [H Hlen]. apply andb_prop in H as [_ Hunt]. apply Nat.ltb_lt in Hlen.
    apply (assemble_lay_some fl (s_fields sd) es 0%nat k Hunt Hlen).
  - apply assemble_lay_none.
Qed.

(* ---------- the schema's serialiser is the reference layout ---------- *)
Section SpecSide.
Variable U : universe.
Variable S : list comb.
Variable tbl : list (bytes * tkind).

Lemma sp_nat fl p ps es : is_nat p = true ->
  spec_params fl (p :: ps) es = match spec_params fl ps es with Some r => Some (le32 fl ++ r) | None => None end.
Proof. unfold is_nat. cbn [spec_params]. destruct (p_ty p); try discriminate. reflexivity. Qed.

Lemma sp_step fl p fd v ps es : field_rel U tbl p fd ->
  spec_params fl (p :: ps) (ser S (abs_field (abs U) fl fd v) :: es) =
  match (if selected fl fd then spec S (abs U v) else Some []) with
  | Some b => match spec_params fl ps es with Some r => Some (b ++ r) | None => None end
  | None => None
  end.
Proof.
  intros [p' fd' t Hp Ht _|p' fd' b Hp Ht _|p' fd' b t Hp Hn Ht _];
    cbn [spec_params]; rewrite Hp; unfold abs_field, selected; rewrite Ht.
  - cbn [ser]. destruct (spec S (abs U v)); reflexivity.
  - destruct (spec_params fl ps es); reflexivity.
  - destruct t; try congruence; destruct (N.testbit fl b); cbn [ser];
      try (destruct (spec S (abs U v)); reflexivity);
      destruct (spec_params fl ps es); reflexivity.
Qed.

Lemma sf_nat p ps args : is_nat p = true -> spec_flags (p :: ps) args = spec_flags ps args.
Proof. unfold is_nat. cbn [spec_flags]. destruct (p_ty p); try discriminate. reflexivity. Qed.

Lemma sf_step fl p fd v ps args : field_rel U tbl p fd ->
  spec_flags (p :: ps) (abs_field (abs U) fl fd v :: args) =
  match tag_bit (f_tag fd) with
  | Some b => if N.testbit fl b then N.lor (N.shiftl 1 b) (spec_flags ps args) else spec_flags ps args
  | None => spec_flags ps args
  end.
Proof.
  intros [p' fd' t Hp Ht _|p' fd' b Hp Ht _|p' fd' b t Hp Hn Ht _];
    cbn [spec_flags]; rewrite Hp; unfold abs_field; rewrite Ht; cbn [tag_bit]; try reflexivity;
    destruct (N.testbit fl b); reflexivity.
Qed.

Lemma spec_params_lay fl : forall ps fds vs idx flagpos want,
  Forall2 (field_rel U tbl) (filter non_nat ps) fds ->
  flags_position_gen ps idx flagpos want ->
  length vs = length fds ->
  spec_params fl ps (map (ser S) (abs_fields U fl fds vs)) =
  match flagpos with
  | Some _ => seg_spec fl fds (map (fun v => spec S (abs U v)) vs)
  | None => lay fl (option_map (fun w => (w - idx)%nat) want) fds (map (fun v => spec S (abs U v)) vs)
  end.
Proof.
  induction ps as [|p ps IH]; intros fds vs idx flagpos want HF HP Hlen.
  - cbn [filter] in HF. inversion HF; subst. destruct vs; [|discriminate].
    cbn [abs_fields map spec_params seg_spec].
    destruct flagpos as [a|]; [reflexivity|].
    destruct HP as [[-> _]|(pre & pn & post & Heq & _)]; [reflexivity|]. destruct pre; discriminate.
  - destruct (is_nat p) eqn:Hp.
    + cbn [filter] in HF. unfold non_nat at 1 in HF. rewrite Hp in HF. cbn [negb] in HF.
      destruct flagpos as [a|]; [exfalso; eapply fpg_cons_nat_some; eauto|].
      apply fpg_cons_nat in HP; [|exact Hp].
      rewrite sp_nat by exact Hp. rewrite (IH fds vs idx (Some idx) want HF HP Hlen).
      destruct HP as [_ ->]. cbn [option_map]. rewrite Nat.sub_diag.
      destruct fds; reflexivity.
    + cbn [filter] in HF. unfold non_nat at 1 in HF. rewrite Hp in HF. cbn [negb] in HF.
      apply fpg_cons_non_nat in HP; [|exact Hp].
      inversion HF as [|? fd ? fds' Hf HF']; subst.
      destruct vs as [|v vs]; [discriminate|]. cbn [length] in Hlen. injection Hlen as Hlen.
      cbn [abs_fields map]. rewrite sp_step by exact Hf.
      rewrite (IH fds' vs (Datatypes.S idx) flagpos want HF' HP Hlen).
      destruct flagpos as [a|]; [reflexivity|].
      destruct HP as [[-> _]|(pre & pn & post & _ & _ & _ & _ & ->)].
      * reflexivity.
      * cbn [option_map].
        replace (Datatypes.S idx + length pre - idx)%nat with (Datatypes.S (length pre)) by lia.
        replace (Datatypes.S idx + length pre - Datatypes.S idx)%nat with (length pre) by lia.
        reflexivity.
Qed.

(* ---------- the flags word ---------- *)
(* the flags word recomputed from the presence of the arguments *)
Fixpoint flags_re (fl : N) (fds : list field) (vs : list gval) : N :=
  match fds, vs with
  | fd :: fds', _ :: vs' =>
      let r := flags_re fl fds' vs' in
      match tag_bit (f_tag fd) with
      | Some b => if N.testbit fl b then N.lor (N.shiftl 1 b) r else r
      | None => r
      end
  | _, _ => 0
  end.

Lemma spec_flags_re fl : forall ps fds vs,
  Forall2 (field_rel U tbl) (filter non_nat ps) fds -> length vs = length fds ->
  spec_flags ps (abs_fields U fl fds vs) = flags_re fl fds vs.
Proof.
  induction ps as [|p ps IH]; intros fds vs HF Hlen.
  - cbn [filter] in HF. inversion HF; subst. destruct vs; reflexivity.
  - cbn [filter] in HF. unfold non_nat at 1 in HF. destruct (is_nat p) eqn:Hp; cbn [negb] in HF.
    + rewrite sf_nat by exact Hp. auto.
    + inversion HF as [|? fd ? fds' Hf HF']; subst.
      destruct vs as [|v vs]; [discriminate|]. cbn [length] in Hlen. injection Hlen as Hlen.
      cbn [abs_fields flags_re]. rewrite sf_step by exact Hf. rewrite (IH fds' vs HF' Hlen). reflexivity.
Qed.

Lemma flags_re_bit fl b : forall fds vs,
  N.testbit (flags_re fl fds vs) b = true <->
  (N.testbit fl b = true /\
   exists j fd v, nth_error fds j = Some fd /\ nth_error vs j = Some v /\ tag_bit (f_tag fd) = Some b).
Proof.
  induction fds as [|fd0 fds IH]; intros vs.
  - cbn [flags_re]. rewrite N.bits_0. split; [discriminate|].
    intros (_ & j & fd & v & H & _). destruct j; discriminate.
  - destruct vs as [|v0 vs].
    + cbn [flags_re]. rewrite N.bits_0. split; [discriminate|].
      intros (_ & j & fd & v & _ & H & _). destruct j; discriminate.
    + cbn [flags_re]. split.
      * intros H.
        assert (Hrec : N.testbit (flags_re fl fds vs) b = true ->
                       N.testbit fl b = true /\
                       exists j fd v, nth_error (fd0 :: fds) j = Some fd /\ nth_error (v0 :: vs) j = Some v /\
                                      tag_bit (f_tag fd) = Some b).
        { intros H'. apply IH in H' as (Hb & j & fd & v & H1 & H2 & H3). split; auto.
          exists (Datatypes.S j), fd, v. auto. }
        destruct (tag_bit (f_tag fd0)) as [b0|] eqn:E; auto.
        destruct (N.testbit fl b0) eqn:Eb; auto.
        rewrite N.lor_spec in H. apply orb_prop in H as [H|H]; auto.
        rewrite N.shiftl_1_l in H. destruct (N.eq_dec b0 b) as [->|Hne].
        -- split; auto. exists 0%nat, fd0, v0. auto.
        -- rewrite N.pow2_bits_false in H by auto. discriminate.
      * intros (Hb & j & fd & v & H1 & H2 & H3). destruct j as [|j]; cbn [nth_error] in H1, H2.
        -- apply some_inj in H1. apply some_inj in H2. subst fd0 v0. rewrite H3, Hb.
           rewrite N.lor_spec, N.shiftl_1_l, N.pow2_bits_true. reflexivity.
        -- assert (H' : N.testbit (flags_re fl fds vs) b = true) by (apply IH; eauto 8).
           destruct (tag_bit (f_tag fd0)); auto. destruct (N.testbit fl n); auto.
           rewrite N.lor_spec, H'. apply orb_true_r.
Qed.

(* OR of 2^b over the groups whose bit is set in the encoder's word is that word again *)
Lemma flags_re_id fds vs : flags_re (flags_of fds vs) fds vs = flags_of fds vs.
Proof.
  apply N.bits_inj. intros b. apply eq_true_iff_eq. split; intros H.
  - apply flags_re_bit in H as [H _]. exact H.
  - apply flags_re_bit. split; auto.
    apply flags_bit_spec in H as (j & fd & v & H1 & H2 & H3 & _). eauto 8.
Qed.

(* the body of a constructor, as the schema defines it, is the reference layout *)
Lemma spec_body c sd fs :
  desc_agrees U tbl (c_params c) (s_fields sd) 0 None (s_flagidx sd) = true ->
  length fs = length (s_fields sd) ->
  let fl := flags_of (s_fields sd) fs in
  let args := abs_fields U fl (s_fields sd) fs in
  spec_params (spec_flags (c_params c) args) (c_params c) (map (ser S) args) =
  lay fl (s_flagidx sd) (s_fields sd) (map (fun v => spec S (abs U v)) fs).
Proof.
  intros Hd Hlen fl args. apply desc_agrees_gen in Hd as [HF HP].
  unfold args. rewrite (spec_flags_re fl _ _ _ HF Hlen). unfold fl at 1 3. rewrite flags_re_id. fold fl.
  rewrite (spec_params_lay fl _ _ _ _ _ _ HF HP Hlen).
  f_equal. destruct (s_flagidx sd); cbn [option_map]; [|reflexivity]. f_equal. lia.
Qed.

End SpecSide.

(* ---------- what struct_in_schema gives ---------- *)
Lemma struct_in_schema_inv U S tbl tid : struct_in_schema U S tbl tid = true ->
  exists sd k c, get_struct U tid = Some sd /\ wf_struct sd = true /\ s_crc sd = Some k /\
                 find_comb S k = Some c /\
                 desc_agrees U tbl (c_params c) (s_fields sd) 0 None (s_flagidx sd) = true.
Proof.
  unfold struct_in_schema. destruct (get_struct U tid) as [sd|] eqn:Hg; [|discriminate].
  intros H. apply andb_prop in H as [Hwf H].
  destruct (s_crc sd) as [k|] eqn:Hc; [|discriminate]. destruct (find_comb S k) as [c|] eqn:Ef; [|discriminate].
  unfold struct_matches in H. apply andb_prop in H as [_ H]. exists sd, k, c. repeat split; auto.
Qed.

Lemma wf_no_bad_field sd : wf_struct sd = true -> existsb bad_field (s_fields sd) = false.
Proof.
  unfold wf_struct. intros H. apply andb_prop in H as [H _]. apply andb_prop in H as [H _].
  induction (s_fields sd) as [|fd fds IH]; [reflexivity|].
  cbn [forallb existsb] in *. apply andb_prop in H as [Hfd H]. rewrite (IH H), orb_false_r.
  unfold tag_ok in Hfd. unfold bad_field. destruct (f_tag fd); try discriminate; try reflexivity.
  apply andb_prop in Hfd as [_ Hfd]. destruct (f_ty fd); try discriminate. reflexivity.
Qed.

(* ---------- the two directions ---------- *)
Section Main.
Variable U : universe.
Variable S : list comb.
Variable tbl : list (bytes * tkind).

Notation ais := (all_in_schema U S tbl).
Notation sa := (fun v => spec S (abs U v)).
Notation oe := (fun v => o2o (enc U v)).

Definition P1 (v : gval) : Prop := forall bs, ais v = true -> enc U v = Ok bs -> spec S (abs U v) = Some bs.
Definition P2 (v : gval) : Prop :=
  forall t bs, ais v = true -> wt U t v = true -> spec S (abs U v) = Some bs -> enc U v = Ok bs.

Lemma P1_le l : Forall P1 l -> forallb ais l = true -> Forall (fun v => le_opt (oe v) (sa v)) l.
Proof.
  induction 1 as [|v l Hv _ IH]; intros Ha; constructor.
  - cbn [forallb] in Ha. apply andb_prop in Ha as [Ha _]. intros e He. apply o2o_some in He. now apply Hv.
  - cbn [forallb] in Ha. apply andb_prop in Ha as [_ Ha]. auto.
Qed.

Lemma P1_fields fl : forall fds fs, Forall P1 fs -> forallb ais fs = true -> length fs = length fds ->
  Forall2 (fun fd v => selected fl fd = true -> le_opt (oe v) (sa v)) fds fs.
Proof.
  induction fds as [|fd fds IH]; intros fs HP Ha Hlen; destruct fs as [|v fs]; try discriminate; constructor.
  - inversion HP as [|? ? Hv _]; subst. cbn [forallb] in Ha. apply andb_prop in Ha as [Ha _].
    intros _ e He. apply o2o_some in He. now apply Hv.
  - inversion HP; subst. cbn [forallb] in Ha. apply andb_prop in Ha as [_ Ha]. cbn [length] in Hlen. apply IH; auto.
Qed.

Lemma P2_le t l : Forall P2 l -> forallb ais l = true -> forallb (wt U t) l = true ->
  Forall (fun v => le_opt (sa v) (oe v)) l.
Proof.
  induction 1 as [|v l Hv _ IH]; intros Ha Hw; constructor.
  - cbn [forallb] in Ha, Hw. apply andb_prop in Ha as [Ha _]. apply andb_prop in Hw as [Hw _].
    intros e He. apply o2o_some. eapply Hv; eauto.
  - cbn [forallb] in Ha, Hw. apply andb_prop in Ha as [_ Ha]. apply andb_prop in Hw as [_ Hw]. auto.
Qed.

Lemma P2_fields fl : forall fds fs, Forall P2 fs -> forallb ais fs = true ->
  all2 (wt_field (wt U)) fds fs = true ->
  Forall2 (fun fd v => selected fl fd = true -> le_opt (sa v) (oe v)) fds fs.
Proof.
  induction fds as [|fd fds IH]; intros fs HP Ha Hw.
  - apply all2_nil_l in Hw. subst. constructor.
  - apply all2_cons_l in Hw as (v & fs' & -> & Hwv & Hw). inversion HP as [|? ? Hv HP']; subst.
    cbn [forallb] in Ha. apply andb_prop in Ha as [Hav Ha]. constructor; auto.
    intros Hsel e He. apply o2o_some. unfold selected in Hsel. unfold wt_field in Hwv.
    destruct (f_tag fd); try discriminate; eapply Hv; eauto.
Qed.

Lemma all2_length {A B} (f : A -> B -> bool) : forall l1 l2, all2 f l1 l2 = true -> length l2 = length l1.
Proof.
  induction l1 as [|a l1 IH]; intros l2 H.
  - apply all2_nil_l in H. now subst.
  - apply all2_cons_l in H as (b & l2' & -> & _ & H). cbn [length]. f_equal. auto.
Qed.

Lemma encode_is_spec_all : forall v, P1 v.
Proof.
  induction v using gval_ind'; intros bs Hs He; cbn [enc] in He;
    try (apply Ok_inj in He; subst bs; reflexivity); try discriminate.
  - (* VStr *)
    destruct (put_bytes s) eqn:E; [|discriminate]. apply Ok_inj in He. subst. exact E.
  - (* VBytes *)
    destruct (put_bytes b) eqn:E; [|discriminate]. apply Ok_inj in He. subst. exact E.
  - (* VObj *)
    cbn [all_in_schema] in Hs. apply andb_prop in Hs as [Hsch Hall].
    destruct (struct_in_schema_inv _ _ _ _ Hsch) as (sd & k & c & Hg & Hwf & Hcrc & Hfind & Hd).
    rewrite Hg, Hcrc in He. rewrite (wf_no_bad_field sd Hwf) in He.
    apply obind_ok in He as [body [Hasm He]]. apply Ok_inj in He. subst bs.
    apply o2o_some in Hasm. rewrite (assemble_lay sd _ _ Hwf), map_map in Hasm.
    assert (Hlen : length fs = length (s_fields sd)).
    { apply lay_length in Hasm. now rewrite map_length in Hasm. }
    rewrite (abs_obj U tid fs sd k Hg Hcrc), spec_ctor, Hfind.
    rewrite (spec_body U S tbl c sd fs Hd Hlen).
    rewrite (lay_mono _ oe sa _ _ (P1_fields _ _ _ H Hall Hlen) _ _ Hasm). reflexivity.
  - (* VVec *)
    cbn [all_in_schema] in Hs.
    apply obind_ok in He as [body [Hc He]]. apply Ok_inj in He. subst bs.
    apply o2o_some in Hc. rewrite concat_out_opt, map_map in Hc.
    change (abs U (VVec isnil l)) with (SVec (map (abs U) l)). rewrite spec_vec, map_map, map_length.
    rewrite (concat_opt_mono oe sa l (P1_le l H Hs) _ Hc). reflexivity.
  - (* VBig *)
    destruct hi; cbn [negb] in He; [|discriminate]. cbn [abs spec].
    destruct w.
    + destruct (n <? 256 ^ 32); [|discriminate]. apply Ok_inj in He. now subst.
    + destruct (n <? 256 ^ 16); [|discriminate]. apply Ok_inj in He. now subst.
Qed.

Lemma spec_is_encode_all : forall v, P2 v.
Proof.
  induction v using gval_ind'; intros t bs Hs Hw He;
    try (cbn [abs spec] in He; apply some_inj in He; subst bs; reflexivity);
    try (cbn [abs spec] in He; discriminate).
  - (* VStr *)
    cbn [abs spec] in He. cbn [enc]. now rewrite He.
  - (* VBytes *)
    cbn [abs spec] in He. cbn [enc]. now rewrite He.
  - (* VObj *)
    cbn [all_in_schema] in Hs. apply andb_prop in Hs as [Hsch Hall].
    destruct (struct_in_schema_inv _ _ _ _ Hsch) as (sd & k & c & Hg & Hwf & Hcrc & Hfind & Hd).
    assert (Hwt : all2 (wt_field (wt U)) (s_fields sd) fs = true).
    { destruct t; try discriminate; cbn [wt] in Hw.
      - rewrite Hg in Hw. now apply andb_prop in Hw as [_ Hw].
      - apply andb_prop in Hw as [_ Hw]. rewrite Hg in Hw. now apply andb_prop in Hw as [_ Hw]. }
    pose proof (all2_length _ _ _ Hwt) as Hlen.
    rewrite (abs_obj U tid fs sd k Hg Hcrc), spec_ctor, Hfind in He.
    rewrite (spec_body U S tbl c sd fs Hd Hlen) in He.
    destruct (lay (flags_of (s_fields sd) fs) (s_flagidx sd) (s_fields sd) (map sa fs)) as [body|] eqn:El;
      [|discriminate].
    apply some_inj in He. subst bs.
    pose proof (lay_mono _ sa oe _ _ (P2_fields _ _ _ H Hall Hwt) _ _ El) as Hl.
    rewrite <- (map_map (enc U) o2o), <- (assemble_lay sd _ _ Hwf) in Hl. apply o2o_some in Hl.
    cbn [enc]. rewrite Hg, Hcrc, (wf_no_bad_field sd Hwf), Hl. reflexivity.
  - (* VVec *)
    cbn [all_in_schema] in Hs.
    destruct t; try discriminate; cbn [wt] in Hw. apply andb_prop in Hw as [_ Hw].
    change (abs U (VVec isnil l)) with (SVec (map (abs U) l)) in He. rewrite spec_vec, map_map, map_length in He.
    destruct (concat_opt (map sa l)) as [body|] eqn:Ec; [|discriminate].
    apply some_inj in He. subst bs.
    pose proof (concat_opt_mono sa oe l (P2_le t l H Hs Hw) _ Ec) as Hc.
    rewrite <- (map_map (enc U) o2o), <- concat_out_opt in Hc. apply o2o_some in Hc.
    cbn [enc]. rewrite Hc. reflexivity.
  - (* VBig *)
    assert (hi = true) as -> by (destruct t; try discriminate; destruct w; try discriminate; destruct hi; auto; discriminate).
    cbn [abs spec] in He. cbn [enc negb].
    destruct w.
    + destruct (n <? 256 ^ 32); [|discriminate]. apply some_inj in He. now subst.
    + destruct (n <? 256 ^ 16); [|discriminate]. apply some_inj in He. now subst.
Qed.

End Main.

(* the encoder writes what the schema defines *)
Theorem encode_is_spec : forall U S tbl v bs,
  all_in_schema U S tbl v = true -> enc U v = Ok bs -> spec S (abs U v) = Some bs.
Proof. intros U S tbl v bs. apply encode_is_spec_all. Qed.

(* and everything the schema defines for a well-typed value is what the encoder writes *)
Theorem spec_is_encode : forall U S tbl t v bs,
  all_in_schema U S tbl v = true -> wt U t v = true -> spec S (abs U v) = Some bs -> enc U v = Ok bs.
Proof. intros U S tbl t v bs. apply spec_is_encode_all. Qed.

(* the decoder reads the schema's serialisation back *)
Corollary spec_decodes : forall U S tbl inflate, pseudo_ok U = true ->
  forall tid fs bs,
  all_in_schema U S tbl (VObj tid fs) = true -> wt U (TIface 0) (VObj tid fs) = true ->
  spec S (abs U (VObj tid fs)) = Some bs ->
  exists f0, forall f, (f0 <= f)%nat -> decode_unknown U inflate f [] bs = DOk (norm U (VObj tid fs)).
Proof.
  intros U S tbl inflate HU tid fs bs Hs Hw He.
  apply (roundtrip_unknown U inflate HU tid fs bs Hw).
  eapply spec_is_encode; eauto.
Qed.

(* 2^24 bytes and more: refused by both *)
Theorem too_large_refused : forall U s, (two24 <= blen s)%N ->
  enc U (VStr s) = Err /\ enc U (VBytes false s) = Err /\ forall S, spec S (SStr s) = None.
Proof.
  intros U s H. cbn [enc spec]. rewrite (put_bytes_too_large s H). auto.
Qed.

(* ---------- a worked instance ---------- *)
Definition ex_line : bytes :=
  lit "name#1a2b3c4d a:int flags:# b:flags.0?string c:flags.0?int d:flags.1?true e:Vector<int> g:flags.3?long = T;".
Definition ex_line2 : bytes := lit "box#0badcafe flags:# inner:flags.5?T tag:string = B;".

Definition ex_S : list comb := defs [parse_line false ex_line; parse_line false ex_line2].

Definition ex_U : universe :=
  {| u_structs :=
       [ {| s_crc := Some 439041101; s_flagidx := Some 1%nat;
            s_fields := [ {| f_ty := TI32; f_tag := TagNone |};
                          {| f_ty := TStr; f_tag := TagFlag 0 |};
                          {| f_ty := TI32; f_tag := TagFlag 0 |};
                          {| f_ty := TBool; f_tag := TagBit 1 |};
                          {| f_ty := TVec TI32; f_tag := TagNone |};
                          {| f_ty := TI64; f_tag := TagFlag 3 |} ];
            s_impls := [0] |};
         {| s_crc := Some 195939070; s_flagidx := Some 0%nat;
            s_fields := [ {| f_ty := TPtr 0; f_tag := TagFlag 5 |};
                          {| f_ty := TStr; f_tag := TagNone |} ];
            s_impls := [0] |} ];
     u_enum_impls := [];
     u_reg := [(439041101, RStruct 0); (195939070, RStruct 1)];
     u_true := 7; u_false := 8; u_null := 9 |}.

Definition ex_tbl := kind_table ex_U ex_S.

(* b is the empty string but travels because c, in the same group, is not zero; d is carried by
   bit 1 alone; g is absent *)
Definition ex_inner : gval :=
  VObj 0 [VInt 7; VStr []; VInt 5; VBool true; VVec false [VInt 1; VInt 2]; VLong 0].
Definition ex_v : gval := VObj 1 [ex_inner; VStr [104; 105]].

Example ex_agree :
  length ex_S = 2%nat /\
  mismatches ex_U ex_S [] = [] /\
  pseudo_ok ex_U = true /\
  all_in_schema ex_U ex_S ex_tbl ex_v = true /\
  wt ex_U (TIface 0) ex_v = true /\
  exists bs, enc ex_U ex_v = Ok bs /\ spec ex_S (abs ex_U ex_v) = Some bs /\
    bs = le32 195939070 ++ le32 32 ++
         (le32 439041101 ++ le32 7 ++ le32 3 ++ [0; 0; 0; 0] ++ le32 5 ++
          le32 crc_vector ++ le32 2 ++ le32 1 ++ le32 2) ++
         [2; 104; 105; 0].
Proof.
  split; [vm_compute; reflexivity|]. split; [vm_compute; reflexivity|].
  split; [vm_compute; reflexivity|]. split; [vm_compute; reflexivity|].
  split; [vm_compute; reflexivity|].
  eexists. split; [vm_compute; reflexivity|]. split; vm_compute; reflexivity.
Qed.

(* the hypotheses are needed.  (1) typing, for the converse: a *tl.Int128 holding a nil *big.Int
   has a schema-level reading, and the encoder panics on it *)
Example wt_needed :
  let v := VBig false false 1 in
  all_in_schema ex_U ex_S ex_tbl v = true /\ (forall t, wt ex_U t v = false) /\
  (exists bs, spec ex_S (abs ex_U v) = Some bs) /\ enc ex_U v = Panic.
Proof.
  cbv zeta. split; [reflexivity|]. split; [intros t; destruct t; reflexivity|].
  split; [eexists; vm_compute; reflexivity|reflexivity].
Qed.

(* (2) the position of `#`: a well-formed Go struct whose FlagIndex() is not where the schema has
   the flags word is serialised differently by the two *)
Definition ex_S2 : list comb := defs [parse_line false (lit "m#00000001 flags:# a:int b:flags.0?int = M;")].
Definition ex_U2 : universe :=
  {| u_structs := [ {| s_crc := Some 1; s_flagidx := Some 1%nat;
                       s_fields := [ {| f_ty := TI32; f_tag := TagNone |}; {| f_ty := TI32; f_tag := TagFlag 0 |} ];
                       s_impls := [0] |} ];
     u_enum_impls := []; u_reg := [(1, RStruct 0)]; u_true := 7; u_false := 8; u_null := 9 |}.

Example position_needed :
  let v := VObj 0 [VInt 7; VInt 5] in
  wt ex_U2 (TIface 0) v = true /\ all_in_schema ex_U2 ex_S2 (kind_table ex_U2 ex_S2) v = false /\
  enc ex_U2 v = Ok (le32 1 ++ le32 7 ++ le32 1 ++ le32 5) /\
  spec ex_S2 (abs ex_U2 v) = Some (le32 1 ++ le32 1 ++ le32 7 ++ le32 5).
Proof. cbv zeta. repeat split; vm_compute; reflexivity. Qed.

Check encode_is_spec.
Check spec_is_encode.
Check spec_decodes.
Check too_large_refused.
Print Assumptions encode_is_spec.
Print Assumptions spec_is_encode.
Print Assumptions spec_decodes.
Print Assumptions too_large_refused.
Print Assumptions ex_agree.
Print Assumptions wt_needed.
Print Assumptions position_needed.
