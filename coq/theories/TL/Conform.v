(* Schema-level typing: does a schema value conform to a TL type of the parsed schema?
   Completes C02: the bytes of a value are the schema serialisation (SpecProofs) OF A VALUE THE
   SCHEMA ADMITS (this file: abs of a well-typed codec value conforms to the schema type its Go
   type stands for). *)
From Coq Require Import String.
From Coq Require Import ZArith NArith List Lia Bool.
From MTV Require Import Base.Bytes Base.Outcome Base.Str TL.Types TL.Codec TL.Typing TL.TLText TL.Match TL.Spec.
Import ListNotations.
Open Scope N_scope.

Section Conform.
  Variable S : list comb.

  (* arguments against parameters: the `#` parameter takes no argument; a conditional argument
     may be absent; `true` flags carry no value *)
  Section Args.
    Variable conf : ttype -> sval -> bool.
    Fixpoint conf_args (ps : list param) (args : list (option sval)) : bool :=
      match ps with
      | [] => match args with [] => true | _ => false end
      | p :: ps' =>
          match p_ty p with
          | PNat => conf_args ps' args
          | PUnknown => false
          | PPlain t => match args with Some x :: args' => conf t x && conf_args ps' args' | _ => false end
          | PCond _ TTTrue => match args with (Some (SBool true) | None) :: args' => conf_args ps' args' | _ => false end
          | PCond _ t => match args with
                         | Some x :: args' => conf t x && conf_args ps' args'
                         | None :: args' => conf_args ps' args'
                         | [] => false end
          end
      end.
  End Args.

  (* fuel: nesting depth of the value *)
  Fixpoint conforms (fuel : nat) (t : ttype) (v : sval) : bool :=
    match fuel with
    | O => false
    | Datatypes.S f =>
      let obj (want : option bytes) (id : N) (args : list (option sval)) :=
        match find_comb S id with
        | Some c => negb (c_isfun c)
                    && match want with Some n => beq (c_result c) n | None => true end
                    && conf_args (conforms f) (c_params c) args
        | None => false
        end in
      match t, v with
      | TTInt, SInt n => n <? two32
      | TTLong, SLong n | TTDouble, SDouble n => n <? two64
      | TTString, SStr _ | TTBytes, SStr _ => true
      | TTBool, SBool _ => true
      | TTInt128, SBig false n => n <? 256 ^ 16
      | TTInt256, SBig true n => n <? 256 ^ 32
      | TTVector e, SVec l => forallb (conforms f e) l
      | TTNamed n, SCtor id args => obj (Some n) id args
      | TTNamed n, SEnum id => obj (Some n) id []
      | TTVar, SCtor id args | TTObject, SCtor id args => obj None id args
                                                          || match find_comb S id with
                                                             | Some c => c_isfun c && conf_args (conforms f) (c_params c) args
                                                             | None => false end
      | _, _ => false
      end
    end.

  (* a request: a function applied to conforming arguments *)
  Definition conforms_call (fuel : nat) (v : sval) : bool :=
    match v with
    | SCtor id args => match find_comb S id with
                       | Some c => conf_args (conforms fuel) (c_params c) args
                       | None => false end
    | _ => false
    end.
End Conform.

Fixpoint sdepth (v : sval) : nat :=
  match v with
  | SVec l => Datatypes.S (fold_right Nat.max 0%nat (map sdepth l))
  | SCtor _ args => Datatypes.S (fold_right Nat.max 0%nat (map (fun a => match a with Some x => sdepth x | None => 0%nat end) args))
  | _ => 1%nat
  end.
