(* mtproto.go reqMsgIDOf: under which request id the receive loop looks up the decoder hints of an incoming message.

     body := msg.GetMsg()
     if len(body) >= 4 && le32(body) == gzip_packed { unpacked, err := objects.UnpackGzipPacked(body); if err != nil { return 0 }; body = unpacked }
     if len(body) < 12 || le32(body) != rpc_result { return 0 }
     return int(int64(le64(body[4:])))

   The hints a caller registered are stored under the id of ITS request (C09: fixes f4ea8a8, 50f902c, e7f6620 - they used
   to be looked up under the server's msg_id, so every Vector<> result killed the receive loop).  The model returns the
   64-bit pattern; 0 = "no hints" (no request has id 0).  [inflate] is the compress/gzip oracle of TL/Codec.v. *)
From Coq Require Import ZArith NArith List Lia ZifyN ZifyNat ZifyBool Bool.
From MTV Require Import Base.Bytes Base.Outcome TL.Types TL.Codec TL.Typing TL.RoundTrip.
Import ListNotations.
Open Scope N_scope.
Ltac Zify.zify_post_hook ::= Z.div_mod_to_equations.

Definition crc_rpc_result : N := 4082920705. (* 0xf35c6d01 *)

Section ReqId.
Variable inflate : bytes -> option bytes.

Definition result_id (body : bytes) : N :=
  match pop32 body with
  | Some (c, r) => if c =? crc_rpc_result then match pop64 r with Some (id, _) => id | None => 0 end else 0
  | None => 0
  end.

Definition req_msg_id_of (body : bytes) : N :=
  match pop32 body with
  | Some (c, r) =>
      if c =? crc_gzip then
        match pop_bytes r with
        | Some (payload, _) => match inflate payload with Some raw => result_id raw | None => 0 end
        | None => 0
        end
      else result_id body
  | None => 0
  end.

(* rpc_result#f35c6d01 req_msg_id:long result:Object, whatever the result is (object, vector, gzip_packed, garbage) *)
Theorem reqid_of_result : forall id result, id < two64 ->
  req_msg_id_of (le32 crc_rpc_result ++ le64 id ++ result) = id.
Proof.
  intros id result Hid. unfold req_msg_id_of. rewrite pop32_le32 by reflexivity.
  replace (crc_rpc_result =? crc_gzip) with false by reflexivity.
  unfold result_id. rewrite pop32_le32 by reflexivity. rewrite N.eqb_refl.
  rewrite pop64_le64 by (unfold two64, two32 in *; lia). reflexivity.
Qed.

(* gzip_packed{ rpc_result{id, ...} }: the whole answer packed (what servers do with large results) *)
Theorem reqid_of_packed_result : forall id result payload packed tail, id < two64 ->
  inflate payload = Some (le32 crc_rpc_result ++ le64 id ++ result) -> put_bytes payload = Some packed ->
  req_msg_id_of (le32 crc_gzip ++ packed ++ tail) = id.
Proof.
  intros id result payload packed tail Hid Hinf Hput. unfold req_msg_id_of.
  rewrite pop32_le32 by reflexivity. rewrite N.eqb_refl. rewrite (pop_put _ _ tail Hput), Hinf.
  unfold result_id. rewrite pop32_le32 by reflexivity. rewrite N.eqb_refl.
  rewrite pop64_le64 by (unfold two64, two32 in *; lia). reflexivity.
Qed.

(* anything that starts with another constructor id has no hints: updates, service messages, containers *)
Theorem reqid_of_other : forall c rest, c < two32 -> c <> crc_rpc_result -> c <> crc_gzip ->
  req_msg_id_of (le32 c ++ rest) = 0.
Proof.
  intros c rest Hc Hr Hg. unfold req_msg_id_of. rewrite pop32_le32 by exact Hc.
  apply N.eqb_neq in Hg. rewrite Hg. unfold result_id. rewrite pop32_le32 by exact Hc.
  apply N.eqb_neq in Hr. rewrite Hr. reflexivity.
Qed.

(* a packed message that is not a result (or whose packing cannot be undone) has none either *)
Theorem reqid_of_packed_other : forall c rest payload packed tail, c < two32 -> c <> crc_rpc_result ->
  inflate payload = Some (le32 c ++ rest) -> put_bytes payload = Some packed ->
  req_msg_id_of (le32 crc_gzip ++ packed ++ tail) = 0.
Proof.
  intros c rest payload packed tail Hc Hr Hinf Hput. unfold req_msg_id_of.
  rewrite pop32_le32 by reflexivity. rewrite N.eqb_refl. rewrite (pop_put _ _ tail Hput), Hinf.
  unfold result_id. rewrite pop32_le32 by exact Hc. apply N.eqb_neq in Hr. rewrite Hr. reflexivity.
Qed.

(* the id is always a 64-bit pattern (what Go converts to int64 and, on 64-bit platforms, to int without loss) *)
Lemma of_le32_lt a b c d : a < 256 -> b < 256 -> c < 256 -> d < 256 -> of_le32 a b c d < two32.
Proof. unfold of_le32, two32. intros. lia. Qed.

End ReqId.

(* the hypotheses are met: a result carrying a vector, plain and packed (toy oracle: payload [9] inflates to the result) *)
Example reqid_example :
  let res := le32 crc_rpc_result ++ le64 18446744073709551612 ++ le32 crc_vector ++ le32 0 in
  let infl := fun p => match p with [9] => Some res | _ => None end in
  req_msg_id_of infl res = 18446744073709551612 /\
  req_msg_id_of infl (le32 crc_gzip ++ [1; 9; 0; 0]) = 18446744073709551612 /\
  req_msg_id_of infl (le32 crc_gzip ++ [1; 8; 0; 0]) = 0 /\
  req_msg_id_of infl (le32 crc_gzip) = 0 /\ req_msg_id_of infl [1; 2; 3] = 0 /\
  req_msg_id_of infl (le32 crc_rpc_result ++ [1; 2; 3; 4; 5; 6; 7]) = 0.
Proof. vm_compute. repeat split. Qed.
