(* C13: parameter names.  The generator derives a Go field name from each schema parameter name
   (snake_case -> CamelCase with initialisms); two parameters of the same type swapped in a struct
   are invisible to the layout matcher, so names are compared too, modulo case and underscores. *)
From Coq Require Import NArith List Bool.
From MTV Require Import Base.Bytes TL.TLText.
Import ListNotations.
Open Scope N_scope.

Definition lower_ascii (c : N) : N := if (65 <=? c) && (c <=? 90) then c + 32 else c.
Definition norm_name (s : bytes) : bytes := map lower_ascii (filter (fun c => negb (c =? 95)) s).

Fixpoint names_agree (ps : list param) (ns : list bytes) : bool :=
  match ps with
  | [] => match ns with [] => true | _ => false end
  | p :: ps' =>
      match p_ty p with
      | PNat => names_agree ps' ns
      | _ => match ns with
             | n :: ns' => beq (norm_name (p_name p)) (norm_name n) && names_agree ps' ns'
             | [] => false
             end
      end
  end.

(* reading: the non-`#` parameters and the field names correspond one to one, in order *)
Lemma names_agree_spec ps ns : names_agree ps ns = true <->
  Forall2 (fun p n => norm_name (p_name p) = norm_name n)
          (filter (fun p => match p_ty p with PNat => false | _ => true end) ps) ns.
Proof.
  revert ns; induction ps as [|p ps IH]; intros ns; cbn [names_agree filter].
  - destruct ns; split; intros H; try constructor; try discriminate; inversion H.
  - destruct (p_ty p) eqn:E; try apply IH;
      (destruct ns as [|n ns]; [split; [discriminate|intros H; inversion H]|];
       rewrite andb_true_iff, beq_eq, IH; split;
       [intros [H1 H2]; constructor; assumption | intros H; inversion H; subst; split; assumption]).
Qed.

(* ---- constructor / function names against Go identifiers ----
   The generator derives the Go identifier from the schema name: dots and underscores dropped,
   CamelCase (`messages.getDialogs` -> `MessagesGetDialogs`); a constructor whose name collides with
   its boxed type gets the suffix `Obj`, a function's parameter struct the suffix `Params`.
   Two constructors of one type with the same layout (messageEntityBold / messageEntityItalic,
   the values of an enum) are indistinguishable to the layout matcher: if their ids were swapped,
   only the identifier under which the programmer finds them tells. *)
Definition norm_ident (s : bytes) : bytes :=
  map lower_ascii (filter (fun c => negb (c =? 95) && negb (c =? 46)) s).

Definition suffix_obj : bytes := [111; 98; 106].                     (* "obj" *)
Definition suffix_params : bytes := [112; 97; 114; 97; 109; 115].    (* "params" *)

(* does the Go identifier [g] name the schema combinator [c]? *)
Definition ident_names (c : comb) (g : bytes) : bool :=
  let n := norm_ident (c_name c) in
  let g' := norm_ident g in
  if c_isfun c then beq g' (n ++ suffix_params)
  else beq g' n || beq g' (n ++ suffix_obj).

Lemma ident_names_spec c g : ident_names c g = true <->
  (c_isfun c = true /\ norm_ident g = norm_ident (c_name c) ++ suffix_params) \/
  (c_isfun c = false /\ (norm_ident g = norm_ident (c_name c) \/ norm_ident g = norm_ident (c_name c) ++ suffix_obj)).
Proof.
  unfold ident_names. destruct (c_isfun c).
  - rewrite beq_eq. split; [intros H; left; split; [reflexivity|exact H]|intros [[_ H]|[H _]]; [exact H|discriminate]].
  - rewrite orb_true_iff, !beq_eq. split; [intros H; right; split; [reflexivity|exact H]|intros [[H _]|[_ H]]; [discriminate|exact H]].
Qed.

(* an enum constant: Go identifier and value, read from the Go source of the package *)
Definition const_names (c : comb) (consts : list (bytes * N)) : bool :=
  existsb (fun kv => (snd kv =? c_id c) && beq (norm_ident (fst kv)) (norm_ident (c_name c))) consts
  && forallb (fun kv => negb (snd kv =? c_id c) || beq (norm_ident (fst kv)) (norm_ident (c_name c))) consts.

(* ---- interface of the result type ----
   The generator creates one Go interface per schema type that has several constructors and makes
   every constructor's struct implement it (marker method ImplementsT).  The interface is found by
   its name: position of the first Go name that reads like the schema type name. *)
Fixpoint index_of_ident (t : bytes) (names : list bytes) (i : N) : option N :=
  match names with
  | [] => None
  | n :: r => if beq (norm_ident n) (norm_ident t) then Some i else index_of_ident t r (i + 1)
  end.

From Coq Require Import Lia.
Lemma index_of_ident_spec t names : forall i j, index_of_ident t names i = Some j ->
  i <= j /\ norm_ident (nth (N.to_nat (j - i)) names []) = norm_ident t.
Proof.
  induction names as [|n r IH]; intros i j H; cbn [index_of_ident] in H; [discriminate|].
  destruct (beq (norm_ident n) (norm_ident t)) eqn:E.
  - injection H as <-. split; [apply N.le_refl|]. rewrite N.sub_diag. cbn [N.to_nat nth]. apply beq_eq. exact E.
  - destruct (IH _ _ H) as [Hle Hn]. split; [lia|].
    replace (N.to_nat (j - i)) with (S (N.to_nat (j - (i + 1)))) by lia.
    cbn [nth]. exact Hn.
Qed.

Lemma index_of_ident_none t names i : index_of_ident t names i = None ->
  forall n, In n names -> norm_ident n <> norm_ident t.
Proof.
  revert i; induction names as [|x r IH]; intros i H n Hin; [destruct Hin|].
  cbn [index_of_ident] in H. destruct (beq (norm_ident x) (norm_ident t)) eqn:E; [discriminate|].
  destruct Hin as [<-|Hin]; [|exact (IH _ H n Hin)].
  intros Heq. apply beq_eq in Heq. rewrite Heq in E. discriminate.
Qed.

(* the struct implements exactly tl.Object (index 0) and, when its result type has an interface,
   that interface: [impls] is the ascending list of interface indices the struct implements *)
Fixpoint eq_nlist (a b : list N) : bool :=
  match a, b with
  | [], [] => true
  | x :: a', y :: b' => (x =? y) && eq_nlist a' b'
  | _, _ => false
  end.

Lemma eq_nlist_eq a b : eq_nlist a b = true <-> a = b.
Proof.
  revert b; induction a as [|x a IH]; intros [|y b]; cbn [eq_nlist]; try (split; congruence).
  rewrite andb_true_iff, N.eqb_eq, IH. split; [intros [-> ->]; reflexivity|intros H; injection H; auto].
Qed.

Definition result_iface_ok (ifaces : list bytes) (result : bytes) (needs_iface : bool) (impls : list N) : bool :=
  match index_of_ident result ifaces 0 with
  | Some j => eq_nlist impls (if j =? 0 then [0] else [0; j])
  | None => negb needs_iface && eq_nlist impls [0]
  end.

(* reading: when the type needs an interface, one with its name exists and the struct implements it *)
Lemma result_iface_ok_spec ifaces result impls : result_iface_ok ifaces result true impls = true ->
  exists j, norm_ident (nth (N.to_nat j) ifaces []) = norm_ident result /\ In j impls.
Proof.
  unfold result_iface_ok. destruct (index_of_ident result ifaces 0) as [j|] eqn:E; [|discriminate].
  intros H. exists j. destruct (index_of_ident_spec _ _ _ _ E) as [_ Hn]. rewrite N.sub_0_r in Hn. split; [exact Hn|].
  apply eq_nlist_eq in H. subst impls. destruct (j =? 0) eqn:Ej; [apply N.eqb_eq in Ej; subst j; left; reflexivity|right; left; reflexivity].
Qed.

(* duplicates of a list of numbers / of names (for the "exactly one" half) *)
Fixpoint dups_n (l : list N) : list N :=
  match l with [] => [] | x :: r => if existsb (N.eqb x) r then x :: dups_n r else dups_n r end.

Lemma dups_n_nil l : dups_n l = [] -> NoDup l.
Proof.
  induction l as [|x r IH]; intros H; [constructor|]. cbn [dups_n] in H.
  destruct (existsb (N.eqb x) r) eqn:E; [discriminate|]. constructor; [|exact (IH H)].
  intros Hin. assert (existsb (N.eqb x) r = true) by (apply existsb_exists; exists x; split; [exact Hin|apply N.eqb_refl]). congruence.
Qed.
