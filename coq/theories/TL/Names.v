(* C13: parameter names.  The generator derives a Go field name from each schema parameter name
   (snake_case -> CamelCase with initialisms); two parameters of the same type swapped in a struct
   are invisible to the layout matcher, so names are compared too, modulo case and underscores. *)
From Coq Require Import NArith List Bool.
From MTV Require Import Base.Bytes TL.TLText.
Import ListNotations.
Open Scope N_scope.

Definition lower_ascii (c : N) : N := if (65 <=? c) && (c <=? 90) then c + 32 else c.
Definition norm_name (s : bytes) : bytes := map lower_ascii (filter (fun c => negb (c =? 95)) s).

Fixpoint names_agree (ps : list param) (ns : list bytes) : bool :=
  match ps with
  | [] => match ns with [] => true | _ => false end
  | p :: ps' =>
      match p_ty p with
      | PNat => names_agree ps' ns
      | _ => match ns with
             | n :: ns' => beq (norm_name (p_name p)) (norm_name n) && names_agree ps' ns'
             | [] => false
             end
      end
  end.

(* reading: the non-`#` parameters and the field names correspond one to one, in order *)
Lemma names_agree_spec ps ns : names_agree ps ns = true <->
  Forall2 (fun p n => norm_name (p_name p) = norm_name n)
          (filter (fun p => match p_ty p with PNat => false | _ => true end) ps) ns.
Proof.
  revert ns; induction ps as [|p ps IH]; intros ns; cbn [names_agree filter].
  - destruct ns; split; intros H; try constructor; try discriminate; inversion H.
  - destruct (p_ty p) eqn:E; try apply IH;
      (destruct ns as [|n ns]; [split; [discriminate|intros H; inversion H]|];
       rewrite andb_true_iff, beq_eq, IH; split;
       [intros [H1 H2]; constructor; assumption | intros H; inversion H; subst; split; assumption]).
Qed.
