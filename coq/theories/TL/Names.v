(* C13: parameter names.  The generator derives a Go field name from each schema parameter name
   (snake_case -> CamelCase with initialisms); two parameters of the same type swapped in a struct
   are invisible to the layout matcher, so names are compared too, modulo case and underscores. *)
From Coq Require Import NArith List Bool.
From MTV Require Import Base.Bytes TL.TLText.
Import ListNotations.
Open Scope N_scope.

Definition lower_ascii (c : N) : N := if (65 <=? c) && (c <=? 90) then c + 32 else c.
Definition norm_name (s : bytes) : bytes := map lower_ascii (filter (fun c => negb (c =? 95)) s).

Fixpoint names_agree (ps : list param) (ns : list bytes) : bool :=
  match ps with
  | [] => match ns with [] => true | _ => false end
  | p :: ps' =>
      match p_ty p with
      | PNat => names_agree ps' ns
      | _ => match ns with
             | n :: ns' => beq (norm_name (p_name p)) (norm_name n) && names_agree ps' ns'
             | [] => false
             end
      end
  end.

(* reading: the non-`#` parameters and the field names correspond one to one, in order *)
Lemma names_agree_spec ps ns : names_agree ps ns = true <->
  Forall2 (fun p n => norm_name (p_name p) = norm_name n)
          (filter (fun p => match p_ty p with PNat => false | _ => true end) ps) ns.
Proof.
  revert ns; induction ps as [|p ps IH]; intros ns; cbn [names_agree filter].
  - destruct ns; split; intros H; try constructor; try discriminate; inversion H.
  - destruct (p_ty p) eqn:E; try apply IH;
      (destruct ns as [|n ns]; [split; [discriminate|intros H; inversion H]|];
       rewrite andb_true_iff, beq_eq, IH; split;
       [intros [H1 H2]; constructor; assumption | intros H; inversion H; subst; split; assumption]).
Qed.

(* ---- constructor / function names against Go identifiers ----
   The generator derives the Go identifier from the schema name: dots and underscores dropped,
   CamelCase (`messages.getDialogs` -> `MessagesGetDialogs`); a constructor whose name collides with
   its boxed type gets the suffix `Obj`, a function's parameter struct the suffix `Params`.
   Two constructors of one type with the same layout (messageEntityBold / messageEntityItalic,
   the values of an enum) are indistinguishable to the layout matcher: if their ids were swapped,
   only the identifier under which the programmer finds them tells. *)
Definition norm_ident (s : bytes) : bytes :=
  map lower_ascii (filter (fun c => negb (c =? 95) && negb (c =? 46)) s).

Definition suffix_obj : bytes := [111; 98; 106].                     (* "obj" *)
Definition suffix_params : bytes := [112; 97; 114; 97; 109; 115].    (* "params" *)

(* does the Go identifier [g] name the schema combinator [c]? *)
Definition ident_names (c : comb) (g : bytes) : bool :=
  let n := norm_ident (c_name c) in
  let g' := norm_ident g in
  if c_isfun c then beq g' (n ++ suffix_params)
  else beq g' n || beq g' (n ++ suffix_obj).

Lemma ident_names_spec c g : ident_names c g = true <->
  (c_isfun c = true /\ norm_ident g = norm_ident (c_name c) ++ suffix_params) \/
  (c_isfun c = false /\ (norm_ident g = norm_ident (c_name c) \/ norm_ident g = norm_ident (c_name c) ++ suffix_obj)).
Proof.
  unfold ident_names. destruct (c_isfun c).
  - rewrite beq_eq. split; [intros H; left; split; [reflexivity|exact H]|intros [[_ H]|[H _]]; [exact H|discriminate]].
  - rewrite orb_true_iff, !beq_eq. split; [intros H; right; split; [reflexivity|exact H]|intros [[H _]|[_ H]]; [discriminate|exact H]].
Qed.

(* an enum constant: Go identifier and value, read from the Go source of the package *)
Definition const_names (c : comb) (consts : list (bytes * N)) : bool :=
  existsb (fun kv => (snd kv =? c_id c) && beq (norm_ident (fst kv)) (norm_ident (c_name c))) consts
  && forallb (fun kv => negb (snd kv =? c_id c) || beq (norm_ident (fst kv)) (norm_ident (c_name c))) consts.
