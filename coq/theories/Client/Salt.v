(* Client/Salt.v - salt rotation (C11) over all histories of Client/Live.v.
   InvN: the notification pc always names one registered waiter; a request whose waiter was told to
         retry ("rejected") leaves the table for good, is told so at most once, and is never answered.
   InvR: the frames one call puts on the wire: all but the newest were rejected by the server
         (so an accepted request is never written twice), the call returns under its newest id.
   InvS: which salt every frame carries: the one of the latest adoption (bad_server_salt,
         new_session_created, key exchange) made before it was written; every adoption is saved. *)
From Coq Require Import ZArith List Bool Lia Arith Sorted.
From MTV Require Import Client.Model Client.StepLemmas Client.SeqNo Client.Routing Client.Live Client.LiveInv.
Import ListNotations.
Open Scope Z_scope.
Local Opaque wrap32 fresh_id.
Arguments Z.lor : simpl never.

(* ---- retry events --------------------------------------------------------------------------- *)

Definition on_call (w : wframe) (t k : nat) : Prop := exists h, w_kind w = WReq t k h.
Definition cur (b : state) (t : nat) (i : Z) : Prop :=
  c_pc (getc t b) = CWritten i \/ c_pc (getc t b) = CRecv i.
Definition sent_id (b : state) (i : Z) : Prop := exists w, In w (wire b) /\ w_id w = i.

(* ---- InvN ------------------------------------------------------------------------------------ *)

Record InvN (b : state) : Prop := {
  n_alive : rx b <> RDead;
  n_notify : forall keys ks, rx b = RNotify keys ks ->
     exists i ch, keys = [i] /\ In (i, ch) (table b) /\ rejected b i;
  n_gone : forall i, rejected b i -> ~ In i (map fst (table b)) \/ exists ks, rx b = RNotify [i] ks;
  n_sent : forall i, rejected b i -> sent_id b i;
  n_once : NoDup (retries (elog b));
  n_rets : forall t k i r, In (t, k, i, r) (rets b) -> ~ rejected b i
}.

Lemma InvN_init : InvN init.
Proof.
  constructor; simpl; unfold rejected; simpl; intros; try tauto; try discriminate. constructor.
Qed.

Definition plain_rx (r : rpc) : Prop :=
  match r with RNotify _ _ | RDead => False | _ => True end.

(* steps that leave table, completed calls and retry events alone and do not involve the notify pc *)
Lemma InvN_mono : forall b b',
  table b' = table b -> rets b' = rets b -> retries (elog b') = retries (elog b) ->
  (forall w, In w (wire b) -> In w (wire b')) ->
  (rx b' = rx b \/ (plain_rx (rx b) /\ plain_rx (rx b'))) ->
  InvN b -> InvN b'.
Proof.
  intros b b' Ht Hr He Hw Hx [A N G S O R].
  assert (RJ : forall i, rejected b' i <-> rejected b i).
  { intros i. unfold rejected. rewrite <- !In_retries, He. tauto. }
  constructor; rewrite ?Ht, ?Hr, ?He; auto.
  - destruct Hx as [E|[P P']]; [rewrite E; auto|]. intro X. rewrite X in P'. destruct P'.
  - intros keys ks X. destruct Hx as [E|[P P']]; [|rewrite X in P'; destruct P'].
    rewrite E in X. destruct (N _ _ X) as (i & ch & E1 & E2 & E3). exists i, ch. rewrite RJ. auto.
  - intros i X. apply RJ in X. destruct (G _ X) as [Y|[ks Y]]; auto.
    destruct Hx as [E|[P P']]; [right; exists ks; congruence|rewrite Y in P; destruct P].
  - intros i X. apply RJ in X. destruct (S _ X) as (w & W1 & W2). exists w. auto.
  - intros t k i r X Y. apply RJ in Y. eapply R; eauto.
Qed.

(* ---- InvR ------------------------------------------------------------------------------------ *)

Record InvR (b : state) : Prop := {
  r_le : forall w t k, In w (wire b) -> on_call w t k -> (k <= c_k (getc t b))%nat;
  r_send : forall w t, In w (wire b) -> on_call w t (c_k (getc t b)) -> sending (c_pc (getc t b)) ->
     rejected b (w_id w);
  r_cur : forall w t i, In w (wire b) -> on_call w t (c_k (getc t b)) -> cur b t i ->
     w_id w = i \/ (rejected b (w_id w) /\ w_id w < i);
  r_pair : forall w1 w2 t k, In w1 (wire b) -> In w2 (wire b) -> on_call w1 t k -> on_call w2 t k ->
     w_id w1 < w_id w2 -> rejected b (w_id w1);
  r_done : forall t k i r, In (t, k, i, r) (rets b) ->
     (k < c_k (getc t b))%nat \/ (k = c_k (getc t b) /\ c_pc (getc t b) = CIdle);
  r_ret : forall t k i r w, In (t, k, i, r) (rets b) -> In w (wire b) -> on_call w t k -> w_id w <= i
}.

Lemma InvR_init : InvR init.
Proof. constructor; simpl; intros; tauto. Qed.

(* steps that add no request frame and no completed call, and move no caller into the send path,
   onto a current id, or to idle *)
Lemma InvR_mono : forall b b',
  (forall w, In w (wire b) -> In w (wire b')) ->
  (forall w, In w (wire b') -> In w (wire b) \/ forall t k, ~ on_call w t k) ->
  rets b' = rets b ->
  (forall i, rejected b i -> rejected b' i) ->
  (forall t, c_k (getc t b') = c_k (getc t b) /\
             (sending (c_pc (getc t b')) -> sending (c_pc (getc t b))) /\
             (forall i, cur b' t i -> cur b t i) /\
             (c_pc (getc t b) = CIdle -> c_pc (getc t b') = CIdle)) ->
  InvR b -> InvR b'.
Proof.
  intros b b' Hw Hw' Hr Hj Hc [L S C P D R].
  assert (OLD : forall w t k, In w (wire b') -> on_call w t k -> In w (wire b)).
  { intros w t k W O. destruct (Hw' _ W) as [X|X]; auto. destruct (X _ _ O). }
  constructor; rewrite ?Hr.
  - intros w t k W O. destruct (Hc t) as (K & _). rewrite K. eapply L; eauto.
  - intros w t W O Sd. destruct (Hc t) as (K & S' & _). rewrite K in O. apply Hj. eapply S; eauto.
  - intros w t i W O Cu. destruct (Hc t) as (K & _ & C' & _). rewrite K in O.
    destruct (C w t i) as [E|[E1 E2]]; eauto.
  - intros w1 w2 t k W1 W2 O1 O2 Lt. apply Hj. eapply P; eauto.
  - intros t k i r X. destruct (Hc t) as (K & _ & _ & I). rewrite K.
    destruct (D _ _ _ _ X) as [Y|[Y1 Y2]]; auto.
  - intros t k i r w X W O. eapply R; eauto.
Qed.

(* ---- transitions taken over from Client/Model.v ------------------------------------------- *)

Lemma settle_plain : forall ks, plain_rx (settle ks).
Proof.
  intros ks. destruct (settle_cases ks) as [E|[(f & r & E)|(sid & r & E)]]; rewrite E; exact I.
Qed.

Lemma In_lookup : forall i c tb, In (i, c) tb -> exists c', lookup i tb = Some c'.
Proof.
  induction tb as [|[j d] r IH]; simpl; intros H; [tauto|].
  destruct (Z.eqb_spec i j); eauto. destruct H as [H|H]; [inversion H; congruence|auto].
Qed.

Lemma not_key_del : forall i j tb, ~ In j (map fst tb) -> ~ In j (map fst (del_key i tb)).
Proof. intros i j tb H X. apply keys_del_key in X. tauto. Qed.

Lemma sent_req_id : forall b i t k h, sent_req b i t k h -> sent_id b i.
Proof. intros b i t k h (w & W1 & W2 & _). exists w. auto. Qed.

Lemma InvN_step1 : forall b l b', InvA b -> InvC b -> InvN b -> old_ok b l -> step b l = Some b' -> InvN b'.
Proof.
  intros b l b' IA IC IN OK H. pose proof IN as [A N G S O R].
  destruct l as [t h|[t|] clk|f|].
  - (* LCall *) step_cases H. apply (InvN_mono b); auto.
  - step_cases H.
    + (* acquire *) apply (InvN_mono b); auto.
    + (* write *)
      assert (FR : forall j, sent_id b j -> j < i).
      { intros j (w & W1 & W2). subst j. apply (a_reg _ IA i); auto. left. exists t. auto. }
      constructor; unfold rejected, sent_id, wire in *; norm; auto.
      * intros keys ks X. destruct (N _ _ X) as (i0 & ch & E1 & E2 & E3). exists i0, ch. simpl. auto.
      * intros i0 [X|X]; [discriminate|]. destruct (G _ X) as [Y|Y]; auto. left. simpl. intros [Z|Z]; auto.
        subst i0. apply S in X. apply FR in X. lia.
      * intros i0 [X|X]; [discriminate|]. destruct (S _ X) as (w & W1 & W2). exists w. simpl. auto.
      * intros t0 k0 i0 r0 X [Y|Y]; [discriminate|]. eapply R; eauto.
    + (* release *) apply (InvN_mono b); auto.
  - (* receive loop *) simpl in OK. step_cases H; try (destruct OK; fail).
    + (* read *) apply (InvN_mono b); auto. right. rewrite Heqr. simpl. auto.
    + (* reconnect *) apply (InvN_mono b); auto. right. rewrite Heqr. simpl. auto.
    + (* deliver, value returned *)
      apply Nat.eqb_eq in Heqb0. destruct (c_deliver _ IC _ _ _ _ Heqr) as (D1 & D2 & D3).
      destruct (c_owner _ IC _ _ _ D1) as (K & P & h0 & S0).
      assert (i = req) by (rewrite Heqc0 in P; destruct P as [P|P]; inversion P; auto). subst i.
      constructor; unfold rejected, sent_id, wire in *; norm; auto.
      * intro X. pose proof (settle_plain ks) as Q. rewrite X in Q. destruct Q.
      * intros keys k2 X. pose proof (settle_plain ks) as Q. rewrite X in Q. destruct Q.
      * intros i0 X. destruct (G _ X) as [Y|[k2 Y]]; [|congruence]. left. apply not_key_del; auto.
      * intros t0 k0 i0 r0 [X|X]; [|eapply R; eauto]. inversion X; subst. intro Y.
        destruct (G _ Y) as [Z|[k2 Z]]; [|congruence]. apply Z. apply in_map_iff. eexists. split; [|exact D1]. reflexivity.
    + (* deliver, stuck *)
      constructor; unfold rejected, sent_id, wire in *; norm; auto.
      * intro X. pose proof (settle_plain ks) as Q. rewrite X in Q. destruct Q.
      * intros keys k2 X. pose proof (settle_plain ks) as Q. rewrite X in Q. destruct Q.
      * intros i0 X. destruct (G _ X) as [Y|[k2 Y]]; [|congruence]. left. apply not_key_del; auto.
    + (* rx acquire *) apply (InvN_mono b); auto. right. rewrite Heqr. simpl. auto.
    + (* rx write *) apply (InvN_mono b); auto; unfold wire; simpl; auto. right. rewrite Heqr. simpl. auto.
    + (* rx release *) apply (InvN_mono b); auto. right. rewrite Heqr. simpl. auto.
    + (* ack received *) apply (InvN_mono b); auto. right. rewrite Heqr. simpl. split; auto. apply settle_plain.
  - step_cases H. apply (InvN_mono b); auto.
  - step_cases H. apply (InvN_mono b); auto.
Qed.

Lemma InvN_step2i : forall s l s', InvA (base s) -> InvC (base s) -> InvN (base s) ->
  step2i s l = Some s' -> InvN (base s').
Proof.
  intros s l s' IA IC IN H. pose proof IN as [A N G S O R]. apply step2_inv in H. destruct H.
  - eapply InvN_step1; eauto. apply lifted_old_ok; auto.
  - exact IN.
  - apply (InvN_mono (base s)); auto.
  - rewrite base_warn2. apply (InvN_mono (base s)); auto.
  - (* dispatch *)
    pose proof (dispatch2_ok f ks s) as D. set (b' := base (dispatch2 f ks s)) in *.
    assert (NN : forall j, rejected (base s) j -> ~ In j (map fst (table (base s)))).
    { intros j X. destruct (G _ X) as [Y|[k2 Y]]; auto. congruence. }
    constructor.
    + destruct (d_rx _ _ D) as [(k & E)|[(r & c & v & k & E & _)|(i & c & k & E & _)]]; rewrite E; try discriminate.
      intro X. pose proof (settle_plain k) as Q. rewrite X in Q. destruct Q.
    + intros keys k2 X.
      destruct (d_rx _ _ D) as [(k & E)|[(r & c & v & k & E & _)|(i & c & k & E & I1 & I2)]]; rewrite E in X.
      * pose proof (settle_plain k) as Q. rewrite X in Q. destruct Q.
      * discriminate.
      * inversion X; subst. exists i, c. rewrite (d_table _ _ D). auto.
    + intros j X. rewrite (d_table _ _ D). destruct (d_rej _ _ D _ X) as [Y|(ch & k2 & Y & _)]; eauto.
    + intros j X. destruct (d_rej _ _ D _ X) as [Y|(ch & k2 & _ & Y)].
      * destruct (S _ Y) as (w & W1 & W2). exists w. rewrite (d_wire _ _ D). auto.
      * destruct ch as [t0 k0]. destruct (c_owner _ IC _ _ _ Y) as (_ & _ & h & (w & W1 & W2 & _)). exists w. rewrite (d_wire _ _ D). auto.
    + destruct (d_retries _ _ D) as [E|(j & ch & E & I1)]; rewrite E; auto.
      constructor; auto. intro X. apply In_retries in X. apply NN in X. apply X.
      apply in_map_iff. exists (j, ch). auto.
    + intros t k i r X Y. rewrite (d_rets _ _ D) in X. destruct (d_rej _ _ D _ Y) as [Z|(ch & k2 & _ & Z)].
      * eapply R; eauto.
      * destruct (c_rets _ IC _ _ _ _ X) as [_ NI]. apply NI. apply in_map_iff. exists (i, ch). auto.
  - destruct (N _ _ H0) as (i & ch & E & _). discriminate.
  - (* notify *)
    destruct (N _ _ H0) as (i0 & ch & E & I1 & I2). inversion E; subst i0.
    apply notify_b_inv in H1. destruct H1 as [[L _]|(t & k & j & L & P & K & E')].
    + destruct (In_lookup _ _ _ I1) as (c' & X). congruence.
    + subst b'. cbn [base wb]. constructor; unfold rejected, sent_id, wire in *; norm; auto.
      * intro X. pose proof (settle_plain ks) as Q. rewrite X in Q. destruct Q.
      * intros keys k2 X. pose proof (settle_plain ks) as Q. rewrite X in Q. destruct Q.
      * intros i0 X. left. destruct (G _ X) as [Y|[k2 Y]]; [apply not_key_del; auto|].
        rewrite H0 in Y. inversion Y; subst. intro Z. apply keys_del_key in Z. tauto.
  - apply (InvN_mono (base s)); auto. right. rewrite H0. simpl. auto.
Qed.

(* ---- InvR over the transitions ---------------------------------------------------------------- *)

Lemma on_call_ack : forall i q x sid t k,
  ~ on_call {| w_id := i; w_seq := q; w_salt := x; w_kind := WAck sid |} t k.
Proof. intros i q x sid t k (h & E). discriminate. Qed.

Lemma InvR_step1 : forall b l b', InvA b -> InvC b -> InvN b -> InvR b -> old_ok b l ->
  step b l = Some b' -> InvR b'.
Proof.
  intros b l b' IA IC IN IR OK H. pose proof IR as [L S C P D R].
  destruct l as [t h|[t|] clk|f|].
  - (* LCall *) step_cases H.
    constructor; unfold rejected, sent_id, wire, cur in *; intros; norm.
    + eqt; simpl; eauto.
    + eqt; simpl in *; eauto. specialize (L _ _ _ H H0). unfold getc in L. lia.
    + eqt; simpl in *; eauto. destruct H1; discriminate.
    + eauto.
    + eqt; simpl; eauto. destruct (D _ _ _ _ H) as [X|[X _]]; unfold getc in X; left; lia.
    + eauto.
  - step_cases H.
    + (* acquire *) apply (InvR_mono b); auto. intros t0. unfold cur. norm. eqt; simpl; [|tauto].
      unfold getc in Heqc. rewrite Heqc. split; auto. split; [intros _; left; auto|].
      split; [intros ? [X|X]; discriminate|discriminate].
    + (* write *)
      assert (FR : forall w, In w (wire b) -> w_id w < i).
      { intros w W. apply (a_reg _ IA i); auto. left. exists t. auto. }
      assert (SD : sending (c_pc (getc t b))) by (right; exists i; auto).
      constructor; unfold rejected, sent_id, wire, cur in *; intros; norm.
      * destruct H as [H|H].
        -- subst w. destruct H0 as (h & E). simpl in E. inversion E; subst. rewrite Nat.eqb_refl. simpl. lia.
        -- eqt; simpl; eauto.
      * right. eqt; simpl in *.
        -- destruct H1 as [H1|[? H1]]; discriminate.
        -- destruct H as [H|H]; [subst w; destruct H0 as (h & E); simpl in E; inversion E; congruence|].
           specialize (S _ _ H H0 H1). auto.
      * eqt; simpl in *.
        -- destruct H1 as [H1|H1]; inversion H1; subst i0.
           destruct H as [H|H]; [subst w; auto|]. right. split; [right; apply (S w t); auto|apply FR; auto].
        -- destruct H as [H|H]; [subst w; destruct H0 as (h & E); simpl in E; inversion E; congruence|].
           destruct (C _ _ _ H H0 H1) as [X|[X Y]]; auto.
      * right. destruct H as [H|H], H0 as [H0|H0].
        -- subst. lia.
        -- subst w1. apply FR in H0. simpl in H3. lia.
        -- subst w2. destruct H2 as (h2 & E2). simpl in E2. inversion E2; subst.
           eapply S; eauto.
        -- eapply P; eauto.
      * eqt; simpl; eauto. destruct (D _ _ _ _ H) as [X|[X Y]]; auto. unfold getc in Y. rewrite Heqc in Y. discriminate.
      * destruct H0 as [H0|H0]; [|eauto]. subst w. destruct H1 as (h & E). simpl in E. inversion E; subst.
        destruct (D _ _ _ _ H) as [X|[X Y]]; [lia|]. unfold getc in Y. rewrite Heqc in Y. discriminate.
    + (* release *) apply (InvR_mono b); auto. intros t0. unfold cur. norm. eqt; simpl; [|tauto].
      unfold getc in Heqc. rewrite Heqc. split; auto. split; [intros [X|[? X]]; discriminate|].
      split; [intros ? [X|X]; inversion X; subst; left; auto|discriminate].
  - (* receive loop *) simpl in OK. step_cases H; try (destruct OK; fail).
    + apply (InvR_mono b); auto.
    + apply (InvR_mono b); auto.
    + (* deliver, value returned *)
      apply Nat.eqb_eq in Heqb0. destruct (c_deliver _ IC _ _ _ _ Heqr) as (D1 & D2 & D3).
      destruct (c_owner _ IC _ _ _ D1) as (K & PP & h0 & S0).
      assert (i = req) by (rewrite Heqc0 in PP; destruct PP as [X|X]; inversion X; auto). subst i.
      constructor; unfold rejected, sent_id, wire, cur in *; intros; norm.
      * eqt; simpl; eauto.
      * eqt; simpl in *; eauto. destruct H1 as [X|[? X]]; discriminate.
      * eqt; simpl in *; eauto. destruct H1; discriminate.
      * eauto.
      * destruct H as [H|H].
        -- inversion H; subst. rewrite Nat.eqb_refl. simpl. right. auto.
        -- eqt; simpl; eauto. destruct (D _ _ _ _ H) as [X|[X Y]]; auto.
      * destruct H as [H|H]; [|eauto]. inversion H; subst.
        destruct (C _ _ _ H0 H1 PP) as [X|[_ X]]; lia.
    + (* deliver, stuck *)
      apply Nat.eqb_eq in Heqb0. apply (InvR_mono b); auto. intros t0. unfold cur. norm. eqt; simpl; [|tauto].
      unfold getc in Heqc0. rewrite Heqc0. split; auto. split; [intros [X|[? X]]; discriminate|].
      split; [intros ? [X|X]; discriminate|discriminate].
    + apply (InvR_mono b); auto.
    + (* rx write *) apply (InvR_mono b); unfold wire, rejected; simpl; auto.
      intros w [X|X]; auto. right. subst w. intros t k. apply on_call_ack.
    + apply (InvR_mono b); auto.
    + apply (InvR_mono b); auto.
  - step_cases H. apply (InvR_mono b); auto.
  - step_cases H. apply (InvR_mono b); auto.
Qed.

Lemma InvR_step2i : forall s l s', InvA (base s) -> InvC (base s) -> InvN (base s) -> InvR (base s) ->
  step2i s l = Some s' -> InvR (base s').
Proof.
  intros s l s' IA IC IN IR H. pose proof IR as [L S C P D R]. apply step2_inv in H. destruct H.
  - eapply InvR_step1; eauto. apply lifted_old_ok; auto.
  - exact IR.
  - apply (InvR_mono (base s)); auto.
  - rewrite base_warn2. apply (InvR_mono (base s)); auto.
  - pose proof (dispatch2_ok f ks s) as DS. apply (InvR_mono (base s)).
    + rewrite (d_wire _ _ DS). auto.
    + rewrite (d_wire _ _ DS). auto.
    + apply DS.
    + unfold rejected. intros i. apply (d_elog _ _ DS).
    + intros t. unfold cur, getc. rewrite (d_callers _ _ DS). tauto.
    + auto.
  - apply (InvR_mono (base s)); auto.
  - (* notify *)
    destruct (n_notify _ IN _ _ H0) as (i0 & ch & E & I1 & I2). inversion E; subst i0.
    apply notify_b_inv in H1. destruct H1 as [[_ E']|(t & k & j & LK & PC & K & E')]; subst b'; cbn [base wb].
    + apply (InvR_mono (base s)); auto.
    + apply lookup_In in LK. destruct (c_owner _ IC _ _ _ LK) as (_ & PP & _).
      assert (j = i) by (rewrite PC in PP; destruct PP as [X|X]; inversion X; auto). subst j.
      constructor; unfold rejected, sent_id, wire, cur in *; intros; norm.
      * eqt; simpl; eauto.
      * eqt; simpl in *; eauto.
        destruct (C _ _ _ H1 H2 PP) as [X|[X _]]; [rewrite X; auto|auto].
      * eqt; simpl in *; eauto. destruct H3; discriminate.
      * eauto.
      * eqt; simpl; eauto. destruct (D _ _ _ _ H1) as [X|[X Y]]; auto.
        unfold getc in PC. rewrite PC in Y. discriminate.
      * eauto.
  - apply (InvR_mono (base s)); auto.
Qed.

Lemma InvN_step2 : forall s l s', InvA (base s) -> InvC (base s) -> InvN (base s) ->
  step2 s l = Some s' -> InvN (base s').
Proof.
  intros s l s' A C N H. apply step2_flush in H. destruct H as (s1 & H & E). subst. rewrite base_flush.
  eapply InvN_step2i; eauto.
Qed.

Lemma InvR_step2 : forall s l s', InvA (base s) -> InvC (base s) -> InvN (base s) -> InvR (base s) ->
  step2 s l = Some s' -> InvR (base s').
Proof.
  intros s l s' A C N R H. apply step2_flush in H. destruct H as (s1 & H & E). subst. rewrite base_flush.
  eapply InvR_step2i; eauto.
Qed.

(* ---- all of them over every history ------------------------------------------------------------ *)

Record Inv11 (s : state2) : Prop := {
  i11_a : InvA (base s); i11_c : InvC (base s); i11_n : InvN (base s); i11_r : InvR (base s) }.

Lemma Inv11_init : forall c, Inv11 (init2 c).
Proof.
  intros c. constructor; simpl; [apply InvA_init|apply InvC_init|apply InvN_init|apply InvR_init].
Qed.

Lemma Inv11_step : forall s l s', Inv11 s -> step2 s l = Some s' -> Inv11 s'.
Proof.
  intros s l s' [A C N R] H. constructor.
  - eapply InvA_step2; eauto.
  - eapply InvC_step2; eauto.
  - eapply InvN_step2; eauto.
  - eapply InvR_step2; eauto.
Qed.

Lemma Inv11_run : forall c ls s, run2 (init2 c) ls = Some s -> Inv11 s.
Proof.
  intros c. apply run2_invariant; [apply Inv11_init|intros; eapply Inv11_step; eauto].
Qed.

(* ---- what one step does to the outgoing stream, the salt and the session store --------------- *)

Definition same_salt (s s' : state2) : Prop :=
  adopt s' = adopt s /\ salt (base s') = salt (base s) /\ store (base s') = store (base s) /\
  (forall i, rejected (base s') i -> rejected (base s) i).

Inductive wire_step (s s' : state2) : Prop :=
| ws_quiet : wire (base s') = wire (base s) -> same_salt s s' -> wire_step s s'
| ws_write : forall w, wire (base s') = w :: wire (base s) -> w_salt w = salt (base s) ->
    (forall w', In w' (wire (base s)) -> w_id w' < w_id w) -> same_salt s s' -> wire_step s s'
| ws_adopt : forall x c, wire (base s') = wire (base s) ->
    adopt s' = (x, length (wire (base s)), c) :: adopt s -> salt (base s') = x ->
    store (base s') = x :: store (base s) ->
    (forall i, rejected (base s') i -> rejected (base s) i \/ c = CBadSalt i true) ->
    (forall i, c = CBadSalt i true -> rejected (base s') i /\ exists ch, In (i, ch) (table (base s))) ->
    wire_step s s'.

Lemma same_salt_wb : forall s b', salt b' = salt (base s) -> store b' = store (base s) ->
  (forall i, rejected b' i -> rejected (base s) i) -> same_salt s (wb b' s).
Proof. intros. repeat split; auto. Qed.

Lemma dispatch2_wire : forall f ks s, wire_step s (dispatch2 f ks s).
Proof.
  intros [[sid seq] b] ks s. unfold dispatch2.
  assert (RJ : forall (e : event) l i, (forall v, e <> EDisp i v) -> In (EDisp i VRetry) (e :: l) -> In (EDisp i VRetry) l).
  { intros e l i N [X|X]; auto. destruct (N _ X). }
  assert (FAIL : wire_step s (fail2 (KTail sid seq :: ks) (upd_base (log (ERecv sid seq)) s))).
  { apply ws_quiet; [reflexivity|]. unfold same_salt, fail2. cbn [upd_base wb bump_failed set_perr adopt base].
    repeat split; auto; unfold rejected; simpl; intros i [X|X]; try discriminate; auto. }
  destruct (negb (decodes (hinted_for b (base s)) b)); [exact FAIL|].
  destruct (strip b) eqn:SB; try exact FAIL.
  - destruct (lookup req (table (base s))); [|exact FAIL].
    apply ws_quiet; [reflexivity|]. repeat split; auto. unfold rejected. simpl. intros i [X|[X|X]]; try discriminate; auto.
  - destruct (lookup req (table (base s))); [|exact FAIL].
    apply ws_quiet; [reflexivity|]. repeat split; auto. unfold rejected. simpl. intros i [X|[X|X]]; try discriminate; auto.
  - apply ws_quiet; [reflexivity|]. repeat split; auto. unfold rejected. simpl. intros i [X|X]; try discriminate; auto.
  - apply ws_quiet; [reflexivity|]. repeat split; auto. unfold rejected. simpl. intros i [X|X]; try discriminate; auto.
  - apply ws_quiet; [reflexivity|]. repeat split; auto. unfold rejected. simpl. intros i [X|X]; try discriminate; auto.
  - apply ws_quiet; [rewrite base_upd, base_handle2; reflexivity|].
    unfold same_salt, handle2, warn2. cbn [upd_base wb wch handler].
    destruct (handler s); [|destruct (wch s) as [|cap n]; [|destruct (Nat.ltb n cap)]]; repeat split; auto;
      unfold rejected; simpl; intros i [X|X]; try discriminate; auto.
  - eapply ws_adopt; try reflexivity.
    + unfold rejected. simpl. intros i [X|X]; try discriminate; auto.
    + discriminate.
  - destruct (lookup bad (table (base s))) as [ch|] eqn:LK.
    + eapply ws_adopt; try reflexivity.
      * unfold rejected. simpl. intros i [X|[X|X]]; try discriminate; auto. inversion X. auto.
      * intros i E. inversion E; subst. split; [unfold rejected; simpl; auto|]. exists ch. apply lookup_In; auto.
    + eapply ws_adopt; try reflexivity.
      * unfold rejected. simpl. intros i [X|X]; try discriminate; auto.
      * discriminate.
Qed.

Lemma step1_wire : forall s l b', InvA (base s) -> old_ok (base s) l -> step (base s) l = Some b' ->
  wire_step s (wb b' s).
Proof.
  intros s l b' IA OK H. remember (base s) as b eqn:EB.
  assert (Q : forall b1, wire b1 = wire b -> salt b1 = salt b -> store b1 = store b -> elog b1 = elog b ->
              wire_step s (wb b1 s)).
  { intros b1 W A B C. apply ws_quiet; [rewrite <- EB; exact W|]. unfold same_salt. rewrite <- EB. repeat split; auto.
    unfold rejected. simpl. rewrite C. auto. }
  destruct l as [t h|[t|] clk|f|].
  - step_cases H. apply Q; auto.
  - step_cases H.
    + apply Q; auto.
    + eapply ws_write; try reflexivity.
      * intros w' W. simpl. apply (a_reg _ IA i); auto. left. exists t. auto.
      * unfold same_salt. repeat split; auto. unfold rejected. simpl. intros i0 [X|X]; [discriminate|auto].
    + apply Q; auto.
  - simpl in OK. step_cases H; try (destruct OK; fail); try (apply Q; auto; fail).
    eapply ws_write; try reflexivity.
    + intros w' W. simpl. apply (a_reg _ IA i); auto. right. eauto.
    + unfold same_salt. repeat split; auto. unfold rejected. simpl. intros i0 [X|X]; [discriminate|auto].
  - step_cases H. apply Q; auto.
  - step_cases H. apply Q; auto.
Qed.

Lemma step2i_wire : forall s l s', InvA (base s) -> step2i s l = Some s' -> wire_step s s'.
Proof.
  intros s l s' IA H. apply step2_inv in H. destruct H.
  - eapply step1_wire; eauto. apply lifted_old_ok; auto.
  - apply ws_quiet; [reflexivity|]. repeat split; auto.
  - eapply ws_adopt; try reflexivity; [auto|discriminate].
  - apply ws_quiet; [rewrite base_warn2; reflexivity|]. unfold same_salt, warn2. cbn [upd_base wb wch bump_failed].
    destruct (wch s) as [|cap n]; [|destruct (Nat.ltb n cap)]; repeat split; auto.
  - apply dispatch2_wire.
  - apply ws_quiet; [reflexivity|]. repeat split; auto.
  - apply notify_b_inv in H1. destruct H1 as [[_ E]|(t & k & j & L & P & K & E)]; subst b';
      (apply ws_quiet; [reflexivity|]); repeat split; auto.
  - apply ws_quiet; [reflexivity|]. repeat split; auto.
Qed.

Lemma adopt_warn2' : forall x, adopt (warn2 x) = adopt x.
Proof. intros x. unfold warn2. destruct (wch x) as [|cap n]; [|destruct (Nat.ltb n cap)]; auto. Qed.

Lemma adopt_flush : forall s, adopt (flush s) = adopt s.
Proof.
  intros s. unfold flush. destruct (perr s); auto. destruct (rx (base s)); auto. rewrite adopt_warn2'. reflexivity.
Qed.

Lemma step2_wire : forall s l s', InvA (base s) -> step2 s l = Some s' -> wire_step s s'.
Proof.
  intros s l s' IA H. apply step2_flush in H. destruct H as (s1 & H & E). subst.
  pose proof (step2i_wire _ _ _ IA H) as W.
  destruct W as [W (A & B & C & D)|w W SW FR (A & B & C & D)|x c W A B C D E'].
  - apply ws_quiet; unfold same_salt; rewrite ?base_flush, ?adopt_flush; auto.
  - eapply ws_write; unfold same_salt; rewrite ?base_flush, ?adopt_flush; eauto.
  - eapply ws_adopt; rewrite ?base_flush, ?adopt_flush; eauto.
Qed.

(* ---- InvS: which salt every frame carries ------------------------------------------------------ *)

Definition entry_salt (e : Z * nat * cause) : Z := fst (fst e).

Record InvS (s : state2) : Prop := {
  s_salt : salt (base s) = salt_at (length (wire (base s))) (adopt s);
  s_store : store (base s) = map entry_salt (adopt s);
  s_bound : forall x m c, In (x, m, c) (adopt s) -> (m <= length (wire (base s)))%nat;
  s_wire : forall post w pre, wire (base s) = post ++ w :: pre -> w_salt w = salt_at (length pre) (adopt s);
  s_rej : forall i, rejected (base s) i -> exists x m, In (x, m, CBadSalt i true) (adopt s);
  s_sent : forall x m i, In (x, m, CBadSalt i true) (adopt s) -> sent_id (base s) i;
  s_after : forall x m i w1 w2 post pre t k, In (x, m, CBadSalt i true) (adopt s) ->
      wire (base s) = post ++ w2 :: pre -> In w1 (wire (base s)) -> w_id w1 = i ->
      on_call w1 t k -> on_call w2 t k -> i < w_id w2 -> (m <= length pre)%nat
}.

Lemma InvS_init : forall c, InvS (init2 c).
Proof.
  intros c. constructor; simpl; unfold rejected, sent_id, wire; simpl; intros; try tauto.
  destruct post; discriminate.
Qed.

Lemma salt_at_ge : forall ad n n', (forall x m c, In (x, m, c) ad -> (m <= n)%nat) -> (n <= n')%nat ->
  salt_at n' ad = salt_at n ad.
Proof.
  intros ad n n' B Le. destruct ad as [|[[x m] c] r]; simpl; auto.
  assert (M : (m <= n)%nat) by (eapply B; left; eauto).
  destruct (Nat.leb_spec m n); [|lia]. destruct (Nat.leb_spec m n'); [auto|lia].
Qed.

Lemma split_len : forall (A : Type) (l post pre : list A) (w : A), l = post ++ w :: pre -> (length pre < length l)%nat.
Proof. intros. subst. rewrite app_length. simpl. lia. Qed.

Lemma InvS_step : forall s l s', Inv11 s -> InvS s -> step2 s l = Some s' -> InvS s'.
Proof.
  intros s l s' [IA IC IN IR] [Sa St Bo Wi Rj Se Af] H.
  pose proof (step2_wire _ _ _ IA H) as W. destruct W as [W (A & B & C & D)|w W SW FR (A & B & C & D)|x c W A B C D E].
  - (* quiet *) constructor; rewrite ?W, ?A, ?B, ?C; auto.
    intros x m i X. destruct (Se _ _ _ X) as (w & W1 & W2). exists w. rewrite W. auto.
  - (* a frame is written *)
    constructor; rewrite ?W, ?A, ?B, ?C; auto.
    + simpl length. rewrite Sa. symmetry. apply salt_at_ge; auto.
    + intros x m c X. simpl. apply Bo in X. lia.
    + intros post w0 pre E. destruct post as [|p post]; simpl in E; inversion E; subst.
      * rewrite SW. auto.
      * eapply Wi; eauto.
    + intros x m i X. destruct (Se _ _ _ X) as (w' & W1 & W2). exists w'. rewrite W. simpl. auto.
    + intros x m i w1 w2 post pre t k X E I1 I2 O1 O2 Lt.
      destruct post as [|p post]; simpl in E; inversion E; subst.
      * apply Bo in X. auto.
      * destruct I1 as [I1|I1].
        -- subst w1. destruct (Se _ _ _ X) as (w' & W1 & W2). apply FR in W1. lia.
        -- eapply Af; eauto.
  - (* a salt is adopted *)
    constructor; rewrite ?W, ?A, ?B, ?C.
    + simpl. rewrite Nat.leb_refl. auto.
    + simpl. f_equal. auto.
    + intros x0 m c0 [X|X]; [inversion X; auto|eauto].
    + intros post w pre E0. simpl. pose proof (split_len _ _ _ _ _ E0) as LT.
      destruct (Nat.leb_spec (length (wire (base s))) (length pre)); [lia|]. eapply Wi; eauto.
    + intros i X. destruct (D _ X) as [Y|Y].
      * destruct (Rj _ Y) as (x0 & m & Z). exists x0, m. right. auto.
      * subst c. exists x, (length (wire (base s))). left. auto.
    + intros x0 m i [X|X].
      * inversion X; subst. destruct (E i eq_refl) as (_ & [t k] & I1).
        destruct (c_owner _ IC _ _ _ I1) as (_ & _ & h & SR). apply sent_req_id in SR.
        destruct SR as (w & W1 & W2). exists w. rewrite W. auto.
      * destruct (Se _ _ _ X) as (w & W1 & W2). exists w. rewrite W. auto.
    + intros x0 m i w1 w2 post pre t k [X|X] E0 I1 I2 O1 O2 Lt; [|eapply Af; eauto].
      inversion X; subst. exfalso.
      destruct (E _ eq_refl) as (_ & [t' k'] & I3).
      destruct (c_owner _ IC _ _ _ I3) as (K & PP & h & SR).
      destruct O1 as (h1 & O1).
      assert (SR1 : sent_req (base s) (w_id w1) t k h1) by (exists w1; auto).
      destruct (sent_req_unique _ _ _ _ _ _ _ _ IA SR SR1) as (E1 & E2 & _). subst t' k'.
      assert (I4 : In w2 (wire (base s))) by (rewrite E0; apply in_or_app; right; left; auto).
      rewrite <- E2 in O2.
      destruct (r_cur _ IR _ _ _ I4 O2 PP) as [Y|[_ Y]]; lia.
Qed.

Lemma InvS_run : forall c ls s, run2 (init2 c) ls = Some s -> Inv11 s /\ InvS s.
Proof.
  intros c. apply (run2_invariant (fun s => Inv11 s /\ InvS s)).
  - split; [apply Inv11_init|apply InvS_init].
  - intros s l s' [I S] H. split; [eapply Inv11_step; eauto|eapply InvS_step; eauto].
Qed.

(* the salt a frame written after an adoption carries is that adoption's or a newer one's *)
Lemma salt_at_newer : forall newer x m c older n, (m <= n)%nat ->
  salt_at n (newer ++ (x, m, c) :: older) = x \/
  exists e, In e newer /\ salt_at n (newer ++ (x, m, c) :: older) = entry_salt e.
Proof.
  induction newer as [|[[y q] d] r IH]; intros x m c older n Le; simpl.
  - destruct (Nat.leb_spec m n); [auto|lia].
  - destruct (Nat.leb q n).
    + right. exists (y, q, d). auto.
    + destruct (IH x m c older n Le) as [E|(e & E1 & E2)]; auto. right. exists e. auto.
Qed.

(* ---- C11, assembled ------------------------------------------------------------------------------ *)

(* (1) the salt in force is the newest adoption, every adoption was written to the session store;
   (2) every frame carries the salt of the newest adoption made before it was written;
   (3) a call's request is on the wire a second time only after the server rejected the earlier frame
       with bad_server_salt while its waiter was registered, and the later frame carries the salt of
       that message or of a newer adoption;
   (4) no waiter is told to retry twice for the same msg_id; a rejected id was really sent. *)
Lemma rotation : forall c ls s, run2 (init2 c) ls = Some s ->
  (salt (base s) = salt_at (length (wire (base s))) (adopt s) /\
   store (base s) = map entry_salt (adopt s)) /\
  (forall post w pre, wire (base s) = post ++ w :: pre -> w_salt w = salt_at (length pre) (adopt s)) /\
  (forall w1 w2 post pre t k, wire (base s) = post ++ w2 :: pre -> In w1 (wire (base s)) ->
     on_call w1 t k -> on_call w2 t k -> w_id w1 < w_id w2 ->
     rejected (base s) (w_id w1) /\
     exists x m newer older, adopt s = newer ++ (x, m, CBadSalt (w_id w1) true) :: older /\
       (m <= length pre)%nat /\
       (w_salt w2 = x \/ exists e, In e newer /\ w_salt w2 = entry_salt e)) /\
  (NoDup (retries (elog (base s))) /\ forall i, rejected (base s) i -> sent_id (base s) i).
Proof.
  intros c ls s H. destruct (InvS_run _ _ _ H) as [[IA IC IN IR] IS].
  split; [split; [apply (s_salt _ IS)|apply (s_store _ IS)]|].
  split; [apply (s_wire _ IS)|]. split; [|split; [apply (n_once _ IN)|apply (n_sent _ IN)]].
  intros w1 w2 post pre t k E I1 O1 O2 Lt.
  assert (I2 : In w2 (wire (base s))) by (rewrite E; apply in_or_app; right; left; auto).
  pose proof (r_pair _ IR _ _ _ _ I1 I2 O1 O2 Lt) as RJ. split; auto.
  destruct (s_rej _ IS _ RJ) as (x & m & X).
  pose proof (s_after _ IS _ _ _ _ _ _ _ _ _ X E I1 eq_refl O1 O2 Lt) as Le.
  destruct (in_split _ _ X) as (newer & older & EA). exists x, m, newer, older.
  split; auto. split; auto. rewrite (s_wire _ IS _ _ _ E), EA. apply salt_at_newer; auto.
Qed.

(* every completed call returned the payload of a result received for its own, newest, msg id;
   that id was not rejected; nothing is handed out twice *)
Lemma routing2 : forall c ls s, run2 (init2 c) ls = Some s ->
  (forall t k i r, In (t, k, i, r) (rets (base s)) ->
     exists h v,
       sent_req (base s) i t k h /\
       (forall t' k' h', sent_req (base s) i t' k' h' -> t' = t /\ k' = k /\ h' = h) /\
       (forall w, In w (wire (base s)) -> on_call w t k -> w_id w <= i) /\
       In (EDisp i v) (elog (base s)) /\ ret_of v = Some r /\
       (vec_val v = true -> h = true) /\
       ~ rejected (base s) i) /\
  NoDup (map ret_id (rets (base s))) /\
  NoDup (map ret_call (rets (base s))).
Proof.
  intros c ls s H. destruct (Inv11_run _ _ _ H) as [IA IC IN IR].
  assert (MAIN : forall t k i r, In (t, k, i, r) (rets (base s)) ->
     exists h v,
       sent_req (base s) i t k h /\
       (forall t' k' h', sent_req (base s) i t' k' h' -> t' = t /\ k' = k /\ h' = h) /\
       (forall w, In w (wire (base s)) -> on_call w t k -> w_id w <= i) /\
       In (EDisp i v) (elog (base s)) /\ ret_of v = Some r /\
       (vec_val v = true -> h = true) /\
       ~ rejected (base s) i).
  { intros t k i r Hr. destruct (c_rets _ IC _ _ _ _ Hr) as [(h & v & S & D & RV & V) _].
    exists h, v. split; auto. split.
    - intros t' k' h' S'. destruct (sent_req_unique _ _ _ _ _ _ _ _ IA S S') as (X & Y & Z). auto.
    - split; [intros w W O; eapply (r_ret _ IR); eauto|]. split; auto. split; auto. split; auto.
      eapply (n_rets _ IN); eauto. }
  split; auto. split; [apply (c_rets_nodup _ IC)|].
  apply (NoDup_map_transfer _ _ _ ret_id ret_call); [apply (c_rets_nodup _ IC)|].
  intros [[[t k] i] r] [[[t' k'] i'] r'] X Y Q. unfold ret_call, ret_id in *. simpl in *. inversion Q; subst.
  destruct (MAIN _ _ _ _ X) as (h & v & (w & W1 & W2 & W3) & _ & LE & _).
  destruct (MAIN _ _ _ _ Y) as (h' & v' & (w' & W1' & W2' & W3') & _ & LE' & _).
  assert (w_id w' <= i) by (apply LE; auto; exists h'; auto).
  assert (w_id w <= i') by (apply LE'; auto; exists h; auto). lia.
Qed.

(* one dispatch step on bad_server_salt / new_session_created *)
Lemma decodes_service : forall hd b, (forall r g k p, strip b <> BResult r g k p) -> strip b <> BGarbage ->
  decodes hd b = true.
Proof.
  intros hd b N G. unfold decodes. destruct (strip b); auto.
  - destruct (N req gz k p); auto.
Qed.

Lemma bad_salt_step : forall s clk sid seq b ks i x, keyed s = true ->
  rx (base s) = RDispatch (sid, seq, b) ks -> strip b = BBadSalt i x ->
  exists s', step2 s (L1 (LStep ARx clk)) = Some s' /\
    salt (base s') = x /\ store (base s') = x :: store (base s) /\
    rx (base s') = match lookup i (table (base s)) with
                   | Some _ => RNotify [i] (KTail sid seq :: ks)
                   | None => settle (KTail sid seq :: ks) end /\
    table (base s') = table (base s).
Proof.
  intros s clk sid seq b ks i x K R SB. eexists. split.
  - unfold step2. simpl. rewrite K. simpl. unfold step_rx2. rewrite R. reflexivity.
  - rewrite base_flush. unfold dispatch2. rewrite decodes_service by (rewrite SB; discriminate). simpl. rewrite SB.
    destruct (lookup i (table (base s))); simpl; auto.
Qed.

Lemma new_session_step : forall s clk sid seq b ks x, keyed s = true ->
  rx (base s) = RDispatch (sid, seq, b) ks -> strip b = BNewSession x ->
  exists s', step2 s (L1 (LStep ARx clk)) = Some s' /\
    salt (base s') = x /\ store (base s') = x :: store (base s) /\
    rx (base s') = settle (KTail sid seq :: ks).
Proof.
  intros s clk sid seq b ks x K R SB. eexists. split.
  - unfold step2. simpl. rewrite K. simpl. unfold step_rx2. rewrite R. reflexivity.
  - rewrite base_flush. unfold dispatch2. rewrite decodes_service by (rewrite SB; discriminate). simpl. rewrite SB. simpl. auto.
Qed.
