(* Client/LiveInv.v - case analysis of [step2] (Client/Live.v) and preservation of the C09/C10
   invariants InvA (lock discipline, msg_id order) and InvC (response table routes results to
   their owners) of Client/SeqNo.v and Client/Routing.v by the extended system.  Every transition
   that step2 takes over unchanged from step reuses InvA_step / InvC_step; only the new
   transitions (bad transport frame, repaired dispatch, notify, reconnect, key exchange, drain)
   are proved here. *)
From Coq Require Import ZArith List Bool Lia Arith Sorted.
From MTV Require Import Client.Model Client.StepLemmas Client.SeqNo Client.Routing Client.Live.
Import ListNotations.
Open Scope Z_scope.
Local Opaque wrap32 fresh_id.
Arguments Z.lor : simpl never.

(* ---- projections ---------------------------------------------------------------------------- *)

Lemma base_wb : forall b s, base (wb b s) = b.
Proof. reflexivity. Qed.
Lemma base_upd : forall f s, base (upd_base f s) = f (base s).
Proof. reflexivity. Qed.
Lemma base_warn2 : forall s, base (warn2 s) = base s.
Proof. intros. unfold warn2. destruct (wch s); auto. destruct (Nat.ltb n cap); auto. Qed.
Lemma base_handle2 : forall s, base (handle2 s) = base s.
Proof. intros. unfold handle2. destruct (handler s); auto. apply base_warn2. Qed.
Lemma base_adopt2 : forall x c s, base (adopt2 x c s) = set_salt x (base s).
Proof. reflexivity. Qed.
Lemma base_fail2 : forall tl s, base (fail2 tl s) = set_rx (settle tl) (base s).
Proof. reflexivity. Qed.
Lemma base_flush : forall s, base (flush s) = base s.
Proof.
  intros s. unfold flush. destruct (perr s); auto. destruct (rx (base s)); auto. rewrite base_warn2. reflexivity.
Qed.

(* a step of the system = a step of the control part followed by handing a pending error to warnError once the
   receive loop is back at its read *)
Lemma step2_flush : forall s l s', step2 s l = Some s' -> exists s1, step2i s l = Some s1 /\ s' = flush s1.
Proof.
  intros s l s' H. unfold step2 in H. destruct (step2i s l) as [s1|]; [|discriminate]. inversion H. eauto.
Qed.

(* ---- retry events --------------------------------------------------------------------------- *)

Lemma In_retries : forall i l, In i (retries l) <-> In (EDisp i VRetry) l.
Proof.
  induction l as [|e l IH]; simpl; [tauto|].
  destruct e as [a c|r v|w]; try (rewrite IH; split; [auto|intros [X|X]; [discriminate|auto]]).
  destruct v; try (rewrite IH; split; [auto|intros [X|X]; [discriminate|auto]]).
  simpl. rewrite IH. split; intros [X|X]; auto; [left; congruence|inversion X; auto].
Qed.

Lemma retries_sent : forall w l, retries (ESent w :: l) = retries l.
Proof. reflexivity. Qed.
Lemma retries_recv : forall a c l, retries (ERecv a c :: l) = retries l.
Proof. reflexivity. Qed.

(* ---- one step of step2, by cases ---------------------------------------------------------- *)

Definition lifted_ok (s : state2) (l : label) : Prop :=
  match l with
  | LSrv _ | LClose => closed (base s) = false
  | LStep ARx _ =>
      match rx (base s) with
      | RRead => match wire_in (base s) with f :: _ => transport_ok f = true | [] => True end
      | RDispatch _ _ | RNotify _ _ | RReconnect => False
      | _ => True
      end
  | _ => True
  end.

Inductive step2_case (s : state2) : label2 -> state2 -> Prop :=
| sc_lift : forall l b', keyed s = true -> lifted_ok s l -> step (base s) l = Some b' ->
    step2_case s (L1 l) (wb b' s)
| sc_drain : forall cap n, wch s = WBuf cap (S n) -> step2_case s LDrain (set_wch (WBuf cap n) 0 0 s)
| sc_keyex : forall x, keyed s = false -> step2_case s (LKeyEx x) (keyex2 x s)
| sc_badframe : forall clk f r, keyed s = true -> rx (base s) = RRead -> wire_in (base s) = f :: r ->
    transport_ok f = false -> step2_case s (L1 (LStep ARx clk)) (warn2 (bump_failed (upd_base (set_in r) s)))
| sc_dispatch : forall clk f ks, keyed s = true -> rx (base s) = RDispatch f ks ->
    step2_case s (L1 (LStep ARx clk)) (dispatch2 f ks s)
| sc_notify0 : forall clk ks, keyed s = true -> rx (base s) = RNotify [] ks ->
    step2_case s (L1 (LStep ARx clk)) (upd_base (set_rx (settle ks)) s)
| sc_notify : forall clk i ks b', keyed s = true -> rx (base s) = RNotify [i] ks ->
    notify_b i ks (base s) = Some b' -> step2_case s (L1 (LStep ARx clk)) (wb b' s)
| sc_reconnect : forall clk, keyed s = true -> rx (base s) = RReconnect ->
    step2_case s (L1 (LStep ARx clk)) (reconnect2 s).

Lemma lift_inv : forall s l s', lift s l = Some s' -> exists b', step (base s) l = Some b' /\ s' = wb b' s.
Proof.
  intros s l s' H. unfold lift in H. destruct (step (base s) l) as [b'|]; [|discriminate].
  inversion H. eauto.
Qed.

Lemma step2_inv : forall s l s', step2i s l = Some s' -> step2_case s l s'.
Proof.
  intros s l s' H. destruct l as [l1| |x]; simpl in H.
  - destruct (keyed s) eqn:K; [|discriminate]. simpl in H.
    destruct l1 as [t h|[t|] clk|f|].
    + apply lift_inv in H. destruct H as (b' & H & E). subst. constructor; simpl; auto.
    + apply lift_inv in H. destruct H as (b' & H & E). subst. constructor; simpl; auto.
    + unfold step_rx2 in H. destruct (rx (base s)) eqn:R.
      * destruct (wire_in (base s)) as [|f r] eqn:W.
        -- apply lift_inv in H. destruct H as (b' & H & E). subst. constructor; simpl; auto. rewrite R, W. auto.
        -- destruct (transport_ok f) eqn:T.
           ++ apply lift_inv in H. destruct H as (b' & H & E). subst. constructor; simpl; auto. rewrite R, W. auto.
           ++ inversion H. subst. eapply sc_badframe; eauto.
      * inversion H. subst. eapply sc_dispatch; eauto.
      * apply lift_inv in H. destruct H as (b' & H & E). subst. constructor; simpl; auto. rewrite R. auto.
      * apply lift_inv in H. destruct H as (b' & H & E). subst. constructor; simpl; auto. rewrite R. auto.
      * apply lift_inv in H. destruct H as (b' & H & E). subst. constructor; simpl; auto. rewrite R. auto.
      * apply lift_inv in H. destruct H as (b' & H & E). subst. constructor; simpl; auto. rewrite R. auto.
      * apply lift_inv in H. destruct H as (b' & H & E). subst. constructor; simpl; auto. rewrite R. auto.
      * unfold notify2 in H. destruct keys as [|i [|j rest]]; [| |discriminate].
        -- inversion H. subst. eapply sc_notify0; eauto.
        -- destruct (notify_b i ks (base s)) as [b'|] eqn:N; [|discriminate]. inversion H. subst.
           eapply sc_notify; eauto.
      * inversion H. subst. eapply sc_reconnect; eauto.
      * apply lift_inv in H. destruct H as (b' & H & E). subst. constructor; simpl; auto. rewrite R. auto.
    + destruct (closed (base s)) eqn:C; [discriminate|].
      apply lift_inv in H. destruct H as (b' & H & E). subst. constructor; simpl; auto.
    + destruct (closed (base s)) eqn:C; [discriminate|].
      apply lift_inv in H. destruct H as (b' & H & E). subst. constructor; simpl; auto.
  - destruct (wch s) as [|cap [|n]] eqn:W; try discriminate. inversion H. subst. eapply sc_drain; eauto.
  - destruct (keyed s) eqn:K; [discriminate|]. inversion H. subst. constructor; auto.
Qed.

(* the receive-loop steps that step2 replaces never run through [step] *)
Definition old_ok (b : state) (l : label) : Prop :=
  match l with
  | LStep ARx _ => match rx b with RDispatch _ _ | RNotify _ _ | RReconnect => False | _ => True end
  | _ => True
  end.

Lemma lifted_old_ok : forall s l, lifted_ok s l -> old_ok (base s) l.
Proof.
  intros s l H. destruct l as [t h|[t|] clk|f|]; simpl in *; auto. destruct (rx (base s)); auto.
Qed.

(* ---- histories ------------------------------------------------------------------------------ *)

Lemma run2_app : forall ls s l, run2 s (ls ++ [l]) =
  match run2 s ls with Some x => step2 x l | None => None end.
Proof. intros. unfold run2. rewrite fold_left_app. reflexivity. Qed.

Lemma run2_invariant : forall (P : state2 -> Prop) s0,
  P s0 ->
  (forall s l s', P s -> step2 s l = Some s' -> P s') ->
  forall ls s, run2 s0 ls = Some s -> P s.
Proof.
  intros P s0 H0 Hs ls. induction ls as [|l ls IH] using rev_ind; intros s H.
  - inversion H. subst. exact H0.
  - rewrite run2_app in H. destruct (run2 s0 ls) as [x|] eqn:E; [|discriminate].
    eapply Hs; [apply IH; reflexivity|exact H].
Qed.

(* ---- what the repaired dispatch does to the old state --------------------------------------- *)

(* the fields the invariants read are untouched; the log only grows; the next pc is a quiet one
   (read / next item / tail), a delivery to a registered channel, or the notification of a
   registered waiter *)
Record dispatch2_spec (b b' : state) : Prop := {
  d_callers : callers b' = callers b;
  d_lock : lock b' = lock b;
  d_last : last_id b' = last_id b;
  d_seqno : seqno b' = seqno b;
  d_table : table b' = table b;
  d_hints : hints b' = hints b;
  d_rets : rets b' = rets b;
  d_wire : wire b' = wire b;
  d_in : wire_in b' = wire_in b;
  d_closed : closed b' = closed b;
  d_srv : srv_log b' = srv_log b;
  d_elog : forall e, In e (elog b) -> In e (elog b');
  d_rx : (exists ks', rx b' = settle ks') \/
         (exists req ch v k2, rx b' = RDeliver req ch v k2 /\ In (req, ch) (table b) /\
            In (EDisp req v) (elog b') /\ (vec_val v = true -> In req (hints b)) /\ v <> VRetry) \/
         (exists i ch k2, rx b' = RNotify [i] k2 /\ In (i, ch) (table b) /\ rejected b' i);
  d_rej : forall j, rejected b' j -> rejected b j \/
            (exists ch k2, rx b' = RNotify [j] k2 /\ In (j, ch) (table b));
  d_disp : forall req v, In (EDisp req v) (elog b') -> In (EDisp req v) (elog b) \/
            (exists ch, In (req, ch) (table b));
  d_retries : retries (elog b') = retries (elog b) \/
            (exists j ch, retries (elog b') = j :: retries (elog b) /\ In (j, ch) (table b))
}.

Lemma settle_nil : settle [] = RRead.
Proof. reflexivity. Qed.

Lemma dispatch2_ok : forall f ks s, dispatch2_spec (base s) (base (dispatch2 f ks s)).
Proof.
  intros [[sid seq] b] ks s. unfold dispatch2.
  assert (FAIL : dispatch2_spec (base s) (base (fail2 (KTail sid seq :: ks) (upd_base (log (ERecv sid seq)) s)))).
  { rewrite base_fail2. constructor; simpl; auto.
    - left. exists (KTail sid seq :: ks). reflexivity.
    - unfold rejected. simpl. intros j [H|H]; [discriminate|auto].
    - intros req v [H|H]; [discriminate|auto]. }
  destruct (negb (decodes (hinted_for b (base s)) b)) eqn:DE; [exact FAIL|].
  apply negb_false_iff in DE.
  destruct (strip b) eqn:SB; try exact FAIL.
  - (* result *)
    destruct (lookup req (table (base s))) as [ch|] eqn:L; [|exact FAIL].
    constructor; simpl; auto.
    + right. left. exists req, ch, (VRes k p), (KTail sid seq :: ks). split; auto.
      split; [apply lookup_In; auto|]. split; auto. split; [|discriminate].
      simpl. intros V. unfold decodes in DE. rewrite SB, V in DE.
      unfold hinted_for in DE. destruct (hint_key b) eqn:HK; [|discriminate].
      apply (hint_key_strip_result _ _ _ _ _ _ SB) in HK. subst. apply memz_In. auto.
    + unfold rejected. simpl. intros j [H|[H|H]]; try discriminate; auto.
    + intros r v [H|[H|H]]; try discriminate; auto. inversion H; subst. right. exists ch. apply lookup_In; auto.
  - (* error *)
    destruct (lookup req (table (base s))) as [ch|] eqn:L; [|exact FAIL].
    constructor; simpl; auto.
    + right. left. exists req, ch, (VErr migrate p), (KTail sid seq :: ks). split; auto.
      split; [apply lookup_In; auto|]. split; auto. split; [simpl; discriminate|discriminate].
    + unfold rejected. simpl. intros j [H|[H|H]]; try discriminate; auto.
    + intros r v [H|[H|H]]; try discriminate; auto. inversion H; subst. right. exists ch. apply lookup_In; auto.
  - (* container *)
    constructor; simpl; auto.
    + left. eexists. reflexivity.
    + unfold rejected. simpl. intros j [H|H]; [discriminate|auto].
    + intros r v [H|H]; [discriminate|auto].
  (* pong, msgs_ack: the old state is the one of the failing case *)
  - (* update *) rewrite base_upd, base_handle2. constructor; simpl; auto.
    + left. exists (KTail sid seq :: ks). reflexivity.
    + unfold rejected. simpl. intros j [H|H]; [discriminate|auto].
    + intros r v [H|H]; [discriminate|auto].
  - (* new session *) constructor; simpl; auto.
    + left. exists (KTail sid seq :: ks). reflexivity.
    + unfold rejected. simpl. intros j [H|H]; [discriminate|auto].
    + intros r v [H|H]; [discriminate|auto].
  - (* bad salt *)
    destruct (lookup bad (table (base s))) as [ch|] eqn:L.
    + constructor; simpl; auto.
      * right. right. exists bad, ch, (KTail sid seq :: ks). split; auto. split; [apply lookup_In; auto|].
        unfold rejected. simpl. auto.
      * unfold rejected. simpl. intros j [H|[H|H]]; try discriminate; auto.
        inversion H; subst. right. exists ch, (KTail sid seq :: ks). split; auto. apply lookup_In; auto.
      * intros r v [H|[H|H]]; try discriminate; auto. inversion H; subst. right. exists ch. apply lookup_In; auto.
      * right. exists bad, ch. split; auto. apply lookup_In; auto.
    + constructor; simpl; auto.
      * left. exists (KTail sid seq :: ks). reflexivity.
      * unfold rejected. simpl. intros j [H|H]; [discriminate|auto].
      * intros r v [H|H]; [discriminate|auto].
Qed.

Lemma dispatch2_not_ack_reg : forall b b', dispatch2_spec b b' -> not_ack_reg (rx b').
Proof.
  intros b b' D. destruct (d_rx _ _ D) as [(k & E)|[(r & c & v & k & E & _)|(i & c & k & E & _)]]; rewrite E; simpl; auto.
  apply quiet_not_ack_reg, settle_quiet.
Qed.

(* ---- the notification step ------------------------------------------------------------------- *)

Lemma notify_b_inv : forall i ks b b', notify_b i ks b = Some b' ->
  (lookup i (table b) = None /\ b' = set_rx (settle ks) b) \/
  (exists t k j, lookup i (table b) = Some (t, k) /\ c_pc (getc t b) = CRecv j /\ c_k (getc t b) = k /\
     b' = set_pc t CLock (set_rx (settle ks) (set_tables (del_key i (table b)) (delz i (hints b)) b))).
Proof.
  intros i ks b b' H. unfold notify_b in H.
  destruct (lookup i (table b)) as [[t k]|] eqn:L; [|inversion H; auto].
  destruct (c_pc (getc t b)) eqn:P; try discriminate.
  destruct (Nat.eqb (c_k (getc t b)) k) eqn:E; [|discriminate].
  apply Nat.eqb_eq in E. inversion H. right. exists t, k, i0. auto.
Qed.

(* ---- InvA ------------------------------------------------------------------------------------- *)

Lemma InvA_step2i : forall s l s', InvA (base s) -> step2i s l = Some s' -> InvA (base s').
Proof.
  intros s l s' IA H. apply step2_inv in H. destruct H.
  - eapply InvA_step; eauto.
  - exact IA.
  - apply (InvA_mono (base s)); auto.
  - rewrite base_warn2. apply (InvA_transfer (base s)); auto. simpl. rewrite H0. exact I.
  - pose proof (dispatch2_ok f ks s) as D.
    apply (InvA_transfer (base s)); [apply D|apply D|apply D|apply D|eapply dispatch2_not_ack_reg; eauto|auto].
  - apply (InvA_transfer (base s)); auto. simpl. apply quiet_not_ack_reg, settle_quiet.
  - apply notify_b_inv in H1. destruct H1 as [[_ E]|(t & k & j & L & P & K & E)]; subst b'.
    + apply (InvA_transfer (base s)); auto. simpl. apply quiet_not_ack_reg, settle_quiet.
    + cbn [base wb]. apply (InvA_calm (base s)); auto; intros; norm; try (eqt; simpl in *; [discriminate|auto]).
      apply quiet_not_ack_reg, settle_quiet.
  - apply (InvA_transfer (base s)); auto. exact I.
Qed.

(* ---- InvC ------------------------------------------------------------------------------------- *)

Lemma InvC_step2i : forall s l s', InvA (base s) -> InvC (base s) -> step2i s l = Some s' -> InvC (base s').
Proof.
  intros s l s' IA IC H. apply step2_inv in H. destruct H.
  - eapply InvC_step; eauto.
  - exact IC.
  - apply (InvC_mono (base s)); auto. intros. eapply keep_deliver; eauto.
  - rewrite base_warn2. apply (InvC_mono (base s)); auto. simpl. rewrite H0. discriminate.
  - pose proof (dispatch2_ok f ks s) as D. destruct D.
    apply (InvC_mono (base s)); auto.
    + rewrite d_wire0. auto.
    + unfold getc. rewrite d_callers0. auto.
    + intros req ch v k2 R.
      destruct d_rx0 as [(k & E)|[(r & c & v' & k & E & I1 & I2 & I3 & _)|(i & c & k & E & _)]]; rewrite E in R.
      * pose proof (settle_quiet k) as Q. rewrite R in Q. destruct Q.
      * inversion R; subst. auto.
      * discriminate.
  - apply (InvC_mono (base s)); auto. simpl. intros ? ? ? ? X.
    pose proof (settle_quiet ks) as Q. rewrite X in Q. destruct Q.
  - apply notify_b_inv in H1. destruct H1 as [[_ E]|(t & k & j & L & P & K & E)]; subst b'.
    + apply (InvC_mono (base s)); auto. simpl. intros ? ? ? ? X.
      pose proof (settle_quiet ks) as Q. rewrite X in Q. destruct Q.
    + pose proof IC as [N O Hi R RN D].
      apply lookup_In in L. destruct (O _ _ _ L) as (K' & P' & h0 & S0).
      assert (j = i) by (rewrite P in P'; destruct P' as [P'|P']; inversion P'; auto). subst j.
      assert (WS : forall s1 j t' k' h', wire s1 = wire (base s) -> sent_req (base s) j t' k' h' -> sent_req s1 j t' k' h').
      { intros s1 j t' k' h' E (w & W1 & W2 & W3). exists w. rewrite E. auto. }
      cbn [base wb]. constructor; intros; norm.
      * apply NoDup_del_key; auto.
      * apply In_del_key in H1. destruct H1 as [H1 NE]. destruct (O _ _ _ H1) as (K1 & P1 & h' & S'). eqt.
        -- unfold getc in P. rewrite P in P1. destruct P1 as [P1|P1]; inversion P1. congruence.
        -- split; auto. split; auto. exists h'. apply WS; auto.
      * apply In_delz in H1. destruct H1 as [H1 NE]. destruct (Hi _ H1) as (t' & k' & S'). exists t', k'. apply WS; auto.
      * destruct (R _ _ _ _ H1) as [(h' & v' & S' & E' & RV & V) NI]. split.
        -- exists h', v'. split; [apply WS; auto|auto].
        -- intro X. apply keys_del_key in X. tauto.
      * auto.
      * pose proof (settle_quiet ks) as Q. rewrite H1 in Q. destruct Q.
  - apply (InvC_mono (base s)); auto. simpl. discriminate.
Qed.


(* ---- the same for the complete step (flush does not touch the old state) ---------------------- *)

Lemma InvA_step2 : forall s l s', InvA (base s) -> step2 s l = Some s' -> InvA (base s').
Proof.
  intros s l s' IA H. apply step2_flush in H. destruct H as (s1 & H & E). subst. rewrite base_flush.
  eapply InvA_step2i; eauto.
Qed.

Lemma InvC_step2 : forall s l s', InvA (base s) -> InvC (base s) -> step2 s l = Some s' -> InvC (base s').
Proof.
  intros s l s' IA IC H. apply step2_flush in H. destruct H as (s1 & H & E). subst. rewrite base_flush.
  eapply InvC_step2i; eauto.
Qed.
