(* Client/Table.v - the response table and the hint table as data structures.

   internal/utils/sync_stuff.go: SyncIntObjectChan (MTProto.responseChannels) and SyncIntReflectTypes
   (MTProto.expectedTypes) are Go maps behind a sync.RWMutex with the operations Add (insert or overwrite),
   Get / Has, Delete and Keys.  Client/Model.v keeps the response table as an association list with
   [(i, ch) :: tb] for Add, [lookup] for Get, [del_key] for Delete and [map fst] for Keys, and the hint table
   as a list of keys with [::], [memz], [delz].  This file states that those ARE the map operations:
   [tab_ops_refine] - after any sequence of operations the association list answers every Get / Has like
   the finite map that the same operations build ([TAdd] overwrites, [TDel] removes, later operations
   win); [tab_keys] - Keys is exactly the set of keys present; the same for the hint list.
   The executable [tab_run] is what the harness replays against the real types (harness/root/cmd/c09 table). *)
From Coq Require Import ZArith List Bool.
From MTV Require Import Client.Model.
Import ListNotations.
Open Scope Z_scope.

Inductive tab_op := TAdd (i : Z) (ch : chan) | TDel (i : Z).

Definition tab_apply (tb : list (Z * chan)) (o : tab_op) : list (Z * chan) :=
  match o with
  | TAdd i ch => (i, ch) :: tb
  | TDel i => del_key i tb
  end.

Definition tab_run (ops : list tab_op) : list (Z * chan) := fold_left tab_apply ops [].

(* the finite map the same operations build *)
Definition fmap := Z -> option chan.
Definition fm_apply (m : fmap) (o : tab_op) : fmap :=
  match o with
  | TAdd i ch => fun j => if Z.eqb j i then Some ch else m j
  | TDel i => fun j => if Z.eqb j i then None else m j
  end.
Definition fm_run (ops : list tab_op) : fmap := fold_left fm_apply ops (fun _ => None).

Lemma lookup_del_same : forall i tb, lookup i (del_key i tb) = None.
Proof.
  induction tb as [|[j c] r IH]; [reflexivity|]. cbn [del_key].
  destruct (Z.eqb i j) eqn:E; [exact IH|]. cbn [lookup]. rewrite E. exact IH.
Qed.

Lemma lookup_del_other : forall i j tb, j <> i -> lookup j (del_key i tb) = lookup j tb.
Proof.
  intros i j tb N. induction tb as [|[k c] r IH]; [reflexivity|]. cbn [del_key].
  destruct (Z.eqb i k) eqn:E.
  - apply Z.eqb_eq in E. subst k. cbn [lookup]. destruct (Z.eqb j i) eqn:E2; [apply Z.eqb_eq in E2; contradiction|exact IH].
  - cbn [lookup]. destruct (Z.eqb j k); [reflexivity|exact IH].
Qed.

Lemma tab_step_refines : forall tb (m : fmap) o, (forall j, lookup j tb = m j) ->
  forall j, lookup j (tab_apply tb o) = fm_apply m o j.
Proof.
  intros tb m o H j. destruct o as [i ch|i]; cbn [tab_apply fm_apply].
  - cbn [lookup]. destruct (Z.eqb j i); [reflexivity|apply H].
  - destruct (Z.eqb j i) eqn:E.
    + apply Z.eqb_eq in E. subst j. apply lookup_del_same.
    + rewrite lookup_del_other; [apply H|]. intros ->. rewrite Z.eqb_refl in E. discriminate.
Qed.

Theorem tab_ops_refine : forall ops j, lookup j (tab_run ops) = fm_run ops j.
Proof.
  intros ops. unfold tab_run, fm_run.
  assert (G : forall tb (m : fmap), (forall j, lookup j tb = m j) ->
              forall j, lookup j (fold_left tab_apply ops tb) = fold_left fm_apply ops m j).
  { induction ops as [|o r IH]; intros tb m H j; [apply H|].
    cbn [fold_left]. apply IH. apply tab_step_refines. exact H. }
  apply G. reflexivity.
Qed.

(* Keys: a key is listed exactly when Get finds it *)
Lemma lookup_some_iff_key : forall i tb, In i (map fst tb) <-> lookup i tb <> None.
Proof.
  intros i tb. induction tb as [|[j c] r IH]; cbn [map fst In lookup].
  - split; [intros []|intros H; apply H; reflexivity].
  - destruct (Z.eqb i j) eqn:E.
    + apply Z.eqb_eq in E. subst j. split; [intros _; discriminate|intros _; left; reflexivity].
    + rewrite <- IH. split; [intros [H|H]; [subst; rewrite Z.eqb_refl in E; discriminate|exact H]|intros H; right; exact H].
Qed.

Theorem tab_keys : forall ops i, In i (map fst (tab_run ops)) <-> fm_run ops i <> None.
Proof. intros ops i. rewrite lookup_some_iff_key, tab_ops_refine. reflexivity. Qed.

(* ---- the hint table: a set of keys ------------------------------------------------------------- *)

Inductive set_op := SAdd (i : Z) | SDel (i : Z).
Definition set_apply (l : list Z) (o : set_op) : list Z :=
  match o with SAdd i => i :: l | SDel i => delz i l end.
Definition set_run (ops : list set_op) : list Z := fold_left set_apply ops [].

Definition fset := Z -> bool.
Definition fs_apply (m : fset) (o : set_op) : fset :=
  match o with
  | SAdd i => fun j => if Z.eqb j i then true else m j
  | SDel i => fun j => if Z.eqb j i then false else m j
  end.
Definition fs_run (ops : list set_op) : fset := fold_left fs_apply ops (fun _ => false).

Lemma memz_delz_same : forall i l, memz i (delz i l) = false.
Proof.
  induction l as [|j r IH]; [reflexivity|]. cbn [delz].
  destruct (Z.eqb i j) eqn:E; [exact IH|]. cbn [memz]. rewrite E. exact IH.
Qed.

Lemma memz_delz_other : forall i j l, j <> i -> memz j (delz i l) = memz j l.
Proof.
  intros i j l N. induction l as [|k r IH]; [reflexivity|]. cbn [delz].
  destruct (Z.eqb i k) eqn:E.
  - apply Z.eqb_eq in E. subst k. cbn [memz]. destruct (Z.eqb j i) eqn:E2; [apply Z.eqb_eq in E2; contradiction|exact IH].
  - cbn [memz]. rewrite IH. reflexivity.
Qed.

Theorem set_ops_refine : forall ops j, memz j (set_run ops) = fs_run ops j.
Proof.
  intros ops. unfold set_run, fs_run.
  assert (G : forall l (m : fset), (forall j, memz j l = m j) ->
              forall j, memz j (fold_left set_apply ops l) = fold_left fs_apply ops m j).
  { induction ops as [|o r IH]; intros l m H j; [apply H|].
    cbn [fold_left]. apply IH. intros k. destruct o as [i|i]; cbn [set_apply fs_apply].
    - cbn [memz]. destruct (Z.eqb k i); [reflexivity|apply H].
    - destruct (Z.eqb k i) eqn:E.
      + apply Z.eqb_eq in E. subst k. apply memz_delz_same.
      + rewrite memz_delz_other; [apply H|]. intros ->. rewrite Z.eqb_refl in E. discriminate. }
  apply G. reflexivity.
Qed.
