(* Client/Live.v - the client of Client/Model.v extended with what C11 (salt rotation) and C16
   (nothing the server sends stops the receive loop) are about.  Executable, no proofs.

   [step2] extends [step] of Client/Model.v: the program counters RNotify and RReconnect and
   the label LClose, which have no outgoing transition there, get their transitions here, and
   the places where Model.v sends the receive loop to RDead (the deliberate panics of the
   pinned tree) follow the code AFTER the repairs of this work package:

     - startReadingResponses: an error of readMsg (transport error code, undecryptable or
       truncated packet, msg_id with wrong low bits, unregistered constructor, rpc_result for
       an id that is not in the table, bad_msg_notification) goes to warnError and the loop
       reads the next frame.
     - processResponse = handleResponse + acknowledgement: a message whose body cannot be handled
       is acknowledged like any other if its seq_no is odd, and does not cut off the rest of its
       container: [fail2] remembers that there is an error to return ([perr]), keeps the
       message's tail on the stack and goes on; the (first) error reaches warnError when the
       loop is back at its read ([flush], applied after every step of the control part
       [step2i]; [step2] = flush after step2i).
     - warnError is a non-blocking send: nil channel -> nothing; room in the buffer -> queued;
       otherwise dropped.  It never changes the control flow.
     - bad_server_salt(bad_msg_id, new_salt): salt := new_salt; SaveSession; then the retry
       marker is sent to the waiter registered under bad_msg_id ONLY (if any), and that entry
       (and its decoder hints) leave the tables.  The waiter re-enters sendPacket with the
       same request and hints (CRecv i -> CLock, same call number).
     - key-exchange requests are not put into the response table: the atomic label LKeyEx
       leaves the table alone.
     - io.EOF: Reconnect = Disconnect + CreateConnection: new connection generation, a new
       reading goroutine; the key exchange runs only if the client is not keyed.

   State added around the old [state] (field [base]): the Warnings channel, whether a custom
   handler (accepting everything) is registered, connection generation, keyed flag, counters
   of plain frames / key exchanges, and the ghost list [adopt] of salt adoptions, each with
   the number of frames written before it and its cause.

   Frames whose server msg_id is not 1 or 3 mod 4 stand for everything transport.ReadMsg
   itself refuses (4-byte error code, packet that does not decrypt or is cut short, wrong
   id parity): they never reach processResponse.  *)
From Coq Require Import ZArith List Bool Arith.
From MTV Require Import Client.Model.
Import ListNotations.
Open Scope Z_scope.

Inductive wchan := WNil | WBuf (cap n : nat).         (* m.Warnings: nil | buffered, n queued *)
Inductive cause := CKeyEx | CNewSession | CBadSalt (i : Z) (hit : bool).   (* hit: a waiter was registered under i *)

Record config := { cf_warn : wchan; cf_handler : bool; cf_keyed : bool }.

Record state2 := {
  base : state;
  wch : wchan;
  warned : nat;                        (* ghost: warnings queued on the channel so far *)
  dropped : nat;                       (* ghost: warnings dropped (nil channel is not counted) *)
  handler : bool;
  handled : nat;                       (* ghost: objects taken by the custom handler *)
  failed : nat;                        (* ghost: messages whose reading / processing ended in an error *)
  perr : bool;                         (* processResponse of the frame being worked on has an error to return *)
  gen : nat;                           (* connection generation *)
  keyed : bool;                        (* m.encrypted *)
  plain_out : nat;                     (* ghost: unencrypted frames written *)
  keyex : nat;                         (* ghost: key exchanges run *)
  adopt : list (Z * nat * cause)       (* ghost, newest first: (salt, frames written before, cause) *)
}.

Definition init2 (c : config) : state2 := {|
  base := init; wch := cf_warn c; warned := 0; dropped := 0; handler := cf_handler c; handled := 0; failed := 0; perr := false;
  gen := 1; keyed := cf_keyed c; plain_out := 0; keyex := 0; adopt := [] |}.

Inductive label2 :=
| L1 (l : label)
| LDrain                   (* the user takes one warning from the channel *)
| LKeyEx (x : Z).          (* the whole key exchange of CreateConnection; x = the salt it yields *)

(* ---- field updates ---------------------------------------------------------------------- *)

Definition wb (b : state) (s : state2) : state2 :=
  {| base := b; wch := wch s; warned := warned s; dropped := dropped s; handler := handler s;
     handled := handled s; failed := failed s; perr := perr s; gen := gen s; keyed := keyed s; plain_out := plain_out s; keyex := keyex s;
     adopt := adopt s |}.

Definition upd_base (f : state -> state) (s : state2) : state2 := wb (f (base s)) s.

Definition set_wch (w : wchan) (dw dd : nat) (s : state2) : state2 :=
  {| base := base s; wch := w; warned := warned s + dw; dropped := dropped s + dd; handler := handler s;
     handled := handled s; failed := failed s; perr := perr s; gen := gen s; keyed := keyed s; plain_out := plain_out s; keyex := keyex s;
     adopt := adopt s |}.

(* warnError, as repaired: select { case m.Warnings <- err: default: } *)
Definition warn2 (s : state2) : state2 :=
  match wch s with
  | WNil => s
  | WBuf cap n => if Nat.ltb n cap then set_wch (WBuf cap (S n)) 1 0 s else set_wch (WBuf cap n) 0 1 s
  end.

(* the default branch of processResponse: custom handlers first, else a warning *)
Definition handle2 (s : state2) : state2 :=
  if handler s then
    {| base := base s; wch := wch s; warned := warned s; dropped := dropped s; handler := handler s;
       handled := S (handled s); failed := failed s; perr := perr s; gen := gen s; keyed := keyed s; plain_out := plain_out s; keyex := keyex s;
       adopt := adopt s |}
  else warn2 s.

Definition wire2 (b : state) : list wframe := wire_out (elog b).

(* m.serverSalt = x; m.SaveSession() *)
Definition adopt2 (x : Z) (c : cause) (s : state2) : state2 :=
  {| base := set_salt x (base s); wch := wch s; warned := warned s; dropped := dropped s; handler := handler s;
     handled := handled s; failed := failed s; perr := perr s; gen := gen s; keyed := keyed s; plain_out := plain_out s; keyex := keyex s;
     adopt := (x, length (wire2 (base s)), c) :: adopt s |}.

(* an error came back from readMsg: reported, the loop reads the next frame *)
Definition bump_failed (s : state2) : state2 :=
  {| base := base s; wch := wch s; warned := warned s; dropped := dropped s; handler := handler s;
     handled := handled s; failed := S (failed s); perr := perr s; gen := gen s; keyed := keyed s; plain_out := plain_out s;
     keyex := keyex s; adopt := adopt s |}.

Definition set_perr (e : bool) (s : state2) : state2 :=
  {| base := base s; wch := wch s; warned := warned s; dropped := dropped s; handler := handler s;
     handled := handled s; failed := failed s; perr := e; gen := gen s; keyed := keyed s; plain_out := plain_out s;
     keyex := keyex s; adopt := adopt s |}.

(* handleResponse returned an error for the message on top of the stack [tl]: the error is remembered (the
   first one is what readMsg finally returns), the message is acknowledged like any other (its KTail is the
   head of tl) and the loop goes on with what is left of the enclosing containers *)
Definition fail2 (tl : list kont) (s : state2) : state2 :=
  set_perr true (bump_failed (upd_base (set_rx (settle tl)) s)).

(* back at the read with an error to return: startReadingResponses hands it to warnError *)
Definition flush (s : state2) : state2 :=
  if perr s then match rx (base s) with RRead => warn2 (set_perr false s) | _ => s end else s.

(* ---- the receive loop --------------------------------------------------------------------- *)

Definition transport_ok (f : frame) : bool :=
  let '(sid, _, _) := f in (sid mod 4 =? 1) || (sid mod 4 =? 3).

Definition dispatch2 (f : frame) (ks : list kont) (s : state2) : state2 :=
  let '(sid, seq, b) := f in
  let b0 := base s in
  let s1 := upd_base (log (ERecv sid seq)) s in
  let tl := KTail sid seq :: ks in
  if negb (decodes (hinted_for b b0) b) then fail2 tl s1
  else match strip b with
  | BContainer items => upd_base (set_rx (settle (map KItem items ++ tl))) s1
  | BResult req _ k p =>
      match lookup req (table b0) with
      | Some ch => upd_base (fun y => set_rx (RDeliver req ch (VRes k p) tl) (log (EDisp req (VRes k p)) y)) s1
      | None => fail2 tl s1
      end
  | BError req _ mg p =>
      match lookup req (table b0) with
      | Some ch => upd_base (fun y => set_rx (RDeliver req ch (VErr mg p) tl) (log (EDisp req (VErr mg p)) y)) s1
      | None => fail2 tl s1
      end
  | BNewSession x => upd_base (set_rx (settle tl)) (adopt2 x CNewSession s1)
  | BBadSalt i x =>
      match lookup i (table b0) with
      | Some _ => upd_base (fun y => set_rx (RNotify [i] tl) (log (EDisp i VRetry) y)) (adopt2 x (CBadSalt i true) s1)
      | None => upd_base (set_rx (settle tl)) (adopt2 x (CBadSalt i false) s1)
      end
  | BBadMsg _ => fail2 tl s1
  | BPong | BAck => upd_base (set_rx (settle tl)) s1
  | BUpdate => upd_base (set_rx (settle tl)) (handle2 s1)
  | BGzip _ | BGarbage => fail2 tl s1
  end.

(* `v <- &errorSessionConfigsChanged{}` + Delete: rendezvous with the waiter registered under i,
   who goes back to the entry of sendPacket with the same request, hints and call number *)
Definition notify_b (i : Z) (ks : list kont) (b : state) : option state :=
  match lookup i (table b) with
  | None => Some (set_rx (settle ks) b)
  | Some (t, k) =>
      let c := getc t b in
      match c_pc c with
      | CRecv _ =>
          if Nat.eqb (c_k c) k then
            Some (set_pc t CLock (set_rx (settle ks) (set_tables (del_key i (table b)) (delz i (hints b)) b)))
          else None
      | _ => None
      end
  end.

Definition notify2 (keys : list Z) (ks : list kont) (s : state2) : option state2 :=
  match keys with
  | [] => Some (upd_base (set_rx (settle ks)) s)
  | [i] => option_map (fun b => wb b s) (notify_b i ks (base s))
  | _ => None
  end.

(* Reconnect(): a new connection; what the old one still carried is gone; a new reading goroutine
   starts at its read *)
Definition reopen (b : state) : state :=
  {| callers := callers b; rx := RRead; lock := lock b; last_id := last_id b; seqno := seqno b;
     salt := salt b; table := table b; hints := hints b; wire_in := []; elog := elog b;
     store := store b; rets := rets b; closed := false; srv_log := srv_log b |}.

Definition reconnect2 (s : state2) : state2 :=
  {| base := reopen (base s); wch := wch s; warned := warned s; dropped := dropped s; handler := handler s;
     handled := handled s; failed := failed s; perr := perr s; gen := S (gen s); keyed := keyed s; plain_out := plain_out s; keyex := keyex s;
     adopt := adopt s |}.

(* makeAuthKey: req_pq, req_DH_params, set_client_DH_params in the clear; salt from the nonces; SaveSession *)
Definition keyex2 (x : Z) (s : state2) : state2 :=
  {| base := set_salt x (base s); wch := wch s; warned := warned s; dropped := dropped s; handler := handler s;
     handled := handled s; failed := failed s; perr := perr s; gen := gen s; keyed := true; plain_out := plain_out s + 3; keyex := S (keyex s);
     adopt := (x, length (wire2 (base s)), CKeyEx) :: adopt s |}.

Definition lift (s : state2) (l : label) : option state2 :=
  option_map (fun b => wb b s) (step (base s) l).

Definition step_rx2 (clk : Z) (s : state2) : option state2 :=
  match rx (base s) with
  | RRead =>
      match wire_in (base s) with
      | f :: r => if transport_ok f then lift s (LStep ARx clk)
                  else Some (warn2 (bump_failed (upd_base (set_in r) s)))
      | [] => lift s (LStep ARx clk)
      end
  | RDispatch f ks => Some (dispatch2 f ks s)
  | RNotify keys ks => notify2 keys ks s
  | RReconnect => Some (reconnect2 s)
  | _ => lift s (LStep ARx clk)
  end.

Definition step2i (s : state2) (l : label2) : option state2 :=
  match l with
  | LDrain =>
      match wch s with
      | WBuf cap (S n) => Some (set_wch (WBuf cap n) 0 0 s)
      | _ => None
      end
  | LKeyEx x => if keyed s then None else Some (keyex2 x s)
  | L1 l1 =>
      if negb (keyed s) then None
      else match l1 with
      | LSrv _ | LClose => if closed (base s) then None else lift s l1
      | LStep ARx clk => step_rx2 clk s
      | _ => lift s l1
      end
  end.

Definition step2 (s : state2) (l : label2) : option state2 := option_map flush (step2i s l).

Definition run2 (s : state2) (ls : list label2) : option state2 :=
  fold_left (fun o l => match o with Some x => step2 x l | None => None end) ls (Some s).

(* ---- observables ---------------------------------------------------------------------------- *)

(* the salt in force when [n] frames had been written: the newest adoption made at or before that moment *)
Fixpoint salt_at (n : nat) (ad : list (Z * nat * cause)) : Z :=
  match ad with
  | [] => 0
  | (x, m, _) :: r => if Nat.leb m n then x else salt_at n r
  end.

(* the receive loop decided to hand the retry marker to the waiter of request i
   (logged as a dispatch of the value VRetry for i) *)
Definition rejected (b : state) (i : Z) : Prop := In (EDisp i VRetry) (elog b).

Fixpoint retries (l : list event) : list Z :=          (* newest first *)
  match l with
  | [] => []
  | EDisp i VRetry :: r => i :: retries r
  | _ :: r => retries r
  end.
