(* Client/Routing.v - the response table and the hint table route every result to the call
   that asked for it (C09), for all histories of Client/Model.v. *)
From Coq Require Import ZArith List Bool Lia Arith Sorted.
From MTV Require Import Client.Model Client.StepLemmas Client.SeqNo.
Import ListNotations.
Open Scope Z_scope.
Local Opaque wrap32 fresh_id.
Arguments Z.lor : simpl never.

Ltac break_match H :=
  match type of H with context [match ?x with _ => _ end] => destruct x eqn:? end.
Ltac step_cases H :=
  unfold step, step_caller, step_rx, deliver in H;
  repeat (break_match H; try discriminate);
  inversion H; subst; clear H.
Ltac norm :=
  repeat rewrite ?getc_set_pc, ?getc_set_caller in *;
  unfold getc, set_pc, add_tables, mk_req, mk_ack in *; cbn [callers rx lock last_id seqno salt table hints wire_in elog store rets closed srv_log
       set_caller set_rx set_lock set_last set_tables set_in log set_salt add_ret set_closed push_srv send
       c_pc c_hint c_k w_id w_seq w_salt w_kind wire] in *;
  repeat rewrite ?nth_setl in *.
Ltac eqt := match goal with
  | H : context [Nat.eqb ?a ?b] |- _ => destruct (Nat.eqb_spec a b); subst
  | |- context [Nat.eqb ?a ?b] => destruct (Nat.eqb_spec a b); subst
  end.
Ltac dlookup := match goal with |- context [lookup ?a ?b] => destruct (lookup a b) eqn:? end.

(* the request with msg id i was written by call k of caller t, with/without decoder hints *)
Definition sent_req (s : state) (i : Z) (t k : nat) (h : bool) : Prop :=
  exists w, In w (wire s) /\ w_id w = i /\ w_kind w = WReq t k h.

Definition vec_val (v : value) : bool :=
  match v with VRes k _ => is_vec k | _ => false end.

Definition ret_id (x : nat * nat * Z * ret) : Z := snd (fst x).

Record InvC (s : state) : Prop := {
  c_nodup : NoDup (map fst (table s));
  c_owner : forall i t k, In (i, (t, k)) (table s) ->
      c_k (getc t s) = k /\ (c_pc (getc t s) = CWritten i \/ c_pc (getc t s) = CRecv i) /\
      exists h, sent_req s i t k h;
  c_hints : forall i, In i (hints s) -> exists t k, sent_req s i t k true;
  c_rets : forall t k i r, In (t, k, i, r) (rets s) ->
      (exists h v, sent_req s i t k h /\ In (EDisp i v) (elog s) /\ ret_of v = Some r /\
                   (vec_val v = true -> h = true)) /\
      ~ In i (map fst (table s));
  c_rets_nodup : NoDup (map ret_id (rets s));
  c_deliver : forall req ch v ks, rx s = RDeliver req ch v ks ->
      In (req, ch) (table s) /\ In (EDisp req v) (elog s) /\ (vec_val v = true -> In req (hints s))
}.

Lemma InvC_init : InvC init.
Proof.
  constructor; simpl; intros; try tauto; try constructor; try discriminate.
Qed.

(* msg ids identify frames *)
Lemma sorted_unique : forall l (w1 w2 : wframe),
  StronglySorted (fun a b => w_id a > w_id b) l -> In w1 l -> In w2 l -> w_id w1 = w_id w2 -> w1 = w2.
Proof.
  induction l as [|x l IH]; intros w1 w2 S H1 H2 E; [destruct H1|].
  inversion S as [|? ? S' F]; subst. rewrite Forall_forall in F.
  destruct H1 as [H1|H1], H2 as [H2|H2]; subst; auto.
  - apply F in H2. lia.
  - apply F in H1. lia.
Qed.

Lemma sent_req_unique : forall s i t k h t' k' h', InvA s ->
  sent_req s i t k h -> sent_req s i t' k' h' -> t = t' /\ k = k' /\ h = h'.
Proof.
  intros s i t k h t' k' h' A (w & W1 & W2 & W3) (w' & W1' & W2' & W3').
  assert (w = w') by (eapply sorted_unique; eauto using a_sorted; congruence).
  subst w'. rewrite W3 in W3'. inversion W3'; auto.
Qed.

(* steps that leave the tables, the completed calls and the owners alone *)
Lemma InvC_mono : forall s s',
  table s' = table s -> hints s' = hints s -> rets s' = rets s ->
  (forall w, In w (wire s) -> In w (wire s')) ->
  (forall e, In e (elog s) -> In e (elog s')) ->
  (forall t i, c_pc (getc t s) = CWritten i \/ c_pc (getc t s) = CRecv i ->
     c_k (getc t s') = c_k (getc t s) /\ (c_pc (getc t s') = CWritten i \/ c_pc (getc t s') = CRecv i)) ->
  (forall req ch v ks, rx s' = RDeliver req ch v ks ->
     In (req, ch) (table s) /\ In (EDisp req v) (elog s') /\ (vec_val v = true -> In req (hints s))) ->
  InvC s -> InvC s'.
Proof.
  intros s s' Ht Hh Hr Hw He Hc Hd [N O Hi R RN D].
  assert (SR : forall i t k h, sent_req s i t k h -> sent_req s' i t k h).
  { intros i t k h (w & W1 & W2 & W3). exists w. auto. }
  constructor; rewrite ?Ht, ?Hh, ?Hr; auto.
  - intros i t k H. destruct (O _ _ _ H) as (K & P & h & S). destruct (Hc _ _ P) as [K' P'].
    split; [congruence|]. split; auto. exists h. auto.
  - intros i H. destruct (Hi _ H) as (t & k & S). exists t, k. auto.
  - intros t k i r H. destruct (R _ _ _ _ H) as [(h & v & S & E & RV & V) NI].
    split; auto. exists h, v. auto.
Qed.

Lemma dispatch_elog : forall f ks s e, In e (elog s) -> In e (elog (dispatch f ks s)).
Proof.
  intros [[sid seq] b] ks s e H. unfold dispatch.
  destruct (negb (decodes (hinted_for b s) b)); [simpl; auto|].
  destruct (strip b); try dlookup; simpl; auto.
Qed.

Lemma dispatch_deliver : forall f ks s req ch v k2,
  rx (dispatch f ks s) = RDeliver req ch v k2 ->
  In (req, ch) (table s) /\ In (EDisp req v) (elog (dispatch f ks s)) /\
  (vec_val v = true -> In req (hints s)).
Proof.
  intros [[sid seq] b] ks s req ch v k2. unfold dispatch.
  destruct (negb (decodes (hinted_for b s) b)) eqn:DE; [simpl; discriminate|].
  apply negb_false_iff in DE.
  pose proof (settle_quiet) as Q.
  destruct (strip b) eqn:SB; try dlookup; cbn [rx set_rx elog log set_salt]; intros H;
    try discriminate; try (specialize (Q (KTail sid seq :: ks)); rewrite H in Q; destruct Q);
    try (match type of H with settle ?x = _ => specialize (Q x); rewrite H in Q; destruct Q end).
  - inversion H; subst. split; [apply lookup_In; auto|]. split; [simpl; auto|].
    simpl. intros V. unfold decodes in DE. rewrite SB, V in DE.
    unfold hinted_for in DE. destruct (hint_key b) eqn:HK; [|discriminate].
    apply (hint_key_strip_result _ _ _ _ _ _ SB) in HK. subst. apply memz_In. auto.
  - inversion H; subst. split; [apply lookup_In; auto|]. split; [simpl; auto|]. simpl. discriminate.
Qed.

Lemma keep_deliver : forall s s', InvC s -> rx s' = rx s -> (forall e, In e (elog s) -> In e (elog s')) ->
  forall req ch v ks, rx s' = RDeliver req ch v ks ->
     In (req, ch) (table s) /\ In (EDisp req v) (elog s') /\ (vec_val v = true -> In req (hints s)).
Proof.
  intros s s' C E L req ch v ks H. rewrite E in H. destruct (c_deliver _ C _ _ _ _ H) as (A & B & D). auto.
Qed.

Lemma InvC_step : forall s l s', InvA s -> InvC s -> step s l = Some s' -> InvC s'.
Proof.
  intros s l s' IA IC H. pose proof IC as [N O Hi R RN D].
  destruct l as [t h|[t|] clk|f|].
  - (* LCall *) step_cases H. apply (InvC_mono s); auto.
    intros t0 i P. norm. eqt; simpl; auto. rewrite Heqc in P. destruct P; discriminate.
  - step_cases H.
    + (* acquire *) apply (InvC_mono s); auto.
      intros t0 i P. norm. eqt; simpl; auto. rewrite Heqc in P. destruct P; discriminate.
    + (* write *)
      assert (FR : forall j t' k' h', sent_req s j t' k' h' -> j < i).
      { intros j t' k' h' (w & W1 & W2 & W3). subst j.
        apply (a_reg _ IA i); auto. left. exists t. auto. }
      set (w0 := mk_req i t (c_k (getc t s)) (c_hint (getc t s)) s).
      assert (SR : forall j t' k' h' s1, wire s1 = w0 :: wire s -> sent_req s j t' k' h' -> sent_req s1 j t' k' h').
      { intros j t' k' h' s1 E (w & W1 & W2 & W3). exists w. rewrite E. simpl. auto. }
      assert (SN : forall s1, wire s1 = w0 :: wire s -> sent_req s1 i t (c_k (getc t s)) (c_hint (getc t s))).
      { intros s1 E. exists w0. rewrite E. simpl. auto. }
      constructor; intros; norm.
      * simpl. constructor; auto. intro X. apply in_map_iff in X. destruct X as [[j [t' k']] [E X]].
        simpl in E. subst j. destruct (O _ _ _ X) as (_ & _ & h' & S). apply FR in S. lia.
      * destruct H as [H|H].
        -- inversion H; subst. rewrite Nat.eqb_refl. simpl. split; auto. split; auto.
           eexists. apply SN. reflexivity.
        -- destruct (O _ _ _ H) as (K & P & h' & S). eqt.
           ++ unfold getc in Heqc. rewrite Heqc in P. destruct P; discriminate.
           ++ split; auto. split; auto. exists h'. eapply SR; eauto; reflexivity.
      * destruct (c_hint (nth t (callers s) idle_caller)) eqn:CH.
        -- destruct H as [H|H].
           ++ subst i0. exists t, (c_k (nth t (callers s) idle_caller)). apply SN. reflexivity.
           ++ destruct (Hi _ H) as (t' & k' & S). exists t', k'. eapply SR; eauto; reflexivity.
        -- destruct (Hi _ H) as (t' & k' & S). exists t', k'. eapply SR; eauto; reflexivity.
      * destruct (R _ _ _ _ H) as [(h' & v & S & E & RV & V) NI]. split.
        -- exists h', v. split; [eapply SR; eauto; reflexivity|]. split; [right; auto|auto].
        -- simpl. intros [X|X]; [subst i0; apply FR in S; lia|auto].
      * auto.
      * destruct (D _ _ _ _ H) as (A & B & C). split; [right; auto|]. split; [right; auto|].
        intro V. apply C in V. destruct (c_hint (nth t (callers s) idle_caller)); [right|]; auto.
    + (* release *) apply (InvC_mono s); auto.
      intros t0 i0 P. norm. eqt; simpl; auto. unfold getc in Heqc. rewrite Heqc in P.
      split; auto. destruct P as [P|P]; inversion P; subst; auto.
  - (* receive loop *) step_cases H.
    + (* read *) apply (InvC_mono s); auto. simpl. discriminate.
    + (* reconnect *) apply (InvC_mono s); auto. simpl. discriminate.
    + (* dispatch *) destruct (dispatch_frame f ks s) as (A & _ & _ & _ & B & C & E & F).
      apply (InvC_mono s); auto.
      * rewrite F. auto.
      * apply dispatch_elog.
      * unfold getc. rewrite A. auto.
      * apply dispatch_deliver.
    + (* deliver, value returned *)
      apply Nat.eqb_eq in Heqb. destruct (D _ _ _ _ eq_refl) as (D1 & D2 & D3).
      destruct (O _ _ _ D1) as (K & P & h0 & S0).
      assert (i = req) by (rewrite Heqc0 in P; destruct P as [P|P]; inversion P; auto). subst i.
      assert (WS : forall s1 j t' k' h', wire s1 = wire s -> sent_req s j t' k' h' -> sent_req s1 j t' k' h').
      { intros s1 j t' k' h' E (w & W1 & W2 & W3). exists w. rewrite E. auto. }
      constructor; intros; norm.
      * apply NoDup_del_key; auto.
      * apply In_del_key in H. destruct H as [H NE]. destruct (O _ _ _ H) as (K' & P' & h' & S'). eqt.
        -- unfold getc in Heqc0. rewrite Heqc0 in P'. destruct P' as [P'|P']; inversion P'. congruence.
        -- split; auto. split; auto. exists h'. apply WS; auto.
      * apply In_delz in H. destruct H as [H NE]. destruct (Hi _ H) as (t' & k' & S'). exists t', k'. apply WS; auto.
      * destruct H as [H|H].
        -- inversion H; subst. split.
           ++ exists h0, v. split; [apply WS; auto|]. split; auto. split; auto.
              intro V. apply D3 in V. destruct (Hi _ V) as (t' & k' & S').
              destruct (sent_req_unique _ _ _ _ _ _ _ _ IA S0 S') as (_ & _ & E). auto.
           ++ intro X. apply keys_del_key in X. destruct X. congruence.
        -- destruct (R _ _ _ _ H) as [(h' & v' & S' & E' & RV & V) NI]. split.
           ++ exists h', v'. split; [apply WS; auto|auto].
           ++ intro X. apply keys_del_key in X. tauto.
      * simpl. constructor; auto. intro X. apply in_map_iff in X. destruct X as [[[[t' k'] i'] r'] [E X]].
        unfold ret_id in E. simpl in E. subst i'. destruct (R _ _ _ _ X) as [_ NI]. apply NI.
        apply in_map_iff. exists (req, (n, n0)). auto.
      * pose proof (settle_quiet ks) as Q. rewrite H in Q. destruct Q.
    + (* deliver, marker: reserved *)
      apply Nat.eqb_eq in Heqb. destruct (D _ _ _ _ eq_refl) as (D1 & D2 & D3).
      destruct (O _ _ _ D1) as (K & P & h0 & S0).
      assert (i = req) by (rewrite Heqc0 in P; destruct P as [P|P]; inversion P; auto). subst i.
      assert (WS : forall s1 j t' k' h', wire s1 = wire s -> sent_req s j t' k' h' -> sent_req s1 j t' k' h').
      { intros s1 j t' k' h' E (w & W1 & W2 & W3). exists w. rewrite E. auto. }
      constructor; intros; norm.
      * apply NoDup_del_key; auto.
      * apply In_del_key in H. destruct H as [H NE]. destruct (O _ _ _ H) as (K' & P' & h' & S'). eqt.
        -- unfold getc in Heqc0. rewrite Heqc0 in P'. destruct P' as [P'|P']; inversion P'. congruence.
        -- split; auto. split; auto. exists h'. apply WS; auto.
      * apply In_delz in H. destruct H as [H NE]. destruct (Hi _ H) as (t' & k' & S'). exists t', k'. apply WS; auto.
      * destruct (R _ _ _ _ H) as [(h' & v' & S' & E' & RV & V) NI]. split.
        -- exists h', v'. split; [apply WS; auto|auto].
        -- intro X. apply keys_del_key in X. tauto.
      * auto.
      * pose proof (settle_quiet ks) as Q. rewrite H in Q. destruct Q.
    + (* rx acquire *) apply (InvC_mono s); auto. simpl. discriminate.
    + (* rx write *) apply (InvC_mono s); auto; simpl; auto. discriminate.
    + (* rx release *) apply (InvC_mono s); auto. simpl. discriminate.
    + (* ack received *) apply (InvC_mono s); auto. simpl. intros ? ? ? ? X.
      pose proof (settle_quiet ks) as Q. rewrite X in Q. destruct Q.
  - (* LSrv *) step_cases H. apply (InvC_mono s); auto.
  - (* LClose *) step_cases H. apply (InvC_mono s); auto.
Qed.


(* ---- E: one frame per call -------------------------------------------------------------------- *)

Definition sending (p : cpc) : Prop := p = CLock \/ exists i, p = CReg i.

Record InvE (s : state) : Prop := {
  e_le : forall w t k h, In w (wire s) -> w_kind w = WReq t k h -> (k <= c_k (getc t s))%nat;
  e_lt : forall w t k h, In w (wire s) -> w_kind w = WReq t k h -> sending (c_pc (getc t s)) ->
         (k < c_k (getc t s))%nat;
  e_uniq : forall w1 w2 t k h1 h2, In w1 (wire s) -> In w2 (wire s) ->
         w_kind w1 = WReq t k h1 -> w_kind w2 = WReq t k h2 -> w1 = w2
}.

Lemma InvE_init : InvE init.
Proof. constructor; simpl; intros; tauto. Qed.

Lemma InvE_mono : forall s s',
  wire s' = wire s ->
  (forall t, c_k (getc t s') = c_k (getc t s) /\ (sending (c_pc (getc t s')) -> sending (c_pc (getc t s)))) ->
  InvE s -> InvE s'.
Proof.
  intros s s' Hw Hc [L T U]. constructor; rewrite Hw; intros.
  - destruct (Hc t) as [K _]. rewrite K. eauto.
  - destruct (Hc t) as [K P]. rewrite K. eauto.
  - eauto.
Qed.

Lemma InvE_step : forall s l s', InvE s -> step s l = Some s' -> InvE s'.
Proof.
  intros s l s' IE H. pose proof IE as [L T U].
  destruct l as [t h|[t|] clk|f|].
  - (* LCall *) step_cases H. constructor; intros; norm.
    + eqt; simpl; eauto; try (specialize (L _ _ _ _ H H0); unfold getc in L; lia).
    + eqt; simpl; eauto; try (specialize (L _ _ _ _ H H0); unfold getc in L; lia).
    + eauto.
  - step_cases H.
    + (* acquire *) apply (InvE_mono s); auto. intros t0. norm. eqt; simpl; auto.
      split; auto. intros _. left. unfold getc in Heqc. auto.
    + (* write *) constructor; intros; norm.
      * destruct H as [H|H].
        -- subst w. simpl in H0. inversion H0; subst. rewrite Nat.eqb_refl. simpl. lia.
        -- eqt; simpl; eauto.
      * destruct H as [H|H].
        -- subst w. simpl in H0. inversion H0; subst. rewrite Nat.eqb_refl in H1. simpl in H1.
           destruct H1 as [H1|[? H1]]; discriminate.
        -- eqt; simpl in *; [destruct H1 as [H1|[? H1]]; discriminate|eauto].
      * assert (X : forall w k' h', In w (wire_out (elog s)) -> w_kind w = WReq t k' h' ->
                    (k' < c_k (nth t (callers s) idle_caller))%nat).
        { intros w k' h' W K. apply (T w t k' h' W K). right. exists i. auto. }
        destruct H as [H|H], H0 as [H0|H0]; subst; auto.
        -- simpl in H1. inversion H1; subst. specialize (X _ _ _ H0 H2). lia.
        -- simpl in H2. inversion H2; subst. specialize (X _ _ _ H H1). lia.
        -- eauto.
    + (* release *) apply (InvE_mono s); auto. intros t0. norm. eqt; simpl; auto.
      split; auto. intros [X|[? X]]; discriminate.
  - (* receive loop *) step_cases H; try (apply (InvE_mono s); auto; fail).
    + (* dispatch *) destruct (dispatch_frame f ks s) as (A & _ & _ & _ & _ & _ & _ & F).
      apply (InvE_mono s); auto. intros t0. unfold getc. rewrite A. auto.
    + (* deliver *) apply Nat.eqb_eq in Heqb. apply (InvE_mono s); auto. intros t0. norm. eqt; simpl; auto.
      split; auto. intros [X|[? X]]; discriminate.
    + apply Nat.eqb_eq in Heqb. apply (InvE_mono s); auto. intros t0. norm. eqt; simpl; auto.
      split; auto. intros [X|[? X]]; discriminate.
    + (* rx write *) constructor; intros; norm.
      * destruct H as [H|H]; [subst w; discriminate|eauto].
      * destruct H as [H|H]; [subst w; discriminate|eauto].
      * destruct H as [H|H], H0 as [H0|H0]; subst; try discriminate; eauto.
  - step_cases H. apply (InvE_mono s); auto.
  - step_cases H. apply (InvE_mono s); auto.
Qed.

(* ---- over all histories ------------------------------------------------------------------------ *)

Lemma Inv09_run : forall ls s, run init ls = Some s -> InvA s /\ InvC s /\ InvE s.
Proof.
  apply (run_invariant (fun s => InvA s /\ InvC s /\ InvE s)).
  - split; [apply InvA_init|split; [apply InvC_init|apply InvE_init]].
  - intros s l s' [A [C E]] H. split; [eapply InvA_step|split; [eapply InvC_step|eapply InvE_step]]; eauto.
Qed.

Definition ret_call (x : nat * nat * Z * ret) : nat * nat := fst (fst x).

Lemma NoDup_map_transfer : forall (A B C : Type) (f : A -> B) (g : A -> C) (l : list A),
  NoDup (map f l) -> (forall x y, In x l -> In y l -> g x = g y -> f x = f y) -> NoDup (map g l).
Proof.
  induction l as [|a l IH]; simpl; intros N H; [constructor|].
  inversion N; subst. constructor; [|apply IH; auto].
  intro X. apply in_map_iff in X. destruct X as [y [E Y]].
  apply H2. apply in_map_iff. exists y. split; [apply H; auto|exact Y].
Qed.

Lemma routing : forall ls s, run init ls = Some s ->
  (forall t k i r, In (t, k, i, r) (rets s) ->
     exists h v,
       sent_req s i t k h /\
       (forall t' k' h', sent_req s i t' k' h' -> t' = t /\ k' = k /\ h' = h) /\
       (forall i' h', sent_req s i' t k h' -> i' = i) /\
       In (EDisp i v) (elog s) /\ ret_of v = Some r /\
       (vec_val v = true -> h = true)) /\
  NoDup (map ret_id (rets s)) /\
  NoDup (map ret_call (rets s)).
Proof.
  intros ls s H. destruct (Inv09_run _ _ H) as [A [C E]].
  assert (ONE : forall t k i h i' h', sent_req s i t k h -> sent_req s i' t k h' -> i' = i).
  { intros t k i h i' h' (w & W1 & W2 & W3) (w' & W1' & W2' & W3').
    assert (w = w') by (eapply (e_uniq _ E); eauto). subst. auto. }
  split; [|split; [apply (c_rets_nodup _ C)|]].
  - intros t k i r Hr. destruct (c_rets _ C _ _ _ _ Hr) as [(h & v & S & D & RV & V) _].
    exists h, v. split; auto. split; [|split; [|auto]].
    + intros t' k' h' S'. destruct (sent_req_unique _ _ _ _ _ _ _ _ A S S') as (X & Y & Z). auto.
    + intros i' h' S'. eapply ONE; eauto.
  - apply (NoDup_map_transfer _ _ _ ret_id ret_call); [apply (c_rets_nodup _ C)|].
    intros [[[t k] i] r] [[[t' k'] i'] r'] X Y Q. unfold ret_call, ret_id in *. simpl in *. inversion Q; subst.
    destruct (c_rets _ C _ _ _ _ X) as [(h & v & S & _) _].
    destruct (c_rets _ C _ _ _ _ Y) as [(h' & v' & S' & _) _].
    eapply ONE; eauto.
Qed.
