(* Client/Model.v - the MTProto client (mtproto.go, network.go of xelaj/mtproto, AFTER the C09/C10
   repairs) as a labelled transition system.  Executable, no proofs (see Routing.v, SeqNo.v).

   One label = one atomic block of the real code between two yield points (verifYield, build
   tag verif).  Yield points and program counters:

     caller t   CIdle --LCall--> CLock        "prelock"  (marshal done, about to take seqNoMutex)
                CLock --LStep--> CReg i       "idgen"    (lock taken, i := newMsgID() under the lock)
                CReg i --LStep-> CWritten i   "written"  (hints.Add, responseChannels.Add, seal, write, seqNo += 2)
                CWritten i --LStep-> CRecv i  "prerecv"  (sendPacket returned: deferred unlock)
                CRecv i                        blocked in `<-resp` : moves only by rendezvous with the receive loop
     receive    RRead --LStep--> RDispatch    "read" -> "dispatch" (readMsg took one frame)
     loop       RDispatch f ks                processResponse entry; decode, switch on constructor
                RDeliver req ch v ks          "deliver"  (writeRPCResponse found channel ch; about to send v)
                RAckLock/RAckReg/RAckWritten/RAckRecv : the tail `MakeRequest(&MsgsAck{msg_id})` of
                                              processResponse = the caller path run by the receive loop itself,
                                              answered by a null-sender goroutine (always ready)
                RNotify, RReconnect, RDead    reserved for C11 / C16: no transition leaves them yet
   [ks] is the continuation stack of the recursion processResponse -> container items -> tail.

   Labels: LCall t hinted (a caller starts MakeRequest / MakeRequestWithHintToDecoder), LStep a clk
   (actor a runs to its next yield point; clk is the clock reading used if the block calls
   newMsgID - DESIGN's `Tick` is folded into it), LSrv f (the server puts frame f on the wire; also
   appended to the ghost field srv_log, which no transition reads), LClose (reserved).
   A label that is not enabled (lock held, nothing to read, rendezvous partner not waiting) is
   refused: step returns None.
   Payloads are abstract: a result is (kind, token).  msg ids, seq_nos, salts are Z.
   seq_no is Go int32: [wrap32]; `seqNo | 1` is Z.lor.  The clock is an arbitrary label
   parameter: GenerateMessageId() = 4 * clk for some clk (low two bits cleared). *)
From Coq Require Import ZArith List Bool.
Import ListNotations.
Open Scope Z_scope.

(* ---- messages ------------------------------------------------------------------------- *)

Inductive rkind := KObj | KBool | KVecBare | KVecObj.
Definition is_vec (k : rkind) : bool :=
  match k with KVecBare | KVecObj => true | _ => false end.

(* server-to-client message bodies *)
Inductive body :=
| BResult (req : Z) (gz : bool) (k : rkind) (p : Z)        (* rpc_result{req, [gzip_packed] result}   *)
| BError (req : Z) (gz : bool) (migrate : bool) (p : Z)    (* rpc_result{req, [gzip_packed] rpc_error} *)
| BContainer (items : list (Z * Z * body))                 (* msg_container of (msg_id, seq_no, body)  *)
| BGzip (b : body)                                         (* gzip_packed around a whole message       *)
| BPong | BAck | BUpdate
| BNewSession (salt : Z)
| BBadSalt (bad salt : Z)
| BBadMsg (bad : Z)
| BGarbage.                                                (* anything tl.DecodeUnknownObject refuses  *)

Definition frame := (Z * Z * body)%type.                   (* server msg_id, seq_no, body *)

Inductive actor := ACaller (t : nat) | ARx.

(* what travels over a response channel *)
Inductive value := VRes (k : rkind) (p : Z) | VErr (migrate : bool) (p : Z) | VNull | VRetry.
(* what MakeRequest returns *)
Inductive ret := RetVal (k : rkind) (p : Z) | RetErr (p : Z) | RetNil.

Inductive wkind := WReq (t k : nat) (hinted : bool) | WAck (sid : Z).
Record wframe := { w_id : Z; w_seq : Z; w_salt : Z; w_kind : wkind }.

Inductive event :=
| ERecv (sid seq : Z)          (* processResponse entered for this message (top level or container item) *)
| EDisp (req : Z) (v : value)  (* it was an rpc_result for req carrying v *)
| ESent (w : wframe).          (* the client wrote w *)

(* ---- control state -------------------------------------------------------------------- *)

Inductive cpc := CIdle | CLock | CReg (i : Z) | CWritten (i : Z) | CRecv (i : Z) | CStuck.
Record caller := { c_pc : cpc; c_hint : bool; c_k : nat }.
Definition idle_caller := {| c_pc := CIdle; c_hint := false; c_k := 0 |}.

Inductive kont := KItem (f : frame) | KTail (sid seq : Z).
Definition chan := (nat * nat)%type.      (* the channel made by call number k of caller t *)

Inductive rpc :=
| RRead
| RDispatch (f : frame) (ks : list kont)
| RDeliver (req : Z) (ch : chan) (v : value) (ks : list kont)
| RAckLock (sid : Z) (ks : list kont)
| RAckReg (sid i : Z) (ks : list kont)
| RAckWritten (sid i : Z) (ks : list kont)
| RAckRecv (sid : Z) (ks : list kont)
| RNotify (keys : list Z) (ks : list kont)
| RReconnect
| RDead.

Record state := {
  callers : list caller;
  rx : rpc;
  lock : option actor;               (* seqNoMutex *)
  last_id : Z;                       (* lastMsgID *)
  seqno : Z;                         (* seqNo *)
  salt : Z;                          (* serverSalt *)
  table : list (Z * chan);           (* responseChannels *)
  hints : list Z;                    (* keys of expectedTypes *)
  wire_in : list frame;              (* frames the server has sent, not yet read (FIFO) *)
  elog : list event;                 (* newest first *)
  store : list Z;                    (* salts written to the session store, newest first *)
  rets : list (nat * nat * Z * ret); (* completed calls: caller, call number, its msg id, returned value *)
  closed : bool;                     (* reserved: the server closed the connection *)
  srv_log : list frame               (* ghost: every frame the server has sent, newest first *)
}.

Definition init : state := {|
  callers := []; rx := RRead; lock := None; last_id := 0; seqno := 0; salt := 0;
  table := []; hints := []; wire_in := []; elog := []; store := []; rets := []; closed := false; srv_log := [] |}.

Inductive label :=
| LCall (t : nat) (hinted : bool)
| LStep (a : actor) (clk : Z)
| LSrv (f : frame)
| LClose.

(* ---- field updates --------------------------------------------------------------------- *)

Definition getc (t : nat) (s : state) : caller := nth t (callers s) idle_caller.

Fixpoint setl (t : nat) (c : caller) (l : list caller) : list caller :=
  match t, l with
  | O, [] => [c]
  | O, _ :: r => c :: r
  | S t', [] => idle_caller :: setl t' c []
  | S t', x :: r => x :: setl t' c r
  end.

Definition set_caller (t : nat) (c : caller) (s : state) : state :=
  {| callers := setl t c (callers s); rx := rx s; lock := lock s; last_id := last_id s; seqno := seqno s;
     salt := salt s; table := table s; hints := hints s; wire_in := wire_in s; elog := elog s;
     store := store s; rets := rets s; closed := closed s; srv_log := srv_log s |}.

Definition set_pc (t : nat) (p : cpc) (s : state) : state :=
  let c := getc t s in set_caller t {| c_pc := p; c_hint := c_hint c; c_k := c_k c |} s.

Definition set_rx (r : rpc) (s : state) : state :=
  {| callers := callers s; rx := r; lock := lock s; last_id := last_id s; seqno := seqno s;
     salt := salt s; table := table s; hints := hints s; wire_in := wire_in s; elog := elog s;
     store := store s; rets := rets s; closed := closed s; srv_log := srv_log s |}.

Definition set_lock (l : option actor) (s : state) : state :=
  {| callers := callers s; rx := rx s; lock := l; last_id := last_id s; seqno := seqno s;
     salt := salt s; table := table s; hints := hints s; wire_in := wire_in s; elog := elog s;
     store := store s; rets := rets s; closed := closed s; srv_log := srv_log s |}.

Definition set_last (i : Z) (s : state) : state :=
  {| callers := callers s; rx := rx s; lock := lock s; last_id := i; seqno := seqno s;
     salt := salt s; table := table s; hints := hints s; wire_in := wire_in s; elog := elog s;
     store := store s; rets := rets s; closed := closed s; srv_log := srv_log s |}.

Definition set_tables (tb : list (Z * chan)) (h : list Z) (s : state) : state :=
  {| callers := callers s; rx := rx s; lock := lock s; last_id := last_id s; seqno := seqno s;
     salt := salt s; table := tb; hints := h; wire_in := wire_in s; elog := elog s;
     store := store s; rets := rets s; closed := closed s; srv_log := srv_log s |}.

Definition set_in (w : list frame) (s : state) : state :=
  {| callers := callers s; rx := rx s; lock := lock s; last_id := last_id s; seqno := seqno s;
     salt := salt s; table := table s; hints := hints s; wire_in := w; elog := elog s;
     store := store s; rets := rets s; closed := closed s; srv_log := srv_log s |}.

Definition log (e : event) (s : state) : state :=
  {| callers := callers s; rx := rx s; lock := lock s; last_id := last_id s; seqno := seqno s;
     salt := salt s; table := table s; hints := hints s; wire_in := wire_in s; elog := e :: elog s;
     store := store s; rets := rets s; closed := closed s; srv_log := srv_log s |}.

Definition set_salt (x : Z) (s : state) : state :=
  {| callers := callers s; rx := rx s; lock := lock s; last_id := last_id s; seqno := seqno s;
     salt := x; table := table s; hints := hints s; wire_in := wire_in s; elog := elog s;
     store := x :: store s; rets := rets s; closed := closed s; srv_log := srv_log s |}.

Definition add_ret (r : nat * nat * Z * ret) (s : state) : state :=
  {| callers := callers s; rx := rx s; lock := lock s; last_id := last_id s; seqno := seqno s;
     salt := salt s; table := table s; hints := hints s; wire_in := wire_in s; elog := elog s;
     store := store s; rets := r :: rets s; closed := closed s; srv_log := srv_log s |}.

Definition push_srv (f : frame) (s : state) : state :=
  {| callers := callers s; rx := rx s; lock := lock s; last_id := last_id s; seqno := seqno s;
     salt := salt s; table := table s; hints := hints s; wire_in := wire_in s ++ [f]; elog := elog s;
     store := store s; rets := rets s; closed := closed s; srv_log := f :: srv_log s |}.

Definition set_closed (s : state) : state :=
  {| callers := callers s; rx := rx s; lock := lock s; last_id := last_id s; seqno := seqno s;
     salt := salt s; table := table s; hints := hints s; wire_in := wire_in s; elog := elog s;
     store := store s; rets := rets s; closed := true; srv_log := srv_log s |}.

(* ---- arithmetic of the send path -------------------------------------------------------- *)

(* newMsgID: the clock reading, bumped past the last id if the clock did not move forward *)
Definition fresh_id (last clk : Z) : Z :=
  let c := 4 * clk in if c <=? last then last + 4 else c.

(* Go int32 arithmetic *)
Definition wrap32 (z : Z) : Z := (z + 2147483648) mod 4294967296 - 2147483648.

(* write one message: seal with the current salt and seq_no, append to the wire, seqNo += 2 *)
Definition send (w : wframe) (s : state) : state :=
  {| callers := callers s; rx := rx s; lock := lock s; last_id := last_id s; seqno := wrap32 (seqno s + 2);
     salt := salt s; table := table s; hints := hints s; wire_in := wire_in s; elog := ESent w :: elog s;
     store := store s; rets := rets s; closed := closed s; srv_log := srv_log s |}.

Definition mk_req (i : Z) (t k : nat) (h : bool) (s : state) : wframe :=
  {| w_id := i; w_seq := Z.lor (seqno s) 1; w_salt := salt s; w_kind := WReq t k h |}.
Definition mk_ack (i sid : Z) (s : state) : wframe :=
  {| w_id := i; w_seq := seqno s; w_salt := salt s; w_kind := WAck sid |}.

(* ---- tables ---------------------------------------------------------------------------- *)

Fixpoint lookup (i : Z) (tb : list (Z * chan)) : option chan :=
  match tb with
  | [] => None
  | (j, c) :: r => if Z.eqb i j then Some c else lookup i r
  end.

Fixpoint del_key (i : Z) (tb : list (Z * chan)) : list (Z * chan) :=
  match tb with
  | [] => []
  | (j, c) :: r => if Z.eqb i j then del_key i r else (j, c) :: del_key i r
  end.

Fixpoint memz (i : Z) (l : list Z) : bool :=
  match l with [] => false | j :: r => Z.eqb i j || memz i r end.

Fixpoint delz (i : Z) (l : list Z) : list Z :=
  match l with [] => [] | j :: r => if Z.eqb i j then delz i r else j :: delz i r end.

(* ---- the receive loop ------------------------------------------------------------------- *)

(* run the continuation up to the next yield point *)
Fixpoint settle (ks : list kont) : rpc :=
  match ks with
  | [] => RRead
  | KItem f :: r => RDispatch f r
  | KTail sid seq :: r => if Z.odd seq then RAckLock sid r else settle r
  end.

(* `case *objects.GzipPacked: data = message.Obj; goto messageTypeSwitching` *)
Fixpoint strip (b : body) : body :=
  match b with BGzip b' => strip b' | _ => b end.

(* reqMsgIDOf: the key under which decoder hints are looked up (one gzip level is opened) *)
Definition hint_key (b : body) : option Z :=
  match b with
  | BResult r _ _ _ | BError r _ _ _ => Some r
  | BGzip (BResult r _ _ _) | BGzip (BError r _ _ _) => Some r
  | _ => None
  end.

Definition hinted_for (b : body) (s : state) : bool :=
  match hint_key b with Some r => memz r (hints s) | None => false end.

(* does tl.DecodeUnknownObject succeed: a Vector<> result needs hints *)
Definition decodes (hinted : bool) (b : body) : bool :=
  match strip b with
  | BResult _ _ k _ => if is_vec k then hinted else true
  | BGarbage => false
  | _ => true
  end.

Definition dispatch (f : frame) (ks : list kont) (s : state) : state :=
  let '(sid, seq, b) := f in
  let s1 := log (ERecv sid seq) s in
  let tl := KTail sid seq :: ks in
  if negb (decodes (hinted_for b s) b) then set_rx RDead s1
  else match strip b with
  | BContainer items => set_rx (settle (map KItem items ++ tl)) s1
  | BResult req _ k p =>
      match lookup req (table s) with
      | Some ch => set_rx (RDeliver req ch (VRes k p) tl) (log (EDisp req (VRes k p)) s1)
      | None => set_rx RDead s1
      end
  | BError req _ mg p =>
      match lookup req (table s) with
      | Some ch => set_rx (RDeliver req ch (VErr mg p) tl) (log (EDisp req (VErr mg p)) s1)
      | None => set_rx RDead s1
      end
  | BNewSession x => set_rx (settle tl) (set_salt x s1)
  | BBadSalt _ x => set_rx (RNotify (map fst (table s)) tl) (set_salt x s1)
  | BBadMsg _ => set_rx RDead s1
  | BPong | BAck | BUpdate => set_rx (settle tl) s1
  | BGzip _ | BGarbage => set_rx RDead s1
  end.

Definition ret_of (v : value) : option ret :=
  match v with
  | VRes k p => Some (RetVal k p)
  | VErr false p => Some (RetErr p)
  | VNull => Some RetNil
  | VErr true _ | VRetry => None
  end.

(* rendezvous on channel ch: the receiver is call k of caller t, blocked in `<-resp` *)
Definition deliver (req : Z) (ch : chan) (v : value) (ks : list kont) (s : state) : option state :=
  let '(t, k) := ch in
  let c := getc t s in
  match c_pc c with
  | CRecv i =>
      if Nat.eqb (c_k c) k then
        let s1 := set_rx (settle ks) (set_tables (del_key req (table s)) (delz req (hints s)) s) in
        match ret_of v with
        | Some r => Some (add_ret (t, k, i, r) (set_pc t CIdle s1))
        | None => Some (set_pc t CStuck s1)
        end
      else None
  | _ => None
  end.

Definition step_rx (clk : Z) (s : state) : option state :=
  match rx s with
  | RRead =>
      match wire_in s with
      | f :: r => Some (set_rx (RDispatch f []) (set_in r s))
      | [] => if closed s then Some (set_rx RReconnect s) else None
      end
  | RDispatch f ks => Some (dispatch f ks s)
  | RDeliver req ch v ks => deliver req ch v ks s
  | RAckLock sid ks =>
      match lock s with
      | None => let i := fresh_id (last_id s) clk in
                Some (set_rx (RAckReg sid i ks) (set_last i (set_lock (Some ARx) s)))
      | Some _ => None
      end
  | RAckReg sid i ks => Some (set_rx (RAckWritten sid i ks) (send (mk_ack i sid s) s))
  | RAckWritten sid i ks => Some (set_rx (RAckRecv sid ks) (set_lock None s))
  | RAckRecv sid ks => Some (set_rx (settle ks) s)
  | RNotify _ _ | RReconnect | RDead => None
  end.

(* ---- callers ---------------------------------------------------------------------------- *)

Definition add_tables (i : Z) (t : nat) (c : caller) (s : state) : state :=
  set_tables ((i, (t, c_k c)) :: table s) (if c_hint c then i :: hints s else hints s) s.

Definition step_caller (t : nat) (clk : Z) (s : state) : option state :=
  let c := getc t s in
  match c_pc c with
  | CLock =>
      match lock s with
      | None => let i := fresh_id (last_id s) clk in
                Some (set_pc t (CReg i) (set_last i (set_lock (Some (ACaller t)) s)))
      | Some _ => None
      end
  | CReg i => Some (set_pc t (CWritten i) (send (mk_req i t (c_k c) (c_hint c) s) (add_tables i t c s)))
  | CWritten i => Some (set_pc t (CRecv i) (set_lock None s))
  | CIdle | CRecv _ | CStuck => None
  end.

Definition step (s : state) (l : label) : option state :=
  match l with
  | LCall t h =>
      let c := getc t s in
      match c_pc c with
      | CIdle => Some (set_caller t {| c_pc := CLock; c_hint := h; c_k := S (c_k c) |} s)
      | _ => None
      end
  | LStep (ACaller t) clk => step_caller t clk s
  | LStep ARx clk => step_rx clk s
  | LSrv f => Some (push_srv f s)
  | LClose => Some (set_closed s)
  end.

(* a history: all labels accepted, left to right *)
Definition run (s : state) (ls : list label) : option state :=
  fold_left (fun o l => match o with Some x => step x l | None => None end) ls (Some s).

(* ---- observables ------------------------------------------------------------------------- *)

Fixpoint wire_out (l : list event) : list wframe :=      (* newest first *)
  match l with
  | [] => []
  | ESent w :: r => w :: wire_out r
  | _ :: r => wire_out r
  end.

Definition is_content (w : wframe) : bool :=
  match w_kind w with WReq _ _ _ => true | WAck _ => false end.

(* server messages with odd seq_no that no later msgs_ack names; [acks] = ids acknowledged by
   events newer than the part of the log still to scan *)
Fixpoint unacked_aux (acks : list Z) (l : list event) : list Z :=
  match l with
  | [] => []
  | ESent w :: r =>
      match w_kind w with
      | WAck sid => unacked_aux (sid :: acks) r
      | WReq _ _ _ => unacked_aux acks r
      end
  | ERecv sid seq :: r =>
      if Z.odd seq && negb (memz sid acks) then sid :: unacked_aux acks r else unacked_aux acks r
  | EDisp _ _ :: r => unacked_aux acks r
  end.
Definition unacked (l : list event) : list Z := unacked_aux [] l.
