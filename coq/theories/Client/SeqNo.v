(* Client/SeqNo.v - invariants of the client's outgoing stream (C10) over all histories of
   Client/Model.v: lock discipline, msg_id order, seq_no parity and monotonicity, and the
   acknowledgement obligation of the receive loop. *)
From Coq Require Import ZArith List Bool Lia Arith Sorted.
From MTV Require Import Client.Model Client.StepLemmas.
Import ListNotations.
Open Scope Z_scope.
Ltac Zify.zify_post_hook ::= Z.div_mod_to_equations.
Local Opaque wrap32 fresh_id.
Arguments Z.lor : simpl never.

Definition wire (s : state) : list wframe := wire_out (elog s).   (* newest first *)

(* ---- case analysis of one step ----------------------------------------------------------- *)

Ltac break_match H :=
  match type of H with context [match ?x with _ => _ end] => destruct x eqn:? end.

Ltac step_cases H :=
  unfold step, step_caller, step_rx, deliver in H;
  repeat (break_match H; try discriminate);
  inversion H; subst; clear H.

Ltac norm :=
  repeat rewrite ?getc_set_pc, ?getc_set_caller in *;
  unfold getc, set_pc, add_tables, mk_req, mk_ack in *; cbn [callers rx lock last_id seqno salt table hints wire_in elog store rets closed srv_log
       set_caller set_rx set_lock set_last set_tables set_in log set_salt add_ret set_closed push_srv send
       c_pc c_hint c_k w_id w_seq w_salt w_kind wire] in *;
  repeat rewrite ?nth_setl in *.

Ltac dlookup := match goal with |- context [lookup ?a ?b] => destruct (lookup a b) eqn:? end.

(* effect of dispatch on the fields the invariants read *)
Lemma dispatch_frame : forall f ks s,
  callers (dispatch f ks s) = callers s /\ lock (dispatch f ks s) = lock s /\
  last_id (dispatch f ks s) = last_id s /\ seqno (dispatch f ks s) = seqno s /\
  table (dispatch f ks s) = table s /\ hints (dispatch f ks s) = hints s /\
  rets (dispatch f ks s) = rets s /\ wire (dispatch f ks s) = wire s.
Proof.
  intros [[sid seq] b] ks s. unfold dispatch, wire.
  destruct (negb (decodes (hinted_for b s) b)); [simpl; tauto|].
  destruct (strip b); simpl; first [tauto | dlookup; simpl; tauto].
Qed.

Lemma dispatch_rx : forall f ks s,
  quiet_rx (rx (dispatch f ks s)) \/ exists req ch v k2, rx (dispatch f ks s) = RDeliver req ch v k2.
Proof.
  intros [[sid seq] b] ks s. unfold dispatch.
  destruct (negb (decodes (hinted_for b s) b)); [simpl; auto|].
  destruct (strip b); try dlookup; cbn [rx set_rx]; eauto 6 using settle_quiet;
    left; exact I.
Qed.

(* ---- A: lock discipline and msg_id order -------------------------------------------------- *)

Definition at_reg (s : state) (i : Z) : Prop :=
  (exists t, c_pc (getc t s) = CReg i) \/ (exists sid ks, rx s = RAckReg sid i ks).

Record InvA (s : state) : Prop := {
  a_lock_c : forall t i, c_pc (getc t s) = CReg i \/ c_pc (getc t s) = CWritten i -> lock s = Some (ACaller t);
  a_lock_r : forall sid i ks, rx s = RAckReg sid i ks \/ rx s = RAckWritten sid i ks -> lock s = Some ARx;
  a_le : forall w, In w (wire s) -> w_id w <= last_id s;
  a_reg : forall i, at_reg s i -> i = last_id s /\ forall w, In w (wire s) -> w_id w < i;
  a_mod : last_id s mod 4 = 0;
  a_mod_w : forall w, In w (wire s) -> w_id w mod 4 = 0;
  a_sorted : StronglySorted (fun a b => w_id a > w_id b) (wire s)
}.

Lemma InvA_init : InvA init.
Proof.
  constructor; unfold at_reg, wire, getc; simpl; intros.
  - destruct t as [|[|t]]; simpl in H; destruct H; discriminate.
  - destruct H; discriminate.
  - tauto.
  - destruct H as [[t H]|[sid [ks H]]]; [destruct t as [|[|t]]; simpl in H|]; discriminate.
  - reflexivity.
  - tauto.
  - constructor.
Qed.

Ltac eqt := match goal with
  | H : context [Nat.eqb ?a ?b] |- _ => destruct (Nat.eqb_spec a b); subst
  | |- context [Nat.eqb ?a ?b] => destruct (Nat.eqb_spec a b); subst
  end.

(* use a lock-discipline hypothesis whose conclusion is absurd or identifies the holder *)
Ltac cg := solve [congruence | exfalso; congruence].
Ltac lockc L := repeat match goal with
  | H : c_pc _ = CReg _ |- _ => pose proof (L _ _ (or_introl H)); revert H
  | H : c_pc _ = CWritten _ |- _ => pose proof (L _ _ (or_intror H)); revert H
  | H : c_pc _ = CReg _ \/ c_pc _ = CWritten _ |- _ => pose proof (L _ _ H); revert H
  end; intros.
Ltac lockr L := repeat match goal with
  | H : rx _ = RAckReg _ _ _ |- _ => pose proof (L _ _ _ (or_introl H)); revert H
  | H : rx _ = RAckWritten _ _ _ |- _ => pose proof (L _ _ _ (or_intror H)); revert H
  | H : rx _ = RAckReg _ _ _ \/ rx _ = RAckWritten _ _ _ |- _ => pose proof (L _ _ _ H); revert H
  end; intros.

Lemma sorted_cons : forall (w : wframe) l,
  StronglySorted (fun a b => w_id a > w_id b) l ->
  (forall x, In x l -> w_id x < w_id w) ->
  StronglySorted (fun a b => w_id a > w_id b) (w :: l).
Proof.
  intros. constructor; auto. apply Forall_forall. intros x Hx. apply H0 in Hx. lia.
Qed.

Definition not_ack_reg (r : rpc) : Prop :=
  match r with RAckReg _ _ _ | RAckWritten _ _ _ => False | _ => True end.

Lemma quiet_not_ack_reg : forall r, quiet_rx r -> not_ack_reg r.
Proof. destruct r; simpl; auto. Qed.

Lemma InvA_mono : forall s s',
  (forall t i, c_pc (getc t s') = CReg i -> c_pc (getc t s) = CReg i) ->
  (forall t i, c_pc (getc t s') = CWritten i -> c_pc (getc t s) = CWritten i) ->
  (forall sid i ks, rx s' = RAckReg sid i ks -> rx s = RAckReg sid i ks) ->
  (forall sid i ks, rx s' = RAckWritten sid i ks -> rx s = RAckWritten sid i ks) ->
  lock s' = lock s -> last_id s' = last_id s -> wire s' = wire s ->
  InvA s -> InvA s'.
Proof.
  intros s s' Hc1 Hc2 Hr1 Hr2 Hl Hi Hw [Lc Lr Le Rg Md Mw So].
  constructor; unfold at_reg in *; rewrite ?Hl, ?Hi, ?Hw in *; auto.
  - intros t i [H|H]; [apply Hc1 in H|apply Hc2 in H]; eauto.
  - intros sid i ks [H|H]; [apply Hr1 in H|apply Hr2 in H]; eauto.
  - intros i [[t H]|[sid [ks H]]]; apply Rg; [left; exists t; auto|right; eauto].
Qed.

Lemma InvA_calm : forall s s',
  (forall t i, c_pc (getc t s') = CReg i -> c_pc (getc t s) = CReg i) ->
  (forall t i, c_pc (getc t s') = CWritten i -> c_pc (getc t s) = CWritten i) ->
  lock s' = lock s -> last_id s' = last_id s -> wire s' = wire s ->
  not_ack_reg (rx s') -> InvA s -> InvA s'.
Proof.
  intros s s' Hc1 Hc2 Hl Hi Hw Hr. apply InvA_mono; auto; intros ? ? ? H; rewrite H in Hr; destruct Hr.
Qed.

Lemma InvA_transfer : forall s s',
  callers s' = callers s -> lock s' = lock s -> last_id s' = last_id s -> wire s' = wire s ->
  not_ack_reg (rx s') -> InvA s -> InvA s'.
Proof.
  intros s s' Hc. apply InvA_calm; unfold getc; rewrite Hc; auto.
Qed.

Lemma InvA_step : forall s l s', InvA s -> step s l = Some s' -> InvA s'.
Proof.
  intros s l s' IA H. destruct (IA) as [Lc Lr Le Rg Md Mw So].
  destruct l as [t h|[t|] clk|f|].
  - (* LCall *) step_cases H. constructor; unfold at_reg, wire in *; intros; norm.
    + eqt; simpl in *; [destruct H; discriminate|eauto].
    + eauto.
    + eauto.
    + apply Rg. destruct H as [[t0 H]|H]; [left; exists t0; norm; eqt; simpl in *; [discriminate|auto]|auto].
    + auto.
    + auto.
    + auto.
  - (* caller step *) step_cases H; constructor; unfold at_reg, wire in *; intros; norm.
    + (* acquire *) eqt; simpl in *; auto. destruct H; lockc Lc; discriminate.
    + destruct H; lockr Lr; discriminate.
    + pose proof (Le _ H). pose proof (fresh_gt (last_id s) clk). lia.
    + destruct H as [[t0 H]|[sid [ks H]]].
      * norm. eqt; simpl in *; [|lockc Lc; discriminate]. inversion H; subst. split; auto.
        intros w Hw. pose proof (Le _ Hw). pose proof (fresh_gt (last_id s) clk). lia.
      * lockr Lr; discriminate.
    + apply fresh_mod4; auto.
    + auto.
    + auto.
    + (* write *) eqt; simpl in *.
      * destruct H; [discriminate|]. lockc Lc. auto.
      * eauto.
    + eauto.
    + destruct H as [H|H]; [subst w; simpl|auto].
      destruct (Rg i) as [E _]; [left; eauto|]. lia.
    + destruct H as [[t0 H]|[sid [ks H]]].
      * norm. eqt; simpl in *; [discriminate|]. lockc Lc. congruence.
      * lockr Lr. lockc Lc. congruence.
    + auto.
    + destruct H as [H|H]; [subst w; simpl|auto].
      destruct (Rg i) as [E _]; [left; eauto|]. subst; auto.
    + apply sorted_cons; auto. simpl. destruct (Rg i) as [_ E]; [left; eauto|]. auto.
    + (* release *) eqt; simpl in *.
      * destruct H; discriminate.
      * destruct H; lockc Lc; cg.
    + lockr Lr. lockc Lc. cg.
    + auto.
    + apply Rg. destruct H as [[t0 H]|H]; [left; exists t0; norm; eqt; simpl in *; [discriminate|auto]|auto].
    + auto.
    + auto.
    + auto.
  - (* receive loop *) step_cases H.
    + (* read *) apply (InvA_transfer s); auto; exact I.
    + (* reconnect *) apply (InvA_transfer s); auto; exact I.
    + (* dispatch *) destruct (dispatch_frame f ks s) as (A & B & C & _ & _ & _ & _ & D).
      apply (InvA_transfer s); auto.
      destruct (dispatch_rx f ks s) as [Q|(? & ? & ? & ? & Q)]; [apply quiet_not_ack_reg; auto|rewrite Q; exact I].
    + (* deliver, value returned *)
      apply (InvA_calm s); auto; intros; norm; try (eqt; simpl in *; [discriminate|auto]).
      apply quiet_not_ack_reg, settle_quiet.
    + (* deliver, marker: reserved *)
      apply (InvA_calm s); auto; intros; norm; try (eqt; simpl in *; [discriminate|auto]).
      apply quiet_not_ack_reg, settle_quiet.
    + (* rx acquire *) constructor; unfold at_reg, wire in *; intros; norm.
      * lockc Lc; discriminate.
      * reflexivity.
      * pose proof (Le _ H). pose proof (fresh_gt (last_id s) clk). lia.
      * destruct H as [[t0 H]|[sid0 [ks0 H]]]; [lockc Lc; discriminate|].
        inversion H; subst. split; auto.
        intros w Hw. pose proof (Le _ Hw). pose proof (fresh_gt (last_id s) clk). lia.
      * apply fresh_mod4; auto.
      * auto.
      * auto.
    + (* rx write *) assert (LK : lock s = Some ARx) by (eapply (a_lock_r _ IA); left; eauto).
      assert (RG : i = last_id s /\ forall w, In w (wire s) -> w_id w < i)
        by (apply Rg; right; eauto).
      destruct RG as [E RG]. constructor; unfold at_reg, wire in *; intros; norm.
      * lockc Lc. auto.
      * auto.
      * destruct H as [H|H]; [subst w; simpl; lia|auto].
      * destruct H as [[t0 H]|[sid0 [ks0 H]]]; [lockc Lc; cg|discriminate].
      * auto.
      * destruct H as [H|H]; [subst w; simpl; subst; auto|auto].
      * apply sorted_cons; auto.
    + (* rx release *) assert (LK : lock s = Some ARx) by (eapply (a_lock_r _ IA); right; eauto).
      constructor; unfold at_reg, wire in *; intros; norm.
      * lockc Lc. cg.
      * destruct H; discriminate.
      * auto.
      * destruct H as [[t0 H]|[sid0 [ks0 H]]]; [lockc Lc; cg|discriminate].
      * auto.
      * auto.
      * auto.
    + (* ack received *) apply (InvA_transfer s); auto. apply quiet_not_ack_reg, settle_quiet.
  - (* LSrv *) step_cases H. apply (InvA_mono s); auto.
  - (* LClose *) step_cases H. apply (InvA_mono s); auto.
Qed.

(* ---- B: seq_no ------------------------------------------------------------------------------ *)

(* what one step does to the outgoing stream *)
Lemma step_wire : forall s l s', step s l = Some s' ->
  (wire s' = wire s /\ seqno s' = seqno s) \/
  (exists w, wire s' = w :: wire s /\ seqno s' = wrap32 (seqno s + 2) /\
             w_seq w = if is_content w then Z.lor (seqno s) 1 else seqno s).
Proof.
  intros s l s' H. destruct l as [t h|[t|] clk|f|]; step_cases H; unfold wire; norm; auto.
  - right. eexists. split; [reflexivity|]. split; reflexivity.
  - destruct (dispatch_frame f ks s) as (_ & _ & _ & A & _ & _ & _ & B). auto.
  - right. eexists. split; [reflexivity|]. split; reflexivity.
Qed.

Fixpoint wseq_ok (l : list wframe) : Prop :=       (* newest first *)
  match l with
  | [] => True
  | w :: r => w_seq w = wrap32 (2 * Z.of_nat (length r)) + (if is_content w then 1 else 0) /\ wseq_ok r
  end.

Definition InvB (s : state) : Prop :=
  seqno s = wrap32 (2 * Z.of_nat (length (wire s))) /\ wseq_ok (wire s).

Lemma InvB_init : InvB init.
Proof. split; reflexivity. Qed.

Lemma InvB_step : forall s l s', InvB s -> step s l = Some s' -> InvB s'.
Proof.
  intros s l s' [Hs Hw] H. apply step_wire in H.
  destruct H as [[E1 E2]|[w [E1 [E2 E3]]]]; unfold InvB; rewrite E1, E2; [auto|].
  assert (Ev : seqno s mod 2 = 0) by (rewrite Hs; apply wrap32_even; lia).
  split.
  - rewrite Hs, wrap32_add. f_equal. simpl length. lia.
  - cbn [wseq_ok]. split; auto. rewrite E3. destruct (is_content w); [rewrite lor_1_even by auto|]; rewrite Hs; ring.
Qed.

(* ---- D: acknowledgements ------------------------------------------------------------------- *)

Fixpoint tails (ks : list kont) : list Z :=
  match ks with
  | [] => []
  | KItem _ :: r => tails r
  | KTail sid seq :: r => if Z.odd seq then sid :: tails r else tails r
  end.

(* acknowledgements the receive loop still owes while it works through one frame;
   None for the terminal (dead / reserved) program counters *)
Definition owed (r : rpc) : option (list Z) :=
  match r with
  | RRead => Some []
  | RDispatch _ ks | RDeliver _ _ _ ks => Some (tails ks)
  | RAckLock sid ks | RAckReg sid _ ks => Some (sid :: tails ks)
  | RAckWritten _ _ ks | RAckRecv _ ks => Some (tails ks)
  | RNotify _ _ | RReconnect | RDead => None
  end.

Definition InvD (s : state) : Prop :=
  match owed (rx s) with Some o => incl (unacked (elog s)) o | None => True end.

Lemma owed_settle : forall ks, owed (settle ks) = Some (tails ks).
Proof.
  induction ks as [|k ks IH]; simpl; auto. destruct k; simpl; auto. destruct (Z.odd seq); simpl; auto.
Qed.

Lemma tails_items : forall items ks, tails (map KItem items ++ ks) = tails ks.
Proof. induction items; simpl; auto. Qed.

Lemma unacked_not_acked : forall l acks x, In x (unacked_aux acks l) -> ~ In x acks.
Proof.
  induction l as [|e l IH]; simpl; intros acks x H; [tauto|].
  destruct e.
  - destruct (Z.odd seq && negb (memz sid acks)) eqn:E; [|eauto].
    destruct H as [H|H]; [|eauto]. subst. apply andb_true_iff in E. destruct E as [_ E].
    intro X. apply memz_In in X. rewrite X in E. discriminate.
  - eauto.
  - destruct (w_kind w); [eauto|]. apply IH in H. intro X. apply H. right. auto.
Qed.

Lemma unacked_mono : forall l acks acks' x,
  incl acks acks' -> In x (unacked_aux acks' l) -> In x (unacked_aux acks l).
Proof.
  induction l as [|e l IH]; simpl; intros acks acks' x I H; [tauto|].
  destruct e.
  - destruct (Z.odd seq) eqn:O; simpl in *; [|eauto].
    destruct (memz sid acks') eqn:M'; simpl in *.
    + destruct (memz sid acks); simpl; [eauto|right; eauto].
    + destruct (memz sid acks) eqn:M; simpl.
      * apply memz_In in M. apply I in M. apply memz_In in M. congruence.
      * destruct H; [auto|right; eauto].
  - eauto.
  - destruct (w_kind w); [eauto|]. eapply IH; [|exact H]. intros y [Y|Y]; [left; auto|right; auto].
Qed.

Lemma InvD_init : InvD init.
Proof. unfold InvD. simpl. intros x H. exact H. Qed.

Lemma dispatch_owed : forall f ks s,
  incl (unacked (elog s)) (tails ks) ->
  match owed (rx (dispatch f ks s)) with
  | Some o => incl (unacked (elog (dispatch f ks s))) o | None => True end.
Proof.
  intros [[sid seq] b] ks s I. unfold dispatch.
  assert (U : incl (unacked (ERecv sid seq :: elog s)) (tails (KTail sid seq :: ks))).
  { unfold unacked. simpl. destruct (Z.odd seq); simpl; auto.
    intros x [H|H]; [left; auto|right; auto]. }
  destruct (negb (decodes (hinted_for b s) b)); [simpl; auto|].
  destruct (strip b); try dlookup; cbn [rx set_rx owed elog log set_salt]; rewrite ?owed_settle, ?tails_items; auto.
Qed.

Lemma InvD_step : forall s l s', InvD s -> step s l = Some s' -> InvD s'.
Proof.
  intros s l s' I H. unfold InvD in *.
  destruct l as [t h|[t|] clk|f|]; step_cases H; norm; auto.
  - (* reconnect *) simpl. auto.
  - (* dispatch *) simpl in I. apply dispatch_owed; auto.
  - (* deliver *) simpl in I. rewrite owed_settle. auto.
  - simpl in I. rewrite owed_settle. auto.
  - (* rx write *) simpl in *. unfold unacked in *. simpl.
    intros x Hx. pose proof (unacked_not_acked _ _ _ Hx) as N.
    apply (unacked_mono _ [] [sid]) in Hx; [|intros y []]. apply I in Hx.
    destruct Hx as [Hx|Hx]; [subst; exfalso; apply N; left; auto|auto].
  - (* ack received *) simpl in I. rewrite owed_settle. auto.
Qed.

(* ---- results over all histories ---------------------------------------------------------------- *)

Record Inv10 (s : state) : Prop := { i_a : InvA s; i_b : InvB s; i_d : InvD s }.

Lemma Inv10_run : forall ls s, run init ls = Some s -> Inv10 s.
Proof.
  apply run_invariant.
  - constructor; [apply InvA_init|apply InvB_init|apply InvD_init].
  - intros s l s' J H. destruct J as [A B D]. constructor; [eapply InvA_step|eapply InvB_step|eapply InvD_step]; eauto.
Qed.

Lemma odd_plus_bit : forall a (c : bool), a mod 2 = 0 -> Z.odd (a + (if c then 1 else 0)) = c.
Proof.
  intros a c H. destruct (Z.odd (a + (if c then 1 else 0))) eqn:O.
  - apply Z.odd_spec in O. destruct O as [m O]. destruct c; auto. lia.
  - rewrite <- Z.negb_even in O. apply negb_false_iff, Z.even_spec in O. destruct O as [m O].
    destruct c; auto. lia.
Qed.

Lemma wseq_parity : forall l, wseq_ok l -> forall w, In w l -> Z.odd (w_seq w) = is_content w.
Proof.
  induction l as [|x l IH]; cbn [wseq_ok In]; [intros _ w []|]; intros [H1 H2] w Hw.
  destruct Hw as [Hw|Hw]; [subst x|auto].
  rewrite H1. apply odd_plus_bit. apply wrap32_even. lia.
Qed.

Lemma wseq_bound : forall l, wseq_ok l -> Z.of_nat (length l) < 1073741824 -> forall y, In y l ->
  w_seq y <= 2 * Z.of_nat (length l) - 1.
Proof.
  induction l as [|x l IH]; cbn [wseq_ok In]; [intros _ _ y []|]; intros [H1 H2] B y Hy.
  cbn [length] in *. rewrite Nat2Z.inj_succ in *. destruct Hy as [Hy|Hy].
  - subst x. rewrite H1, wrap32_small by lia. destruct (is_content y); lia.
  - specialize (IH H2 ltac:(lia) y Hy). lia.
Qed.

Lemma wseq_monotone : forall l, wseq_ok l -> Z.of_nat (length l) < 1073741824 ->
  StronglySorted (fun a b => w_seq a >= w_seq b) l.
Proof.
  induction l as [|x l IH]; cbn [wseq_ok]; [constructor|]; intros [H1 H2] B.
  cbn [length] in B. rewrite Nat2Z.inj_succ in B.
  constructor; [apply IH; auto; lia|].
  apply Forall_forall. intros y Hy.
  pose proof (wseq_bound l H2 ltac:(lia) y Hy) as G.
  rewrite H1, wrap32_small by lia. destruct (is_content x); lia.
Qed.

(* the checker [unacked] is sound for the statement "every received message with odd seq_no is
   followed by a msgs_ack naming it" *)
Lemma unacked_sound : forall l acks, unacked_aux acks l = [] ->
  forall post pre sid seq, l = post ++ ERecv sid seq :: pre -> Z.odd seq = true ->
  In sid acks \/ exists w, In (ESent w) post /\ w_kind w = WAck sid.
Proof.
  induction l as [|e l IH]; intros acks U post pre sid seq E O.
  - destruct post; discriminate.
  - destruct post as [|e' post]; simpl in E; inversion E; subst.
    + simpl in U. rewrite O in U. simpl in U. destruct (memz sid acks) eqn:M; simpl in U; [|discriminate].
      left. apply memz_In. auto.
    + simpl in U. destruct e'.
      * destruct (Z.odd seq0 && negb (memz sid0 acks)); [discriminate|].
        destruct (IH _ U _ _ _ _ eq_refl O) as [H|[w [H1 H2]]]; [auto|right; exists w; simpl; auto].
      * destruct (IH _ U _ _ _ _ eq_refl O) as [H|[w [H1 H2]]]; [auto|right; exists w; simpl; auto].
      * destruct (w_kind w) eqn:K.
        -- destruct (IH _ U _ _ _ _ eq_refl O) as [H|[w' [H1 H2]]]; [auto|right; exists w'; simpl; auto].
        -- destruct (IH _ U _ _ _ _ eq_refl O) as [H|[w' [H1 H2]]].
           ++ destruct H as [H|H]; [subst; right; exists w; simpl; auto|auto].
           ++ right; exists w'; simpl; auto.
Qed.
