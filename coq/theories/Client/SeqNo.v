(* Client/SeqNo.v - invariants of the client's outgoing stream (C10) over all histories of
   Client/Model.v: lock discipline, msg_id order, seq_no parity and monotonicity, and the
   acknowledgement obligation of the receive loop. *)
From Coq Require Import ZArith List Bool Lia Arith Sorted.
From MTV Require Import Client.Model Client.StepLemmas.
Import ListNotations.
Open Scope Z_scope.
Ltac Zify.zify_post_hook ::= Z.div_mod_to_equations.
Local Opaque wrap32 fresh_id.
Arguments Z.lor : simpl never.

Definition wire (s : state) : list wframe := wire_out (elog s).   (* newest first *)

(* ---- case analysis of one step ----------------------------------------------------------- *)

Ltac break_match H :=
  match type of H with context [match ?x with _ => _ end] => destruct x eqn:? end.

Ltac step_cases H :=
  unfold step, step_caller, step_rx, deliver in H;
  repeat (break_match H; try discriminate);
  inversion H; subst; clear H.

Ltac norm :=
  repeat rewrite ?getc_set_pc, ?getc_set_caller in *;
  unfold getc, set_pc, add_tables, mk_req, mk_ack in *; cbn [callers rx lock last_id seqno salt table hints wire_in elog store rets closed
       set_caller set_rx set_lock set_last set_tables set_in log set_salt add_ret set_closed send
       c_pc c_hint c_k w_id w_seq w_salt w_kind wire] in *.

Ltac dlookup := match goal with |- context [lookup ?a ?b] => destruct (lookup a b) eqn:? end.

(* effect of dispatch on the fields the invariants read *)
Lemma dispatch_frame : forall f ks s,
  callers (dispatch f ks s) = callers s /\ lock (dispatch f ks s) = lock s /\
  last_id (dispatch f ks s) = last_id s /\ seqno (dispatch f ks s) = seqno s /\
  table (dispatch f ks s) = table s /\ hints (dispatch f ks s) = hints s /\
  rets (dispatch f ks s) = rets s /\ wire (dispatch f ks s) = wire s.
Proof.
  intros [[sid seq] b] ks s. unfold dispatch, wire.
  destruct (negb (decodes (hinted_for b s) b)); [simpl; tauto|].
  destruct (strip b); simpl; first [tauto | dlookup; simpl; tauto].
Qed.

Lemma dispatch_rx : forall f ks s,
  quiet_rx (rx (dispatch f ks s)) \/ exists req ch v k2, rx (dispatch f ks s) = RDeliver req ch v k2.
Proof.
  intros [[sid seq] b] ks s. unfold dispatch.
  destruct (negb (decodes (hinted_for b s) b)); [simpl; auto|].
  destruct (strip b); try dlookup; cbn [rx set_rx]; eauto 6 using settle_quiet;
    left; exact I.
Qed.

(* ---- A: lock discipline and msg_id order -------------------------------------------------- *)

Definition at_reg (s : state) (i : Z) : Prop :=
  (exists t, c_pc (getc t s) = CReg i) \/ (exists sid ks, rx s = RAckReg sid i ks).

Record InvA (s : state) : Prop := {
  a_lock_c : forall t i, c_pc (getc t s) = CReg i \/ c_pc (getc t s) = CWritten i -> lock s = Some (ACaller t);
  a_lock_r : forall sid i ks, rx s = RAckReg sid i ks \/ rx s = RAckWritten sid i ks -> lock s = Some ARx;
  a_le : forall w, In w (wire s) -> w_id w <= last_id s;
  a_reg : forall i, at_reg s i -> i = last_id s /\ forall w, In w (wire s) -> w_id w < i;
  a_mod : last_id s mod 4 = 0;
  a_mod_w : forall w, In w (wire s) -> w_id w mod 4 = 0;
  a_sorted : StronglySorted (fun a b => w_id a > w_id b) (wire s)
}.

Lemma InvA_init : InvA init.
Proof.
  constructor; unfold at_reg, wire, getc; simpl; intros.
  - destruct t as [|[|t]]; simpl in H; destruct H; discriminate.
  - destruct H; discriminate.
  - tauto.
  - destruct H as [[t H]|[sid [ks H]]]; [destruct t as [|[|t]]; simpl in H|]; discriminate.
  - reflexivity.
  - tauto.
  - constructor.
Qed.
