(* Client/LiveOrigin.v - for the extended system of Client/Live.v: every salt the client adopts, every
   retry it orders and every result it dispatches is the content of a message the server really sent
   (a frame injected by an LSrv label, or a message nested in one through msg_container / gzip_packed). *)
From Coq Require Import ZArith List Bool Lia Arith.
From MTV Require Import Client.Model Client.StepLemmas Client.SeqNo Client.Routing Client.Origin Client.Live Client.LiveInv Client.Salt Client.Alive.
Import ListNotations.
Open Scope Z_scope.
Local Opaque wrap32 fresh_id.

Definition cause_ok (b : state) (x : Z) (c : cause) : Prop :=
  match c with
  | CKeyEx => True
  | CNewSession => exists sid seq b0, from_server b (sid, seq, b0) /\ strip b0 = BNewSession x
  | CBadSalt i _ => exists sid seq b0, from_server b (sid, seq, b0) /\ strip b0 = BBadSalt i x
  end.

Record InvG (s : state2) : Prop := {
  g_in : forall f, In f (wire_in (base s)) -> from_server (base s) f;
  g_rx : forall f, In f (rx_frames (rx (base s))) -> from_server (base s) f;
  g_ad : forall x m c, In (x, m, c) (adopt s) -> cause_ok (base s) x c;
  g_disp : forall req v, In (EDisp req v) (elog (base s)) ->
     exists sid seq b0, from_server (base s) (sid, seq, b0) /\
       (result_of b0 = Some (req, v) \/ (v = VRetry /\ exists x, strip b0 = BBadSalt req x))
}.

Lemma InvG_init : forall c, InvG (init2 c).
Proof. intros c. constructor; simpl; intros; tauto. Qed.

Lemma cause_ok_eq : forall b b' x c, srv_log b' = srv_log b -> cause_ok b x c -> cause_ok b' x c.
Proof.
  intros b b' x c E H. destruct c; simpl in *; auto;
    destruct H as (sid & seq & b0 & F & S); exists sid, seq, b0; split; auto; eapply from_server_eq; eauto.
Qed.

Lemma InvG_mono : forall s s',
  srv_log (base s') = srv_log (base s) -> adopt s' = adopt s ->
  (forall f, In f (wire_in (base s')) -> In f (wire_in (base s))) ->
  (forall f, In f (rx_frames (rx (base s'))) -> In f (rx_frames (rx (base s))) \/ In f (wire_in (base s))) ->
  (forall req v, In (EDisp req v) (elog (base s')) -> In (EDisp req v) (elog (base s))) ->
  InvG s -> InvG s'.
Proof.
  intros s s' Hl Ha Hw Hr He [A B C D].
  assert (FS : forall f, from_server (base s) f -> from_server (base s') f).
  { intros f F. eapply from_server_eq; eauto. }
  constructor.
  - intros f H. apply FS, A, Hw, H.
  - intros f H. apply FS. destruct (Hr _ H); auto.
  - intros x m c H. rewrite Ha in H. eapply cause_ok_eq; eauto.
  - intros req v H. destruct (D _ _ (He _ _ H)) as (sid & seq & b0 & F1 & F2). exists sid, seq, b0. auto.
Qed.

Lemma InvG_step1 : forall s l b', InvG s -> old_ok (base s) l -> step (base s) l = Some b' -> InvG (wb b' s).
Proof.
  intros s l b' IG OK H. pose proof IG as [A B C D].
  destruct l as [t h|[t|] clk|f|].
  - step_cases H. apply (InvG_mono s); auto.
  - step_cases H; apply (InvG_mono s); auto.
    simpl. intros req v [X|X]; [discriminate|auto].
  - simpl in OK. step_cases H; try (destruct OK; fail).
    + (* reconnect *) apply (InvG_mono s); simpl; auto. tauto.
    + (* read *) apply (InvG_mono s); simpl; auto.
      * intros f0 H. rewrite Heql. right. auto.
      * intros f0 [H|H]; [subst; right; rewrite Heql; left; auto|destruct H].
    + (* deliver *) apply (InvG_mono s); simpl; auto. rewrite rx_frames_settle, Heqr. auto.
    + apply (InvG_mono s); simpl; auto. rewrite rx_frames_settle, Heqr. auto.
    + apply (InvG_mono s); simpl; auto. rewrite Heqr. auto.
    + apply (InvG_mono s); simpl; auto; [rewrite Heqr; auto|].
      intros req v [X|X]; [discriminate|auto].
    + apply (InvG_mono s); simpl; auto. rewrite Heqr. auto.
    + apply (InvG_mono s); simpl; auto. rewrite rx_frames_settle, Heqr. auto.
  - (* LSrv *) step_cases H.
    assert (FS : forall g, from_server (base s) g -> from_server (push_srv f (base s)) g).
    { intros g (g0 & G1 & G2). exists g0. simpl. auto. }
    constructor; cbn [base wb].
    + simpl. intros g H. apply in_app_or in H. destruct H as [H|[H|[]]]; auto.
      subst. exists g. split; [left; auto|constructor].
    + simpl. auto.
    + intros x m c H. specialize (C _ _ _ H). destruct c; simpl in *; auto;
        destruct C as (sid & seq & b0 & F & S); exists sid, seq, b0; auto.
    + simpl. intros req v H. destruct (D _ _ H) as (a & c & e & F1 & F2). exists a, c, e. auto.
  - step_cases H. apply (InvG_mono s); auto.
Qed.

Lemma adopt_warn2 : forall x, adopt (warn2 x) = adopt x.
Proof. intros x. unfold warn2. destruct (wch x) as [|cap n]; [|destruct (Nat.ltb n cap)]; auto. Qed.
Lemma adopt_handle2 : forall x, adopt (handle2 x) = adopt x.
Proof. intros x. unfold handle2. destruct (handler x); auto. apply adopt_warn2. Qed.
Lemma adopt_fail2 : forall tl x, adopt (fail2 tl x) = adopt x.
Proof. reflexivity. Qed.
Lemma adopt_flush' : forall s, adopt (flush s) = adopt s.
Proof.
  intros s. unfold flush. destruct (perr s); auto. destruct (rx (base s)); auto. rewrite adopt_warn2. reflexivity.
Qed.

Lemma srv_log_warn2 : forall s, srv_log (base (warn2 s)) = srv_log (base s).
Proof. intros. rewrite base_warn2. auto. Qed.

Lemma InvG_dispatch : forall f ks s, InvG s -> rx (base s) = RDispatch f ks -> InvG (dispatch2 f ks s).
Proof.
  intros [[sid seq] b] ks s [A B C D] R.
  assert (FS : from_server (base s) (sid, seq, b)) by (apply B; rewrite R; left; auto).
  assert (KS : forall f, In f (kitems ks) -> from_server (base s) f) by (intros f H; apply B; rewrite R; right; auto).
  pose proof (dispatch2_ok (sid, seq, b) ks s) as DS.
  assert (FE : forall f, from_server (base s) f -> from_server (base (dispatch2 (sid, seq, b) ks s)) f).
  { intros f F. eapply from_server_eq; [apply (d_srv _ _ DS)|auto]. }
  assert (ADOPT : adopt (dispatch2 (sid, seq, b) ks s) = adopt s \/
     exists x m c, adopt (dispatch2 (sid, seq, b) ks s) = (x, m, c) :: adopt s /\
       ((c = CNewSession /\ strip b = BNewSession x) \/ (exists i h, c = CBadSalt i h /\ strip b = BBadSalt i x))).
  { unfold dispatch2.
    destruct (negb (decodes (hinted_for b (base s)) b)); [left; rewrite adopt_fail2; reflexivity|].
    destruct (strip b) eqn:SB;
      repeat match goal with |- context [lookup ?a ?t] => destruct (lookup a t) end;
      rewrite ?adopt_fail2; cbn [upd_base wb adopt adopt2]; rewrite ?adopt_handle2; cbn [upd_base wb adopt adopt2];
      auto; right; do 3 eexists; (split; [reflexivity|]); eauto 6. }
  assert (FRAMES : forall x, In x (rx_frames (rx (base (dispatch2 (sid, seq, b) ks s)))) ->
     In x (kitems ks) \/ exists items, strip b = BContainer items /\ In x items).
  { intros x. unfold dispatch2.
    destruct (negb (decodes (hinted_for b (base s)) b)); [rewrite base_fail2; cbn [rx set_rx]; rewrite rx_frames_settle; cbn [kitems]; tauto|].
    destruct (strip b) eqn:SB;
      repeat match goal with |- context [lookup ?a ?t] => destruct (lookup a t) end;
      rewrite ?base_fail2, ?base_upd, ?base_handle2; cbn [base upd_base wb adopt2 rx set_rx set_salt log];
      rewrite ?rx_frames_settle; cbn [rx_frames kitems In]; try tauto.
    rewrite kitems_app. intros H. apply in_app_or in H. destruct H; eauto. }
  constructor.
  - intros f H. rewrite (d_in _ _ DS) in H. auto.
  - intros f H. apply FE. apply FRAMES in H. destruct H as [H|(items & I1 & I2)]; auto.
    destruct FS as (g & G1 & G2). exists g. split; auto. eapply inside_item; eauto.
  - intros x m c H. destruct ADOPT as [E|(x0 & m0 & c0 & E & W)]; rewrite E in H.
    + eapply cause_ok_eq; [apply (d_srv _ _ DS)|eauto].
    + destruct H as [H|H]; [|eapply cause_ok_eq; [apply (d_srv _ _ DS)|eauto]].
      inversion H; subst. destruct W as [[W1 W2]|(i & h & W1 & W2)]; subst c; simpl; exists sid, seq, b; auto.
  - intros req v H.
    assert (NEW : In (EDisp req v) (elog (base s)) \/ result_of b = Some (req, v) \/
                  (v = VRetry /\ exists x, strip b = BBadSalt req x)).
    { revert H. unfold dispatch2, result_of.
      destruct (negb (decodes (hinted_for b (base s)) b)); [rewrite base_fail2; simpl; intros [H|H]; [discriminate|auto]|].
      destruct (strip b) eqn:SB;
        repeat match goal with |- context [lookup ?a ?t] => destruct (lookup a t) end;
        rewrite ?base_fail2, ?base_upd, ?base_handle2; cbn [base upd_base wb adopt2 rx set_rx set_salt log elog];
        simpl; intros H; repeat (destruct H as [H|H]; try discriminate); auto; inversion H; subst; eauto 6. }
    destruct NEW as [N|N].
    + destruct (D _ _ N) as (a & c & e & F1 & F2). exists a, c, e. auto.
    + exists sid, seq, b. auto.
Qed.

Lemma InvG_step2i : forall s l s', InvG s -> step2i s l = Some s' -> InvG s'.
Proof.
  intros s l s' IG H. pose proof IG as [A B C D]. apply step2_inv in H. destruct H.
  - eapply InvG_step1; eauto. apply lifted_old_ok; auto.
  - apply (InvG_mono s); auto.
  - constructor; cbn [base keyex2 adopt]; simpl; auto.
    + intros x0 m c [X|X]; [inversion X; simpl; auto|].
      specialize (C _ _ _ X). destruct c; simpl in *; auto.
  - apply (InvG_mono s); rewrite ?base_warn2, ?adopt_warn2; simpl; auto.
    rewrite H1. intros f0 X. right. auto.
  - apply InvG_dispatch; auto.
  - apply (InvG_mono s); auto. simpl. rewrite rx_frames_settle, H0. auto.
  - apply notify_b_inv in H1. destruct H1 as [[_ E]|(t & k & j & L & P & K & E)]; subst b';
      apply (InvG_mono s); auto; simpl; rewrite rx_frames_settle, H0; auto.
  - apply (InvG_mono s); simpl; auto; tauto.
Qed.

Lemma InvG_flush : forall s, InvG s -> InvG (flush s).
Proof. intros s IG. apply (InvG_mono s); rewrite ?base_flush, ?adopt_flush'; auto. Qed.

Lemma InvG_step : forall s l s', InvG s -> step2 s l = Some s' -> InvG s'.
Proof.
  intros s l s' IG H. apply step2_flush in H. destruct H as (s1 & H & E). subst.
  apply InvG_flush. eapply InvG_step2i; eauto.
Qed.

Lemma InvG_run : forall c ls s, run2 (init2 c) ls = Some s -> InvG s.
Proof. intros c. apply run2_invariant; [apply InvG_init|intros; eapply InvG_step; eauto]. Qed.

(* the ghost log is exactly the list of frames the LSrv labels injected *)
Fixpoint srv_frames2 (ls : list label2) : list frame :=
  match ls with [] => [] | L1 (LSrv f) :: r => f :: srv_frames2 r | _ :: r => srv_frames2 r end.

Lemma srv_frames2_app : forall a b, srv_frames2 (a ++ b) = srv_frames2 a ++ srv_frames2 b.
Proof.
  induction a as [|x a IH]; simpl; auto. intros. destruct x as [[| | |]| |]; simpl; rewrite ?IH; auto.
Qed.

Lemma srv_log_step2i : forall s l s', step2i s l = Some s' ->
  srv_log (base s') = match l with L1 (LSrv f) => f :: srv_log (base s) | _ => srv_log (base s) end.
Proof.
  intros s l s' H. apply step2_inv in H. destruct H; try reflexivity.
  - apply (srv_log_step _ _ _ H1).
  - rewrite base_warn2. reflexivity.
  - apply (d_srv _ _ (dispatch2_ok f ks s)).
  - apply notify_b_inv in H1. destruct H1 as [[_ E]|(t & k & j & L & P & K & E)]; subst b'; reflexivity.
Qed.

Lemma srv_log_step2 : forall s l s', step2 s l = Some s' ->
  srv_log (base s') = match l with L1 (LSrv f) => f :: srv_log (base s) | _ => srv_log (base s) end.
Proof.
  intros s l s' H. apply step2_flush in H. destruct H as (s1 & H & E). subst. rewrite base_flush.
  eapply srv_log_step2i; eauto.
Qed.

Lemma srv_log_run2 : forall c ls s, run2 (init2 c) ls = Some s -> srv_log (base s) = rev (srv_frames2 ls).
Proof.
  intros c. induction ls as [|l ls IH] using rev_ind; intros s H.
  - inversion H. reflexivity.
  - rewrite run2_app in H. destruct (run2 (init2 c) ls) as [x|] eqn:E; [|discriminate].
    rewrite (srv_log_step2 _ _ _ H), srv_frames2_app, rev_app_distr, (IH x eq_refl).
    destruct l as [[| | |]| |]; simpl; auto.
Qed.

Lemma from_server_label : forall c ls s f, run2 (init2 c) ls = Some s -> from_server (base s) f ->
  exists g, In (L1 (LSrv g)) ls /\ inside f g.
Proof.
  intros c ls s f H (g & G1 & G2). exists g. split; auto.
  rewrite (srv_log_run2 _ _ _ H) in G1. apply in_rev in G1.
  clear - G1. induction ls as [|l ls IH]; simpl in *; [tauto|].
  destruct l as [[| | |]| |]; simpl in *; try (right; auto; fail). destruct G1 as [G|G]; [subst; auto|auto].
Qed.

(* what the client acted on was sent by the server *)
Lemma origin2 : forall c ls s, run2 (init2 c) ls = Some s ->
  (forall i, rejected (base s) i ->
     exists g sid seq b x, In (L1 (LSrv g)) ls /\ inside (sid, seq, b) g /\ strip b = BBadSalt i x) /\
  (forall x m i h, In (x, m, CBadSalt i h) (adopt s) ->
     exists g sid seq b, In (L1 (LSrv g)) ls /\ inside (sid, seq, b) g /\ strip b = BBadSalt i x) /\
  (forall x m, In (x, m, CNewSession) (adopt s) ->
     exists g sid seq b, In (L1 (LSrv g)) ls /\ inside (sid, seq, b) g /\ strip b = BNewSession x) /\
  (forall req v, In (EDisp req v) (elog (base s)) -> v <> VRetry ->
     exists g sid seq b, In (L1 (LSrv g)) ls /\ inside (sid, seq, b) g /\ result_of b = Some (req, v)).
Proof.
  intros c ls s H. pose proof (InvG_run _ _ _ H) as [A B C D]. repeat split.
  - intros i R. destruct (D _ _ R) as (sid & seq & b & F & [X|(_ & x & X)]).
    + exfalso. unfold result_of in X. destruct (strip b); inversion X.
    + destruct (from_server_label _ _ _ _ H F) as (g & G1 & G2). exists g, sid, seq, b, x. auto.
  - intros x m i h X. destruct (C _ _ _ X) as (sid & seq & b & F & S).
    destruct (from_server_label _ _ _ _ H F) as (g & G1 & G2). exists g, sid, seq, b. auto.
  - intros x m X. destruct (C _ _ _ X) as (sid & seq & b & F & S).
    destruct (from_server_label _ _ _ _ H F) as (g & G1 & G2). exists g, sid, seq, b. auto.
  - intros req v X NV. destruct (D _ _ X) as (sid & seq & b & F & [Y|(Y & _)]); [|congruence].
    destruct (from_server_label _ _ _ _ H F) as (g & G1 & G2). exists g, sid, seq, b. auto.
Qed.


(* ---- every message of a container is dispatched, whatever happens to the others ------------------- *)

Definition recv_of (f : frame) : event := ERecv (fst (fst f)) (snd (fst f)).

Lemma dispatch2_recv : forall f ks s, In (recv_of f) (elog (base (dispatch2 f ks s))).
Proof.
  intros [[sid seq] b] ks s. unfold dispatch2, recv_of. cbn [fst snd].
  destruct (negb (decodes (hinted_for b (base s)) b)); [rewrite base_fail2; simpl; auto|].
  destruct (strip b);
    repeat match goal with |- context [lookup ?a ?t] => destruct (lookup a t) end;
    rewrite ?base_fail2, ?base_upd, ?base_handle2; simpl; auto.
Qed.

Lemma dispatch2_keeps : forall f ks s x, In x (kitems ks) -> In x (rx_frames (rx (base (dispatch2 f ks s)))).
Proof.
  intros [[sid seq] b] ks s x H. unfold dispatch2.
  destruct (negb (decodes (hinted_for b (base s)) b));
    [rewrite base_fail2; cbn [rx set_rx]; rewrite rx_frames_settle; exact H|].
  destruct (strip b);
    repeat match goal with |- context [lookup ?a ?t] => destruct (lookup a t) end;
    rewrite ?base_fail2, ?base_upd, ?base_handle2; cbn [base upd_base wb adopt2 rx set_rx set_salt log];
    rewrite ?rx_frames_settle; cbn [rx_frames kitems]; auto.
  rewrite kitems_app. apply in_or_app. right. exact H.
Qed.

(* a frame leaves the work list of the receive loop (the frame at the dispatch pc + the items still on its stack)
   only by being dispatched; nothing else - in particular no error in another message - removes it *)
Lemma items_kept_i : forall s l s' f, step2i s l = Some s' -> In f (rx_frames (rx (base s))) ->
  In f (rx_frames (rx (base s'))) \/
  ((exists ks, rx (base s) = RDispatch f ks) /\ In (recv_of f) (elog (base s'))).
Proof.
  intros s l s' f H I. apply step2_inv in H. destruct H; cbn [base wb upd_base]; auto.
  - (* lifted *) left. destruct l as [t h|[t|] clk|g|].
    + step_cases H1; auto.
    + step_cases H1; auto.
    + simpl in H0. step_cases H1; try (destruct H0; fail); cbn [rx set_rx set_pc set_caller add_ret] in *;
        rewrite ?rx_frames_settle; try (rewrite Heqr in I; cbn [rx_frames] in I); auto; try contradiction.
    + step_cases H1; auto.
    + step_cases H1; auto.
  - rewrite base_warn2. rewrite H0 in I. destruct I.
  - rewrite H0 in I. destruct I as [I|I].
    + subst f0. right. split; [eauto|apply dispatch2_recv].
    + left. apply dispatch2_keeps; auto.
  - left. cbn [rx set_rx]. rewrite rx_frames_settle. rewrite H0 in I. exact I.
  - left. rewrite H0 in I. apply notify_b_inv in H1. destruct H1 as [[_ E]|(t & k & j & L & P & K & E)]; subst b';
      cbn [rx set_rx set_pc set_caller]; rewrite rx_frames_settle; exact I.
  - rewrite H0 in I. destruct I.
Qed.

Lemma elog_mono_i : forall s l s' e, step2i s l = Some s' -> In e (elog (base s)) -> In e (elog (base s')).
Proof.
  intros s l s' e H I. apply step2_inv in H. destruct H; cbn [base wb upd_base]; auto.
  - destruct l as [t h|[t|] clk|g|]; step_cases H1; simpl; auto.
    apply dispatch_elog; auto.
  - rewrite base_warn2. auto.
  - apply (d_elog _ _ (dispatch2_ok f ks s)); auto.
  - apply notify_b_inv in H1. destruct H1 as [[_ E]|(t & k & j & L & P & K & E)]; subst b'; auto.
Qed.

Lemma items_run : forall ls s s' f, run2 s ls = Some s' -> In f (rx_frames (rx (base s))) ->
  In f (rx_frames (rx (base s'))) \/ In (recv_of f) (elog (base s')).
Proof.
  induction ls as [|l ls IH] using rev_ind; intros s s' f H I.
  - inversion H. subst. auto.
  - rewrite run2_app in H. destruct (run2 s ls) as [x|] eqn:E; [|discriminate].
    apply step2_flush in H. destruct H as (s1 & H & EQ). subst s'. rewrite base_flush.
    destruct (IH _ _ _ E I) as [J|J].
    + destruct (items_kept_i _ _ _ _ H J) as [K|[_ K]]; auto.
    + right. eapply elog_mono_i; eauto.
Qed.

(* hence: from every reachable state the client's own goroutines bring the receive loop back to its read, and by
   then every message that was on its work list - the frame it stood before and all container items still to come,
   whatever the messages before them were: undecodable, answers nobody waits for, bad_msg_notification - has been
   dispatched (and, by C10_acks_live, acknowledged if its seq_no is odd) *)
Lemma items_all_dispatched : forall c ls s, run2 (init2 c) ls = Some s -> keyed s = true ->
  exists dl s1, Forall step_label dl /\ run2 s dl = Some s1 /\ rx (base s1) = RRead /\
    forall f, In f (rx_frames (rx (base s))) -> In (recv_of f) (elog (base s1)).
Proof.
  intros c ls s H K. pose proof (Inv16_run _ _ _ H) as I.
  destruct (drain (pot (base s)) s (le_n _) I K) as (dl & s1 & R & F & Q & _).
  exists dl, s1. split; auto. split; auto. destruct Q as (Q1 & _). split; auto.
  intros f J. destruct (items_run _ _ _ _ R J) as [X|X]; auto. rewrite Q1 in X. destruct X.
Qed.

(* the dispatch step on a container puts ALL its items on the stack, in order, before the container's own tail *)
Lemma container_step : forall s clk sid seq b ks items, keyed s = true ->
  rx (base s) = RDispatch (sid, seq, b) ks -> strip b = BContainer items ->
  exists s', step2 s (L1 (LStep ARx clk)) = Some s' /\
    rx (base s') = settle (map KItem items ++ KTail sid seq :: ks).
Proof.
  intros s clk sid seq b ks items K R SB. eexists. split.
  - unfold step2. simpl. rewrite K. simpl. unfold step_rx2. rewrite R. reflexivity.
  - rewrite base_flush. unfold dispatch2.
    assert (D : decodes (hinted_for b (base s)) b = true) by (unfold decodes; rewrite SB; reflexivity).
    rewrite D. simpl. rewrite SB. reflexivity.
Qed.
