(* Client/StepLemmas.v - small facts about the building blocks of Client/Model.v and the
   case-analysis tactic used by SeqNo.v and Routing.v. *)
From Coq Require Import ZArith List Bool Lia Arith.
From MTV Require Import Client.Model.
Import ListNotations.
Open Scope Z_scope.
Ltac Zify.zify_post_hook ::= Z.div_mod_to_equations.

(* ---- callers list ---------------------------------------------------------------------- *)

Lemma nth_setl : forall t t' c l,
  nth t' (setl t c l) idle_caller = if Nat.eqb t' t then c else nth t' l idle_caller.
Proof.
  assert (N : forall n, nth n (@nil caller) idle_caller = idle_caller) by (destruct n; reflexivity).
  induction t as [|t IH]; intros t' c l.
  - destruct l; destruct t' as [|t']; simpl; auto. destruct t'; auto.
  - destruct l as [|x r]; destruct t' as [|t']; simpl; auto.
    rewrite IH. rewrite N. reflexivity.
Qed.

Lemma getc_set_caller : forall t t' c s,
  getc t' (set_caller t c s) = if Nat.eqb t' t then c else getc t' s.
Proof. intros. unfold getc. simpl. apply nth_setl. Qed.

Lemma getc_set_pc : forall t t' p s,
  getc t' (set_pc t p s) =
  if Nat.eqb t' t then {| c_pc := p; c_hint := c_hint (getc t s); c_k := c_k (getc t s) |} else getc t' s.
Proof. intros. unfold set_pc. apply getc_set_caller. Qed.

(* ---- fresh ids -------------------------------------------------------------------------- *)

Lemma fresh_gt : forall last clk, last < fresh_id last clk.
Proof. intros. unfold fresh_id. cbv zeta. destruct (Z.leb_spec (4 * clk) last); lia. Qed.

Lemma fresh_mod4 : forall last clk, last mod 4 = 0 -> fresh_id last clk mod 4 = 0.
Proof. intros. unfold fresh_id. cbv zeta. destruct (Z.leb_spec (4 * clk) last); lia. Qed.

(* ---- int32 ------------------------------------------------------------------------------- *)

Lemma wrap32_small : forall z, -2147483648 <= z < 2147483648 -> wrap32 z = z.
Proof. intros. unfold wrap32. lia. Qed.

Lemma wrap32_add : forall a b, wrap32 (wrap32 a + b) = wrap32 (a + b).
Proof. intros. unfold wrap32. lia. Qed.

Lemma wrap32_even : forall z, z mod 2 = 0 -> wrap32 z mod 2 = 0.
Proof. intros. unfold wrap32. lia. Qed.

Lemma lor_1_even : forall z, z mod 2 = 0 -> Z.lor z 1 = z + 1.
Proof.
  intros z H.
  assert (L : Z.land z 1 = 0) by (change 1 with (Z.ones 1); rewrite Z.land_ones by lia; exact H).
  rewrite (Z.add_nocarry_lxor _ _ L).
  apply Z.bits_inj'. intros n Hn. rewrite Z.lor_spec, Z.lxor_spec.
  assert (B : Z.testbit (Z.land z 1) n = false) by (rewrite L; apply Z.testbit_0_l).
  rewrite Z.land_spec in B. destruct (Z.testbit z n), (Z.testbit 1 n); simpl in *; auto; discriminate.
Qed.

(* ---- logs --------------------------------------------------------------------------------- *)

Lemma wire_out_recv : forall a b l, wire_out (ERecv a b :: l) = wire_out l.
Proof. reflexivity. Qed.
Lemma wire_out_disp : forall a b l, wire_out (EDisp a b :: l) = wire_out l.
Proof. reflexivity. Qed.
Lemma wire_out_sent : forall w l, wire_out (ESent w :: l) = w :: wire_out l.
Proof. reflexivity. Qed.

Lemma In_wire_out : forall w l, In w (wire_out l) <-> In (ESent w) l.
Proof.
  induction l as [|e l IH]; simpl; [tauto|].
  destruct e; simpl; rewrite IH; split; intros H; try tauto.
  - destruct H as [H|H]; [discriminate|auto].
  - destruct H as [H|H]; [discriminate|auto].
  - destruct H as [H|H]; [left; congruence|auto].
  - destruct H as [H|H]; [left; congruence|auto].
Qed.

(* ---- continuation -------------------------------------------------------------------------- *)

Definition quiet_rx (r : rpc) : Prop :=
  match r with RAckReg _ _ _ | RAckWritten _ _ _ | RDeliver _ _ _ _ => False | _ => True end.

Lemma settle_quiet : forall ks, quiet_rx (settle ks).
Proof.
  induction ks as [|k ks IH]; simpl; auto. destruct k; simpl; auto. destruct (Z.odd seq); simpl; auto.
Qed.

Lemma settle_cases : forall ks,
  settle ks = RRead \/ (exists f r, settle ks = RDispatch f r) \/ (exists sid r, settle ks = RAckLock sid r).
Proof.
  induction ks as [|k ks IH]; simpl; auto. destruct k; eauto. destruct (Z.odd seq); eauto.
Qed.

(* ---- tables ---------------------------------------------------------------------------------- *)

Lemma lookup_In : forall i tb c, lookup i tb = Some c -> In (i, c) tb.
Proof.
  induction tb as [|[j d] r IH]; simpl; intros c H; [discriminate|].
  destruct (Z.eqb_spec i j); [inversion H; subst; auto|auto].
Qed.

Lemma In_del_key : forall i j c tb, In (j, c) (del_key i tb) -> In (j, c) tb /\ j <> i.
Proof.
  induction tb as [|[k d] r IH]; simpl; intros H; [tauto|].
  destruct (Z.eqb_spec i k).
  - apply IH in H. tauto.
  - simpl in H. destruct H as [H|H]; [inversion H; subst; split; auto|apply IH in H; tauto].
Qed.

Lemma keys_del_key : forall i j tb, In j (map fst (del_key i tb)) -> In j (map fst tb) /\ j <> i.
Proof.
  intros i j tb H. apply in_map_iff in H. destruct H as [[k c] [E H]]. simpl in E. subst k.
  apply In_del_key in H. destruct H as [H N]. split; auto. apply in_map_iff. exists (j, c). auto.
Qed.

Lemma NoDup_del_key : forall i tb, NoDup (map fst tb) -> NoDup (map fst (del_key i tb)).
Proof.
  induction tb as [|[k d] r IH]; simpl; intros H; [constructor|].
  inversion H; subst. destruct (Z.eqb_spec i k); auto.
  simpl. constructor; auto. intro X. apply keys_del_key in X. tauto.
Qed.

Lemma memz_In : forall i l, memz i l = true <-> In i l.
Proof.
  induction l as [|j r IH]; simpl; [intuition discriminate|].
  rewrite orb_true_iff, IH. destruct (Z.eqb_spec i j); intuition (try discriminate; auto).
Qed.

Lemma In_delz : forall i j l, In j (delz i l) -> In j l /\ j <> i.
Proof.
  induction l as [|k r IH]; simpl; intros H; [tauto|].
  destruct (Z.eqb_spec i k).
  - apply IH in H. tauto.
  - simpl in H. destruct H as [H|H]; [subst; split; auto|apply IH in H; tauto].
Qed.

(* ---- the result a body carries --------------------------------------------------------------- *)

Lemma hint_key_strip_result : forall b req gz k p r,
  strip b = BResult req gz k p -> hint_key b = Some r -> r = req.
Proof.
  intros b req gz k p r H K. destruct b; simpl in *; try discriminate.
  - inversion H; inversion K; subst; auto.
  - destruct b; simpl in *; try discriminate. inversion H; inversion K; subst; auto.
Qed.

(* ---- histories --------------------------------------------------------------------------------- *)

Lemma run_app : forall ls s l, run s (ls ++ [l]) =
  match run s ls with Some x => step x l | None => None end.
Proof. intros. unfold run. rewrite fold_left_app. reflexivity. Qed.

(* an invariant that holds initially and is preserved by every accepted label holds after every history *)
Lemma run_invariant : forall (P : state -> Prop),
  P init ->
  (forall s l s', P s -> step s l = Some s' -> P s') ->
  forall ls s, run init ls = Some s -> P s.
Proof.
  intros P H0 Hs ls. induction ls as [|l ls IH] using rev_ind; intros s H.
  - inversion H. subst. exact H0.
  - rewrite run_app in H. destruct (run init ls) as [x|] eqn:E; [|discriminate].
    eapply Hs; [apply IH; reflexivity|exact H].
Qed.
