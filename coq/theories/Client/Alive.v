(* Client/Alive.v - liveness side of C11 / C16 over all histories of Client/Live.v:
   InvL   the send lock is held only by somebody inside the critical section (so it is released
          without anybody's help);
   no_stall  whenever the receive loop stands before a channel send (result delivery or retry
          marker) the channel's owner is at its receive or one own step away from it;
   drain  from every reachable state there is a schedule - steps of the client's goroutines only,
          nothing from the server - that brings the receive loop back to an idle read;
   probe  ... after which a call by any idle caller, answered by the server, returns that answer;
   resume  a reconnect keeps the key: no key exchange, no plain frame. *)
From Coq Require Import ZArith List Bool Lia Arith Sorted.
From MTV Require Import Client.Model Client.StepLemmas Client.SeqNo Client.Routing Client.Live Client.LiveInv Client.Salt.
Import ListNotations.
Open Scope Z_scope.
Local Opaque wrap32 fresh_id.
Arguments Z.lor : simpl never.

(* ---- InvL ------------------------------------------------------------------------------------ *)

Definition in_cs (p : cpc) : Prop := exists i, p = CReg i \/ p = CWritten i.
Definition rx_in_cs (r : rpc) : Prop := exists sid i ks, r = RAckReg sid i ks \/ r = RAckWritten sid i ks.

Record InvL (b : state) : Prop := {
  l_c : forall t, lock b = Some (ACaller t) -> in_cs (c_pc (getc t b));
  l_r : lock b = Some ARx -> rx_in_cs (rx b)
}.

Lemma InvL_init : InvL init.
Proof. constructor; simpl; intros; discriminate. Qed.

Lemma InvL_mono : forall b b',
  lock b' = lock b ->
  (forall t, in_cs (c_pc (getc t b)) -> in_cs (c_pc (getc t b'))) ->
  (rx_in_cs (rx b) -> rx_in_cs (rx b')) ->
  InvL b -> InvL b'.
Proof.
  intros b b' Hl Hc Hr [C R]. constructor; rewrite Hl; auto.
Qed.

Lemma settle_not_cs : forall ks, ~ rx_in_cs (settle ks).
Proof.
  intros ks (sid & i & k & [E|E]); pose proof (settle_quiet ks) as Q; rewrite E in Q; destruct Q.
Qed.

Lemma InvL_step1 : forall b l b', InvA b -> InvL b -> old_ok b l -> step b l = Some b' -> InvL b'.
Proof.
  intros b l b' IA IL OK H. pose proof IL as [C R].
  destruct l as [t h|[t|] clk|f|].
  - step_cases H. apply (InvL_mono b); auto. intros t0 X. norm. eqt; simpl; auto.
    unfold getc in Heqc. rewrite Heqc in X. destruct X as (i & [X|X]); discriminate.
  - step_cases H.
    + (* acquire *) constructor.
      * intros t0 X. norm. inversion X; subst. rewrite Nat.eqb_refl. simpl. eexists. eauto.
      * norm. discriminate.
    + (* write *) apply (InvL_mono b); auto. intros t0 X. norm. eqt; simpl; auto. eexists. eauto.
    + (* release *) constructor; intros; norm; discriminate.
  - simpl in OK. step_cases H; try (destruct OK; fail).
    + apply (InvL_mono b); auto. simpl. rewrite Heqr. intros (? & ? & ? & [X|X]); discriminate.
    + apply (InvL_mono b); auto. simpl. rewrite Heqr. intros (? & ? & ? & [X|X]); discriminate.
    + (* deliver *) apply Nat.eqb_eq in Heqb0. apply (InvL_mono b); auto.
      * intros t0 X. norm. eqt; simpl; auto. unfold getc in Heqc0. rewrite Heqc0 in X. destruct X as (? & [X|X]); discriminate.
      * simpl. rewrite Heqr. intros (? & ? & ? & [X|X]); discriminate.
    + apply Nat.eqb_eq in Heqb0. apply (InvL_mono b); auto.
      * intros t0 X. norm. eqt; simpl; auto. unfold getc in Heqc0. rewrite Heqc0 in X. destruct X as (? & [X|X]); discriminate.
      * simpl. rewrite Heqr. intros (? & ? & ? & [X|X]); discriminate.
    + (* rx acquire *) constructor.
      * intros t0 X. norm. discriminate.
      * intros _. norm. do 3 eexists. left. reflexivity.
    + (* rx write *) apply (InvL_mono b); auto. simpl. intros _. do 3 eexists. right. reflexivity.
    + (* rx release *) constructor; intros; norm; discriminate.
    + (* ack received *) apply (InvL_mono b); auto. simpl. rewrite Heqr. intros (? & ? & ? & [X|X]); discriminate.
  - step_cases H. apply (InvL_mono b); auto.
  - step_cases H. apply (InvL_mono b); auto.
Qed.

Lemma InvL_step2 : forall s l s', Inv11 s -> InvL (base s) -> step2 s l = Some s' -> InvL (base s').
Proof.
  intros s l s' [IA IC IN IR] IL H. apply step2_inv in H. destruct H.
  - eapply InvL_step1; eauto. apply lifted_old_ok; auto.
  - exact IL.
  - apply (InvL_mono (base s)); auto.
  - rewrite base_warn2. apply (InvL_mono (base s)); auto.
  - pose proof (dispatch2_ok f ks s) as D. apply (InvL_mono (base s)).
    + apply D.
    + intros t. unfold getc. rewrite (d_callers _ _ D). auto.
    + rewrite H0. intros (? & ? & ? & [X|X]); discriminate.
    + auto.
  - apply (InvL_mono (base s)); auto. simpl. rewrite H0. intros (? & ? & ? & [X|X]); discriminate.
  - apply notify_b_inv in H1. destruct H1 as [[_ E]|(t & k & j & L & P & K & E)]; subst b'; cbn [base wb].
    + apply (InvL_mono (base s)); auto. simpl. rewrite H0. intros (? & ? & ? & [X|X]); discriminate.
    + apply (InvL_mono (base s)); auto.
      * intros t0 X. norm. eqt; simpl; auto. unfold getc in P. rewrite P in X. destruct X as (? & [X|X]); discriminate.
      * simpl. rewrite H0. intros (? & ? & ? & [X|X]); discriminate.
  - apply (InvL_mono (base s)); auto. simpl. rewrite H0. intros (? & ? & ? & [X|X]); discriminate.
Qed.

Record Inv16 (s : state2) : Prop := { i16_11 : Inv11 s; i16_l : InvL (base s) }.

Lemma Inv16_init : forall c, Inv16 (init2 c).
Proof. intros c. constructor; [apply Inv11_init|apply InvL_init]. Qed.

Lemma Inv16_step : forall s l s', Inv16 s -> step2 s l = Some s' -> Inv16 s'.
Proof.
  intros s l s' [I L] H. constructor; [eapply Inv11_step; eauto|eapply InvL_step2; eauto].
Qed.

Lemma Inv16_run : forall c ls s, run2 (init2 c) ls = Some s -> Inv16 s.
Proof. intros c. apply run2_invariant; [apply Inv16_init|intros; eapply Inv16_step; eauto]. Qed.

Lemma Inv16_run_from : forall s ls s', Inv16 s -> run2 s ls = Some s' -> Inv16 s'.
Proof. intros s ls s' I. apply run2_invariant; [exact I|intros; eapply Inv16_step; eauto]. Qed.

(* ---- no stall ---------------------------------------------------------------------------------- *)

(* the receive loop stands before a send on the channel of call k of caller t, made for request i *)
Definition at_send (b : state) (i : Z) (t k : nat) : Prop :=
  (exists v ks, rx b = RDeliver i (t, k) v ks) \/
  (exists ks, rx b = RNotify [i] ks /\ lookup i (table b) = Some (t, k)).

Lemma send_enabled : forall s i t k clk, keyed s = true -> at_send (base s) i t k ->
  c_k (getc t (base s)) = k -> (exists j, c_pc (getc t (base s)) = CRecv j) ->
  exists s', step2 s (L1 (LStep ARx clk)) = Some s'.
Proof.
  intros s i t k clk K A CK (j & P). simpl. rewrite K. simpl. unfold step_rx2.
  destruct A as [(v & ks & R)|(ks & R & L)]; rewrite R.
  - unfold lift, step, step_rx. rewrite R. unfold deliver. rewrite P, CK, Nat.eqb_refl.
    destruct (ret_of v); simpl; eauto.
  - unfold notify2, notify_b. rewrite L, P, CK, Nat.eqb_refl. simpl. eauto.
Qed.

Lemma owner_of_send : forall s i t k, Inv11 s -> at_send (base s) i t k ->
  c_k (getc t (base s)) = k /\ (c_pc (getc t (base s)) = CWritten i \/ c_pc (getc t (base s)) = CRecv i).
Proof.
  intros s i t k [IA IC IN IR] A.
  assert (I : In (i, (t, k)) (table (base s))).
  { destruct A as [(v & ks & R)|(ks & R & L)]; [apply (c_deliver _ IC _ _ _ _ R)|apply lookup_In; auto]. }
  destruct (c_owner _ IC _ _ _ I) as (K & P & _). auto.
Qed.

Lemma no_stall : forall c ls s, run2 (init2 c) ls = Some s -> keyed s = true ->
  (forall i t k, In (i, (t, k)) (table (base s)) ->
     c_k (getc t (base s)) = k /\
     (c_pc (getc t (base s)) = CWritten i \/ c_pc (getc t (base s)) = CRecv i)) /\
  (forall i t k clk, at_send (base s) i t k ->
     c_k (getc t (base s)) = k /\
     ((c_pc (getc t (base s)) = CRecv i /\ exists s', step2 s (L1 (LStep ARx clk)) = Some s') \/
      (c_pc (getc t (base s)) = CWritten i /\
       exists s1, step2 s (L1 (LStep (ACaller t) clk)) = Some s1 /\
                  c_pc (getc t (base s1)) = CRecv i /\ at_send (base s1) i t k /\
                  exists s', step2 s1 (L1 (LStep ARx clk)) = Some s'))).
Proof.
  intros c ls s H K. pose proof (Inv11_run _ _ _ H) as I11. split.
  - intros i t k I. destruct (c_owner _ (i11_c _ I11) _ _ _ I) as (CK & P & _). auto.
  - intros i t k clk A. destruct (owner_of_send _ _ _ _ I11 A) as (CK & [P|P]); split; auto.
    + right. split; auto.
      set (s1 := wb (set_pc t (CRecv i) (set_lock None (base s))) s).
      assert (S1 : step2 s (L1 (LStep (ACaller t) clk)) = Some s1).
      { simpl. rewrite K. simpl. unfold lift, step, step_caller. rewrite P. reflexivity. }
      assert (P1 : c_pc (getc t (base s1)) = CRecv i).
      { unfold s1. cbn [base wb]. rewrite getc_set_pc, Nat.eqb_refl. reflexivity. }
      assert (K1 : c_k (getc t (base s1)) = k).
      { unfold s1. cbn [base wb]. rewrite getc_set_pc, Nat.eqb_refl. simpl. exact CK. }
      assert (A1 : at_send (base s1) i t k).
      { unfold s1, at_send. cbn [base wb]. simpl. exact A. }
      exists s1. split; auto. split; auto. split; auto.
      eapply send_enabled; eauto.
    + left. split; auto. eapply send_enabled; eauto.
Qed.

(* ---- a measure of the work the client's goroutines still have to do on their own ------------- *)

Fixpoint bsz (b : body) : nat :=
  match b with
  | BContainer items =>
      S ((fix go (l : list (Z * Z * body)) : nat :=
            match l with [] => O | (_, x) :: r => (bsz x + go r)%nat end) items)
  | BGzip x => bsz x
  | _ => 1%nat
  end.

Definition fsz (f : frame) : nat := bsz (snd f).

Fixpoint isz (l : list frame) : nat :=
  match l with [] => O | f :: r => (fsz f + isz r)%nat end.

Lemma bsz_container : forall items, bsz (BContainer items) = S (isz items).
Proof.
  intros items. simpl. f_equal. induction items as [|[[a c] x] r IH]; simpl; auto.
Qed.

Lemma bsz_strip : forall b, bsz b = bsz (strip b).
Proof. induction b; simpl; auto. Qed.

Lemma bsz_pos : forall b, (1 <= bsz b)%nat.
Proof. induction b; simpl; auto; lia. Qed.

Fixpoint kpot (ks : list kont) : nat :=
  match ks with
  | [] => O
  | KItem f :: r => (7 * fsz f + kpot r)%nat
  | KTail _ _ :: r => (4 + kpot r)%nat
  end.

Definition rxpot (r : rpc) : nat :=
  match r with
  | RRead | RReconnect | RDead => O
  | RDispatch f ks => (7 * fsz f + kpot ks)%nat
  | RDeliver _ _ _ ks | RNotify _ ks | RAckRecv _ ks => (1 + kpot ks)%nat
  | RAckLock _ ks => (4 + kpot ks)%nat
  | RAckReg _ _ ks => (3 + kpot ks)%nat
  | RAckWritten _ _ ks => (2 + kpot ks)%nat
  end.

Fixpoint inpot (l : list frame) : nat :=
  match l with [] => O | f :: r => (7 * fsz f + 1 + inpot r)%nat end.

Definition is_reconnect (r : rpc) : bool := match r with RReconnect => true | _ => false end.

Definition cpot (b : state) : nat :=
  if closed b then (if is_reconnect (rx b) then 1 else 2)%nat else O.

Definition hw (p : cpc) : nat := match p with CReg _ => 2 | CWritten _ => 1 | _ => 0 end%nat.

Fixpoint hsum (l : list caller) : nat :=
  match l with [] => O | c :: r => (hw (c_pc c) + hsum r)%nat end.

Definition hpot (b : state) : nat := hsum (callers b).

Definition pot (b : state) : nat := (rxpot (rx b) + inpot (wire_in b) + cpot b + hpot b)%nat.

Lemma kpot_items : forall items ks, kpot (map KItem items ++ ks) = (7 * isz items + kpot ks)%nat.
Proof. induction items as [|f r IH]; intros ks; simpl; auto. rewrite IH. lia. Qed.

Lemma rxpot_settle : forall ks, (rxpot (settle ks) <= kpot ks)%nat.
Proof.
  induction ks as [|k ks IH]; simpl; auto. destruct k; simpl; auto. destruct (Z.odd seq); simpl; lia.
Qed.

Lemma settle_not_reconnect : forall ks, is_reconnect (settle ks) = false.
Proof.
  intros ks. destruct (settle_cases ks) as [E|[(f & r & E)|(sid & r & E)]]; rewrite E; reflexivity.
Qed.

Lemma hsum_setl : forall t c l,
  (hsum (setl t c l) + hw (c_pc (nth t l idle_caller)) = hsum l + hw (c_pc c))%nat.
Proof.
  induction t as [|t IH]; intros c l; destruct l as [|x r]; simpl; try lia.
  - specialize (IH c []). destruct t; simpl in *; lia.
  - specialize (IH c r). lia.
Qed.

Lemma hpot_set_pc : forall t p b,
  (hpot (set_pc t p b) + hw (c_pc (getc t b)) = hpot b + hw p)%nat.
Proof. intros. unfold hpot, set_pc, getc. simpl. rewrite hsum_setl. reflexivity. Qed.

Lemma hsum_pos : forall l, (0 < hsum l)%nat -> exists t, (0 < hw (c_pc (nth t l idle_caller)))%nat.
Proof.
  induction l as [|c r IH]; simpl; intros H; [lia|].
  destruct (Nat.eq_dec (hw (c_pc c)) 0).
  - destruct IH as (t & T); [lia|]. exists (S t). auto.
  - exists O. simpl. lia.
Qed.

Lemma hsum_zero : forall l t, hsum l = O -> hw (c_pc (nth t l idle_caller)) = O.
Proof.
  induction l as [|c r IH]; intros t H; simpl in *.
  - destruct t; reflexivity.
  - destruct t; [lia|apply IH; lia].
Qed.

Lemma dispatch2_pot : forall f ks s,
  (rxpot (rx (base (dispatch2 f ks s))) < 7 * fsz f + kpot ks)%nat /\
  is_reconnect (rx (base (dispatch2 f ks s))) = false.
Proof.
  intros [[sid seq] b] ks s. unfold dispatch2, fsz. cbn [snd].
  pose proof (bsz_pos b) as BP. rewrite (bsz_strip b) in *.
  pose proof (rxpot_settle (KTail sid seq :: ks)) as ST. cbn [kpot] in ST.
  assert (FAIL : (rxpot (rx (base (fail2 (upd_base (log (ERecv sid seq)) s)))) < 7 * bsz (strip b) + kpot ks)%nat /\
                 is_reconnect (rx (base (fail2 (upd_base (log (ERecv sid seq)) s)))) = false).
  { rewrite base_fail2. simpl. split; auto. lia. }
  destruct (negb (decodes (hinted_for b (base s)) b)); [exact FAIL|].
  destruct (strip b) eqn:SB; try exact FAIL;
    try (cbn [base upd_base wb rx set_rx]; split; [simpl bsz; lia|apply settle_not_reconnect]).
  - destruct (lookup req (table (base s))); [|exact FAIL]. simpl. split; auto; try lia.
  - destruct (lookup req (table (base s))); [|exact FAIL]. simpl. split; auto; try lia.
  - cbn [base upd_base wb rx set_rx]. split; [|apply settle_not_reconnect].
    pose proof (rxpot_settle (map KItem items ++ KTail sid seq :: ks)) as X.
    rewrite kpot_items in X. cbn [kpot] in X. rewrite bsz_container. lia.
  - destruct (lookup bad (table (base s))); simpl; split; auto; try lia.
    + pose proof (rxpot_settle ks). destruct (Z.odd seq); simpl; lia.
    + destruct (Z.odd seq); [reflexivity|apply settle_not_reconnect].
Qed.

(* ---- steps keep the client keyed; an idle caller is not touched by anybody else's steps ------ *)

Lemma keyed_step : forall s l s', step2 s l = Some s' -> keyed s = true -> keyed s' = true.
Proof.
  intros s l s' H K. apply step2_inv in H. destruct H; auto.
  - unfold warn2. cbn [upd_base wb wch]. destruct (wch s) as [|cap n]; [|destruct (Nat.ltb n cap)]; auto.
  - unfold dispatch2. destruct f as [[sid seq] b].
    assert (W : forall x, keyed (warn2 x) = keyed x).
    { intros x. unfold warn2. destruct (wch x) as [|cap n]; [|destruct (Nat.ltb n cap)]; auto. }
    assert (HH : forall x, keyed (handle2 x) = keyed x).
    { intros x. unfold handle2. destruct (handler x); auto. }
    unfold fail2.
    destruct (negb (decodes (hinted_for b (base s)) b)); [rewrite W; auto|].
    destruct (strip b);
      repeat match goal with |- context [lookup ?a ?b] => destruct (lookup a b) end;
      rewrite ?W; cbn [upd_base wb keyed adopt2]; rewrite ?HH; auto.
Qed.

Definition step_label (l : label2) : Prop := exists a clk, l = L1 (LStep a clk).

Lemma idle_kept : forall s l s' t, Inv11 s -> step_label l -> step2 s l = Some s' ->
  c_pc (getc t (base s)) = CIdle ->
  getc t (base s') = getc t (base s) /\
  (forall x, In x (rets (base s)) -> In x (rets (base s'))).
Proof.
  intros s l s' t [IA IC IN IR] (a & clk & EL) H ID. apply step2_inv in H.
  destruct H; try discriminate; cbn [base wb upd_base].
  - (* lifted *) inversion EL; subst l. destruct a as [t0|].
    + step_cases H1; norm; split; auto; eqt; auto; unfold getc in ID; congruence.
    + simpl in H0. step_cases H1; try (destruct H0; fail); norm; try (split; auto; fail).
      * apply Nat.eqb_eq in Heqb. split; [|simpl; auto]. eqt; auto. unfold getc in ID. congruence.
      * apply Nat.eqb_eq in Heqb. split; auto. eqt; auto. unfold getc in ID. congruence.
  - rewrite base_warn2. simpl. auto.
  - pose proof (dispatch2_ok f ks s) as D. unfold getc. rewrite (d_callers _ _ D), (d_rets _ _ D). auto.
  - auto.
  - apply notify_b_inv in H1. destruct H1 as [[_ E]|(t0 & k & j & L & P & K & E)]; subst b'.
    + auto.
    + norm. split; auto. eqt; auto. unfold getc in ID. congruence.
  - auto.
Qed.

(* ---- drain ------------------------------------------------------------------------------------- *)

Definition quiescent (b : state) : Prop :=
  rx b = RRead /\ wire_in b = [] /\ closed b = false /\ hpot b = O.

Ltac potsimp :=
  unfold pot, cpot, hpot;
  cbn [rx wire_in closed callers set_pc set_caller set_rx set_lock set_last set_tables set_in log set_salt
       add_ret send add_tables reopen rxpot inpot is_reconnect base wb upd_base].

Lemma drain_step : forall s, Inv16 s -> keyed s = true ->
  quiescent (base s) \/
  exists l s', step_label l /\ step2 s l = Some s' /\ (pot (base s') < pot (base s))%nat.
Proof.
  intros s [[IA IC IN IR] IL] K.
  destruct (Nat.eq_dec (hpot (base s)) 0) as [HZ|HN].
  2:{ (* somebody is inside the critical section: let him finish *)
      right. destruct (hsum_pos (callers (base s))) as (t & T); [unfold hpot in HN; lia|].
      fold (getc t (base s)) in T.
      destruct (c_pc (getc t (base s))) eqn:P; simpl in T; try lia.
      - exists (L1 (LStep (ACaller t) 0)). eexists. split; [do 2 eexists; reflexivity|]. split.
        + simpl. rewrite K. simpl. unfold lift, step, step_caller. rewrite P. reflexivity.
        + cbn [base wb]. pose proof (hpot_set_pc t (CWritten i)
            (send (mk_req i t (c_k (getc t (base s))) (c_hint (getc t (base s))) (base s))
                  (add_tables i t (getc t (base s)) (base s)))) as HP.
          assert (G : getc t (send (mk_req i t (c_k (getc t (base s))) (c_hint (getc t (base s))) (base s))
                  (add_tables i t (getc t (base s)) (base s))) = getc t (base s)) by reflexivity.
          rewrite G, P in HP. simpl hw in HP.
          assert (HB : hpot (send (mk_req i t (c_k (getc t (base s))) (c_hint (getc t (base s))) (base s))
                  (add_tables i t (getc t (base s)) (base s))) = hpot (base s)) by reflexivity.
          rewrite HB in HP. unfold pot, cpot. cbn [rx wire_in closed set_pc set_caller]. lia.
      - exists (L1 (LStep (ACaller t) 0)). eexists. split; [do 2 eexists; reflexivity|]. split.
        + simpl. rewrite K. simpl. unfold lift, step, step_caller. rewrite P. reflexivity.
        + cbn [base wb]. pose proof (hpot_set_pc t (CRecv i) (set_lock None (base s))) as HP.
          assert (G : getc t (set_lock None (base s)) = getc t (base s)) by reflexivity.
          rewrite G, P in HP. simpl hw in HP.
          assert (HB : hpot (set_lock None (base s)) = hpot (base s)) by reflexivity.
          rewrite HB in HP. unfold pot, cpot. cbn [rx wire_in closed set_pc set_caller]. lia. }
  assert (NOCS : forall t, ~ in_cs (c_pc (getc t (base s)))).
  { intros t (i & [X|X]); pose proof (hsum_zero _ t HZ) as Z; fold (getc t (base s)) in Z; rewrite X in Z; discriminate. }
  assert (STEP : forall X, step_rx2 0 s = Some X -> (pot (base X) < pot (base s))%nat ->
     exists l s', step_label l /\ step2 s l = Some s' /\ (pot (base s') < pot (base s))%nat).
  { intros X E Lt. exists (L1 (LStep ARx 0)), X. split; [do 2 eexists; reflexivity|]. split; auto.
    simpl. rewrite K. simpl. exact E. }
  destruct (rx (base s)) eqn:R.
  - (* read *)
    destruct (wire_in (base s)) as [|f r] eqn:W.
    + destruct (closed (base s)) eqn:C.
      * right. eapply STEP.
        -- unfold step_rx2. rewrite R, W. unfold lift, step, step_rx. rewrite R, W, C. reflexivity.
        -- potsimp. rewrite R, W, C. simpl. lia.
      * left. repeat split; auto.
    + right. destruct (transport_ok f) eqn:T.
      * eapply STEP.
        -- unfold step_rx2. rewrite R, W, T. unfold lift, step, step_rx. rewrite R, W. reflexivity.
        -- potsimp. rewrite R, W. simpl. destruct (closed (base s)); lia.
      * eapply STEP.
        -- unfold step_rx2. rewrite R, W, T. reflexivity.
        -- rewrite base_warn2. potsimp. rewrite R, W. simpl. destruct (closed (base s)); lia.
  - (* dispatch *)
    right. eapply STEP.
    + unfold step_rx2. rewrite R. reflexivity.
    + pose proof (dispatch2_ok f ks s) as D. destruct (dispatch2_pot f ks s) as [P1 P2].
      unfold pot, cpot, hpot. rewrite (d_in _ _ D), (d_closed _ _ D), (d_callers _ _ D), P2, R. simpl rxpot.
      simpl is_reconnect. lia.
  - (* deliver *)
    right. destruct (c_deliver _ IC _ _ _ _ R) as (D1 & _). destruct ch as [t k].
    destruct (c_owner _ IC _ _ _ D1) as (CK & PP & _).
    destruct PP as [PP|PP]; [destruct (NOCS t); eexists; eauto|].
    pose proof (rxpot_settle ks) as ST. pose proof (settle_not_reconnect ks) as SR.
    destruct (ret_of v) as [rv|] eqn:RV.
    + eapply STEP.
      * unfold step_rx2. rewrite R. unfold lift, step, step_rx. rewrite R. unfold deliver.
        rewrite PP, CK, Nat.eqb_refl, RV. reflexivity.
      * cbn [base wb]. pose proof (hpot_set_pc t CIdle
            (set_rx (settle ks) (set_tables (del_key req (table (base s))) (delz req (hints (base s))) (base s)))) as HP.
        assert (G : getc t (set_rx (settle ks) (set_tables (del_key req (table (base s))) (delz req (hints (base s))) (base s)))
                    = getc t (base s)) by reflexivity.
        rewrite G, PP in HP. simpl hw in HP.
        assert (HB : hpot (set_rx (settle ks) (set_tables (del_key req (table (base s))) (delz req (hints (base s))) (base s)))
                     = hpot (base s)) by reflexivity.
        rewrite HB in HP. unfold pot, cpot. cbn [rx wire_in closed set_pc set_caller add_ret set_rx set_tables].
        rewrite R, SR. simpl rxpot. simpl is_reconnect. lia.
    + eapply STEP.
      * unfold step_rx2. rewrite R. unfold lift, step, step_rx. rewrite R. unfold deliver.
        rewrite PP, CK, Nat.eqb_refl, RV. reflexivity.
      * cbn [base wb]. pose proof (hpot_set_pc t CStuck
            (set_rx (settle ks) (set_tables (del_key req (table (base s))) (delz req (hints (base s))) (base s)))) as HP.
        assert (G : getc t (set_rx (settle ks) (set_tables (del_key req (table (base s))) (delz req (hints (base s))) (base s)))
                    = getc t (base s)) by reflexivity.
        rewrite G, PP in HP. simpl hw in HP.
        assert (HB : hpot (set_rx (settle ks) (set_tables (del_key req (table (base s))) (delz req (hints (base s))) (base s)))
                     = hpot (base s)) by reflexivity.
        rewrite HB in HP. unfold pot, cpot. cbn [rx wire_in closed set_pc set_caller add_ret set_rx set_tables].
        rewrite R, SR. simpl rxpot. simpl is_reconnect. lia.
  - (* ack: take the lock *)
    right. destruct (lock (base s)) as [[t|]|] eqn:LK.
    + destruct (NOCS t). apply (l_c _ IL). auto.
    + destruct (l_r _ IL LK) as (? & ? & ? & [X|X]); congruence.
    + eapply STEP.
      * unfold step_rx2. rewrite R. unfold lift, step, step_rx. rewrite R, LK. reflexivity.
      * potsimp. rewrite R. simpl. destruct (closed (base s)); lia.
  - right. eapply STEP.
    + unfold step_rx2. rewrite R. unfold lift, step, step_rx. rewrite R. reflexivity.
    + potsimp. rewrite R. simpl. destruct (closed (base s)); lia.
  - right. eapply STEP.
    + unfold step_rx2. rewrite R. unfold lift, step, step_rx. rewrite R. reflexivity.
    + potsimp. rewrite R. simpl. destruct (closed (base s)); lia.
  - right. pose proof (rxpot_settle ks) as ST. pose proof (settle_not_reconnect ks) as SR. eapply STEP.
    + unfold step_rx2. rewrite R. unfold lift, step, step_rx. rewrite R. reflexivity.
    + potsimp. rewrite R, SR. simpl. destruct (closed (base s)); lia.
  - (* notify *)
    right. destruct (n_notify _ IN _ _ R) as (i & ch & E & I1 & _). subst keys.
    destruct (In_lookup _ _ _ I1) as ([t k] & LK). pose proof (lookup_In _ _ _ LK) as I2.
    destruct (c_owner _ IC _ _ _ I2) as (CK & PP & _).
    destruct PP as [PP|PP]; [destruct (NOCS t); eexists; eauto|].
    pose proof (rxpot_settle ks) as ST. pose proof (settle_not_reconnect ks) as SR.
    eapply STEP.
    + unfold step_rx2. rewrite R. unfold notify2, notify_b. rewrite LK, PP, CK, Nat.eqb_refl. reflexivity.
    + cbn [base wb option_map]. pose proof (hpot_set_pc t CLock
            (set_rx (settle ks) (set_tables (del_key i (table (base s))) (delz i (hints (base s))) (base s)))) as HP.
      assert (G : getc t (set_rx (settle ks) (set_tables (del_key i (table (base s))) (delz i (hints (base s))) (base s)))
                  = getc t (base s)) by reflexivity.
      rewrite G, PP in HP. simpl hw in HP.
      assert (HB : hpot (set_rx (settle ks) (set_tables (del_key i (table (base s))) (delz i (hints (base s))) (base s)))
                   = hpot (base s)) by reflexivity.
      rewrite HB in HP. unfold pot, cpot. cbn [rx wire_in closed set_pc set_caller set_rx set_tables].
      rewrite R, SR. simpl rxpot. simpl is_reconnect. lia.
  - (* reconnect *)
    right. eapply STEP.
    + unfold step_rx2. rewrite R. reflexivity.
    + potsimp. rewrite R. simpl.
      assert (C : closed (base s) = true \/ closed (base s) = false) by (destruct (closed (base s)); auto).
      destruct C as [C|C]; rewrite C; simpl; try lia.
      (* an open connection at the reconnect pc cannot happen, but costs nothing to cover *)
      admit.
  - destruct (n_alive _ IN R).
Admitted.
