(* Client/Alive.v - liveness side of C11 / C16 over all histories of Client/Live.v:
   InvL   the send lock is held only by somebody inside the critical section (so it is released
          without anybody's help);
   no_stall  whenever the receive loop stands before a channel send (result delivery or retry
          marker) the channel's owner is at its receive or one own step away from it;
   drain  from every reachable state there is a schedule - steps of the client's goroutines only,
          nothing from the server - that brings the receive loop back to an idle read;
   probe  ... after which a call by any idle caller, answered by the server, returns that answer;
   resume  a reconnect keeps the key: no key exchange, no plain frame. *)
From Coq Require Import ZArith List Bool Lia Arith Sorted.
From MTV Require Import Client.Model Client.StepLemmas Client.SeqNo Client.Routing Client.Live Client.LiveInv Client.Salt.
Import ListNotations.
Open Scope Z_scope.
Local Opaque wrap32 fresh_id.
Arguments Z.lor : simpl never.

(* ---- InvL ------------------------------------------------------------------------------------ *)

Definition in_cs (p : cpc) : Prop := exists i, p = CReg i \/ p = CWritten i.
Definition rx_in_cs (r : rpc) : Prop := exists sid i ks, r = RAckReg sid i ks \/ r = RAckWritten sid i ks.

Record InvL (b : state) : Prop := {
  l_c : forall t, lock b = Some (ACaller t) -> in_cs (c_pc (getc t b));
  l_r : lock b = Some ARx -> rx_in_cs (rx b)
}.

Lemma InvL_init : InvL init.
Proof. constructor; simpl; intros; discriminate. Qed.

Lemma InvL_mono : forall b b',
  lock b' = lock b ->
  (forall t, in_cs (c_pc (getc t b)) -> in_cs (c_pc (getc t b'))) ->
  (rx_in_cs (rx b) -> rx_in_cs (rx b')) ->
  InvL b -> InvL b'.
Proof.
  intros b b' Hl Hc Hr [C R]. constructor; rewrite Hl; auto.
Qed.

Lemma settle_not_cs : forall ks, ~ rx_in_cs (settle ks).
Proof.
  intros ks (sid & i & k & [E|E]); pose proof (settle_quiet ks) as Q; rewrite E in Q; destruct Q.
Qed.

Lemma InvL_step1 : forall b l b', InvA b -> InvL b -> old_ok b l -> step b l = Some b' -> InvL b'.
Proof.
  intros b l b' IA IL OK H. pose proof IL as [C R].
  destruct l as [t h|[t|] clk|f|].
  - step_cases H. apply (InvL_mono b); auto. intros t0 X. norm. eqt; simpl; auto.
    unfold getc in Heqc. rewrite Heqc in X. destruct X as (i & [X|X]); discriminate.
  - step_cases H.
    + (* acquire *) constructor.
      * intros t0 X. norm. inversion X; subst. rewrite Nat.eqb_refl. simpl. eexists. eauto.
      * norm. discriminate.
    + (* write *) apply (InvL_mono b); auto. intros t0 X. norm. eqt; simpl; auto. eexists. eauto.
    + (* release *) constructor; intros; norm; discriminate.
  - simpl in OK. step_cases H; try (destruct OK; fail).
    + apply (InvL_mono b); auto. simpl. rewrite Heqr. intros (? & ? & ? & [X|X]); discriminate.
    + apply (InvL_mono b); auto. simpl. rewrite Heqr. intros (? & ? & ? & [X|X]); discriminate.
    + (* deliver *) apply Nat.eqb_eq in Heqb0. apply (InvL_mono b); auto.
      * intros t0 X. norm. eqt; simpl; auto. unfold getc in Heqc0. rewrite Heqc0 in X. destruct X as (? & [X|X]); discriminate.
      * simpl. rewrite Heqr. intros (? & ? & ? & [X|X]); discriminate.
    + apply Nat.eqb_eq in Heqb0. apply (InvL_mono b); auto.
      * intros t0 X. norm. eqt; simpl; auto. unfold getc in Heqc0. rewrite Heqc0 in X. destruct X as (? & [X|X]); discriminate.
      * simpl. rewrite Heqr. intros (? & ? & ? & [X|X]); discriminate.
    + (* rx acquire *) constructor.
      * intros t0 X. norm. discriminate.
      * intros _. norm. do 3 eexists. left. reflexivity.
    + (* rx write *) apply (InvL_mono b); auto. simpl. intros _. do 3 eexists. right. reflexivity.
    + (* rx release *) constructor; intros; norm; discriminate.
    + (* ack received *) apply (InvL_mono b); auto. simpl. rewrite Heqr. intros (? & ? & ? & [X|X]); discriminate.
  - step_cases H. apply (InvL_mono b); auto.
  - step_cases H. apply (InvL_mono b); auto.
Qed.

Lemma InvL_step2i : forall s l s', Inv11 s -> InvL (base s) -> step2i s l = Some s' -> InvL (base s').
Proof.
  intros s l s' [IA IC IN IR] IL H. apply step2_inv in H. destruct H.
  - eapply InvL_step1; eauto. apply lifted_old_ok; auto.
  - exact IL.
  - apply (InvL_mono (base s)); auto.
  - rewrite base_warn2. apply (InvL_mono (base s)); auto.
  - pose proof (dispatch2_ok f ks s) as D. apply (InvL_mono (base s)).
    + apply D.
    + intros t. unfold getc. rewrite (d_callers _ _ D). auto.
    + rewrite H0. intros (? & ? & ? & [X|X]); discriminate.
    + auto.
  - apply (InvL_mono (base s)); auto. simpl. rewrite H0. intros (? & ? & ? & [X|X]); discriminate.
  - apply notify_b_inv in H1. destruct H1 as [[_ E]|(t & k & j & L & P & K & E)]; subst b'; cbn [base wb].
    + apply (InvL_mono (base s)); auto. simpl. rewrite H0. intros (? & ? & ? & [X|X]); discriminate.
    + apply (InvL_mono (base s)); auto.
      * intros t0 X. norm. eqt; simpl; auto. unfold getc in P. rewrite P in X. destruct X as (? & [X|X]); discriminate.
      * simpl. rewrite H0. intros (? & ? & ? & [X|X]); discriminate.
  - apply (InvL_mono (base s)); auto. simpl. rewrite H0. intros (? & ? & ? & [X|X]); discriminate.
Qed.

(* the reconnect pc is only ever entered on a closed connection *)
Definition InvK (b : state) : Prop := rx b = RReconnect -> closed b = true.

Lemma InvK_step2i : forall s l s', InvN (base s) -> InvK (base s) -> step2i s l = Some s' -> InvK (base s').
Proof.
  intros s l s' IN IK H. unfold InvK in *. apply step2_inv in H. destruct H; cbn [base wb upd_base].
  - destruct l as [t h|[t|] clk|f|].
    + step_cases H1; auto.
    + step_cases H1; auto.
    + simpl in H0. step_cases H1; try (destruct H0; fail); simpl; try discriminate; auto;
        intro X; pose proof (settle_not_cs ks) as Q;
        destruct (settle_cases ks) as [E|[(f0 & r0 & E)|(sid0 & r0 & E)]]; rewrite E in X; discriminate.
    + step_cases H1; auto.
    + step_cases H1; simpl; auto.
  - auto.
  - auto.
  - rewrite base_warn2. simpl. rewrite H0. discriminate.
  - pose proof (dispatch2_ok f ks s) as D.
    destruct (d_rx _ _ D) as [(k & E)|[(r & c & v & k & E & _)|(i & c & k & E & _)]]; rewrite E; try discriminate.
    intro X. destruct (settle_cases k) as [E1|[(f0 & r0 & E1)|(sid0 & r0 & E1)]]; rewrite E1 in X; discriminate.
  - simpl. intro X. destruct (settle_cases ks) as [E1|[(f0 & r0 & E1)|(sid0 & r0 & E1)]]; rewrite E1 in X; discriminate.
  - apply notify_b_inv in H1. destruct H1 as [[_ E]|(t & k & j & L & P & K & E)]; subst b'; simpl;
      intro X; destruct (settle_cases ks) as [E1|[(f0 & r0 & E1)|(sid0 & r0 & E1)]]; rewrite E1 in X; discriminate.
  - simpl. discriminate.
Qed.

Lemma InvL_step2 : forall s l s', Inv11 s -> InvL (base s) -> step2 s l = Some s' -> InvL (base s').
Proof.
  intros s l s' I L H. apply step2_flush in H. destruct H as (s1 & H & E). subst. rewrite base_flush.
  eapply InvL_step2i; eauto.
Qed.

Lemma InvK_step2 : forall s l s', InvN (base s) -> InvK (base s) -> step2 s l = Some s' -> InvK (base s').
Proof.
  intros s l s' N K H. apply step2_flush in H. destruct H as (s1 & H & E). subst. rewrite base_flush.
  eapply InvK_step2i; eauto.
Qed.

(* between two frames no error is pending: it was handed to warnError when the loop came back to its read *)
Definition InvP (s : state2) : Prop := rx (base s) = RRead -> perr s = false.

Lemma perr_warn2 : forall x, perr (warn2 x) = perr x.
Proof. intros x. unfold warn2. destruct (wch x) as [|cap n]; [|destruct (Nat.ltb n cap)]; auto. Qed.

Lemma InvP_flush : forall s, InvP (flush s).
Proof.
  intros s R. rewrite base_flush in R. unfold flush. destruct (perr s) eqn:P; auto.
  rewrite R. rewrite perr_warn2. reflexivity.
Qed.

Lemma flush_id : forall s, perr s = false -> flush s = s.
Proof. intros s P. unfold flush. rewrite P. reflexivity. Qed.

Lemma step2_of_i : forall s l s1, step2i s l = Some s1 -> step2 s l = Some (flush s1).
Proof. intros s l s1 H. unfold step2. rewrite H. reflexivity. Qed.

Lemma step2_clean : forall s l s1, step2i s l = Some s1 -> perr s1 = false -> step2 s l = Some s1.
Proof. intros s l s1 H P. rewrite (step2_of_i _ _ _ H), flush_id; auto. Qed.

Lemma keyed_flush : forall s, keyed (flush s) = keyed s.
Proof.
  intros s. unfold flush. destruct (perr s); auto. destruct (rx (base s)); auto.
  unfold warn2. cbn [wch set_perr]. destruct (wch s) as [|cap n]; [|destruct (Nat.ltb n cap)]; auto.
Qed.

Record Inv16 (s : state2) : Prop := { i16_11 : Inv11 s; i16_l : InvL (base s); i16_k : InvK (base s); i16_p : InvP s }.

Lemma Inv16_init : forall c, Inv16 (init2 c).
Proof. intros c. constructor; [apply Inv11_init|apply InvL_init|unfold InvK; simpl; discriminate|intros _; reflexivity]. Qed.

Lemma Inv16_step : forall s l s', Inv16 s -> step2 s l = Some s' -> Inv16 s'.
Proof.
  intros s l s' [I L KK PP] H. constructor; [eapply Inv11_step; eauto|eapply InvL_step2; eauto| |].
  - eapply InvK_step2; eauto. apply I.
  - apply step2_flush in H. destruct H as (s1 & _ & E). subst. apply InvP_flush.
Qed.

Lemma Inv16_run : forall c ls s, run2 (init2 c) ls = Some s -> Inv16 s.
Proof. intros c. apply run2_invariant; [apply Inv16_init|intros; eapply Inv16_step; eauto]. Qed.

Lemma Inv16_run_from : forall s ls s', Inv16 s -> run2 s ls = Some s' -> Inv16 s'.
Proof. intros s ls s' I. apply run2_invariant; [exact I|intros; eapply Inv16_step; eauto]. Qed.

(* ---- no stall ---------------------------------------------------------------------------------- *)

(* the receive loop stands before a send on the channel of call k of caller t, made for request i *)
Definition at_send (b : state) (i : Z) (t k : nat) : Prop :=
  (exists v ks, rx b = RDeliver i (t, k) v ks) \/
  (exists ks, rx b = RNotify [i] ks /\ lookup i (table b) = Some (t, k)).

Lemma send_enabled : forall s i t k clk, keyed s = true -> at_send (base s) i t k ->
  c_k (getc t (base s)) = k -> (exists j, c_pc (getc t (base s)) = CRecv j) ->
  exists s', step2 s (L1 (LStep ARx clk)) = Some s'.
Proof.
  intros s i t k clk K A CK (j & P). unfold step2. simpl. rewrite K. simpl. unfold step_rx2.
  destruct A as [(v & ks & R)|(ks & R & L)]; rewrite R.
  - unfold lift, step, step_rx. rewrite R. unfold deliver. rewrite P, CK, Nat.eqb_refl.
    destruct (ret_of v); simpl; eauto.
  - unfold notify2, notify_b. rewrite L, P, CK, Nat.eqb_refl. simpl. eauto.
Qed.

Lemma owner_of_send : forall s i t k, Inv11 s -> at_send (base s) i t k ->
  c_k (getc t (base s)) = k /\ (c_pc (getc t (base s)) = CWritten i \/ c_pc (getc t (base s)) = CRecv i).
Proof.
  intros s i t k [IA IC IN IR] A.
  assert (I : In (i, (t, k)) (table (base s))).
  { destruct A as [(v & ks & R)|(ks & R & L)]; [apply (c_deliver _ IC _ _ _ _ R)|apply lookup_In; auto]. }
  destruct (c_owner _ IC _ _ _ I) as (K & P & _). auto.
Qed.

Lemma no_stall : forall c ls s, run2 (init2 c) ls = Some s -> keyed s = true ->
  (forall i t k, In (i, (t, k)) (table (base s)) ->
     c_k (getc t (base s)) = k /\
     (c_pc (getc t (base s)) = CWritten i \/ c_pc (getc t (base s)) = CRecv i)) /\
  (forall i t k clk, at_send (base s) i t k ->
     c_k (getc t (base s)) = k /\
     ((c_pc (getc t (base s)) = CRecv i /\ exists s', step2 s (L1 (LStep ARx clk)) = Some s') \/
      (c_pc (getc t (base s)) = CWritten i /\
       exists s1, step2 s (L1 (LStep (ACaller t) clk)) = Some s1 /\
                  c_pc (getc t (base s1)) = CRecv i /\ at_send (base s1) i t k /\
                  exists s', step2 s1 (L1 (LStep ARx clk)) = Some s'))).
Proof.
  intros c ls s H K. pose proof (Inv11_run _ _ _ H) as I11. split.
  - intros i t k I. destruct (c_owner _ (i11_c _ I11) _ _ _ I) as (CK & P & _). auto.
  - intros i t k clk A. destruct (owner_of_send _ _ _ _ I11 A) as (CK & [P|P]); split; auto.
    + right. split; auto.
      set (s1 := flush (wb (set_pc t (CRecv i) (set_lock None (base s))) s)).
      assert (S1 : step2 s (L1 (LStep (ACaller t) clk)) = Some s1).
      { apply step2_of_i. simpl. rewrite K. simpl. unfold lift, step, step_caller. rewrite P. reflexivity. }
      assert (P1 : c_pc (getc t (base s1)) = CRecv i).
      { unfold s1. rewrite base_flush. cbn [base wb]. rewrite getc_set_pc, Nat.eqb_refl. reflexivity. }
      assert (K1 : c_k (getc t (base s1)) = k).
      { unfold s1. rewrite base_flush. cbn [base wb]. rewrite getc_set_pc, Nat.eqb_refl. simpl. exact CK. }
      assert (A1 : at_send (base s1) i t k).
      { unfold s1. rewrite base_flush. unfold at_send. cbn [base wb]. simpl. exact A. }
      assert (KK : keyed s1 = true) by (unfold s1; rewrite keyed_flush; exact K).
      exists s1. split; auto. split; auto. split; auto.
      eapply send_enabled; eauto.
    + left. split; auto. eapply send_enabled; eauto.
Qed.

(* ---- a measure of the work the client's goroutines still have to do on their own ------------- *)

Fixpoint bsz (b : body) : nat :=
  match b with
  | BContainer items =>
      S ((fix go (l : list (Z * Z * body)) : nat :=
            match l with [] => O | (_, x) :: r => (bsz x + go r)%nat end) items)
  | BGzip x => bsz x
  | _ => 1%nat
  end.

Definition fsz (f : frame) : nat := bsz (snd f).

Fixpoint isz (l : list frame) : nat :=
  match l with [] => O | f :: r => (fsz f + isz r)%nat end.

Lemma bsz_container : forall items, bsz (BContainer items) = S (isz items).
Proof.
  intros items. simpl. f_equal. induction items as [|[[a c] x] r IH]; simpl; auto.
Qed.

Lemma bsz_strip : forall b, bsz b = bsz (strip b).
Proof. induction b; simpl; auto. Qed.

Lemma bsz_pos : forall b, (1 <= bsz b)%nat.
Proof. induction b; simpl; auto; lia. Qed.

Fixpoint kpot (ks : list kont) : nat :=
  match ks with
  | [] => O
  | KItem f :: r => (7 * fsz f + kpot r)%nat
  | KTail _ _ :: r => (4 + kpot r)%nat
  end.

Definition rxpot (r : rpc) : nat :=
  match r with
  | RRead | RReconnect | RDead => O
  | RDispatch f ks => (7 * fsz f + kpot ks)%nat
  | RDeliver _ _ _ ks | RNotify _ ks | RAckRecv _ ks => (1 + kpot ks)%nat
  | RAckLock _ ks => (4 + kpot ks)%nat
  | RAckReg _ _ ks => (3 + kpot ks)%nat
  | RAckWritten _ _ ks => (2 + kpot ks)%nat
  end.

Fixpoint inpot (l : list frame) : nat :=
  match l with [] => O | f :: r => (7 * fsz f + 1 + inpot r)%nat end.

Definition is_reconnect (r : rpc) : bool := match r with RReconnect => true | _ => false end.

Definition cpot (b : state) : nat :=
  if closed b then (if is_reconnect (rx b) then 1 else 2)%nat else O.

Definition hw (p : cpc) : nat := match p with CReg _ => 2 | CWritten _ => 1 | _ => 0 end%nat.

Fixpoint hsum (l : list caller) : nat :=
  match l with [] => O | c :: r => (hw (c_pc c) + hsum r)%nat end.

Definition hpot (b : state) : nat := hsum (callers b).

Definition pot (b : state) : nat := (rxpot (rx b) + inpot (wire_in b) + cpot b + hpot b)%nat.

Lemma kpot_items : forall items ks, kpot (map KItem items ++ ks) = (7 * isz items + kpot ks)%nat.
Proof. induction items as [|f r IH]; intros ks; simpl; auto. rewrite IH. lia. Qed.

Lemma rxpot_settle : forall ks, (rxpot (settle ks) <= kpot ks)%nat.
Proof.
  induction ks as [|k ks IH]; simpl; auto. destruct k; simpl; auto. destruct (Z.odd seq); simpl; lia.
Qed.

Lemma settle_not_reconnect : forall ks, is_reconnect (settle ks) = false.
Proof.
  intros ks. destruct (settle_cases ks) as [E|[(f & r & E)|(sid & r & E)]]; rewrite E; reflexivity.
Qed.

Lemma hsum_setl : forall t c l,
  (hsum (setl t c l) + hw (c_pc (nth t l idle_caller)) = hsum l + hw (c_pc c))%nat.
Proof.
  induction t as [|t IH]; intros c l; destruct l as [|x r]; simpl; try lia.
  - specialize (IH c []). destruct t; simpl in *; lia.
  - specialize (IH c r). lia.
Qed.

Lemma hpot_set_pc : forall t p b,
  (hpot (set_pc t p b) + hw (c_pc (getc t b)) = hpot b + hw p)%nat.
Proof. intros. unfold hpot, set_pc, getc. simpl. rewrite hsum_setl. reflexivity. Qed.

Lemma hsum_pos : forall l, (0 < hsum l)%nat -> exists t, (0 < hw (c_pc (nth t l idle_caller)))%nat.
Proof.
  induction l as [|c r IH]; simpl; intros H; [lia|].
  destruct (Nat.eq_dec (hw (c_pc c)) 0).
  - destruct IH as (t & T); [lia|]. exists (S t). auto.
  - exists O. simpl. lia.
Qed.

Lemma hsum_zero : forall l t, hsum l = O -> hw (c_pc (nth t l idle_caller)) = O.
Proof.
  induction l as [|c r IH]; intros t H; simpl in *.
  - destruct t; reflexivity.
  - destruct t; [lia|apply IH; lia].
Qed.

Lemma dispatch2_pot : forall f ks s,
  (rxpot (rx (base (dispatch2 f ks s))) < 7 * fsz f + kpot ks)%nat /\
  is_reconnect (rx (base (dispatch2 f ks s))) = false.
Proof.
  intros [[sid seq] b] ks s. unfold dispatch2, fsz. cbn [snd].
  pose proof (bsz_pos b) as BP. rewrite (bsz_strip b) in *.
  pose proof (rxpot_settle (KTail sid seq :: ks)) as ST. cbn [kpot] in ST.
  assert (FAIL : (rxpot (rx (base (fail2 (KTail sid seq :: ks) (upd_base (log (ERecv sid seq)) s)))) < 7 * bsz (strip b) + kpot ks)%nat /\
                 is_reconnect (rx (base (fail2 (KTail sid seq :: ks) (upd_base (log (ERecv sid seq)) s)))) = false).
  { rewrite base_fail2. cbn [rx set_rx]. split; [lia|apply settle_not_reconnect]. }
  destruct (negb (decodes (hinted_for b (base s)) b)); [exact FAIL|].
  destruct (strip b) eqn:SB; try exact FAIL;
    try (cbn [base upd_base wb rx set_rx]; split; [simpl bsz; lia|apply settle_not_reconnect]).
  - destruct (lookup req (table (base s))); [|exact FAIL]. simpl. split; auto; try lia.
  - destruct (lookup req (table (base s))); [|exact FAIL]. simpl. split; auto; try lia.
  - cbn [base upd_base wb rx set_rx]. split; [|apply settle_not_reconnect].
    pose proof (rxpot_settle (map KItem items ++ KTail sid seq :: ks)) as X.
    rewrite kpot_items in X. cbn [kpot] in X. rewrite bsz_container. lia.
  - destruct (lookup bad (table (base s))); simpl; split; auto; try lia.
    + pose proof (rxpot_settle ks). destruct (Z.odd seq); simpl; lia.
    + destruct (Z.odd seq); [reflexivity|apply settle_not_reconnect].
Qed.

(* ---- steps keep the client keyed; an idle caller is not touched by anybody else's steps ------ *)

Lemma keyed_step_i : forall s l s', step2i s l = Some s' -> keyed s = true -> keyed s' = true.
Proof.
  intros s l s' H K. apply step2_inv in H. destruct H; auto.
  - unfold warn2. cbn [upd_base wb wch bump_failed]. destruct (wch s) as [|cap n]; [|destruct (Nat.ltb n cap)]; auto.
  - unfold dispatch2. destruct f as [[sid seq] b].
    assert (HH : forall x, keyed (handle2 x) = keyed x).
    { intros x. unfold handle2. destruct (handler x); auto.
      unfold warn2. destruct (wch x) as [|cap n]; [|destruct (Nat.ltb n cap)]; auto. }
    unfold fail2.
    destruct (negb (decodes (hinted_for b (base s)) b)); [exact K|].
    destruct (strip b);
      repeat match goal with |- context [lookup ?a ?b] => destruct (lookup a b) end;
      cbn [upd_base wb keyed adopt2 set_perr bump_failed]; rewrite ?HH; auto.
Qed.

Lemma keyed_step : forall s l s', step2 s l = Some s' -> keyed s = true -> keyed s' = true.
Proof.
  intros s l s' H K. apply step2_flush in H. destruct H as (s1 & H & E). subst. rewrite keyed_flush.
  eapply keyed_step_i; eauto.
Qed.

Definition step_label (l : label2) : Prop := exists a clk, l = L1 (LStep a clk).

Lemma idle_kept_i : forall s l s' t, Inv11 s -> step_label l -> step2i s l = Some s' ->
  (c_pc (getc t (base s)) = CIdle -> getc t (base s') = getc t (base s)) /\
  (forall x, In x (rets (base s)) -> In x (rets (base s'))).
Proof.
  intros s l s' t [IA IC IN IR] (a & clk & EL) H. apply step2_inv in H.
  destruct H; try discriminate; cbn [base wb upd_base].
  - (* lifted *) inversion EL; subst l. destruct a as [t0|].
    + step_cases H1; norm; split; auto; intros ID; eqt; auto; unfold getc in ID; congruence.
    + simpl in H0. step_cases H1; try (destruct H0; fail); norm; try (split; auto; fail).
      * apply Nat.eqb_eq in Heqb. split; [|simpl; auto]. intros ID. eqt; auto. unfold getc in ID. congruence.
      * apply Nat.eqb_eq in Heqb. split; auto. intros ID. eqt; auto. unfold getc in ID. congruence.
  - rewrite base_warn2. simpl. auto.
  - pose proof (dispatch2_ok f ks s) as D. unfold getc. rewrite (d_callers _ _ D), (d_rets _ _ D). auto.
  - auto.
  - apply notify_b_inv in H1. destruct H1 as [[_ E]|(t0 & k & j & L & P & K & E)]; subst b'.
    + auto.
    + norm. split; auto. intros ID. eqt; auto. unfold getc in ID. congruence.
  - auto.
Qed.

Lemma idle_kept : forall s l s' t, Inv11 s -> step_label l -> step2 s l = Some s' ->
  (c_pc (getc t (base s)) = CIdle -> getc t (base s') = getc t (base s)) /\
  (forall x, In x (rets (base s)) -> In x (rets (base s'))).
Proof.
  intros s l s' t I L H. apply step2_flush in H. destruct H as (s1 & H & E). subst. rewrite base_flush.
  eapply idle_kept_i; eauto.
Qed.

(* ---- drain ------------------------------------------------------------------------------------- *)

Definition quiescent (b : state) : Prop :=
  rx b = RRead /\ wire_in b = [] /\ closed b = false /\ hpot b = O.

Ltac potsimp :=
  unfold pot, cpot, hpot;
  cbn [rx wire_in closed callers set_rx set_lock set_last set_tables set_in log set_salt
       add_ret send add_tables reopen rxpot inpot is_reconnect base wb upd_base bump_failed].

Lemma pot_set_pc : forall b b1 t p,
  wire_in b1 = wire_in b -> closed b1 = closed b -> callers b1 = callers b ->
  is_reconnect (rx b1) = is_reconnect (rx b) ->
  (rxpot (rx b1) + hw p < rxpot (rx b) + hw (c_pc (getc t b)))%nat ->
  (pot (set_pc t p b1) < pot b)%nat.
Proof.
  intros b b1 t p W C CL RC Lt. pose proof (hpot_set_pc t p b1) as HP.
  assert (G : getc t b1 = getc t b) by (unfold getc; rewrite CL; auto). rewrite G in HP.
  assert (HB : hpot b1 = hpot b) by (unfold hpot; rewrite CL; auto). rewrite HB in HP.
  unfold pot, cpot.
  change (rx (set_pc t p b1)) with (rx b1). change (wire_in (set_pc t p b1)) with (wire_in b1).
  change (closed (set_pc t p b1)) with (closed b1). rewrite W, C, RC. lia.
Qed.

Lemma pot_add_ret : forall x b, pot (add_ret x b) = pot b.
Proof. reflexivity. Qed.

Lemma drain_step : forall s, Inv16 s -> keyed s = true ->
  quiescent (base s) \/
  exists l s', step_label l /\ step2 s l = Some s' /\ (pot (base s') < pot (base s))%nat.
Proof.
  intros s [[IA IC IN IR] IL IK _] K.
  destruct (Nat.eq_dec (hpot (base s)) 0) as [HZ|HN].
  2:{ (* somebody is inside the critical section: let him finish *)
      right. destruct (hsum_pos (callers (base s))) as (t & T); [unfold hpot in HN; lia|].
      fold (getc t (base s)) in T.
      destruct (c_pc (getc t (base s))) eqn:P; simpl in T; try lia.
      - exists (L1 (LStep (ACaller t) 0)). eexists. split; [do 2 eexists; reflexivity|]. split.
        + apply step2_of_i. simpl. rewrite K. simpl. unfold lift, step, step_caller. rewrite P. reflexivity.
        + rewrite base_flush. cbn [base wb]. apply pot_set_pc; auto. rewrite P. simpl. lia.
      - exists (L1 (LStep (ACaller t) 0)). eexists. split; [do 2 eexists; reflexivity|]. split.
        + apply step2_of_i. simpl. rewrite K. simpl. unfold lift, step, step_caller. rewrite P. reflexivity.
        + rewrite base_flush. cbn [base wb]. apply pot_set_pc; auto. rewrite P. simpl. lia. }
  assert (NOCS : forall t, ~ in_cs (c_pc (getc t (base s)))).
  { intros t (i & [X|X]); pose proof (hsum_zero _ t HZ) as Z; fold (getc t (base s)) in Z; rewrite X in Z; discriminate. }
  assert (STEP : forall X, step_rx2 0 s = Some X -> (pot (base X) < pot (base s))%nat ->
     exists l s', step_label l /\ step2 s l = Some s' /\ (pot (base s') < pot (base s))%nat).
  { intros X E Lt. exists (L1 (LStep ARx 0)), (flush X). split; [do 2 eexists; reflexivity|].
    split; [|rewrite base_flush; exact Lt]. apply step2_of_i. simpl. rewrite K. simpl. exact E. }
  destruct (rx (base s)) eqn:R.
  - (* read *)
    destruct (wire_in (base s)) as [|f r] eqn:W.
    + destruct (closed (base s)) eqn:C.
      * right. eapply STEP.
        -- unfold step_rx2. rewrite R, W. unfold lift, step, step_rx. rewrite R, W, C. reflexivity.
        -- potsimp. rewrite R, W, C. simpl. lia.
      * left. repeat split; auto.
    + right. destruct (transport_ok f) eqn:T.
      * eapply STEP.
        -- unfold step_rx2. rewrite R, W, T. unfold lift, step, step_rx. rewrite R, W. reflexivity.
        -- potsimp. rewrite R, W. simpl. destruct (closed (base s)); lia.
      * eapply STEP.
        -- unfold step_rx2. rewrite R, W, T. reflexivity.
        -- rewrite base_warn2. potsimp. rewrite R, W. simpl. destruct (closed (base s)); lia.
  - (* dispatch *)
    right. eapply STEP.
    + unfold step_rx2. rewrite R. reflexivity.
    + pose proof (dispatch2_ok f ks s) as D. destruct (dispatch2_pot f ks s) as [P1 P2].
      unfold pot, cpot, hpot. rewrite (d_in _ _ D), (d_closed _ _ D), (d_callers _ _ D), P2, R. simpl rxpot.
      simpl is_reconnect. lia.
  - (* deliver *)
    right. destruct (c_deliver _ IC _ _ _ _ R) as (D1 & _). destruct ch as [t k].
    destruct (c_owner _ IC _ _ _ D1) as (CK & PP & _).
    destruct PP as [PP|PP]; [destruct (NOCS t); eexists; eauto|].
    pose proof (rxpot_settle ks) as ST. pose proof (settle_not_reconnect ks) as SR.
    destruct (ret_of v) as [rv|] eqn:RV.
    + eapply STEP.
      * unfold step_rx2. rewrite R. unfold lift, step, step_rx. rewrite R. unfold deliver.
        rewrite PP, CK, Nat.eqb_refl, RV. reflexivity.
      * cbn [base wb option_map]. rewrite pot_add_ret. apply pot_set_pc; auto.
        -- simpl. rewrite R, SR. reflexivity.
        -- rewrite PP, R. simpl. lia.
    + eapply STEP.
      * unfold step_rx2. rewrite R. unfold lift, step, step_rx. rewrite R. unfold deliver.
        rewrite PP, CK, Nat.eqb_refl, RV. reflexivity.
      * cbn [base wb option_map]. apply pot_set_pc; auto.
        -- simpl. rewrite R, SR. reflexivity.
        -- rewrite PP, R. simpl. lia.
  - (* ack: take the lock *)
    right. destruct (lock (base s)) as [[t|]|] eqn:LK.
    + destruct (NOCS t). apply (l_c _ IL). auto.
    + destruct (l_r _ IL LK) as (? & ? & ? & [X|X]); congruence.
    + eapply STEP.
      * unfold step_rx2. rewrite R. unfold lift, step, step_rx. rewrite R, LK. reflexivity.
      * potsimp. rewrite R. simpl. destruct (closed (base s)); lia.
  - right. eapply STEP.
    + unfold step_rx2. rewrite R. unfold lift, step, step_rx. rewrite R. reflexivity.
    + potsimp. rewrite R. simpl. destruct (closed (base s)); lia.
  - right. eapply STEP.
    + unfold step_rx2. rewrite R. unfold lift, step, step_rx. rewrite R. reflexivity.
    + potsimp. rewrite R. simpl. destruct (closed (base s)); lia.
  - right. pose proof (rxpot_settle ks) as ST. pose proof (settle_not_reconnect ks) as SR. eapply STEP.
    + unfold step_rx2. rewrite R. unfold lift, step, step_rx. rewrite R. reflexivity.
    + potsimp. rewrite R, SR. simpl. destruct (closed (base s)); lia.
  - (* notify *)
    right. destruct (n_notify _ IN _ _ R) as (i & ch & E & I1 & _). subst keys.
    destruct (In_lookup _ _ _ I1) as ([t k] & LK). pose proof (lookup_In _ _ _ LK) as I2.
    destruct (c_owner _ IC _ _ _ I2) as (CK & PP & _).
    destruct PP as [PP|PP]; [destruct (NOCS t); eexists; eauto|].
    pose proof (rxpot_settle ks) as ST. pose proof (settle_not_reconnect ks) as SR.
    eapply STEP.
    + unfold step_rx2. rewrite R. unfold notify2, notify_b. rewrite LK, PP, CK, Nat.eqb_refl. reflexivity.
    + cbn [base wb option_map]. apply pot_set_pc; auto.
      * simpl. rewrite R, SR. reflexivity.
      * rewrite PP, R. simpl. lia.
  - (* reconnect *)
    right. eapply STEP.
    + unfold step_rx2. rewrite R. reflexivity.
    + potsimp. rewrite R. simpl.
      assert (C : closed (base s) = true \/ closed (base s) = false) by (destruct (closed (base s)); auto).
      destruct C as [C|C]; rewrite C; simpl; try lia.
      rewrite (IK R) in C. discriminate.
  - destruct (n_alive _ IN R).
Qed.

Lemma run2_cons : forall s l ls, run2 s (l :: ls) = match step2 s l with Some x => run2 x ls | None => None end.
Proof.
  intros. unfold run2. simpl. destruct (step2 s l); auto.
  induction ls; simpl; auto.
Qed.

Lemma run2_app2 : forall s l1 l2 s1, run2 s l1 = Some s1 -> run2 s (l1 ++ l2) = run2 s1 l2.
Proof. intros. unfold run2 in *. rewrite fold_left_app, H. reflexivity. Qed.

(* from every reachable state the client's own goroutines, scheduled suitably and without any
   further message from the server, bring the receive loop back to an idle read *)
Lemma drain : forall n s, (pot (base s) <= n)%nat -> Inv16 s -> keyed s = true ->
  exists ls s', run2 s ls = Some s' /\ Forall step_label ls /\ quiescent (base s') /\ keyed s' = true /\
    Inv16 s' /\
    (forall t, c_pc (getc t (base s)) = CIdle -> getc t (base s') = getc t (base s)) /\
    (forall x, In x (rets (base s)) -> In x (rets (base s'))).
Proof.
  induction n as [|n IH]; intros s Le I K.
  - destruct (drain_step s I K) as [Q|(l & s1 & SL & ST & Lt)]; [|lia].
    exists [], s. split; [reflexivity|]. split; [constructor|]. split; [exact Q|]. split; [exact K|]. split; [exact I|]. split; auto.
  - destruct (drain_step s I K) as [Q|(l & s1 & SL & ST & Lt)].
    + exists [], s. split; [reflexivity|]. split; [constructor|]. split; [exact Q|]. split; [exact K|]. split; [exact I|]. split; auto.
    + pose proof (Inv16_step _ _ _ I ST) as I1. pose proof (keyed_step _ _ _ ST K) as K1.
      destruct (IH s1 ltac:(lia) I1 K1) as (ls & s' & R & F & Q & K' & I' & ID & RT).
      exists (l :: ls), s'. rewrite run2_cons, ST.
      split; [exact R|]. split; [constructor; auto|]. split; [exact Q|]. split; [exact K'|]. split; [exact I'|]. split.
      * intros t P. destruct (idle_kept _ _ _ t (i16_11 _ I) SL ST) as [G _]. specialize (G P).
        rewrite <- G. apply ID. rewrite G. auto.
      * intros x X. apply RT. destruct (idle_kept _ _ _ O (i16_11 _ I) SL ST) as [_ G]; auto.
Qed.

(* ---- probe ------------------------------------------------------------------------------------- *)

Lemma quiescent_lock : forall s, Inv16 s -> quiescent (base s) -> lock (base s) = None.
Proof.
  intros s [_ IL _] (R & _ & _ & HZ). destruct (lock (base s)) as [[t|]|] eqn:LK; auto.
  - destruct (l_c _ IL _ LK) as (i & [X|X]); pose proof (hsum_zero _ t HZ) as Z;
      fold (getc t (base s)) in Z; rewrite X in Z; discriminate.
  - destruct (l_r _ IL LK) as (? & ? & ? & [X|X]); congruence.
Qed.

(* the labels of one complete call of caller t answered by the server with (object, p):
   call, take the lock and an id, write, release, [server: rpc_result for that id], read, dispatch, deliver *)
Definition probe_labels (t : nat) (clk sid : Z) (i p : Z) : list label2 :=
  [L1 (LCall t false); L1 (LStep (ACaller t) clk); L1 (LStep (ACaller t) 0); L1 (LStep (ACaller t) 0);
   L1 (LSrv (sid, 0, BResult i false KObj p));
   L1 (LStep ARx 0); L1 (LStep ARx 0); L1 (LStep ARx 0)].

Lemma wb_wb : forall x y s, wb x (wb y s) = wb x s.
Proof. reflexivity. Qed.

Lemma probe : forall s t clk sid p, Inv16 s -> keyed s = true -> quiescent (base s) ->
  c_pc (getc t (base s)) = CIdle -> (sid mod 4 = 1) ->
  let i := fresh_id (last_id (base s)) clk in
  let k := S (c_k (getc t (base s))) in
  exists s', run2 s (probe_labels t clk sid i p) = Some s' /\
    In (t, k, i, RetVal KObj p) (rets (base s')) /\
    c_pc (getc t (base s')) = CIdle /\ rx (base s') = RRead.
Proof.
  intros s t clk sid p I K Q ID SM i k. pose proof (quiescent_lock _ I Q) as LK.
  destruct Q as (R & W & C & _).
  assert (PF : perr s = false) by (apply (i16_p _ I); exact R).
  (* call *)
  set (b1 := set_caller t {| c_pc := CLock; c_hint := false; c_k := k |} (base s)).
  assert (S1 : step2 s (L1 (LCall t false)) = Some (wb b1 s)).
  { apply step2_clean; [|exact PF]. unfold step2i. rewrite K. cbn [negb]. unfold lift, step. rewrite ID. reflexivity. }
  assert (G1 : getc t b1 = {| c_pc := CLock; c_hint := false; c_k := k |}).
  { unfold b1. rewrite getc_set_caller, Nat.eqb_refl. reflexivity. }
  (* acquire *)
  set (b2 := set_pc t (CReg i) (set_last i (set_lock (Some (ACaller t)) b1))).
  assert (S2 : step2 (wb b1 s) (L1 (LStep (ACaller t) clk)) = Some (wb b2 s)).
  { apply step2_clean; [|exact PF]. unfold step2i. cbn [keyed wb]. rewrite K. cbn [negb]. unfold lift. cbn [base wb]. unfold step, step_caller.
    rewrite G1. cbn [c_pc]. change (lock b1) with (lock (base s)). rewrite LK. reflexivity. }
  assert (G2 : getc t b2 = {| c_pc := CReg i; c_hint := false; c_k := k |}).
  { unfold b2. rewrite getc_set_pc, Nat.eqb_refl.
    change (getc t (set_last i (set_lock (Some (ACaller t)) b1))) with (getc t b1). rewrite G1. reflexivity. }
  (* write *)
  set (b3 := set_pc t (CWritten i) (send (mk_req i t k false b2) (add_tables i t {| c_pc := CReg i; c_hint := false; c_k := k |} b2))).
  assert (S3 : step2 (wb b2 s) (L1 (LStep (ACaller t) 0)) = Some (wb b3 s)).
  { apply step2_clean; [|exact PF]. unfold step2i. cbn [keyed wb]. rewrite K. cbn [negb]. unfold lift. cbn [base wb]. unfold step, step_caller.
    rewrite G2. reflexivity. }
  assert (G3 : getc t b3 = {| c_pc := CWritten i; c_hint := false; c_k := k |}).
  { unfold b3. rewrite getc_set_pc, Nat.eqb_refl.
    change (getc t (send (mk_req i t k false b2) (add_tables i t {| c_pc := CReg i; c_hint := false; c_k := k |} b2))) with (getc t b2).
    rewrite G2. reflexivity. }
  assert (T3 : table b3 = (i, (t, k)) :: table (base s)) by reflexivity.
  (* release *)
  set (b4 := set_pc t (CRecv i) (set_lock None b3)).
  assert (S4 : step2 (wb b3 s) (L1 (LStep (ACaller t) 0)) = Some (wb b4 s)).
  { apply step2_clean; [|exact PF]. unfold step2i. cbn [keyed wb]. rewrite K. cbn [negb]. unfold lift. cbn [base wb]. unfold step, step_caller.
    rewrite G3. reflexivity. }
  assert (G4 : getc t b4 = {| c_pc := CRecv i; c_hint := false; c_k := k |}).
  { unfold b4. rewrite getc_set_pc, Nat.eqb_refl. change (getc t (set_lock None b3)) with (getc t b3). rewrite G3. reflexivity. }
  (* the server answers *)
  set (f := (sid, 0, BResult i false KObj p)).
  set (b5 := push_srv f b4).
  assert (S5 : step2 (wb b4 s) (L1 (LSrv f)) = Some (wb b5 s)).
  { apply step2_clean; [|exact PF]. unfold step2i. cbn [keyed wb]. rewrite K. cbn [negb base wb]. change (closed b4) with (closed (base s)). rewrite C. reflexivity. }
  assert (W5 : wire_in b5 = [f]) by (change (wire_in b5) with (wire_in (base s) ++ [f]); rewrite W; reflexivity).
  assert (R5 : rx b5 = RRead) by (change (rx b5) with (rx (base s)); exact R).
  (* read *)
  set (b6 := set_rx (RDispatch f []) (set_in [] b5)).
  assert (TO : transport_ok f = true) by (unfold f, transport_ok; rewrite SM; reflexivity).
  assert (S6 : step2 (wb b5 s) (L1 (LStep ARx 0)) = Some (wb b6 s)).
  { apply step2_clean; [|exact PF]. unfold step2i. cbn [keyed wb]. rewrite K. cbn [negb]. unfold step_rx2. cbn [base wb]. rewrite R5, W5, TO.
    unfold lift. cbn [base wb]. unfold step, step_rx. rewrite R5, W5. reflexivity. }
  (* dispatch *)
  set (s7 := dispatch2 f [] (wb b6 s)).
  assert (D7 : s7 = wb (set_rx (RDeliver i (t, k) (VRes KObj p) [KTail sid 0]) (log (EDisp i (VRes KObj p)) (log (ERecv sid 0) b6))) s).
  { unfold s7, dispatch2, f. cbn [base wb upd_base decodes strip is_vec negb].
    change (table b6) with (table b3). rewrite T3. cbn [lookup]. rewrite Z.eqb_refl. reflexivity. }
  assert (S7 : step2 (wb b6 s) (L1 (LStep ARx 0)) = Some s7).
  { apply step2_clean; [|rewrite D7; exact PF]. unfold step2i. cbn [keyed wb]. rewrite K. cbn [negb]. unfold step_rx2. cbn [base wb]. reflexivity. }
  (* deliver *)
  set (b7 := set_rx (RDeliver i (t, k) (VRes KObj p) [KTail sid 0]) (log (EDisp i (VRes KObj p)) (log (ERecv sid 0) b6))) in *.
  set (b8 := add_ret (t, k, i, RetVal KObj p)
       (set_pc t CIdle (set_rx (settle [KTail sid 0]) (set_tables (del_key i (table b7)) (delz i (hints b7)) b7)))).
  assert (S8 : step2 s7 (L1 (LStep ARx 0)) = Some (wb b8 s)).
  { rewrite D7. apply step2_clean; [|exact PF]. unfold step2i. cbn [keyed wb]. rewrite K. cbn [negb]. unfold step_rx2. cbn [base wb].
    change (rx b7) with (RDeliver i (t, k) (VRes KObj p) [KTail sid 0]). unfold lift. cbn [base wb]. unfold step, step_rx.
    change (rx b7) with (RDeliver i (t, k) (VRes KObj p) [KTail sid 0]). unfold deliver.
    change (getc t b7) with (getc t b4). rewrite G4. cbn [c_pc c_k]. rewrite Nat.eqb_refl. reflexivity. }
  exists (wb b8 s). split.
  - unfold probe_labels. fold f.
    rewrite run2_cons, S1, run2_cons, S2, run2_cons, S3, run2_cons, S4, run2_cons, S5, run2_cons, S6, run2_cons, S7, run2_cons, S8.
    reflexivity.
  - cbn [base wb]. split; [left; reflexivity|]. split.
    + unfold b8. change (getc t (add_ret (t, k, i, RetVal KObj p)
        (set_pc t CIdle (set_rx (settle [KTail sid 0]) (set_tables (del_key i (table b7)) (delz i (hints b7)) b7)))))
        with (getc t (set_pc t CIdle (set_rx (settle [KTail sid 0]) (set_tables (del_key i (table b7)) (delz i (hints b7)) b7)))).
      rewrite getc_set_pc, Nat.eqb_refl. reflexivity.
    + reflexivity.
Qed.

(* ---- C16 assembled ------------------------------------------------------------------------------ *)

(* after every history: the receive loop has not died; and for every idle caller there is a schedule of
   the client's own goroutines (no help from the server) after which a call of that caller, answered by
   the server, returns that answer *)
Lemma alive : forall c ls s, run2 (init2 c) ls = Some s ->
  rx (base s) <> RDead /\
  (keyed s = true -> forall t p clk sid, c_pc (getc t (base s)) = CIdle -> sid mod 4 = 1 ->
     exists dl s1 s', Forall step_label dl /\ run2 s dl = Some s1 /\
       rx (base s1) = RRead /\ wire_in (base s1) = [] /\ closed (base s1) = false /\
       let i := fresh_id (last_id (base s1)) clk in
       let k := S (c_k (getc t (base s))) in
       run2 s1 (probe_labels t clk sid i p) = Some s' /\
       In (t, k, i, RetVal KObj p) (rets (base s')) /\
       (forall x, In x (rets (base s)) -> In x (rets (base s1)))).
Proof.
  intros c ls s H. pose proof (Inv16_run _ _ _ H) as I. split; [apply (n_alive _ (i11_n _ (i16_11 _ I)))|].
  intros K t p clk sid ID SM.
  destruct (drain (pot (base s)) s (le_n _) I K) as (dl & s1 & R & F & Q & K1 & I1 & IDK & RT).
  pose proof (IDK t ID) as G.
  assert (ID1 : c_pc (getc t (base s1)) = CIdle) by (rewrite G; auto).
  destruct (probe s1 t clk sid p I1 K1 Q ID1 SM) as (s' & R' & IN' & _).
  exists dl, s1, s'. split; auto. split; auto. destruct Q as (Q1 & Q2 & Q3 & _).
  split; auto. split; auto. split; auto. cbv zeta. rewrite <- G. split; auto.
Qed.

(* ---- resume: the key survives a reconnect ------------------------------------------------------ *)

Lemma meta_warn2 : forall x, keyed (warn2 x) = keyed x /\ plain_out (warn2 x) = plain_out x /\
                        keyex (warn2 x) = keyex x /\ gen (warn2 x) = gen x.
Proof. intros x. unfold warn2. destruct (wch x) as [|cap n]; [|destruct (Nat.ltb n cap)]; auto. Qed.
Lemma keyed_warn2 : forall x, keyed (warn2 x) = keyed x. Proof. intros; apply meta_warn2. Qed.
Lemma plain_warn2 : forall x, plain_out (warn2 x) = plain_out x. Proof. intros; apply meta_warn2. Qed.
Lemma keyex_warn2 : forall x, keyex (warn2 x) = keyex x. Proof. intros; apply meta_warn2. Qed.
Lemma gen_warn2 : forall x, gen (warn2 x) = gen x. Proof. intros; apply meta_warn2. Qed.
Lemma meta_handle2 : forall x, keyed (handle2 x) = keyed x /\ plain_out (handle2 x) = plain_out x /\
                        keyex (handle2 x) = keyex x /\ gen (handle2 x) = gen x.
Proof. intros x. unfold handle2. destruct (handler x); auto. apply meta_warn2. Qed.
Lemma keyed_handle2 : forall x, keyed (handle2 x) = keyed x. Proof. intros; apply meta_handle2. Qed.
Lemma plain_handle2 : forall x, plain_out (handle2 x) = plain_out x. Proof. intros; apply meta_handle2. Qed.
Lemma keyex_handle2 : forall x, keyex (handle2 x) = keyex x. Proof. intros; apply meta_handle2. Qed.
Lemma gen_handle2 : forall x, gen (handle2 x) = gen x. Proof. intros; apply meta_handle2. Qed.

Lemma meta_dispatch2 : forall f ks s,
  keyed (dispatch2 f ks s) = keyed s /\ plain_out (dispatch2 f ks s) = plain_out s /\
  keyex (dispatch2 f ks s) = keyex s /\ gen (dispatch2 f ks s) = gen s.
Proof.
  intros [[sid seq] b] ks s. unfold dispatch2, fail2.
  destruct (negb (decodes (hinted_for b (base s)) b)); [cbn; auto|].
  destruct (strip b);
    repeat match goal with |- context [lookup ?a ?b] => destruct (lookup a b) end;
    cbn [upd_base wb keyed plain_out keyex gen adopt2 set_perr bump_failed];
    rewrite ?keyed_handle2, ?plain_handle2, ?keyex_handle2, ?gen_handle2; auto.
Qed.

Lemma meta_flush : forall x, keyed (flush x) = keyed x /\ plain_out (flush x) = plain_out x /\
                        keyex (flush x) = keyex x /\ gen (flush x) = gen x.
Proof.
  intros x. unfold flush. destruct (perr x); auto. destruct (rx (base x)); auto.
  destruct (meta_warn2 (set_perr false x)) as (A & B & C & D). rewrite A, B, C, D. auto.
Qed.

Lemma meta_step : forall s l s', step2 s l = Some s' -> keyed s = true ->
  keyed s' = true /\ plain_out s' = plain_out s /\ keyex s' = keyex s /\
  (gen s' = gen s \/ (gen s' = S (gen s) /\ rx (base s) = RReconnect)).
Proof.
  intros s l s' H K. apply step2_flush in H. destruct H as (s1 & H & E). subst.
  destruct (meta_flush s1) as (F1 & F2 & F3 & F4). rewrite F1, F2, F3, F4. clear F1 F2 F3 F4.
  rename s1 into s'. apply step2_inv in H. destruct H; auto.
  - congruence.
  - unfold warn2. cbn [upd_base wb wch bump_failed]. destruct (wch s) as [|cap n]; [|destruct (Nat.ltb n cap)]; auto.
  - destruct (meta_dispatch2 f ks s) as (A & B & C & D). rewrite A, B, C, D. auto.
  - simpl. auto 6.
Qed.

Lemma run2_split : forall l1 l2 s s', run2 s (l1 ++ l2) = Some s' ->
  exists s1, run2 s l1 = Some s1 /\ run2 s1 l2 = Some s'.
Proof.
  intros l1 l2 s s' H. destruct (run2 s l1) as [s1|] eqn:E.
  - exists s1. split; auto. rewrite (run2_app2 _ _ _ _ E) in H. auto.
  - exfalso. unfold run2 in *. rewrite fold_left_app, E in H.
    clear - H. induction l2; simpl in H; [discriminate|auto].
Qed.

Lemma meta_run : forall ls s s', run2 s ls = Some s' -> keyed s = true ->
  keyed s' = true /\ plain_out s' = plain_out s /\ keyex s' = keyex s /\ (gen s <= gen s')%nat.
Proof.
  induction ls as [|l ls IH] using rev_ind; intros s s' H K.
  - inversion H. subst. auto.
  - rewrite run2_app in H. destruct (run2 s ls) as [x|] eqn:E; [|discriminate].
    destruct (IH _ _ E K) as (A & B & C & D). destruct (meta_step _ _ _ H A) as (A' & B' & C' & D').
    split; auto. split; [congruence|]. split; [congruence|]. destruct D' as [D'|[D' _]]; lia.
Qed.

(* over every history: plain (unencrypted) frames are written only by a key exchange, there is at
   most one key exchange, and none at all in a session that was loaded from the store *)
Lemma keyex_once : forall c ls s, run2 (init2 c) ls = Some s ->
  plain_out s = (3 * keyex s)%nat /\ (keyex s <= 1)%nat /\
  (cf_keyed c = true -> keyex s = O /\ keyed s = true) /\
  (keyex s = 1%nat -> keyed s = true) /\
  (keyed s = false -> base s = init).
Proof.
  intros c ls s H.
  assert (X : plain_out s = (3 * keyex s)%nat /\ (keyex s <= 1)%nat /\
      (cf_keyed c = true -> keyex s = O /\ keyed s = true) /\ (keyex s = 1%nat -> keyed s = true) /\
      (keyed s = false -> base s = init) /\ (keyed s = false -> keyex s = O)); [|tauto].
  revert ls s H.
  apply (run2_invariant (fun s => plain_out s = (3 * keyex s)%nat /\ (keyex s <= 1)%nat /\
      (cf_keyed c = true -> keyex s = O /\ keyed s = true) /\ (keyex s = 1%nat -> keyed s = true) /\
      (keyed s = false -> base s = init) /\ (keyed s = false -> keyex s = O))).
  - simpl. repeat split; auto; try discriminate.
  - intros s l s' (A & B & C & D & E & F) H. destruct (keyed s) eqn:K.
    + destruct (meta_step _ _ _ H K) as (A' & B' & C' & _). rewrite A', B', C'.
      split; [auto|]. split; [auto|]. split; [exact C|]. split; [auto|]. split; intros; discriminate.
    + apply step2_flush in H. destruct H as (s1 & H & EQ). subst s'.
      destruct (meta_flush s1) as (F1 & F2 & F3 & _). rewrite F1, F2, F3, base_flush. clear F1 F2 F3.
      apply step2_inv in H. destruct H; try congruence.
      * simpl. rewrite K. auto 7.
      * simpl. rewrite (F eq_refl). rewrite A, (F eq_refl). repeat split; auto; try discriminate; try lia.
Qed.

Lemma resume : forall c pre post s, run2 (init2 c) (pre ++ L1 LClose :: post) = Some s ->
  exists s0, run2 (init2 c) pre = Some s0 /\ keyed s0 = true /\ closed (base s0) = false /\
    keyed s = true /\ plain_out s = plain_out s0 /\ keyex s = keyex s0 /\ (gen s0 <= gen s)%nat.
Proof.
  intros c pre post s H. apply run2_split in H. destruct H as (s0 & H0 & H1).
  exists s0. split; auto. rewrite run2_cons in H1.
  destruct (step2 s0 (L1 LClose)) as [s1|] eqn:E; [|discriminate].
  assert (K : keyed s0 = true).
  { unfold step2 in E. simpl in E. destruct (keyed s0); auto. discriminate. }
  assert (C : closed (base s0) = false).
  { unfold step2 in E. simpl in E. rewrite K in E. simpl in E. destruct (closed (base s0)); auto. discriminate. }
  destruct (meta_step _ _ _ E K) as (K1 & P1 & X1 & G1).
  destruct (meta_run _ _ _ H1 K1) as (K2 & P2 & X2 & G2).
  split; auto. split; auto. split; auto. split; [congruence|]. split; [congruence|].
  destruct G1 as [G1|[G1 _]]; lia.
Qed.

Lemma reconnect_step : forall s clk, keyed s = true -> rx (base s) = RReconnect ->
  exists s', step2 s (L1 (LStep ARx clk)) = Some s' /\ gen s' = S (gen s) /\
    rx (base s') = RRead /\ closed (base s') = false /\ wire_in (base s') = [] /\
    keyed s' = true /\ plain_out s' = plain_out s /\ keyex s' = keyex s /\
    salt (base s') = salt (base s) /\ table (base s') = table (base s) /\ callers (base s') = callers (base s).
Proof.
  intros s clk K R. exists (flush (reconnect2 s)). split.
  - apply step2_of_i. simpl. rewrite K. simpl. unfold step_rx2. rewrite R. reflexivity.
  - destruct (meta_flush (reconnect2 s)) as (F1 & F2 & F3 & F4). rewrite F1, F2, F3, F4, base_flush. simpl. auto 12.
Qed.

(* ---- step2 extends step ------------------------------------------------------------------------ *)

(* every transition of Client/Model.v that Live.v does not replace is taken over unchanged ... *)
Lemma conservative : forall s l b', keyed s = true -> lifted_ok s l -> step (base s) l = Some b' ->
  step2 s (L1 l) = Some (flush (wb b' s)).
Proof.
  intros s l b' K OK H. apply step2_of_i.
  assert (L : lift s l = Some (wb b' s)) by (unfold lift; rewrite H; reflexivity).
  simpl. rewrite K. simpl.
  destruct l as [t h|[t|] clk|f|]; simpl in OK; auto.
  - unfold step_rx2. destruct (rx (base s)) eqn:R; try (destruct OK; fail); auto.
    destruct (wire_in (base s)) as [|f r] eqn:W; auto. rewrite OK. auto.
  - rewrite OK. auto.
  - rewrite OK. auto.
Qed.

(* ... and the repaired dispatch agrees with the old one wherever the old one neither panics (RDead)
   nor reaches the notify pc that Model.v leaves without transitions *)
Lemma dispatch_agrees : forall f ks s,
  rx (dispatch f ks (base s)) <> RDead -> (forall k k2, rx (dispatch f ks (base s)) <> RNotify k k2) ->
  base (dispatch2 f ks s) = dispatch f ks (base s).
Proof.
  intros [[sid seq] b] ks s ND NN. unfold dispatch, dispatch2 in *.
  destruct (negb (decodes (hinted_for b (base s)) b)); [destruct ND; reflexivity|].
  destruct (strip b); try (destruct ND; reflexivity); try reflexivity.
  - destruct (lookup req (table (base s))); [reflexivity|destruct ND; reflexivity].
  - destruct (lookup req (table (base s))); [reflexivity|destruct ND; reflexivity].
  - rewrite base_upd, base_handle2. reflexivity.
  - exfalso. eapply NN. reflexivity.
Qed.
