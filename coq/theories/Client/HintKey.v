(* Client/HintKey.v - the hint key of the transition system IS the hint key of the bytes.

   Client/Model.v decides under which request id the receive loop looks up a message's decoder hints with
   [hint_key] on ABSTRACT bodies (BResult req .., BGzip (BResult req ..), ...).  TL/ReqId.v models the code that
   does it, mtproto.go reqMsgIDOf, on the BYTES of the message.  [wire inflate b bs] says that the byte string bs
   is a wire form of the abstract body b - an rpc_result / rpc_error carries its req_msg_id behind the
   constructor id, whatever follows; gzip_packed carries a stream that inflates to a wire form of the packed
   body; every other body starts with a constructor id that is neither rpc_result nor gzip_packed -, and
   [hint_key_agrees]: on every wire form the byte-level function returns the 64-bit pattern of the id that
   [hint_key] returns, and 0 (no request's id) where [hint_key] has none.  So the routing theorems of the
   transition system (C09_routing and its variants) speak about the function the code runs. *)
From Coq Require Import ZArith NArith List Bool Lia.
From MTV Require Import Base.Bytes TL.Types TL.Typing TL.ReqId Client.Model.
Import ListNotations.

(* the 64-bit pattern of a (signed) msg id *)
Definition pattern64 (z : Z) : N := Z.to_N (z mod 2 ^ 64).

Lemma pattern64_lt z : (pattern64 z < two64)%N.
Proof.
  unfold pattern64, two64. pose proof (Z.mod_pos_bound z (2 ^ 64) ltac:(lia)) as B.
  apply N2Z.inj_lt. rewrite Z2N.id by lia. change (Z.of_N (2 ^ 64)) with (2 ^ 64)%Z. lia.
Qed.

(* bodies that are neither a result nor packed *)
Definition plain_other (b : body) : bool :=
  match b with
  | BResult _ _ _ _ | BError _ _ _ _ | BGzip _ => false
  | _ => true
  end.

Section Wire.
Variable inflate : bytes -> option bytes.

Inductive wire : body -> bytes -> Prop :=
| W_result : forall req gz k p rest,
    wire (BResult req gz k p) (le32 crc_rpc_result ++ le64 (pattern64 req) ++ rest)
| W_error : forall req gz mg p rest,
    wire (BError req gz mg p) (le32 crc_rpc_result ++ le64 (pattern64 req) ++ rest)
| W_gzip : forall b inner payload packed tail,
    wire b inner -> inflate payload = Some inner -> put_bytes payload = Some packed ->
    wire (BGzip b) (le32 crc_gzip ++ packed ++ tail)
| W_other : forall b c rest, plain_other b = true ->
    (c < two32)%N -> c <> crc_rpc_result -> c <> crc_gzip ->
    wire b (le32 c ++ rest).

Definition key_pattern (b : body) : N :=
  match hint_key b with Some r => pattern64 r | None => 0%N end.

(* a wire form starts with a constructor id; for anything but a result it is not rpc_result's *)
Lemma wire_head : forall b bs, wire b bs ->
  exists c rest, bs = le32 c ++ rest /\ (c < two32)%N /\
    (match b with BResult _ _ _ _ | BError _ _ _ _ => c = crc_rpc_result | _ => c <> crc_rpc_result end).
Proof.
  intros b bs W. destruct W as [req gz k p rest|req gz mg p rest|b inner payload packed tail W1 I P|b c rest PO C1 C2 C3].
  - exists crc_rpc_result, (le64 (pattern64 req) ++ rest). split; [reflexivity|]. split; [reflexivity|reflexivity].
  - exists crc_rpc_result, (le64 (pattern64 req) ++ rest). split; [reflexivity|]. split; [reflexivity|reflexivity].
  - exists crc_gzip, (packed ++ tail). split; [reflexivity|]. split; [reflexivity|discriminate].
  - exists c, rest. split; [reflexivity|]. split; [exact C1|].
    destruct b; try discriminate PO; exact C2.
Qed.

Theorem hint_key_agrees : forall b bs, wire b bs -> req_msg_id_of inflate bs = key_pattern b.
Proof.
  intros b bs W. destruct W as [req gz k p rest|req gz mg p rest|b inner payload packed tail W1 I P|b c rest PO C1 C2 C3].
  - unfold key_pattern. cbn [hint_key]. apply reqid_of_result. apply pattern64_lt.
  - unfold key_pattern. cbn [hint_key]. apply reqid_of_result. apply pattern64_lt.
  - (* one level is opened: what is inside decides *)
    destruct W1 as [req gz k p rest|req gz mg p rest|b' inner' payload' packed' tail' W2 I' P'|b' c rest PO C1 C2 C3].
    + unfold key_pattern. cbn [hint_key].
      apply (reqid_of_packed_result inflate (pattern64 req) rest payload packed tail (pattern64_lt req) I P).
    + unfold key_pattern. cbn [hint_key].
      apply (reqid_of_packed_result inflate (pattern64 req) rest payload packed tail (pattern64_lt req) I P).
    + unfold key_pattern. cbn [hint_key].
      apply (reqid_of_packed_other inflate crc_gzip (packed' ++ tail') payload packed tail); [reflexivity|discriminate|exact I|exact P].
    + assert (HK : hint_key (BGzip b') = None) by (destruct b'; try discriminate PO; reflexivity).
      unfold key_pattern. rewrite HK.
      apply (reqid_of_packed_other inflate c rest payload packed tail C1 C2 I P).
  - assert (HK : hint_key b = None) by (destruct b; try discriminate PO; reflexivity).
    unfold key_pattern. rewrite HK. apply reqid_of_other; assumption.
Qed.

End Wire.

(* non-vacuity: a vector result for request 40, plain and packed, and a pong *)
Example wire_examples :
  let inflate := fun p : bytes => match p with [1%N] => Some (le32 crc_rpc_result ++ le64 40 ++ [21; 196; 181; 28; 0; 0; 0; 0])%N | _ => None end in
  wire inflate (BResult 40 false KVecBare 7) (le32 crc_rpc_result ++ le64 (pattern64 40) ++ [21; 196; 181; 28; 0; 0; 0; 0])%N /\
  wire inflate (BGzip (BResult 40 false KVecBare 7)) (le32 crc_gzip ++ [1; 1; 0; 0] ++ [])%N /\
  req_msg_id_of inflate (le32 crc_gzip ++ [1; 1; 0; 0] ++ [])%N = 40%N /\
  hint_key (BGzip (BResult 40 false KVecBare 7)) = Some 40%Z.
Proof.
  cbv zeta. split; [apply W_result|]. split.
  - eapply (W_gzip _ (BResult 40 false KVecBare 7) _ [1%N] [1; 1; 0; 0]%N []); [apply (W_result _ 40 false KVecBare 7)|reflexivity|reflexivity].
  - split; [vm_compute; reflexivity|reflexivity].
Qed.
