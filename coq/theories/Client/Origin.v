(* Client/Origin.v - every result the receive loop dispatches is the body of a message the server
   sent (a frame injected by an LSrv label, or an item nested in such a frame through
   msg_container / gzip_packed).  [srv_log] is a ghost field: no transition reads it. *)
From Coq Require Import ZArith List Bool Lia Arith.
From MTV Require Import Client.Model Client.StepLemmas Client.SeqNo.
Import ListNotations.
Open Scope Z_scope.
Local Opaque wrap32 fresh_id.

Ltac break_match H :=
  match type of H with context [match ?x with _ => _ end] => destruct x eqn:? end.
Ltac step_cases H :=
  unfold step, step_caller, step_rx, deliver in H;
  repeat (break_match H; try discriminate);
  inversion H; subst; clear H.

(* the result a message body carries, if it is an rpc_result (possibly inside gzip_packed) *)
Definition result_of (b : body) : option (Z * value) :=
  match strip b with
  | BResult r _ k p => Some (r, VRes k p)
  | BError r _ m p => Some (r, VErr m p)
  | _ => None
  end.

Inductive inside : frame -> frame -> Prop :=
| inside_refl : forall f, inside f f
| inside_item : forall f sid seq b items g,
    inside (sid, seq, b) g -> strip b = BContainer items -> In f items -> inside f g.

Definition from_server (s : state) (f : frame) : Prop :=
  exists g, In g (srv_log s) /\ inside f g.

Fixpoint kitems (ks : list kont) : list frame :=
  match ks with [] => [] | KItem f :: r => f :: kitems r | KTail _ _ :: r => kitems r end.

Definition rx_frames (r : rpc) : list frame :=
  match r with
  | RRead | RReconnect | RDead => []
  | RDispatch f ks => f :: kitems ks
  | RDeliver _ _ _ ks | RAckLock _ ks | RAckReg _ _ ks | RAckWritten _ _ ks | RAckRecv _ ks
  | RNotify _ ks => kitems ks
  end.

Record InvF (s : state) : Prop := {
  f_in : forall f, In f (wire_in s) -> from_server s f;
  f_rx : forall f, In f (rx_frames (rx s)) -> from_server s f;
  f_disp : forall req v, In (EDisp req v) (elog s) ->
           exists sid seq b, from_server s (sid, seq, b) /\ result_of b = Some (req, v)
}.

Lemma InvF_init : InvF init.
Proof. constructor; simpl; intros; tauto. Qed.

Lemma rx_frames_settle : forall ks, rx_frames (settle ks) = kitems ks.
Proof.
  induction ks as [|k ks IH]; simpl; auto. destruct k; simpl; auto. destruct (Z.odd seq); simpl; auto.
Qed.

Lemma kitems_app : forall items ks, kitems (map KItem items ++ ks) = items ++ kitems ks.
Proof. induction items; simpl; auto. intros. rewrite IHitems. auto. Qed.

Lemma InvF_mono : forall s s',
  srv_log s' = srv_log s ->
  (forall f, In f (wire_in s') -> In f (wire_in s)) ->
  (forall f, In f (rx_frames (rx s')) -> In f (rx_frames (rx s)) \/ In f (wire_in s)) ->
  (forall req v, In (EDisp req v) (elog s') -> In (EDisp req v) (elog s)) ->
  InvF s -> InvF s'.
Proof.
  intros s s' Hl Hw Hr He [A B D].
  assert (FS : forall f, from_server s f -> from_server s' f).
  { intros f (g & G1 & G2). exists g. rewrite Hl. auto. }
  constructor.
  - intros f H. apply FS, A, Hw, H.
  - intros f H. apply FS. destruct (Hr _ H); auto.
  - intros req v H. destruct (D _ _ (He _ _ H)) as (sid & seq & b & F1 & F2). exists sid, seq, b. auto.
Qed.

Lemma from_server_eq : forall s s' f, srv_log s' = srv_log s -> from_server s f -> from_server s' f.
Proof. intros s s' f E (g & G1 & G2). exists g. rewrite E. auto. Qed.

Lemma dispatch_logs : forall f ks s,
  srv_log (dispatch f ks s) = srv_log s /\ wire_in (dispatch f ks s) = wire_in s.
Proof.
  intros [[sid seq] b] ks s. unfold dispatch. destruct (negb (decodes (hinted_for b s) b)); [simpl; auto|].
  destruct (strip b); try (destruct (lookup _ _)); simpl; auto.
Qed.

Lemma dispatch_frames : forall sid seq b ks s x,
  In x (rx_frames (rx (dispatch (sid, seq, b) ks s))) ->
  In x (kitems ks) \/ exists items, strip b = BContainer items /\ In x items.
Proof.
  intros sid seq b ks s x. unfold dispatch.
  destruct (negb (decodes (hinted_for b s) b)); [simpl; tauto|].
  destruct (strip b) eqn:SB; try (destruct (lookup _ _)); cbn [rx set_rx];
    rewrite ?rx_frames_settle; cbn [rx_frames kitems In]; try tauto.
  rewrite kitems_app. intros H. apply in_app_or in H. destruct H; eauto.
Qed.

Lemma dispatch_disp : forall sid seq b ks s req v,
  In (EDisp req v) (elog (dispatch (sid, seq, b) ks s)) ->
  In (EDisp req v) (elog s) \/ result_of b = Some (req, v).
Proof.
  intros sid seq b ks s req v. unfold dispatch, result_of.
  destruct (negb (decodes (hinted_for b s) b)); [simpl; intros [H|H]; [discriminate|auto]|].
  destruct (strip b) eqn:SB; try (destruct (lookup _ _)); simpl; intros H;
    repeat (destruct H as [H|H]; try discriminate); auto; inversion H; subst; auto.
Qed.

Lemma dispatch_origin : forall f ks s, InvF s -> rx s = RDispatch f ks -> InvF (dispatch f ks s).
Proof.
  intros [[sid seq] b] ks s [A B D] R.
  assert (FS : from_server s (sid, seq, b)) by (apply B; rewrite R; left; auto).
  assert (KS : forall f, In f (kitems ks) -> from_server s f) by (intros f H; apply B; rewrite R; right; auto).
  destruct (dispatch_logs (sid, seq, b) ks s) as [SL WI].
  constructor.
  - intros f H. rewrite WI in H. eapply from_server_eq; eauto.
  - intros f H. eapply from_server_eq; eauto. apply dispatch_frames in H.
    destruct H as [H|(items & I1 & I2)]; auto.
    destruct FS as (g & G1 & G2). exists g. split; auto. eapply inside_item; eauto.
  - intros req v H. apply dispatch_disp in H. destruct H as [H|H].
    + destruct (D _ _ H) as (a & c & e & F1 & F2). exists a, c, e. split; auto. eapply from_server_eq; eauto.
    + exists sid, seq, b. split; auto. eapply from_server_eq; eauto.
Qed.

Lemma InvF_step : forall s l s', InvF s -> step s l = Some s' -> InvF s'.
Proof.
  intros s l s' IF H. pose proof IF as [A B D].
  destruct l as [t h|[t|] clk|f|].
  - step_cases H. apply (InvF_mono s); auto.
  - step_cases H; apply (InvF_mono s); auto.
    simpl. intros req v [X|X]; [discriminate|auto].
  - step_cases H.
    + (* reconnect *) apply (InvF_mono s); simpl; auto. tauto.
    + (* read *) apply (InvF_mono s); simpl; auto.
      * intros f0 H. rewrite Heql. right. auto.
      * intros f0 [H|H]; [subst; right; rewrite Heql; left; auto|destruct H].
    + (* dispatch *) apply dispatch_origin; auto.
    + (* deliver *) apply (InvF_mono s); simpl; auto. rewrite rx_frames_settle, Heqr. auto.
    + apply (InvF_mono s); simpl; auto. rewrite rx_frames_settle, Heqr. auto.
    + (* rx acquire *) apply (InvF_mono s); simpl; auto. rewrite Heqr. auto.
    + (* rx write *) apply (InvF_mono s); simpl; auto; [rewrite Heqr; auto|].
      intros req v [X|X]; [discriminate|auto].
    + (* rx release *) apply (InvF_mono s); simpl; auto. rewrite Heqr. auto.
    + (* ack received *) apply (InvF_mono s); simpl; auto. rewrite rx_frames_settle, Heqr. auto.
  - (* LSrv *) step_cases H. constructor; simpl.
    + intros g H. apply in_app_or in H. destruct H as [H|[H|[]]].
      * destruct (A _ H) as (g0 & G1 & G2). exists g0. simpl. auto.
      * subst. exists g. split; [left; auto|constructor].
    + intros g H. destruct (B _ H) as (g0 & G1 & G2). exists g0. simpl. auto.
    + intros req v H. destruct (D _ _ H) as (a & c & e & (g0 & G1 & G2) & F2).
      exists a, c, e. split; auto. exists g0. simpl. auto.
  - step_cases H. apply (InvF_mono s); auto.
Qed.

Lemma InvF_run : forall ls s, run init ls = Some s -> InvF s.
Proof. apply run_invariant; [apply InvF_init|intros; eapply InvF_step; eauto]. Qed.

(* the ghost log is exactly the list of frames the LSrv labels injected *)
Fixpoint srv_frames (ls : list label) : list frame :=
  match ls with [] => [] | LSrv f :: r => f :: srv_frames r | _ :: r => srv_frames r end.

Lemma srv_frames_app : forall a b, srv_frames (a ++ b) = srv_frames a ++ srv_frames b.
Proof. induction a as [|x a IH]; simpl; auto. intros. destruct x; simpl; rewrite ?IH; auto. Qed.

Lemma srv_log_step : forall s l s', step s l = Some s' ->
  srv_log s' = match l with LSrv f => f :: srv_log s | _ => srv_log s end.
Proof.
  intros s l s' H. destruct l as [t h|[t|] clk|f|]; step_cases H; simpl; auto.
  destruct (dispatch_logs f ks s); auto.
Qed.

Lemma srv_log_run : forall ls s, run init ls = Some s -> srv_log s = rev (srv_frames ls).
Proof.
  induction ls as [|l ls IH] using rev_ind; intros s H.
  - inversion H. reflexivity.
  - rewrite run_app in H. destruct (run init ls) as [x|] eqn:E; [|discriminate].
    rewrite (srv_log_step _ _ _ H), srv_frames_app, rev_app_distr, (IH x eq_refl).
    destruct l; simpl; auto.
Qed.

Lemma origin : forall ls s req v, run init ls = Some s -> In (EDisp req v) (elog s) ->
  exists g sid seq b, In (LSrv g) ls /\ inside (sid, seq, b) g /\ result_of b = Some (req, v).
Proof.
  intros ls s req v H E. destruct (f_disp _ (InvF_run _ _ H) _ _ E) as (sid & seq & b & (g & G1 & G2) & F).
  exists g, sid, seq, b. split; auto.
  rewrite (srv_log_run _ _ H) in G1. apply in_rev in G1.
  clear - G1. induction ls as [|l ls IH]; simpl in *; [tauto|].
  destruct l; simpl in *; try (right; auto; fail). destruct G1 as [G|G]; [subst; auto|auto].
Qed.
