(* Client/LiveSeq.v - the C10 wire-order invariants (msg_id order: InvA, seq_no: InvB) hold for the
   extended system of Client/Live.v as well.  The outgoing stream [wire] is ONE list over all
   connections of the session: a reconnect (same session id, same key) does not restart it, and
   [reconnect2] leaves seqNo and lastMsgID alone - so seq_no and msg_id keep growing across the
   reconnect. *)
From Coq Require Import ZArith List Bool Lia Arith Sorted.
From MTV Require Import Client.Model Client.StepLemmas Client.SeqNo Client.Routing Client.Live Client.LiveInv.
Import ListNotations.
Open Scope Z_scope.
Ltac Zify.zify_post_hook ::= Z.div_mod_to_equations.
Local Opaque wrap32 fresh_id.
Arguments Z.lor : simpl never.

Lemma step2_wire_seq : forall s l s', step2 s l = Some s' ->
  (wire (base s') = wire (base s) /\ seqno (base s') = seqno (base s)) \/
  (exists w, wire (base s') = w :: wire (base s) /\ seqno (base s') = wrap32 (seqno (base s) + 2) /\
             w_seq w = if is_content w then Z.lor (seqno (base s)) 1 else seqno (base s)).
Proof.
  intros s l s' H. apply step2_inv in H. destruct H; try (left; split; reflexivity).
  - eapply step_wire; eauto.
  - left. rewrite base_warn2. split; reflexivity.
  - pose proof (dispatch2_ok f ks s) as D. left. split; apply D.
  - apply notify_b_inv in H1. destruct H1 as [[_ E]|(t & k & j & L & P & K & E)]; subst b'; left; split; reflexivity.
Qed.

Lemma InvB_step2 : forall s l s', InvB (base s) -> step2 s l = Some s' -> InvB (base s').
Proof.
  intros s l s' [Hs Hw] H. apply step2_wire_seq in H.
  destruct H as [[E1 E2]|[w [E1 [E2 E3]]]]; unfold InvB; rewrite E1, E2; [auto|].
  assert (Ev : seqno (base s) mod 2 = 0) by (rewrite Hs; apply wrap32_even; lia).
  split.
  - rewrite Hs, wrap32_add. f_equal. simpl length. lia.
  - cbn [wseq_ok]. split; auto. rewrite E3. destruct (is_content w); [rewrite lor_1_even by auto|]; rewrite Hs; ring.
Qed.

Lemma InvAB_run2 : forall c ls s, run2 (init2 c) ls = Some s -> InvA (base s) /\ InvB (base s).
Proof.
  intros c. apply (run2_invariant (fun s => InvA (base s) /\ InvB (base s))).
  - split; [apply InvA_init|apply InvB_init].
  - intros s l s' [A B] H. split; [eapply InvA_step2; eauto|eapply InvB_step2; eauto].
Qed.

(* the reconnect transition itself: new generation, nothing of the numbering is touched *)
Lemma reconnect_keeps_numbering : forall s clk s', keyed s = true -> rx (base s) = RReconnect ->
  step2 s (L1 (LStep ARx clk)) = Some s' ->
  gen s' = S (gen s) /\ seqno (base s') = seqno (base s) /\ last_id (base s') = last_id (base s) /\
  wire (base s') = wire (base s) /\ keyex s' = keyex s /\ plain_out s' = plain_out s.
Proof.
  intros s clk s' K R H. simpl in H. rewrite K in H. simpl in H. unfold step_rx2 in H. rewrite R in H.
  inversion H. subst. simpl. auto 8.
Qed.

(* ---- acknowledgements ---------------------------------------------------------------------------- *)

(* as long as no frame ended in an error ([failed] = 0: such a frame is abandoned, together with the
   acknowledgements of the containers around it), the acknowledgements still missing are exactly the
   ones on the receive loop's stack - also at the notify and reconnect pcs *)
Definition owed2 (r : rpc) : option (list Z) :=
  match r with
  | RNotify _ ks => Some (tails ks)
  | RReconnect => Some []
  | _ => owed r
  end.

Definition InvD2b (b : state) : Prop :=
  match owed2 (rx b) with Some o => incl (unacked (elog b)) o | None => True end.

Definition InvD2 (s : state2) : Prop := failed s = O -> InvD2b (base s).

Lemma owed2_settle : forall ks, owed2 (settle ks) = Some (tails ks).
Proof.
  intros ks. rewrite <- owed_settle.
  destruct (settle_cases ks) as [E|[(f & r & E)|(sid & r & E)]]; rewrite E; reflexivity.
Qed.

Lemma InvD2_step1 : forall b l b', old_ok b l -> InvD2b b -> step b l = Some b' -> InvD2b b'.
Proof.
  intros b l b' OK I H. unfold InvD2b in *.
  destruct l as [t h|[t|] clk|f|]; simpl in OK; step_cases H; try (destruct OK; fail); norm; auto.
  - (* deliver *) simpl in I. rewrite owed2_settle. auto.
  - simpl in I. rewrite owed2_settle. auto.
  - (* rx write *) simpl in *. unfold unacked in *. simpl.
    intros x Hx. pose proof (unacked_not_acked _ _ _ Hx) as N.
    apply (unacked_mono _ [] [sid]) in Hx; [|intros y []]. apply I in Hx.
    destruct Hx as [Hx|Hx]; [subst; exfalso; apply N; left; auto|auto].
  - (* ack received *) simpl in I. rewrite owed2_settle. auto.
Qed.

Lemma failed_warn2 : forall x, failed (warn2 x) = failed x.
Proof. intros x. unfold warn2. destruct (wch x) as [|cap n]; [|destruct (Nat.ltb n cap)]; auto. Qed.

Lemma failed_handle2 : forall x, failed (handle2 x) = failed x.
Proof. intros x. unfold handle2. destruct (handler x); auto. apply failed_warn2. Qed.

Lemma failed_fail2 : forall x, failed (fail2 x) = S (failed x).
Proof. intros x. unfold fail2. rewrite failed_warn2. reflexivity. Qed.

Lemma dispatch2_owed : forall f ks s, failed (dispatch2 f ks s) = O ->
  incl (unacked (elog (base s))) (tails ks) -> InvD2b (base (dispatch2 f ks s)).
Proof.
  intros [[sid seq] b] ks s F I. unfold dispatch2, InvD2b in *.
  assert (U : incl (unacked (ERecv sid seq :: elog (base s))) (tails (KTail sid seq :: ks))).
  { unfold unacked. simpl. destruct (Z.odd seq); simpl; auto.
    intros x [H|H]; [left; auto|right; auto]. }
  destruct (negb (decodes (hinted_for b (base s)) b)); [rewrite failed_fail2 in F; discriminate|].
  destruct (strip b);
    repeat match goal with
           | _ : context [lookup ?a ?t] |- _ => destruct (lookup a t)
           end;
    try (rewrite failed_fail2 in F; discriminate);
    cbn [base upd_base wb adopt2 rx set_rx owed2 owed elog log set_salt]; rewrite ?base_handle2;
    cbn [base upd_base wb adopt2 rx set_rx owed2 owed elog log set_salt];
    rewrite ?owed2_settle, ?tails_items; auto.
Qed.

Lemma failed_mono : forall s l s', step2 s l = Some s' -> failed s' = O -> failed s = O.
Proof.
  intros s l s' H F. apply step2_inv in H. destruct H; auto.
  - rewrite failed_warn2 in F. discriminate.
  - destruct f as [[sid seq] b]. unfold dispatch2 in F.
    destruct (negb (decodes (hinted_for b (base s)) b)); [rewrite failed_fail2 in F; discriminate|].
    destruct (strip b);
      repeat match goal with
             | _ : context [lookup ?a ?t] |- _ => destruct (lookup a t)
             end;
      try (rewrite failed_fail2 in F; discriminate); cbn [upd_base wb failed adopt2] in F;
      rewrite ?failed_handle2 in F; auto.
Qed.

Lemma InvD2_step : forall s l s', InvD2 s -> step2 s l = Some s' -> InvD2 s'.
Proof.
  intros s l s' I H F. pose proof (failed_mono _ _ _ H F) as F0. specialize (I F0).
  apply step2_inv in H. destruct H.
  - eapply InvD2_step1; eauto. apply lifted_old_ok; auto.
  - exact I.
  - exact I.
  - rewrite failed_warn2 in F. discriminate.
  - apply dispatch2_owed; auto. unfold InvD2b in I. rewrite H0 in I. exact I.
  - unfold InvD2b in *. cbn [base upd_base wb rx set_rx elog]. rewrite H0 in I. rewrite owed2_settle. exact I.
  - apply notify_b_inv in H1. destruct H1 as [[_ E]|(t & k & j & L & P & K & E)]; subst b';
      unfold InvD2b in *; rewrite H0 in I; cbn [base wb]; norm; rewrite owed2_settle; exact I.
  - unfold InvD2b in *. rewrite H0 in I. exact I.
Qed.

Lemma InvD2_run : forall c ls s, run2 (init2 c) ls = Some s -> InvD2 s.
Proof.
  intros c. apply run2_invariant.
  - intros _. unfold InvD2b. simpl. intros x Hx. exact Hx.
  - intros s l s' D H. eapply InvD2_step; eauto.
Qed.
