(* Client/LiveSeq.v - the C10 wire-order invariants (msg_id order: InvA, seq_no: InvB) hold for the
   extended system of Client/Live.v as well.  The outgoing stream [wire] is ONE list over all
   connections of the session: a reconnect (same session id, same key) does not restart it, and
   [reconnect2] leaves seqNo and lastMsgID alone - so seq_no and msg_id keep growing across the
   reconnect. *)
From Coq Require Import ZArith List Bool Lia Arith Sorted.
From MTV Require Import Client.Model Client.StepLemmas Client.SeqNo Client.Routing Client.Live Client.LiveInv.
Import ListNotations.
Open Scope Z_scope.
Ltac Zify.zify_post_hook ::= Z.div_mod_to_equations.
Local Opaque wrap32 fresh_id.
Arguments Z.lor : simpl never.

Lemma step2i_wire_seq : forall s l s', step2i s l = Some s' ->
  (wire (base s') = wire (base s) /\ seqno (base s') = seqno (base s)) \/
  (exists w, wire (base s') = w :: wire (base s) /\ seqno (base s') = wrap32 (seqno (base s) + 2) /\
             w_seq w = if is_content w then Z.lor (seqno (base s)) 1 else seqno (base s)).
Proof.
  intros s l s' H. apply step2_inv in H. destruct H; try (left; split; reflexivity).
  - eapply step_wire; eauto.
  - left. rewrite base_warn2. split; reflexivity.
  - pose proof (dispatch2_ok f ks s) as D. left. split; apply D.
  - apply notify_b_inv in H1. destruct H1 as [[_ E]|(t & k & j & L & P & K & E)]; subst b'; left; split; reflexivity.
Qed.

Lemma step2_wire_seq : forall s l s', step2 s l = Some s' ->
  (wire (base s') = wire (base s) /\ seqno (base s') = seqno (base s)) \/
  (exists w, wire (base s') = w :: wire (base s) /\ seqno (base s') = wrap32 (seqno (base s) + 2) /\
             w_seq w = if is_content w then Z.lor (seqno (base s)) 1 else seqno (base s)).
Proof.
  intros s l s' H. apply step2_flush in H. destruct H as (s1 & H & E). subst. rewrite base_flush.
  eapply step2i_wire_seq; eauto.
Qed.

Lemma InvB_step2 : forall s l s', InvB (base s) -> step2 s l = Some s' -> InvB (base s').
Proof.
  intros s l s' [Hs Hw] H. apply step2_wire_seq in H.
  destruct H as [[E1 E2]|[w [E1 [E2 E3]]]]; unfold InvB; rewrite E1, E2; [auto|].
  assert (Ev : seqno (base s) mod 2 = 0) by (rewrite Hs; apply wrap32_even; lia).
  split.
  - rewrite Hs, wrap32_add. f_equal. simpl length. lia.
  - cbn [wseq_ok]. split; auto. rewrite E3. destruct (is_content w); [rewrite lor_1_even by auto|]; rewrite Hs; ring.
Qed.

Lemma InvAB_run2 : forall c ls s, run2 (init2 c) ls = Some s -> InvA (base s) /\ InvB (base s).
Proof.
  intros c. apply (run2_invariant (fun s => InvA (base s) /\ InvB (base s))).
  - split; [apply InvA_init|apply InvB_init].
  - intros s l s' [A B] H. split; [eapply InvA_step2; eauto|eapply InvB_step2; eauto].
Qed.

(* the reconnect transition itself: new generation, nothing of the numbering is touched *)
Lemma reconnect_keeps_numbering : forall s clk s', keyed s = true -> rx (base s) = RReconnect ->
  step2 s (L1 (LStep ARx clk)) = Some s' ->
  gen s' = S (gen s) /\ seqno (base s') = seqno (base s) /\ last_id (base s') = last_id (base s) /\
  wire (base s') = wire (base s) /\ keyex s' = keyex s /\ plain_out s' = plain_out s.
Proof.
  intros s clk s' K R H. unfold step2 in H. simpl in H. rewrite K in H. simpl in H. unfold step_rx2 in H. rewrite R in H.
  inversion H. subst. rewrite base_flush.
  assert (F : gen (flush (reconnect2 s)) = gen (reconnect2 s) /\ keyex (flush (reconnect2 s)) = keyex (reconnect2 s) /\
              plain_out (flush (reconnect2 s)) = plain_out (reconnect2 s)).
  { unfold flush. destruct (perr (reconnect2 s)); auto. destruct (rx (base (reconnect2 s))); auto.
    unfold warn2. cbn [wch set_perr]. destruct (wch (reconnect2 s)) as [|cap n]; [|destruct (Nat.ltb n cap)]; auto. }
  destruct F as (F1 & F2 & F3). rewrite F1, F2, F3. simpl. auto 8.
Qed.

(* ---- acknowledgements ---------------------------------------------------------------------------- *)

(* the acknowledgements still missing are exactly the ones on the receive loop's stack - also at the notify and
   reconnect pcs, and whatever happened to the messages themselves: a message whose body could not be handled
   keeps its place on the stack (its KTail) like any other, and does not touch the rest of the stack *)
Definition owed2 (r : rpc) : option (list Z) :=
  match r with
  | RNotify _ ks => Some (tails ks)
  | RReconnect => Some []
  | _ => owed r
  end.

Definition InvD2b (b : state) : Prop :=
  match owed2 (rx b) with Some o => incl (unacked (elog b)) o | None => True end.

Lemma owed2_settle : forall ks, owed2 (settle ks) = Some (tails ks).
Proof.
  intros ks. rewrite <- owed_settle.
  destruct (settle_cases ks) as [E|[(f & r & E)|(sid & r & E)]]; rewrite E; reflexivity.
Qed.

Lemma InvD2_step1 : forall b l b', old_ok b l -> InvD2b b -> step b l = Some b' -> InvD2b b'.
Proof.
  intros b l b' OK I H. unfold InvD2b in *.
  destruct l as [t h|[t|] clk|f|]; simpl in OK; step_cases H; try (destruct OK; fail); norm; auto.
  - (* deliver *) simpl in I. rewrite owed2_settle. auto.
  - simpl in I. rewrite owed2_settle. auto.
  - (* rx write *) simpl in *. unfold unacked in *. simpl.
    intros x Hx. pose proof (unacked_not_acked _ _ _ Hx) as N.
    apply (unacked_mono _ [] [sid]) in Hx; [|intros y []]. apply I in Hx.
    destruct Hx as [Hx|Hx]; [subst; exfalso; apply N; left; auto|auto].
  - (* ack received *) simpl in I. rewrite owed2_settle. auto.
Qed.

Lemma dispatch2_owed : forall f ks s,
  incl (unacked (elog (base s))) (tails ks) -> InvD2b (base (dispatch2 f ks s)).
Proof.
  intros [[sid seq] b] ks s I. unfold dispatch2, InvD2b in *.
  assert (U : incl (unacked (ERecv sid seq :: elog (base s))) (tails (KTail sid seq :: ks))).
  { unfold unacked. simpl. destruct (Z.odd seq); simpl; auto.
    intros x [H|H]; [left; auto|right; auto]. }
  assert (FAIL : match owed2 (rx (base (fail2 (KTail sid seq :: ks) (upd_base (log (ERecv sid seq)) s)))) with
                 | Some o => incl (unacked (elog (base (fail2 (KTail sid seq :: ks) (upd_base (log (ERecv sid seq)) s))))) o
                 | None => True end).
  { rewrite base_fail2. cbn [rx set_rx elog upd_base base wb log]. rewrite owed2_settle. exact U. }
  destruct (negb (decodes (hinted_for b (base s)) b)); [exact FAIL|].
  destruct (strip b);
    repeat match goal with
           | |- context [lookup ?a ?t] => destruct (lookup a t)
           end;
    try exact FAIL;
    cbn [base upd_base wb adopt2 rx set_rx owed2 owed elog log set_salt]; rewrite ?base_handle2;
    cbn [base upd_base wb adopt2 rx set_rx owed2 owed elog log set_salt];
    rewrite ?owed2_settle, ?tails_items; auto.
Qed.

Lemma InvD2_step2i : forall s l s', InvD2b (base s) -> step2i s l = Some s' -> InvD2b (base s').
Proof.
  intros s l s' I H. apply step2_inv in H. destruct H.
  - eapply InvD2_step1; eauto. apply lifted_old_ok; auto.
  - exact I.
  - exact I.
  - rewrite base_warn2. unfold InvD2b in *. cbn [base upd_base wb bump_failed rx set_in elog]. exact I.
  - apply dispatch2_owed; auto. unfold InvD2b in I. rewrite H0 in I. exact I.
  - unfold InvD2b in *. cbn [base upd_base wb rx set_rx elog]. rewrite H0 in I. rewrite owed2_settle. exact I.
  - apply notify_b_inv in H1. destruct H1 as [[_ E]|(t & k & j & L & P & K & E)]; subst b';
      unfold InvD2b in *; rewrite H0 in I; cbn [base wb]; norm; rewrite owed2_settle; exact I.
  - unfold InvD2b in *. rewrite H0 in I. exact I.
Qed.

Lemma InvD2_run : forall c ls s, run2 (init2 c) ls = Some s -> InvD2b (base s).
Proof.
  intros c. apply (run2_invariant (fun s => InvD2b (base s))).
  - unfold InvD2b. simpl. intros x Hx. exact Hx.
  - intros s l s' D H. apply step2_flush in H. destruct H as (s1 & H & E). subst. rewrite base_flush.
    eapply InvD2_step2i; eauto.
Qed.
