(* Client/Examples.v - non-vacuity: a concrete two-caller history that the model accepts and
   that runs to completion; the hypotheses of the C09 / C10 theorems are met by it. *)
From Coq Require Import ZArith List Bool.
From MTV Require Import Client.Model.
Import ListNotations.
Open Scope Z_scope.

(* caller 0 asks for an object, caller 1 for a Vector<int> (hints declared); the clock does not
   move between the two sends (the second id is bumped); the server answers both in one
   container, in the opposite order, the vector gzip-packed; the receive loop delivers both and
   acknowledges both items (odd seq_no) but not the container (even seq_no). *)
Definition ex_labels : list label := [
  LCall 0 false; LStep (ACaller 0) 10; LStep (ACaller 0) 0; LStep (ACaller 0) 0;
  LCall 1 true; LStep (ACaller 1) 10; LStep (ACaller 1) 0; LStep (ACaller 1) 0;
  LSrv (9, 2, BContainer [(1, 1, BResult 44 true KVecBare 7); (5, 3, BResult 40 false KObj 8)]);
  LStep ARx 0; LStep ARx 0; LStep ARx 0; LStep ARx 0;
  LStep ARx 11; LStep ARx 0; LStep ARx 0; LStep ARx 0;
  LStep ARx 0; LStep ARx 0;
  LStep ARx 20; LStep ARx 0; LStep ARx 0; LStep ARx 0].

Example ex_completes :
  option_map (fun s => (rets s, rx s, table s, hints s, lock s, unacked (elog s),
                        map (fun w => (w_id w, w_seq w, w_kind w)) (wire_out (elog s))))
             (run init ex_labels)
  = Some ([(0%nat, 1%nat, 40, RetVal KObj 8); (1%nat, 1%nat, 44, RetVal KVecBare 7)],
          RRead, [], [], None, [],
          [(80, 6, WAck 5); (48, 4, WAck 1); (44, 3, WReq 1 1 true); (40, 1, WReq 0 1 false)]).
Proof. vm_compute. reflexivity. Qed.

(* the same answers for a call that did NOT declare the vector: the decoder has no hints and the
   receive loop dies (check(err) panics) - the model's RDead; nothing is returned to anybody *)
Definition ex_unhinted : list label := [
  LCall 0 false; LStep (ACaller 0) 10; LStep (ACaller 0) 0; LStep (ACaller 0) 0;
  LSrv (1, 1, BResult 40 false KVecBare 7); LStep ARx 0; LStep ARx 0].

Example ex_unhinted_dead :
  option_map (fun s => (rx s, rets s)) (run init ex_unhinted) = Some (RDead, []).
Proof. vm_compute. reflexivity. Qed.

(* the send lock: while caller 0 holds it, caller 1 cannot take it (the label is refused) *)
Example ex_lock_excludes :
  run init [LCall 0 false; LCall 1 false; LStep (ACaller 0) 1; LStep (ACaller 1) 2] = None.
Proof. vm_compute. reflexivity. Qed.

(* the clock stands still and then steps BACK (readings 10, 10, 3, 0): every sender - two callers, a
   third call, the receive loop's acknowledgement - still gets an id above the previous one *)
Definition ex_clock_behind : list label := [
  LCall 0 false; LCall 1 false;
  LStep (ACaller 0) 10; LStep (ACaller 0) 0; LStep (ACaller 0) 0;
  LStep (ACaller 1) 10; LStep (ACaller 1) 0; LStep (ACaller 1) 0;
  LSrv (1, 1, BResult 40 false KObj 8);
  LStep ARx 0; LStep ARx 0; LStep ARx 0;
  LStep ARx 3; LStep ARx 0; LStep ARx 0; LStep ARx 0;
  LCall 0 false; LStep (ACaller 0) 0; LStep (ACaller 0) 0].

Example ex_clock_behind_ids :
  option_map (fun s => map (fun w => (w_id w, w_seq w)) (wire_out (elog s))) (run init ex_clock_behind)
  = Some [(52, 7); (48, 4); (44, 3); (40, 1)].
Proof. vm_compute. reflexivity. Qed.
