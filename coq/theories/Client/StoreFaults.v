(* Client/StoreFaults.v - a session storage that can fail.

   In Client/Live.v the field [store] is the sequence of SaveSession calls (newest first): C11 shows that it is
   exactly the sequence of adopted salts.  SaveSession's error is only reported (warnError); the storage then
   holds what the last SUCCESSFUL call wrote.  [file_of oks st f0]: what the storage holds after the calls [st]
   (newest first) of which the i-th succeeded iff [nth i oks], starting from content f0.
   [file_holds_salt_if_last_store_succeeded]: in every history, whatever calls failed before, if the newest call
   succeeded the storage holds the salt the client uses - in particular a salt whose first store failed is in the
   storage once the server has announced it again (new_session_created) and that store succeeded
   (harness configuration store=fail1); [file_unchanged_if_all_fail]: with a storage that always fails nothing
   is ever written (store=failall), while the client's own salt still follows the server. *)
From Coq Require Import ZArith List Bool.
From MTV Require Import Client.Model Client.Live Client.LiveInv Client.Salt.
Import ListNotations.
Open Scope Z_scope.

Fixpoint file_of (oks : list bool) (st : list Z) (f0 : Z) : Z :=
  match st, oks with
  | x :: _, true :: _ => x
  | _ :: r, false :: o => file_of o r f0
  | _, _ => f0
  end.

Lemma salt_is_newest_store : forall c ls s, run2 (init2 c) ls = Some s ->
  forall x r, store (base s) = x :: r -> salt (base s) = x.
Proof.
  intros c ls s H x r E. destruct (InvS_run _ _ _ H) as [_ IS].
  rewrite (s_store _ IS) in E. destruct (adopt s) as [|[[y m] cs] a] eqn:A; [discriminate|].
  cbn [map entry_salt fst] in E. injection E as <- _.
  rewrite (s_salt _ IS), A. cbn [salt_at].
  (* the newest adoption was made when at most as many frames were written as are written now *)
  pose proof (s_bound _ IS y m cs) as B. rewrite A in B. specialize (B (or_introl eq_refl)).
  apply PeanoNat.Nat.leb_le in B. rewrite B. reflexivity.
Qed.

Theorem file_holds_salt_if_last_store_succeeded : forall c ls s, run2 (init2 c) ls = Some s ->
  forall oks f0, store (base s) <> [] -> hd false oks = true ->
  file_of oks (store (base s)) f0 = salt (base s).
Proof.
  intros c ls s H oks f0 NE OK. destruct (store (base s)) as [|x r] eqn:E; [congruence|].
  destruct oks as [|[|] o]; try discriminate OK. cbn [file_of].
  symmetry. exact (salt_is_newest_store c ls s H x r E).
Qed.

Theorem file_unchanged_if_all_fail : forall st oks f0, Forall (fun b => b = false) oks ->
  file_of oks st f0 = f0.
Proof.
  induction st as [|x r IH]; intros oks f0 F; [destruct oks; reflexivity|].
  destruct oks as [|b o]; [reflexivity|]. inversion F as [|? ? Hb Ho]; subst. cbn [file_of]. apply IH. exact Ho.
Qed.

(* the configuration store=fail1 of the harness: the store made at bad_server_salt fails, the server announces the same
   salt again in new_session_created, that store succeeds: the storage holds the salt *)
Example fail_once_then_announced_again :
  let ls := [L1 (LCall 0 false); L1 (LStep (ACaller 0) 10); L1 (LStep (ACaller 0) 0); L1 (LStep (ACaller 0) 0);
             L1 (LSrv (3, 0, BBadSalt 40 777)); L1 (LStep ARx 0); L1 (LStep ARx 0); L1 (LStep ARx 0);
             L1 (LSrv (7, 1, BNewSession 777)); L1 (LStep ARx 0); L1 (LStep ARx 0)] in
  option_map (fun s => (store (base s), salt (base s), file_of [true; false] (store (base s)) 5))
             (run2 (init2 {| cf_warn := WNil; cf_handler := false; cf_keyed := true |}) ls)
  = Some ([777; 777], 777, 777).
Proof. vm_compute. reflexivity. Qed.
