(* Client/LiveExamples.v - non-vacuity for C11 / C16: concrete histories of Client/Live.v that the model
   accepts and that exercise salt rotation, every way the pinned tree's receive loop used to die, the
   warning channel, connection close + reconnect, and a fresh key exchange. *)
From Coq Require Import ZArith List Bool.
From MTV Require Import Client.Model Client.Live.
Import ListNotations.
Open Scope Z_scope.

Definition c (t : nat) (clk : Z) := L1 (LStep (ACaller t) clk).
Definition r (clk : Z) := L1 (LStep ARx clk).

Definition show (s : state2) :=
  (rets (base s), rx (base s), table (base s), salt (base s), store (base s), adopt s,
   map (fun w => (w_id w, w_seq w, w_salt w, w_kind w)) (wire_out (elog (base s))), retries (elog (base s)),
   (warned s, dropped s, handled s, failed s, gen s, plain_out s, keyex s)).

(* resumed session, two callers with a request in flight each (ids 40, 44).  The server rejects 40 with
   bad_server_salt(40, 777) and accepts 44 (answered after the rotation).  Only caller 0 is told to retry:
   it re-sends as 48 under salt 777; 44 is on the wire once; both get their own answers; 777 is stored. *)
Definition cfg_resumed := {| cf_warn := WNil; cf_handler := false; cf_keyed := true |}.
Definition ex_rotation : list label2 := [
  L1 (LCall 0 false); c 0 10; c 0 0; c 0 0;
  L1 (LCall 1 false); c 1 10; c 1 0; c 1 0;
  L1 (LSrv (3, 0, BBadSalt 40 777)); r 0; r 0; r 0;
  c 0 12; c 0 0; c 0 0;
  L1 (LSrv (5, 1, BResult 44 false KObj 8)); r 0; r 0; r 0; r 13; r 0; r 0; r 0;
  L1 (LSrv (9, 3, BResult 48 false KObj 7)); r 0; r 0; r 0; r 14; r 0; r 0; r 0].

Example ex_rotation_ok : option_map show (run2 (init2 cfg_resumed) ex_rotation) =
  Some ([(0%nat, 1%nat, 48, RetVal KObj 7); (1%nat, 1%nat, 44, RetVal KObj 8)], RRead, [], 777, [777],
        [(777, 2%nat, CBadSalt 40 true)],
        [(56, 8, 777, WAck 9); (52, 6, 777, WAck 5); (48, 5, 777, WReq 0 1 false);
         (44, 3, 0, WReq 1 1 false); (40, 1, 0, WReq 0 1 false)],
        [40], (0, 0, 0, 0, 1, 0, 0)%nat).
Proof. vm_compute. reflexivity. Qed.

(* everything that killed the receive loop of the pinned tree, with a Warnings channel of capacity 1
   that nobody drains: an undecodable body, bad_msg_notification, an rpc_result for an unknown id, an
   update nobody handles, a frame the transport refuses, a container (with an empty container, a doubly
   gzip-packed pong, an undecodable item, and an update AFTER it: still processed and acknowledged), then the
   server closes the connection.  The unknown rpc_result (odd seq_no) is acknowledged although nobody waits
   for it.  The loop reconnects (generation 2, no plain frame) and a call completes.
   7 warnings: 1 queued, 6 dropped; 5 messages ended in an error; acks for 9 and 25. *)
Definition cfg_full_warn := {| cf_warn := WBuf 1 0; cf_handler := false; cf_keyed := true |}.
Definition ex_hostile : list label2 := [
  L1 (LSrv (3, 2, BGarbage)); r 0; r 0;
  L1 (LSrv (7, 2, BBadMsg 40)); r 0; r 0;
  L1 (LSrv (9, 1, BResult 40 false KObj 1)); r 0; r 0; r 10; r 0; r 0; r 0;
  L1 (LSrv (11, 2, BUpdate)); r 0; r 0;
  L1 (LSrv (0, 0, BGarbage)); r 0;
  L1 (LSrv (13, 2, BContainer [(15, 2, BContainer []); (19, 2, BGzip (BGzip BPong)); (21, 2, BGarbage); (25, 1, BUpdate)]));
  r 0; r 0; r 0; r 0; r 0; r 0; r 11; r 0; r 0; r 0;
  L1 LClose; r 0; r 0;
  L1 (LCall 0 false); c 0 12; c 0 0; c 0 0;
  L1 (LSrv (5, 0, BResult 48 false KObj 99)); r 0; r 0; r 0].

Example ex_hostile_ok : option_map show (run2 (init2 cfg_full_warn) ex_hostile) =
  Some ([(0%nat, 1%nat, 48, RetVal KObj 99)], RRead, [], 0, [], [],
        [(48, 5, 0, WReq 0 1 false); (44, 2, 0, WAck 25); (40, 0, 0, WAck 9)], [],
        (1, 6, 0, 5, 2, 0, 0)%nat).
Proof. vm_compute. reflexivity. Qed.

(* fresh session: nothing is enabled before the key exchange (3 plain frames, salt 55 stored); a custom
   handler takes the update; the server closes; the reconnect runs NO key exchange (still 3 plain frames,
   one key exchange); then the first rotation of the process works: request 40 rejected, re-sent as 48
   under 66. *)
Definition cfg_fresh := {| cf_warn := WNil; cf_handler := true; cf_keyed := false |}.
Definition ex_fresh : list label2 := [
  LKeyEx 55; L1 (LCall 0 false); c 0 10; c 0 0; c 0 0;
  L1 (LSrv (3, 1, BUpdate)); r 0; r 0; r 11; r 0; r 0; r 0;
  L1 LClose; r 0; r 0;
  L1 (LSrv (5, 0, BBadSalt 40 66)); r 0; r 0; r 0; c 0 12; c 0 0; c 0 0;
  L1 (LSrv (9, 0, BResult 48 false KBool 1)); r 0; r 0; r 0].

Example ex_fresh_ok : option_map show (run2 (init2 cfg_fresh) ex_fresh) =
  Some ([(0%nat, 1%nat, 48, RetVal KBool 1)], RRead, [], 66, [66; 55],
        [(66, 2%nat, CBadSalt 40 true); (55, 0%nat, CKeyEx)],
        [(48, 5, 66, WReq 0 1 false); (44, 2, 55, WAck 3); (40, 1, 55, WReq 0 1 false)],
        [40], (0, 0, 1, 0, 2, 3, 1)%nat).
Proof. vm_compute. reflexivity. Qed.

Example ex_unkeyed_refuses : run2 (init2 cfg_fresh) [L1 (LCall 0 false)] = None.
Proof. vm_compute. reflexivity. Qed.

(* the receive loop standing before the retry-marker send while the waiter has not yet reached its receive:
   the send is refused now, and enabled after the waiter's own step *)
Definition ex_wait : list label2 := [
  L1 (LCall 0 false); c 0 10; c 0 0;
  L1 (LSrv (3, 0, BBadSalt 40 5)); r 0; r 0].
Example ex_wait_blocked : option_map (fun s => (rx (base s), c_pc (getc 0 (base s))))
    (run2 (init2 cfg_resumed) ex_wait) = Some (RNotify [40] [KTail 3 0], CWritten 40)
  /\ run2 (init2 cfg_resumed) (ex_wait ++ [r 0]) = None
  /\ option_map (fun s => (rx (base s), c_pc (getc 0 (base s))))
       (run2 (init2 cfg_resumed) (ex_wait ++ [c 0 0; r 0])) = Some (RRead, CLock).
Proof. vm_compute. repeat split; reflexivity. Qed.

(* one rotation, two rejected requests: the server sends one bad_server_salt per request, both naming the SAME
   salt 777 (the second arrives when 777 is already in force), then rotates to 778 and back to 777 for caller 0
   again.  Every rejection is honoured whatever the salt value: caller 1 is re-sent once (44 -> 52), caller 0
   three times (40 -> 48 -> 56 -> 60); four retries ordered, four adoptions saved. *)
Definition ex_same_salt : list label2 := [
  L1 (LCall 0 false); c 0 10; c 0 0; c 0 0;
  L1 (LCall 1 false); c 1 10; c 1 0; c 1 0;
  L1 (LSrv (3, 0, BBadSalt 40 777)); L1 (LSrv (7, 0, BBadSalt 44 777));
  r 0; r 0; r 0; r 0; r 0; r 0;
  c 0 12; c 0 0; c 0 0; c 1 13; c 1 0; c 1 0;
  L1 (LSrv (11, 0, BBadSalt 48 778)); r 0; r 0; r 0; c 0 14; c 0 0; c 0 0;
  L1 (LSrv (15, 0, BBadSalt 56 777)); r 0; r 0; r 0; c 0 15; c 0 0; c 0 0;
  L1 (LSrv (19, 0, BResult 60 false KObj 7)); r 0; r 0; r 0;
  L1 (LSrv (23, 0, BResult 52 false KObj 8)); r 0; r 0; r 0].

Example ex_same_salt_ok :
  option_map (fun s => (rets (base s), store (base s), retries (elog (base s)),
                        map (fun w => (w_id w, w_salt w)) (wire_out (elog (base s))), table (base s)))
             (run2 (init2 cfg_resumed) ex_same_salt)
  = Some ([(1%nat, 1%nat, 52, RetVal KObj 8); (0%nat, 1%nat, 60, RetVal KObj 7)], [777; 778; 777; 777], [56; 48; 44; 40],
          [(60, 777); (56, 778); (52, 777); (48, 777); (44, 0); (40, 0)], []).
Proof. vm_compute. reflexivity. Qed.

(* seq_no is a 32-bit pattern and "content-related" is its LOW BIT.  The model tests it with Z.odd, which is the
   low bit of the pattern whether the 32 bits are read as Go's int32 (negative from 2^31 on) or as an unsigned
   number - never a signed remainder (Go's -1 % 2 is -1).  Five updates with seq_no 0x80000001, 0xffffffff,
   0x7fffffff (odd), 0x80000000, 0xfffffffe (even), then the same five as items of a container whose own seq_no is
   even: the six odd deliveries are acknowledged (msg ids 3 7 11, 43 47 51), the four even ones are not. *)
Example seq_parity_is_the_low_bit :
  map Z.odd [-2147483647; -1; 2147483647; -2147483648; -2; 2147483649; 4294967295; 2147483648; 4294967294]
  = [true; true; true; false; false; true; true; false; false].
Proof. reflexivity. Qed.

Definition cfg_handler := {| cf_warn := WNil; cf_handler := true; cf_keyed := true |}.
Definition ex_wide_seq : list label2 := [
  L1 (LSrv (3, -2147483647, BUpdate)); r 0; r 0; r 10; r 0; r 0; r 0;
  L1 (LSrv (7, -1, BUpdate)); r 0; r 0; r 11; r 0; r 0; r 0;
  L1 (LSrv (11, 2147483647, BUpdate)); r 0; r 0; r 12; r 0; r 0; r 0;
  L1 (LSrv (15, -2147483648, BUpdate)); r 0; r 0;
  L1 (LSrv (19, -2, BUpdate)); r 0; r 0;
  L1 (LSrv (63, -2, BContainer [(43, -2147483647, BUpdate); (47, -1, BUpdate); (51, 2147483647, BUpdate);
                                (55, -2147483648, BUpdate); (59, -2, BUpdate)]));
  r 0; r 0;
  r 0; r 13; r 0; r 0; r 0;
  r 0; r 14; r 0; r 0; r 0;
  r 0; r 15; r 0; r 0; r 0;
  r 0; r 0].

Example ex_wide_seq_ok :
  option_map (fun s => (rx (base s), handled s, unacked (elog (base s)),
                        map (fun w => w_kind w) (wire_out (elog (base s)))))
             (run2 (init2 cfg_handler) ex_wide_seq)
  = Some (RRead, 10%nat, [], [WAck 51; WAck 47; WAck 43; WAck 11; WAck 7; WAck 3]).
Proof. vm_compute. reflexivity. Qed.
