(* Client/Rendezvous.v - the hand-over of a result (or of the retry marker) BEFORE its caller listens.

   In Client/Model.v and Client/Live.v a channel send of the receive loop (RDeliver: `v <- data` in
   writeRPCResponse; RNotify: `v <- &errorSessionConfigsChanged{}`) is ONE step, enabled when its
   receiver is blocked in `<-resp` (CRecv): the label LStep ARx is refused before that.  The running
   client has no such guard: the loop walks into the send whenever the scheduler lets it and, the
   channel being unbuffered, waits THERE until the receiver arrives; the transfer then happens at once.

   [xstep] is that finer system: a state of Live.v plus one bit, "the loop stands inside its send".
     - not committed: LStep ARx at a send whose receiver is not ready COMMITS (no other change);
       every other label is step2;
     - committed: LStep ARx is refused (the goroutine is blocked); any other label is step2, and
       if the receiver is ready afterwards the send completes in the same breath (step2 of the loop).
   [xrefines]: whatever [xstep] reaches, [step2] reaches with the canonical label list [canon]
   (commits erased, the completion written as the loop's own step after the step that made the
   receiver ready): no new state, hence every invariant of Live.v holds for the finer system.  This is
   the licence for the harness operation `early rx` (harness/root/cmd/c09), which drives the real
   client through a commit and records the two actions of the canonical order.
   [xcomplete_never_refused]: the completion inside a committed step cannot fail.
   [run2_is_xrun]: conversely every history of step2 is one of xstep (without commits).  *)
From Coq Require Import ZArith List Bool Arith.
From MTV Require Import Client.Model Client.StepLemmas Client.Live Client.LiveInv Client.Salt Client.Alive.
Import ListNotations.
Open Scope Z_scope.

(* the receiver of channel (t, k) is blocked in its receive *)
Definition listening (ch : chan) (b : state) : bool :=
  let '(t, k) := ch in
  match c_pc (getc t b) with
  | CRecv _ => Nat.eqb (c_k (getc t b)) k
  | _ => false
  end.

(* the loop stands before a channel send: the channel it will use *)
Definition send_chan (b : state) : option chan :=
  match rx b with
  | RDeliver _ ch _ _ => Some ch
  | RNotify [i] _ => lookup i (table b)
  | _ => None
  end.

(* a send for which nobody is ready *)
Definition must_wait (b : state) : bool :=
  match send_chan b with
  | Some ch => negb (listening ch b)
  | None => false
  end.

Record xstate := { cur : state2; committed : bool }.
Definition plain (s : state2) : xstate := {| cur := s; committed := false |}.

Definition rx_label : label2 := L1 (LStep ARx 0).

Definition is_rx_step (l : label2) : bool :=
  match l with L1 (LStep ARx _) => true | _ => false end.

Definition xstep (x : xstate) (l : label2) : option xstate :=
  if committed x then
    if is_rx_step l then None
    else match step2 (cur x) l with
         | None => None
         | Some s1 =>
             if must_wait (base s1) then Some {| cur := s1; committed := true |}
             else option_map plain (step2 s1 rx_label)
         end
  else
    if is_rx_step l && keyed (cur x) && must_wait (base (cur x)) then Some {| cur := cur x; committed := true |}
    else option_map plain (step2 (cur x) l).

Definition xrun (x : xstate) (ls : list label2) : option xstate :=
  fold_left (fun o l => match o with Some y => xstep y l | None => None end) ls (Some x).

(* the canonical history of step2 for a history of xstep *)
Fixpoint canon (x : xstate) (ls : list label2) : list label2 :=
  match ls with
  | [] => []
  | l :: r =>
      match xstep x l with
      | None => []
      | Some x' =>
          (if committed x then
             if committed x' then [l] else [l; rx_label]
           else if committed x' then [] else [l]) ++ canon x' r
      end
  end.

(* ---- proofs ------------------------------------------------------------------------------- *)

Lemma run2_app : forall ls1 ls2 s, run2 s (ls1 ++ ls2) = match run2 s ls1 with Some s1 => run2 s1 ls2 | None => None end.
Proof.
  unfold run2. intros ls1 ls2 s. rewrite fold_left_app.
  destruct (fold_left _ ls1 (Some s)) as [s1|]; [reflexivity|].
  induction ls2 as [|l r IH]; [reflexivity|exact IH].
Qed.

Lemma run2_none : forall ls, fold_left (fun o l => match o with Some x => step2 x l | None => None end) ls None = None.
Proof. induction ls as [|l r IH]; [reflexivity|exact IH]. Qed.

Lemma xrun_none : forall ls, fold_left (fun o l => match o with Some y => xstep y l | None => None end) ls None = None.
Proof. induction ls as [|l r IH]; [reflexivity|exact IH]. Qed.

Lemma run2_cons : forall l r s, run2 s (l :: r) = match step2 s l with Some s1 => run2 s1 r | None => None end.
Proof. intros l r s. unfold run2. cbn [fold_left]. destruct (step2 s l); [reflexivity|apply run2_none]. Qed.

Lemma xrun_cons : forall l r x, xrun x (l :: r) = match xstep x l with Some x1 => xrun x1 r | None => None end.
Proof. intros l r x. unfold xrun. cbn [fold_left]. destruct (xstep x l); [reflexivity|apply xrun_none]. Qed.

(* one step of the finer system is zero, one or two steps of step2 *)
Lemma xstep_refines : forall x l x',
  xstep x l = Some x' ->
  run2 (cur x) (if committed x then (if committed x' then [l] else [l; rx_label])
                else (if committed x' then [] else [l])) = Some (cur x').
Proof.
  intros x l x' H. unfold xstep in H. destruct (committed x) eqn:C.
  - destruct (is_rx_step l); [discriminate|].
    destruct (step2 (cur x) l) as [s1|] eqn:S1; [|discriminate].
    destruct (must_wait (base s1)).
    + injection H as <-. cbn [committed cur]. rewrite run2_cons, S1. reflexivity.
    + destruct (step2 s1 rx_label) as [s2|] eqn:S2; [|discriminate].
      injection H as <-. cbn [committed cur plain]. rewrite run2_cons, S1, run2_cons, S2. reflexivity.
  - destruct (is_rx_step l && keyed (cur x) && must_wait (base (cur x))).
    + injection H as <-. reflexivity.
    + destruct (step2 (cur x) l) as [s1|] eqn:S1; [|discriminate].
      injection H as <-. cbn [committed cur plain]. rewrite run2_cons, S1. reflexivity.
Qed.

Theorem xrefines : forall ls x x', xrun x ls = Some x' -> run2 (cur x) (canon x ls) = Some (cur x').
Proof.
  induction ls as [|l r IH]; intros x x' H.
  - injection H as <-. reflexivity.
  - rewrite xrun_cons in H. cbn [canon]. destruct (xstep x l) as [x1|] eqn:X1; [|discriminate].
    rewrite run2_app, (xstep_refines x l x1 X1). exact (IH x1 x' H).
Qed.

(* the loop stands before a channel send *)
Definition sending (b : state) : bool :=
  match rx b with
  | RDeliver _ _ _ _ => true
  | RNotify [_] _ => true
  | _ => false
  end.

Lemma must_wait_sending : forall b, must_wait b = true -> sending b = true.
Proof.
  intros b H. unfold must_wait, send_chan in H. unfold sending.
  destruct (rx b) as [| | | | | | |keys ks| |]; try discriminate; try reflexivity.
  destruct keys as [|i [|j r]]; try discriminate. reflexivity.
Qed.

(* a send whose receiver listens (or a notification that finds no waiter any more) is never refused *)
Lemma ready_send_steps : forall s, keyed s = true -> sending (base s) = true -> must_wait (base s) = false ->
  exists s', step2 s rx_label = Some s'.
Proof.
  intros s K SD MW. unfold sending in SD. unfold must_wait, send_chan in MW. unfold rx_label.
  destruct (rx (base s)) as [| |req [t k] v ks| | | | |keys ks| |] eqn:R; try discriminate.
  - apply negb_false_iff in MW. unfold listening in MW.
    destruct (c_pc (getc t (base s))) as [| | | |j|] eqn:P; try discriminate. apply Nat.eqb_eq in MW.
    apply (send_enabled s req t k 0 K); [left; eauto|exact MW|eauto].
  - destruct keys as [|i [|j r]]; try discriminate.
    destruct (lookup i (table (base s))) as [[t k]|] eqn:L.
    + apply negb_false_iff in MW. unfold listening in MW.
      destruct (c_pc (getc t (base s))) as [| | | |j|] eqn:P; try discriminate. apply Nat.eqb_eq in MW.
      apply (send_enabled s i t k 0 K); [right; eauto|exact MW|eauto].
    + unfold step2, step2i. rewrite K. cbn [negb]. unfold step_rx2. rewrite R.
      unfold notify2, notify_b. rewrite L. cbn. eauto.
Qed.

(* a send nobody is ready for is refused by step2 *)
Lemma waiting_send_refused : forall s clk, keyed s = true -> must_wait (base s) = true ->
  step2 s (L1 (LStep ARx clk)) = None.
Proof.
  intros s clk K MW. unfold must_wait, send_chan in MW.
  unfold step2, step2i. rewrite K. cbn [negb]. unfold step_rx2.
  destruct (rx (base s)) as [| |req [t k] v ks| | | | |keys ks| |] eqn:R; try discriminate.
  - apply negb_true_iff in MW. unfold listening in MW.
    unfold lift, step, step_rx. rewrite R. unfold deliver.
    destruct (c_pc (getc t (base s))); try reflexivity. rewrite MW. reflexivity.
  - destruct keys as [|i [|j r]]; try discriminate.
    destruct (lookup i (table (base s))) as [[t k]|] eqn:L; [|discriminate].
    apply negb_true_iff in MW. unfold listening in MW.
    unfold notify2, notify_b. rewrite L.
    destruct (c_pc (getc t (base s))); try reflexivity. rewrite MW. reflexivity.
Qed.

(* a step of anybody but the loop leaves the loop where it is *)
Lemma step_other_rx : forall b l b', step b l = Some b' ->
  match l with LStep ARx _ => True | _ => rx b' = rx b end.
Proof.
  intros b l b' H. destruct l as [t h | [t|] clk | f | ]; cbn in H; try exact I.
  - destruct (c_pc (getc t b)); try discriminate. injection H as <-. reflexivity.
  - unfold step_caller in H. destruct (c_pc (getc t b)); try discriminate.
    + destruct (lock b); [discriminate|]. injection H as <-. reflexivity.
    + injection H as <-. reflexivity.
    + injection H as <-. reflexivity.
  - injection H as <-. reflexivity.
  - injection H as <-. reflexivity.
Qed.

Lemma flush_base : forall s, base (flush s) = base s.
Proof.
  intros s. unfold flush. destruct (perr s); [|reflexivity].
  destruct (rx (base s)); try reflexivity.
  unfold warn2. cbn [wch set_perr]. destruct (wch s) as [|cap n]; [reflexivity|].
  destruct (Nat.ltb n cap); reflexivity.
Qed.

Lemma flush_rx : forall s, rx (base (flush s)) = rx (base s).
Proof. intros s. rewrite flush_base. reflexivity. Qed.

Lemma step2_other_rx : forall s l s1, is_rx_step l = false -> step2 s l = Some s1 -> rx (base s1) = rx (base s).
Proof.
  intros s l s1 NR H. apply step2_flush in H. destruct H as (s0 & S0 & ->). rewrite flush_rx.
  apply step2_inv in S0. destruct S0 as [l1 b' K LO SB|cap n W|x K|clk f r K R W T|clk f ks K R|clk ks K R|clk i ks b' K R N|clk K R];
    try discriminate NR.
  - pose proof (step_other_rx (base s) l1 b' SB) as P. cbn [base wb].
    destruct l1 as [t h | [t|] clk | f | ]; try exact P. discriminate NR.
  - reflexivity.
  - reflexivity.
Qed.

(* what a committed state always satisfies *)
Definition XInv (x : xstate) : Prop :=
  committed x = true -> keyed (cur x) = true /\ sending (base (cur x)) = true.

Lemma XInv_plain : forall s, XInv (plain s).
Proof. intros s H. discriminate H. Qed.

Lemma XInv_step : forall x l x', XInv x -> xstep x l = Some x' -> XInv x'.
Proof.
  intros x l x' I H. unfold xstep in H. destruct (committed x) eqn:C.
  - destruct (I C) as [K SD].
    destruct (is_rx_step l) eqn:NR; [discriminate|].
    destruct (step2 (cur x) l) as [s1|] eqn:S1; [|discriminate].
    destruct (must_wait (base s1)) eqn:MW.
    + injection H as <-. intros _. cbn [cur]. split; [exact (keyed_step _ _ _ S1 K)|exact (must_wait_sending _ MW)].
    + destruct (step2 s1 rx_label); [|discriminate]. injection H as <-. apply XInv_plain.
  - destruct (is_rx_step l && keyed (cur x) && must_wait (base (cur x))) eqn:B.
    + injection H as <-. intros _. cbn [cur]. apply andb_prop in B as [B MW]. apply andb_prop in B as [_ K].
      split; [exact K|exact (must_wait_sending _ MW)].
    + destruct (step2 (cur x) l); [|discriminate]. injection H as <-. apply XInv_plain.
Qed.

Lemma XInv_run : forall ls x x', XInv x -> xrun x ls = Some x' -> XInv x'.
Proof.
  induction ls as [|l r IH]; intros x x' I H.
  - injection H as <-. exact I.
  - rewrite xrun_cons in H. destruct (xstep x l) as [x1|] eqn:X1; [|discriminate].
    exact (IH x1 x' (XInv_step x l x1 I X1) H).
Qed.

(* inside a committed state whatever step2 accepts, xstep accepts: the completion of the send cannot fail *)
Theorem xcomplete_never_refused : forall x l s1, XInv x -> committed x = true -> is_rx_step l = false ->
  step2 (cur x) l = Some s1 -> exists x', xstep x l = Some x'.
Proof.
  intros x l s1 I C NR S1. destruct (I C) as [K SD]. unfold xstep. rewrite C, NR, S1.
  destruct (must_wait (base s1)) eqn:MW; [eauto|].
  assert (SD1 : sending (base s1) = true).
  { unfold sending. rewrite (step2_other_rx _ _ _ NR S1). exact SD. }
  destruct (ready_send_steps s1 (keyed_step _ _ _ S1 K) SD1 MW) as [s2 S2]. rewrite S2. cbn. eauto.
Qed.

(* every history of step2 is a history of the finer system, without a commit *)
Theorem run2_is_xrun : forall ls s s', run2 s ls = Some s' -> xrun (plain s) ls = Some (plain s').
Proof.
  induction ls as [|l r IH]; intros s s' H.
  - injection H as <-. reflexivity.
  - rewrite run2_cons in H. rewrite xrun_cons. destruct (step2 s l) as [s1|] eqn:S1; [|discriminate].
    assert (X : xstep (plain s) l = Some (plain s1)).
    { unfold xstep. cbn [committed plain cur].
      destruct (is_rx_step l && keyed s && must_wait (base s)) eqn:B; [|rewrite S1; reflexivity].
      apply andb_prop in B as [B MW]. apply andb_prop in B as [RX K].
      destruct l as [[t h|[t|] clk|f|]| |x]; try discriminate RX.
      rewrite (waiting_send_refused s clk K MW) in S1. discriminate. }
    rewrite X. exact (IH s1 s' H).
Qed.

(* ---- a commit never deadlocks: the owner's next step resolves it ------------------------------------ *)

Definition XWait (x : xstate) : Prop := committed x = true -> must_wait (base (cur x)) = true.

Lemma XWait_plain : forall s, XWait (plain s).
Proof. intros s H. discriminate H. Qed.

Lemma XWait_step : forall x l x', xstep x l = Some x' -> XWait x'.
Proof.
  intros x l x' H. unfold xstep in H. destruct (committed x).
  - destruct (is_rx_step l); [discriminate|].
    destruct (step2 (cur x) l) as [s1|]; [|discriminate].
    destruct (must_wait (base s1)) eqn:MW.
    + injection H as <-. intros _. exact MW.
    + destruct (step2 s1 rx_label); [|discriminate]. injection H as <-. apply XWait_plain.
  - destruct (is_rx_step l && keyed (cur x) && must_wait (base (cur x))) eqn:B.
    + injection H as <-. intros _. apply andb_prop in B as [_ MW]. exact MW.
    + destruct (step2 (cur x) l); [|discriminate]. injection H as <-. apply XWait_plain.
Qed.

Lemma XWait_run : forall ls x x', XWait x -> xrun x ls = Some x' -> XWait x'.
Proof.
  induction ls as [|l r IH]; intros x x' I H.
  - injection H as <-. exact I.
  - rewrite xrun_cons in H. destruct (xstep x l) as [x1|] eqn:X1; [|discriminate].
    exact (IH x1 x' (XWait_step x l x1 X1) H).
Qed.

(* In every reachable committed state the channel belongs to a caller that has written its request and is on its
   way out of sendPacket (CWritten): its next step - always enabled - makes it listen, the send completes in the
   same breath, and the system is back in an uncommitted state. *)
Theorem xcommit_resolves : forall c ls x, xrun (plain (init2 c)) ls = Some x -> committed x = true ->
  exists t x', xstep x (L1 (LStep (ACaller t) 0)) = Some x' /\ committed x' = false.
Proof.
  intros c ls x H C.
  pose proof (XInv_run ls _ _ (XInv_plain _) H C) as [K SD].
  pose proof (XWait_run ls _ _ (XWait_plain _) H C) as MW.
  pose proof (Inv11_run c _ _ (xrefines ls _ _ H)) as I11.
  set (s := cur x) in *. set (b := base s) in *.
  (* the channel and its owner *)
  assert (OW : exists i t k, send_chan b = Some (t, k) /\ at_send b i t k).
  { unfold must_wait in MW. unfold send_chan in *. unfold sending in SD.
    destruct (rx b) as [| |req [t k] v ks| | | | |keys ks| |] eqn:R; try discriminate.
    - exists req, t, k. split; [reflexivity|]. left. eauto.
    - destruct keys as [|i [|j r]]; try discriminate.
      destruct (lookup i (table b)) as [[t k]|] eqn:L; [|discriminate].
      exists i, t, k. split; [reflexivity|]. right. eauto. }
  destruct OW as (i & t & k & SC & AS).
  destruct (owner_of_send s i t k I11 AS) as [CK PC]. fold b in CK, PC.
  assert (PW : c_pc (getc t b) = CWritten i).
  { destruct PC as [PC|PC]; [exact PC|]. exfalso.
    unfold must_wait in MW. rewrite SC in MW. unfold listening in MW. rewrite PC, CK, Nat.eqb_refl in MW. discriminate. }
  exists t.
  (* the owner's step *)
  set (b1 := set_pc t (CRecv i) (set_lock None b)).
  assert (S1 : step2i s (L1 (LStep (ACaller t) 0)) = Some (wb b1 s)).
  { unfold step2i. rewrite K. cbn [negb]. unfold lift. cbn [step]. unfold step_caller. fold b. rewrite PW. reflexivity. }
  assert (S2 : step2 s (L1 (LStep (ACaller t) 0)) = Some (flush (wb b1 s))) by (unfold step2; rewrite S1; reflexivity).
  set (s1 := flush (wb b1 s)) in *.
  assert (B1 : base s1 = b1) by (unfold s1; rewrite flush_base; reflexivity).
  assert (RX1 : rx b1 = rx b) by reflexivity.
  assert (TB1 : table b1 = table b) by reflexivity.
  assert (G1 : getc t b1 = {| c_pc := CRecv i; c_hint := c_hint (getc t b); c_k := c_k (getc t b) |}).
  { unfold b1. rewrite getc_set_pc, Nat.eqb_refl. reflexivity. }
  assert (MW1 : must_wait (base s1) = false).
  { rewrite B1. unfold must_wait, send_chan. rewrite RX1, TB1. fold (send_chan b). rewrite SC.
    unfold listening. rewrite G1. cbn [c_pc c_k]. rewrite CK, Nat.eqb_refl. reflexivity. }
  assert (SD1 : sending (base s1) = true) by (rewrite B1; unfold sending; rewrite RX1; exact SD).
  assert (K1 : keyed s1 = true) by (exact (keyed_step _ _ _ S2 K)).
  destruct (ready_send_steps s1 K1 SD1 MW1) as [s2 S3].
  exists (plain s2). split; [|reflexivity].
  unfold xstep. rewrite C. cbn [is_rx_step]. fold s. rewrite S2. fold s1. rewrite MW1, S3. reflexivity.
Qed.

(* ---- non-vacuity: a result handed over before its caller listens -----------------------------------
   caller 0 writes request 40 and stays inside sendPacket (CWritten); the server answers; the loop reads,
   dispatches and walks into the send (commit: refused by step2, accepted here); then the caller returns from
   sendPacket - the transfer happens at once - and the call has its answer.  The canonical history has the
   caller's step first and the loop's hand-over after it. *)
Definition ex_early : list label2 := [
  L1 (LCall 0 false); L1 (LStep (ACaller 0) 10); L1 (LStep (ACaller 0) 0);
  L1 (LSrv (1, 1, BResult 40 false KObj 8));
  L1 (LStep ARx 0); L1 (LStep ARx 0);
  L1 (LStep ARx 0);               (* the commit *)
  L1 (LStep (ACaller 0) 0) ].     (* sendPacket returns; the send completes *)

Definition cfg_plain := {| cf_warn := WNil; cf_handler := false; cf_keyed := true |}.

Example ex_early_accepted :
  option_map (fun x => (committed x, rets (base (cur x)))) (xrun (plain (init2 cfg_plain)) ex_early)
    = Some (false, [(0%nat, 1%nat, 40, RetVal KObj 8)]) /\
  option_map (fun x => committed x) (xrun (plain (init2 cfg_plain)) (firstn 7 ex_early)) = Some true /\
  run2 (init2 cfg_plain) (firstn 7 ex_early) = None /\
  canon (plain (init2 cfg_plain)) ex_early =
    firstn 6 ex_early ++ [L1 (LStep (ACaller 0) 0); L1 (LStep ARx 0)].
Proof. vm_compute. repeat split; reflexivity. Qed.
