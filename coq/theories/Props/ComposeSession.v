(* Composition over the whole first exchange of a client that starts with nothing.
   C06 (key exchange with a conformant server) + C03 (envelope) + C08 (framing under any segmentation) + C02 / C01
   (schema serialisation and round trip): the client connects, runs the three-step key exchange - both sides then
   hold the same 256-byte key and the same salt -, and its FIRST application request, a value of a schema-defined
   type, sealed with that key, framed in the connection's mode behind whatever was framed before it and cut by TCP
   in any way, comes out of the server's reader as the last frame, opens with the server's copy of the key to the
   fields and the body that went in, and that body is the schema's serialisation of the value and decodes to it.
   Statements only: every step is a theorem of Props/C06.v, Props/C03.v, Props/C08.v, Props/Compose.v. *)
From Coq Require Import String.
From Coq Require Import ZArith NArith List Lia Bool Znumtheory.
From MTV Require Import Base.Bytes Base.Outcome TL.Types TL.Codec TL.Typing TL.TLText TL.Match TL.Spec
  TL.RoundTrip TL.SpecProofs TL.NPPost Crypto.Envelope Crypto.EnvelopeProofs Crypto.Ige Crypto.TempKeys
  Transport.Framing Transport.FramingProofs
  Handshake.Bytes Handshake.Objects Handshake.Client Handshake.Server Handshake.AgreeLemmas Handshake.Agreement
  Props.Compose.
Import ListNotations.
Open Scope N_scope.

Theorem session_from_nothing :
  forall (H : bytes -> bytes) (E D : bytes -> bytes -> bytes) (modexp : Z -> Z -> Z -> Z)
         (is_prime : N -> bool) (split : N -> option (N * N)),
  (forall m, length (H m) = 20%nat) -> (forall m, okb (H m)) ->
  (forall k b, length (E k b) = 16%nat) -> (forall k b, length (D k b) = 16%nat) ->
  (forall k b, okb k -> okb b -> okb (E k b)) ->
  (forall k b, length k = 32%nat -> okb k -> length b = 16%nat -> okb b -> D k (E k b) = b) ->
  (forall b e m, (0 <= e)%Z -> (0 < m)%Z -> modexp b e m = ((b ^ e) mod m)%Z) ->
  (forall n, n < 2 ^ 64 -> is_prime n = true -> prime (Z.of_N n)) ->
  (forall n a b, split n = Some (a, b) -> a * b = n /\ 1 < a /\ a <= b) ->
  (forall k iv d, length iv = 32%nat -> (length d mod 16 = 0)%nat -> length (ige_encrypt E k iv d) = length d) ->
  (forall k iv d, length k = 32%nat -> length iv = 32%nat -> (length d mod 16 = 0)%nat ->
                  ige_decrypt D k iv (ige_encrypt E k iv d) = d) ->
  forall sp, conformant H modexp sp ->
  forall dr, draws_ok dr ->
  split (s_p sp * s_q sp) <> None ->
  (forall answer, srv_answer modexp sp (d_nonce dr) = Some answer ->
     forall i, (0 < i <= pad_need (20 + length answer))%nat ->
       H (answer ++ firstn i (s_pad sp (pad_need (20 + length answer)))) <> H answer) ->
  exists f1 f2 f3 key kid salt hash1,
    (* the key exchange succeeds; client and server hold the same key, key id and salt *)
    outcome_of (handshake H E D modexp is_prime split (mkpub (s_n sp) (s_e sp)) dr (srv_env H E D modexp sp))
      = ([SendPlain f1; SendPlain f2; SendPlain f3; Save key kid salt], Success key kid salt) /\
    srv_secrets H D modexp sp f1 f2 f3 = Some (mksecrets key kid salt hash1 (d_new_nonce dr)) /\
    length key = 256%nat /\
    (* and then, for every schema, every well-typed request value of it and every header: *)
    forall (U : universe) (S : list comb) tbl inflate, pseudo_ok U = true ->
    forall tid fs body sid msgid seq ack,
      all_in_schema U S tbl (VObj tid fs) = true ->
      wt U (TIface 0) (VObj tid fs) = true ->
      enc U (VObj tid fs) = Ok body ->
      sid < 2 ^ 64 -> msgid < 2 ^ 64 -> seq < 2 ^ 32 -> N.of_nat (length body) < 2 ^ 25 ->
      exists pkt,
        (* the client's effects: three plain messages, the session saved, the sealed request *)
        connect_and_request H E D modexp is_prime split (mkpub (s_n sp) (s_e sp)) dr
            (srv_env H E D modexp sp) sid msgid seq ack body
          = ([SendPlain f1; SendPlain f2; SendPlain f3; Save key kid salt; SendEncrypted pkt], Success key kid salt) /\
        (* framed behind whatever was framed before, cut by TCP in any way: the server's reader returns the frames *)
        (forall v pre chunks, Forall (carriable v) pre -> concat chunks = wire v (pre ++ [pkt]) ->
           read_stream chunks = Some {| d_mode := Some v; d_msgs := pre ++ [pkt]; d_end := EEof |}) /\
        (* the server opens it with ITS copy of the key to what went in *)
        open_server H (ige_decrypt D) key pkt = Some (salt, sid, msgid, EnvelopeProofs.seq_ack seq ack, body) /\
        (* which is the schema's serialisation of the value and decodes to it *)
        spec S (abs U (VObj tid fs)) = Some body /\
        exists f0, forall f, (f0 <= f)%nat -> decode_unknown U inflate f [] body = DOk (norm U (VObj tid fs)).
Proof.
  intros H E D modexp is_prime split HL HO EL DL EO DE ME PS SS IL II sp CF dr DR SX NC.
  pose proof (answer_is H E D modexp is_prime split HL HO EL DL EO DE ME PS SS sp CF dr DR) as Ha.
  specialize (NC _ Ha).
  destruct (agreement H E D modexp is_prime split HL HO EL DL EO DE ME PS SS sp CF dr DR SX) as (A & B & C & Sl).
  { intros i Hi. apply NC. rewrite (c_pad_len _ _ _ CF) in Hi. exact Hi. }
  do 7 eexists. split; [rewrite A; reflexivity|]. split; [exact B|]. split; [exact C|].
  intros U S tbl inflate Hp tid fs body sid msgid seq ack Hs Hw He Hsid Hmsg Hseq Hbody.
  match type of C with length ?k = _ => set (key := k) in * end.
  match type of Sl with ?s < _ => set (salt := s) in * end.
  destruct (request_crosses_the_wire U S tbl inflate H (ige_encrypt E) (ige_decrypt D) Hp HL IL II
              tid fs body key salt sid msgid seq ack Hs Hw He ltac:(lia) Sl Hsid Hmsg Hseq Hbody)
    as (pkt & Hseal & Hwire & Hopen & Hspec & Hdec).
  exists pkt. split; [|split; [exact Hwire|split; [exact Hopen|split; [exact Hspec|exact Hdec]]]].
  unfold connect_and_request. rewrite A. cbn [outcome_of]. rewrite Hseal. reflexivity.
Qed.
Print Assumptions session_from_nothing.
