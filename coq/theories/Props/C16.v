(* C16 - No server message can kill the client process or stop its receive loop.
   Statements only; proofs in Client/Alive.v (on top of Client/Salt.v, Client/LiveInv.v).
   Model: Client/Live.v - mtproto.go AFTER the repairs of this work package (every error of readMsg is
   reported through warnError instead of check(err); no panic on bad_msg_notification; warnError is a
   non-blocking send; a message that cannot be handled is still acknowledged and does not cut off the rest
   of its container).

   Server alphabet = the values of [body] inside arbitrary frames, injected by LSrv labels at any moment:
   rpc_result / rpc_error for ANY id (pending, unknown, already answered), plain or gzip-packed, any result
   kind (a Vector<> without hints does not decode); msg_container of any frames (nested, empty);
   gzip_packed around anything; pong, msgs_ack, new_session_created, bad_server_salt, bad_msg_notification;
   BUpdate = any registered object without a case of its own (every other MTProto service constructor,
   arbitrary API objects), handed to the custom handler or to the Warnings channel; BGarbage = any body
   tl.DecodeUnknownObject refuses (unregistered constructor id, truncated body); a frame whose msg_id is
   not 1 or 3 mod 4 = anything transport.ReadMsg refuses (4-byte transport error code, undecryptable or
   truncated packet, wrong msg_id parity).  LClose = orderly close by the server, between messages.
   The Warnings channel (nil / buffered with any capacity and fill, drained by LDrain at any moment or
   never) and the handler are part of the configuration c. *)
From Coq Require Import ZArith List Bool.
From MTV Require Import Client.Model Client.StepLemmas Client.SeqNo Client.Routing
  Client.Origin Client.Live Client.LiveInv Client.Salt Client.Alive Client.LiveOrigin Client.LiveExamples.
Import ListNotations.
Open Scope Z_scope.

(* after EVERY history: the receive loop has not died (pc <> RDead), and for every idle caller t there is a
   schedule dl of steps of the client's own goroutines only (Forall step_label: no LSrv, no LDrain - the
   server sends nothing more, nobody reads the Warnings channel) that brings the loop back to an idle read
   on an open connection, after which a probe call of t, answered by the server with (object, p), returns
   exactly that: [probe_labels] = call, lock + msg id, write, release, the server's rpc_result, read,
   dispatch, deliver.  Calls completed before stay completed. *)
Theorem C16_alive : forall c ls s, run2 (init2 c) ls = Some s ->
  rx (base s) <> RDead /\
  (keyed s = true -> forall t p clk sid, c_pc (getc t (base s)) = CIdle -> sid mod 4 = 1 ->
     exists dl s1 s', Forall step_label dl /\ run2 s dl = Some s1 /\
       rx (base s1) = RRead /\ wire_in (base s1) = [] /\ closed (base s1) = false /\
       let i := fresh_id (last_id (base s1)) clk in
       let k := S (c_k (getc t (base s))) in
       run2 s1 (probe_labels t clk sid i p) = Some s' /\
       In (t, k, i, RetVal KObj p) (rets (base s')) /\
       (forall x, In x (rets (base s)) -> In x (rets (base s1)))).
Proof. exact alive. Qed.
Print Assumptions C16_alive.

(* a client that is not keyed yet can always run its key exchange, and is keyed afterwards *)
Theorem C16_keyex_enabled : forall s x, keyed s = false ->
  exists s', step2 s (LKeyEx x) = Some s' /\ keyed s' = true.
Proof.
  intros s x K. exists (flush (keyex2 x s)). split; [apply step2_of_i; simpl; rewrite K; reflexivity|].
  rewrite keyed_flush. reflexivity.
Qed.
Print Assumptions C16_keyex_enabled.

(* the invariants behind it, for every reachable state: the send lock is only held inside the critical
   section (so it is released without anybody's help), the notify pc names exactly one registered waiter,
   and the reconnect pc is only reached on a closed connection *)
Theorem C16_invariants : forall c ls s, run2 (init2 c) ls = Some s ->
  (forall t, lock (base s) = Some (ACaller t) -> in_cs (c_pc (getc t (base s)))) /\
  (lock (base s) = Some ARx -> rx_in_cs (rx (base s))) /\
  (forall keys ks, rx (base s) = RNotify keys ks ->
     exists i ch, keys = [i] /\ In (i, ch) (table (base s)) /\ rejected (base s) i) /\
  (rx (base s) = RReconnect -> closed (base s) = true).
Proof.
  intros c ls s H. destruct (Inv16_run _ _ _ H) as [[_ _ N _] [L1 L2] K].
  split; [exact L1|]. split; [exact L2|]. split; [exact (n_notify _ N)|exact K].
Qed.
Print Assumptions C16_invariants.

(* when the server closes the connection the client reconnects with the same key: in every history, from
   the close on, no key exchange runs and no plain (unencrypted) frame is written - whatever happens
   afterwards, including further closes *)
Theorem C16_resume : forall c pre post s, run2 (init2 c) (pre ++ L1 LClose :: post) = Some s ->
  exists s0, run2 (init2 c) pre = Some s0 /\ keyed s0 = true /\ closed (base s0) = false /\
    keyed s = true /\ plain_out s = plain_out s0 /\ keyex s = keyex s0 /\ (gen s0 <= gen s)%nat.
Proof. exact resume. Qed.
Print Assumptions C16_resume.

(* the reconnect transition itself is always enabled at its pc and yields a new connection generation
   with the receive loop at its read; key, salt, tables and callers are untouched *)
Theorem C16_reconnect : forall s clk, keyed s = true -> rx (base s) = RReconnect ->
  exists s', step2 s (L1 (LStep ARx clk)) = Some s' /\ gen s' = S (gen s) /\
    rx (base s') = RRead /\ closed (base s') = false /\ wire_in (base s') = [] /\
    keyed s' = true /\ plain_out s' = plain_out s /\ keyex s' = keyex s /\
    salt (base s') = salt (base s) /\ table (base s') = table (base s) /\ callers (base s') = callers (base s).
Proof. exact reconnect_step. Qed.
Print Assumptions C16_reconnect.

(* over every history: plain frames are written only by a key exchange, of which there is at most one, and
   none in a session loaded from the store ("encrypted iff a session was loaded", C12) *)
Theorem C16_key_exchange_once : forall c ls s, run2 (init2 c) ls = Some s ->
  plain_out s = (3 * keyex s)%nat /\ (keyex s <= 1)%nat /\
  (cf_keyed c = true -> keyex s = O /\ keyed s = true) /\
  (keyex s = 1%nat -> keyed s = true) /\
  (keyed s = false -> base s = init).
Proof. exact keyex_once. Qed.
Print Assumptions C16_key_exchange_once.

(* step2 extends step: every transition of Client/Model.v that Live.v does not replace is taken over
   unchanged ([flush] only hands a pending error to warnError: it touches the Warnings channel, not the old state), and the repaired dispatch agrees with the old one wherever the old one neither panics nor
   reaches the notify pc (so C09 / C10, proved about Model.v, describe the same code on those histories) *)
Theorem C16_conservative : forall s l b', keyed s = true -> lifted_ok s l -> step (base s) l = Some b' ->
  step2 s (L1 l) = Some (flush (wb b' s)).
Proof. exact conservative. Qed.
Print Assumptions C16_conservative.

Theorem C16_dispatch_agrees : forall f ks s,
  rx (dispatch f ks (base s)) <> RDead -> (forall k k2, rx (dispatch f ks (base s)) <> RNotify k k2) ->
  base (dispatch2 f ks s) = dispatch f ks (base s).
Proof. exact dispatch_agrees. Qed.
Print Assumptions C16_dispatch_agrees.

(* a message that cannot be handled - in a container or alone - stops nothing but itself.
   (1) the dispatch step on a msg_container puts ALL its items on the receive loop's stack, in order;
   (2) a frame leaves the loop's work list (the frame at the dispatch pc + the items still on the stack) only by
       being dispatched itself: no step - in particular no error in another message - removes it;
   (3) hence from every reachable state the client's own goroutines bring the loop back to its read, and by
       then every message of the work list has been dispatched ([recv_of f] logged), whatever the messages
       before it were.  (Its acknowledgement: C10_acks_live, which has no side condition any more.) *)
Theorem C16_container_step : forall s clk sid seq b ks items, keyed s = true ->
  rx (base s) = RDispatch (sid, seq, b) ks -> strip b = BContainer items ->
  exists s', step2 s (L1 (LStep ARx clk)) = Some s' /\
    rx (base s') = settle (map KItem items ++ KTail sid seq :: ks).
Proof. exact container_step. Qed.
Print Assumptions C16_container_step.

Theorem C16_items_kept : forall ls s s' f, run2 s ls = Some s' -> In f (rx_frames (rx (base s))) ->
  In f (rx_frames (rx (base s'))) \/ In (recv_of f) (elog (base s')).
Proof. exact items_run. Qed.
Print Assumptions C16_items_kept.

Theorem C16_every_item_dispatched : forall c ls s, run2 (init2 c) ls = Some s -> keyed s = true ->
  exists dl s1, Forall step_label dl /\ run2 s dl = Some s1 /\ rx (base s1) = RRead /\
    forall f, In f (rx_frames (rx (base s))) -> In (recv_of f) (elog (base s1)).
Proof. exact items_all_dispatched. Qed.
Print Assumptions C16_every_item_dispatched.

(* Non-vacuity (Client/LiveExamples.v) [ex_hostile]: undecodable body, bad_msg_notification, rpc_result for an
   unknown id (odd seq_no: acknowledged all the same), unhandled update, frame refused by the transport, container
   with an empty container / doubly gzip-packed pong / undecodable item / an update AFTER it (processed and
   acknowledged), Warnings channel of capacity 1 never drained, then close: the loop survives (5 messages ended in
   an error, 7 warnings: 1 queued, 6 dropped), reconnects as generation 2 without a plain frame, and a call
   completes. *)
Example C16_example : exists s, run2 (init2 cfg_full_warn) ex_hostile = Some s /\
  rx (base s) = RRead /\ rets (base s) = [(0%nat, 1%nat, 48, RetVal KObj 99)] /\
  failed s = 5%nat /\ warned s = 1%nat /\ dropped s = 6%nat /\ gen s = 2%nat /\ plain_out s = 0%nat /\
  map (fun w => (w_id w, w_kind w)) (wire (base s)) = [(48, WReq 0 1 false); (44, WAck 25); (40, WAck 9)].
Proof. eexists. split; [vm_compute; reflexivity|repeat split; reflexivity]. Qed.
Print Assumptions C16_example.

Example C16_example_fresh : exists s, run2 (init2 cfg_fresh) ex_fresh = Some s /\
  gen s = 2%nat /\ plain_out s = 3%nat /\ keyex s = 1%nat.
Proof. eexists. split; [vm_compute; reflexivity|repeat split; reflexivity]. Qed.
Print Assumptions C16_example_fresh.
