(* C14 - Schema parser and code generator translate any schema faithfully, reproducibly.
   Statements only; proofs live in TLGen/ParserProofs.v and TLGen/ClassifyProofs.v.

   [parse source]   tlparser.ParseSchema on the bytes of the schema file (after the C14 fixes), projected
                    on names, ids, parameters (order, type, vector and flag markers) and result types;
                    SPanic = a Go panic, SFuel = the loop budget ran out (C14_parse_terminates: it never does).
   [print s]        canonical text of a schema value.
   [wf_schema s]    the decidable description of the documented subset (identifier characters, ids below
                    2^32, bits 0..31, no name from the excluded list, ...).
   [emit o ms]      what the five generated files declare when Go iterates over its maps in the order [o]
                    (any permutation of the groups of constructors by result type).
   [goify]          the strcase-based name mangling: an arbitrary function here (oracle in the check).
   [sort_defs], [sort_strs]  sort.Slice by Name / sort.Strings: anything returning a sorted permutation. *)
From Coq Require Import String.
From Coq Require Import NArith List Bool Permutation Sorted.
From MTV Require Import Base.Bytes Base.Outcome Base.Str
  TLGen.Parser TLGen.Printer TLGen.Classify TLGen.ParserProofs TLGen.ClassifyProofs.
Import ListNotations.
Open Scope N_scope.

(* ParseSchema never panics: for all byte strings, whatever the loop budget *)
Theorem C14_parse_total : forall fuel source, parse_fuel fuel source <> SPanic.
Proof. exact parse_total. Qed.
Print Assumptions C14_parse_total.

(* the parser extracts exactly what was declared: for every schema value of the subset, parsing its
   text gives the value back (with the default loop budget, so SFuel is excluded too) *)
Theorem C14_parse_print : forall s, wf_schema s = true -> parse (print s) = SOk s.
Proof. exact parse_print. Qed.
Print Assumptions C14_parse_print.

(* ParseSchema terminates: for every byte string the loop budget [parse] gives itself (2*len+64; len+2
   is enough) is never exhausted, so [parse] returns a schema or an error.  Every continuing iteration of
   the top-level loop and of the parameter loop leaves the cursor strictly further than it found it.
   (This needed two repairs of the code: IsNext rewound too far at the end of the source, and the first
   word of a definition was un-read by its byte length: ParseSchema never returned on "//\n-" resp. on
   "a#1 = A;" followed by a line starting with three emoji.) *)
Theorem C14_parse_terminates : forall source, parse source <> SFuel.
Proof. exact parse_terminates. Qed.
Print Assumptions C14_parse_terminates.

Theorem C14_parse_fuel_linear : forall source fuel,
  (length source + 2 <= fuel)%nat -> parse_fuel fuel source <> SFuel.
Proof. exact parse_fuel_linear. Qed.
Print Assumptions C14_parse_fuel_linear.

(* so the parser model is a total function into {schema, error} *)
Corollary C14_parse_result : forall source, (exists s, parse source = SOk s) \/ parse source = SErr.
Proof.
  intros source. pose proof (parse_terminates source) as Ht. pose proof (parse_total (default_fuel source) source) as Hp.
  unfold parse in *. destruct (parse_fuel (default_fuel source) source); [left; eauto|right; reflexivity|congruence|congruence].
Qed.
Print Assumptions C14_parse_result.

(* the earlier partial statement, now a corollary *)
Corollary C14_parse_terminates_partial : forall s, wf_schema s = true -> parse (print s) <> SFuel.
Proof. intros s _. apply parse_terminates. Qed.
Print Assumptions C14_parse_terminates_partial.

(* the hypothesis is satisfiable by a schema using every feature of the subset *)
Example C14_parse_print_example :
  let s := mkschema
    [mkdef (lit "inputPeerEmpty") 2134579434 [] (lit "InputPeer") false;
     mkdef (lit "storage.fileJpeg") 8322574 [] (lit "storage.FileType") false;
     mkdef (lit "chatPhoto") 3523977020
           [mkparam (lit "flags") (lit "bitflags") false false 0;
            mkparam (lit "has_video") (lit "true") false true 0;
            mkparam (lit "sizes") (lit "PhotoSize") true true 31;
            mkparam (lit "dc_id") (lit "int") false false 0] (lit "ChatPhoto") false]
    [mkdef (lit "messages.getChats") 1013621127 [mkparam (lit "id") (lit "int") true false 0] (lit "messages.Chats") false;
     mkdef (lit "contacts.block") 1758204945 [mkparam (lit "id") (lit "InputPeer") false false 0] (lit "Bool") false;
     mkdef (lit "upload.getFileHashes") 3338819889 [] (lit "FileHash") true] in
  wf_schema s = true /\ parse (print s) = SOk s.
Proof. split; vm_compute; reflexivity. Qed.
Print Assumptions C14_parse_print_example.

(* the generated declarations do not depend on Go's map iteration order *)
Theorem C14_deterministic :
  forall (goify : str -> bool -> str) (sort_defs : list def -> list def) (sort_strs : list str -> list str),
  (forall l, Permutation (sort_defs l) l) ->
  (forall l, Sorted (fun a b => str_le (d_name a) (d_name b)) (sort_defs l)) ->
  (forall l, Permutation (sort_strs l) l) ->
  (forall l, Sorted str_le (sort_strs l)) ->
  forall (s : schema) (o1 o2 : list group),
  Permutation o1 (groups (s_objects s)) -> Permutation o2 (groups (s_objects s)) ->
  NoDup (map d_name (s_objects s)) ->
  emit goify sort_defs sort_strs o1 (s_methods s) = emit goify sort_defs sort_strs o2 (s_methods s).
Proof.
  intros goify sd ss H1 H2 H3 H4 s o1 o2 Hp1 Hp2 Hn.
  exact (emit_order_independent goify sd ss H1 H2 H3 H4 (s_objects s) (s_methods s) o1 o2 Hp1 Hp2 Hn).
Qed.
Print Assumptions C14_deterministic.

(* the sort hypotheses are satisfiable: the insertion sort the extracted model runs with *)
Example C14_sorts_exist :
  (forall l, Permutation (isort_defs l) l) /\
  (forall l, Sorted (fun a b => str_le (d_name a) (d_name b)) (isort_defs l)) /\
  (forall l, Permutation (isort_strs l) l) /\
  (forall l, Sorted str_le (isort_strs l)).
Proof.
  repeat split; intros l.
  - apply isort_by_perm.
  - apply (isort_by_sorted d_name).
  - apply isort_by_perm.
  - apply (isort_by_sorted (fun s => s)).
Qed.
Print Assumptions C14_sorts_exist.

(* the generated package declares the constructors of the schema with the schema's ids, field layouts
   and flag positions - and nothing else.  [describes tid d sd]: the struct descriptor [sd] has the id of
   [d], one field per parameter other than the flags word, in order, with the Go kind of the parameter's
   type, its vector marker and its flag bit, and FlagIndex() is the position of the flags word among all
   parameters (present exactly when a parameter is conditional). *)
Theorem C14_layout :
  forall (goify : str -> bool -> str) (sort_defs : list def -> list def) (sort_strs : list str -> list str),
  (forall l, Permutation (sort_defs l) l) ->
  (forall l, Permutation (sort_strs l) l) ->
  forall (s : schema) (o : list group) (out : output),
  Permutation o (groups (s_objects s)) ->
  emit goify sort_defs sort_strs o (s_methods s) = Ok out ->
  let tid := type_id goify (groups (s_objects s)) in
  (forall d, In d (s_objects s) ->
     exists l, In (d_type d, l) o /\ In d l /\ emitted_object goify tid out l d)
  /\ (forall m, In m (s_methods s) -> exists x, In x (o_methods out) /\ emitted_method goify tid m x)
  /\ (forall e v, In e (o_enums out) -> In v (e_vals e) ->
        exists d, In d (s_objects s) /\ v = enum_entry goify d /\ e_native e = d_type d)
  /\ (forall sd, In sd (o_types out) ->
        exists d, In d (s_objects s) /\ sd_name sd = goify (d_name d) true /\ describes goify tid d sd)
  /\ (forall n ss sd, In (n, ss) (o_ifaces out) -> In sd ss ->
        exists d, In d (s_objects s) /\ n = goify (d_type d) true
                  /\ sd_name sd = goify (member_name goify (d_type d) d) true /\ describes goify tid d sd)
  /\ (forall x, In x (o_methods out) -> exists m, In m (s_methods s) /\ emitted_method goify tid m x).
Proof.
  intros goify sd ss H1 H2 s o out Hp He.
  exact (emit_layout goify sd ss H1 H2 (s_objects s) (s_methods s) o out Hp He).
Qed.
Print Assumptions C14_layout.

(* on the subset (every referenced type declared, conditional parameters accompanied by a flags word) the
   generator does not panic, for any iteration order *)
Theorem C14_generator_total :
  forall (goify : str -> bool -> str) (sort_defs : list def -> list def) (sort_strs : list str -> list str),
  (forall l, Permutation (sort_defs l) l) ->
  forall (s : schema) (o : list group),
  Permutation o (groups (s_objects s)) -> wf_gen goify s = true ->
  exists out, emit goify sort_defs sort_strs o (s_methods s) = Ok out.
Proof.
  intros goify sd ss H1 [objs ms] o Hp Hw.
  exact (emit_total goify sd ss H1 objs ms o Hp Hw).
Qed.
Print Assumptions C14_generator_total.

(* ... and no identifier is declared twice: [declared out] lists every top-level name of the generated
   package (enum types and constants, interfaces, structs, Params structs); [names_ok] is the decidable
   distinctness of the mangled names of the schema. *)
Theorem C14_declared_once :
  forall (goify : str -> bool -> str) (sort_defs : list def -> list def) (sort_strs : list str -> list str),
  (forall l, Permutation (sort_defs l) l) ->
  (forall l, Permutation (sort_strs l) l) ->
  forall (s : schema) (o : list group) (out : output),
  Permutation o (groups (s_objects s)) -> names_ok goify s = true ->
  emit goify sort_defs sort_strs o (s_methods s) = Ok out ->
  NoDup (declared out).
Proof.
  intros goify sd ss H1 H2 [objs ms] o out Hp Hn He.
  exact (declared_nodup goify sd ss H1 H2 objs ms o out Hp Hn He).
Qed.
Print Assumptions C14_declared_once.

Example C14_declared_once_example :
  let s := mkschema
    [mkdef (lit "null") 1450380236 [] (lit "Null") false;
     mkdef (lit "chatPhotoEmpty") 935395612 [] (lit "ChatPhoto") false;
     mkdef (lit "chatPhoto") 3523977020 [mkparam (lit "dc_id") (lit "int") false false 0] (lit "ChatPhoto") false]
    [mkdef (lit "block") 2 [] (lit "Bool") false] in
  let goify := fun (n : str) (_ : bool) => match n with c :: t => (if andb (97 <=? c) (c <=? 122) then c - 32 else c) :: t | [] => [] end in
  names_ok goify s = true /\ is_ok (emit goify isort_defs isort_strs (groups (s_objects s)) (s_methods s)) = true.
Proof. split; vm_compute; reflexivity. Qed.
Print Assumptions C14_declared_once_example.

(* the body of a generated method: the j-th positional argument is the j-th parameter of the function other
   than the flags word, and the literal &<Name>Params{...} handed to MakeRequest puts it into the field
   generated for that very parameter (field j, by C14_layout).  [gen_call] lists, per field, the position of
   the argument whose identifier is written there; identifiers are goify(name,false) up to an injective
   suffix rule, hence the distinctness hypothesis (without it the Go code does not compile). *)
Theorem C14_argument_map :
  forall (goify : str -> bool -> str) (ps : list param) (j : nat) (p : param),
  one_flags_word ps ->
  NoDup (map (fun q => goify (p_name q) false) (filter not_flags ps)) ->
  nth_error (filter not_flags ps) j = Some p ->
  nth_error (arg_params ps) j = Some p
  /\ nth_error (gen_call goify ps) j = Some (goify (p_name p) true, Some j).
Proof. exact argument_map. Qed.
Print Assumptions C14_argument_map.

Example C14_argument_map_example :
  let ps := [mkparam (lit "peer") (lit "InputPeer") false false 0;
             mkparam (lit "flags") (lit "bitflags") false false 0;
             mkparam (lit "a") (lit "int") false true 3;
             mkparam (lit "b") (lit "int") false false 0] in
  let goify := fun (n : str) (_ : bool) => n in
  one_flags_word ps /\ NoDup (map (fun q => goify (p_name q) false) (filter not_flags ps))
  /\ gen_call goify ps = [(lit "peer", Some 0%nat); (lit "a", Some 1%nat); (lit "b", Some 2%nat)].
Proof.
  split; [vm_compute; repeat constructor|]. split; [|vm_compute; reflexivity].
  vm_compute. repeat constructor; cbn; intuition discriminate.
Qed.
Print Assumptions C14_argument_map_example.

(* the hypothesis "emit ... = Ok out" is satisfiable (a schema with an enum, a stand-alone struct with
   a flags word that is not the first parameter, an interface with a name clash, and two functions) *)
Example C14_layout_example :
  let s := mkschema
    [mkdef (lit "storage.fileJpeg") 8322574 [] (lit "storage.FileType") false;
     mkdef (lit "storage.filePng") 172975040 [] (lit "storage.FileType") false;
     mkdef (lit "peerSettings") 1933519201
           [mkparam (lit "id") (lit "long") false false 0;
            mkparam (lit "flags") (lit "bitflags") false false 0;
            mkparam (lit "report_spam") (lit "true") false true 0;
            mkparam (lit "geo_distance") (lit "int") false true 6;
            mkparam (lit "kind") (lit "storage.FileType") true true 6] (lit "PeerSettings") false;
     mkdef (lit "chatPhotoEmpty") 935395612 [] (lit "ChatPhoto") false;
     mkdef (lit "chatPhoto") 3523977020 [mkparam (lit "dc_id") (lit "int") false false 0] (lit "ChatPhoto") false]
    [mkdef (lit "getSettings") 1 [mkparam (lit "peer") (lit "ChatPhoto") false false 0] (lit "PeerSettings") false;
     mkdef (lit "block") 2 [] (lit "Bool") false] in
  (* a stand-in for goify that keeps the clash chatPhoto / ChatPhoto *)
  let goify := fun (n : str) (_ : bool) => match n with c :: t => (if andb (97 <=? c) (c <=? 122) then c - 32 else c) :: t | [] => [] end in
  is_ok (emit goify isort_defs isort_strs (groups (s_objects s)) (s_methods s)) = true
  /\ is_ok (emit goify isort_defs isort_strs (rev (groups (s_objects s))) (s_methods s)) = true.
Proof. split; vm_compute; reflexivity. Qed.
Print Assumptions C14_layout_example.
