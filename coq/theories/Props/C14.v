(* placeholder while the proofs are being written *)
From MTV Require Import TLGen.Parser.
