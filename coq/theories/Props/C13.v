(* C13 - the shipped API layer is a faithful translation of the shipped TL schema.
   Generic statements about the matcher; it is evaluated on today's registry and schema text in
   Inst/C13i.v.  (Declarative reading of the matcher: TL/MatchProofs.v, added when it lands.) *)
From Coq Require Import NArith List.
From MTV Require Import Base.Bytes Base.Outcome Base.Str Prim.Crc32 TL.Types TL.Codec TL.Typing TL.TLText TL.Match.
Import ListNotations.
Open Scope N_scope.

(* CRC-32 known answer (the function the ids are compared with) *)
Theorem C13_crc32_check : crc32 [49; 50; 51; 52; 53; 54; 55; 56; 57] = 3421780262.
Proof. exact crc32_check. Qed.
Print Assumptions C13_crc32_check.
