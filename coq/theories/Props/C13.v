(* C13 - the shipped API layer is a faithful translation of the shipped TL schema.
   Statements only: the declarative reading of the decidable matcher TL/Match.v (proofs in
   TL/MatchProofs.v).  The matcher is evaluated by the kernel on today's registry and schema
   text in Inst/C13i.v. *)
From Coq Require Import NArith List.
From MTV Require Import Base.Bytes Base.Outcome Base.Str Prim.Crc32 TL.Types TL.Codec TL.Typing TL.TLText
  TL.Match TL.MatchProofs TL.Names.
Import ListNotations.
Open Scope N_scope.

(* "fields match the schema's parameters in order, type, conditional-flag bit and position of
   the flags word": what the boolean descriptor check means *)
Theorem C13_layout_reading : forall U tbl ps fds want,
  desc_agrees U tbl ps fds 0 None want = true <->
  Forall2 (field_rel U tbl) (filter (fun p => negb (is_nat p)) ps) fds /\ flags_position ps want.
Proof. exact desc_agrees_iff. Qed.
Print Assumptions C13_layout_reading.

(* "represented by exactly one registered Go type whose constructor id equals the id written in
   the schema": what a matching definition means (struct, or member of an enum type) *)
Theorem C13_definition_reading : forall U tbl c, def_matches U tbl c = true ->
  (exists tid sd, lookup_reg U (c_id c) = Some (RStruct tid) /\ get_struct U tid = Some sd /\
     s_crc sd = Some (c_id c) /\ desc_agrees U tbl (c_params c) (s_fields sd) 0 None (s_flagidx sd) = true) \/
  (exists e, lookup_reg U (c_id c) = Some (REnum e) /\ c_params c = [] /\ c_isfun c = false /\
     lookup_kind tbl (c_result c) = KEnum e).
Proof. exact def_matches_struct. Qed.
Print Assumptions C13_definition_reading.

(* an empty mismatch list = every (non-excluded) definition of the schema matches *)
Theorem C13_no_mismatch_reading : forall U S excluded, mismatches U S excluded = [] <->
  forall c, In c S -> list_contains excluded (c_name c) = false -> def_matches U (kind_table U S) c = true.
Proof. exact mismatches_nil_iff. Qed.
Print Assumptions C13_no_mismatch_reading.

(* the CRC-32 the ids are compared with is the IEEE one (known answer) *)
Theorem C13_crc32_check : crc32 [49; 50; 51; 52; 53; 54; 55; 56; 57] = 3421780262.
Proof. exact crc32_check. Qed.
Print Assumptions C13_crc32_check.

(* parameter names and Go field names correspond one to one, in order (modulo case and underscores) *)
Theorem C13_names_reading : forall ps ns, names_agree ps ns = true <->
  Forall2 (fun p n => norm_name (p_name p) = norm_name n)
          (filter (fun p => match p_ty p with PNat => false | _ => true end) ps) ns.
Proof. exact names_agree_spec. Qed.
Print Assumptions C13_names_reading.
