(* C03 - Encrypted message envelope follows the MTProto 1.0 layout and key schedule.
   Statements only; proofs live in Crypto/EnvelopeProofs.v, the model in Crypto/Envelope.v.

   Client side ([seal_client], [open_client], [serialize_unencrypted], [deserialize_unencrypted],
   [is_packet_encrypted]) = the Go code as written.  "A conformant server" ([open_server],
   [seal_server], [kiv_spec], [spec_key_id], [spec_msg_key]) = a second, independent reading of the
   MTProto 1.0 description written in Coq; both are compared on every run with the implementation
   and with an independent Go reference (lib/props/c03.py).

   crypto/sha1 and AES-256-IGE are universally quantified functions; what is assumed of them is
   spelled out in the three definitions below and appears as a premise of exactly the theorems
   that need it.  Integers are unsigned bit patterns (int64 salt / session id / msg_id < 2^64,
   int32 seq_no < 2^32); [seq_ack seq ack] = seq | 1 when an acknowledgement is required. *)
From Coq Require Import String ZArith NArith List.
From MTV Require Import Base.Bytes Base.Outcome Base.Str Prim.Hex Prim.Sha1
  Crypto.Envelope Crypto.EnvelopeProofs Crypto.EnvelopeIge.
Import ListNotations.
Open Scope N_scope.

Definition sha1_20 (sha1 : bytes -> bytes) : Prop := forall m, length (sha1 m) = 20%nat.
Definition ige_keeps_length (ige_e : bytes -> bytes -> bytes -> bytes) : Prop :=
  forall k iv d, length iv = 32%nat -> (length d mod 16 = 0)%nat -> length (ige_e k iv d) = length d.
Definition ige_inverts (ige_e ige_d : bytes -> bytes -> bytes -> bytes) : Prop :=
  forall k iv d, length k = 32%nat -> length iv = 32%nat -> (length d mod 16 = 0)%nat ->
                 ige_d k iv (ige_e k iv d) = d.

(* Every message the client seals is opened by a conformant server to exactly the salt, session
   id, msg_id, seq_no (with the ack bit) and body that went in, and carries fewer than 16 padding
   bytes.  Holds for every key of at least 128 bytes, in particular every 256-byte auth key. *)
Theorem C03_server_opens_client : forall sha1 ige_e ige_d,
  sha1_20 sha1 -> ige_keeps_length ige_e -> ige_inverts ige_e ige_d ->
  forall key salt sid msgid seq ack body,
  (128 <= length key)%nat ->
  salt < 2 ^ 64 -> sid < 2 ^ 64 -> msgid < 2 ^ 64 -> seq < 2 ^ 32 -> N.of_nat (length body) < 2 ^ 31 ->
  exists pkt,
    seal_client sha1 ige_e key salt sid msgid seq ack body = Ok pkt /\
    open_server sha1 ige_d key pkt = Some (salt, sid, msgid, seq_ack seq ack, body) /\
    length pkt = (24 + 32 + length body + pad_amount (32 + length body))%nat /\
    (pad_amount (32 + length body) < 16)%nat.
Proof. intros sha1 ige_e ige_d H1 H2 H3. exact (server_opens_client sha1 H1 ige_e ige_d H2 H3). Qed.
Print Assumptions C03_server_opens_client.

(* Dual: whatever a conformant server seals for the client - any msg_id of server parity, any
   padding bytes [pad] (fewer than 16, making the plaintext a multiple of 16) - the client opens
   to exactly those fields.  Every key of at least 136 bytes. *)
(* msg_id ranges over ALL 64-bit patterns < 2^64, i.e. over every int64 including the negative ones
   (bit 63 set); [server_parity] reads the two low bits of the pattern, which is what Go's "& 3"
   does on the signed value (C04_parity_is_low_bits_of_signed_id). *)
Theorem C03_client_opens_server : forall sha1 ige_e ige_d,
  sha1_20 sha1 -> ige_keeps_length ige_e -> ige_inverts ige_e ige_d ->
  forall key salt sid msgid seq body pad,
  (136 <= length key)%nat ->
  salt < 2 ^ 64 -> sid < 2 ^ 64 -> msgid < 2 ^ 64 -> seq < 2 ^ 32 -> N.of_nat (length body) < 2 ^ 31 ->
  server_parity msgid = true -> pad_ok body pad = true ->
  exists m,
    open_client sha1 ige_d key (seal_server sha1 ige_e key salt sid msgid seq body pad) = Ok m /\
    fields_of m = (salt, sid, msgid, seq, body) /\
    e_msgkey m = msg_key sha1 (le64 salt ++ le64 sid ++ le64 msgid ++ le32 seq
                               ++ le32 (N.of_nat (length body)) ++ body).
Proof. intros sha1 ige_e ige_d H1 H2 H3. exact (client_opens_server sha1 H1 ige_e ige_d H2 H3). Qed.
Print Assumptions C03_client_opens_server.

(* Layout of a sealed packet: bytes 0..8 = auth_key_id = the 64 low-order bits of SHA1(key);
   bytes 8..24 = msg_key = the 128 low-order bits of SHA1 of header+body (padding excluded);
   from byte 24: IGE under the key/IV of the MTProto 1.0 schedule with x = 0 of
   salt(8) session(8) msg_id(8) seq_no(4) length(4) body, zero padded (p < 16) to a multiple of 16.
   The Go key schedule (generateAESIGE) equals the schedule of the description ([kiv_spec]). *)
Theorem C03_layout : forall sha1 ige_e, sha1_20 sha1 ->
  forall key salt sid msgid seq ack body pkt,
  seal_client sha1 ige_e key salt sid msgid seq ack body = Ok pkt ->
  let obj := serialize_packet salt sid msgid seq ack body in
  let p := pad_amount (length obj) in
  obj = le64 salt ++ le64 sid ++ le64 msgid ++ le32 (seq_ack seq ack)
        ++ le32 (N.of_nat (length body) mod 4294967296) ++ body /\
  slice pkt 0 8 = auth_key_id sha1 key /\ auth_key_id sha1 key = spec_key_id sha1 key /\
  slice pkt 8 24 = msg_key sha1 obj /\ msg_key sha1 obj = spec_msg_key sha1 obj /\
  (p < 16)%nat /\ ((length obj + p) mod 16 = 0)%nat /\
  skipn 24 pkt = ige_e (fst (kiv_spec sha1 0 key (msg_key sha1 obj))) (snd (kiv_spec sha1 0 key (msg_key sha1 obj)))
                       (obj ++ repeat 0 p) /\
  kiv sha1 0 key (msg_key sha1 obj) = Ok (kiv_spec sha1 0 key (msg_key sha1 obj)).
Proof. intros sha1 ige_e H. exact (seal_layout sha1 H ige_e). Qed.
Print Assumptions C03_layout.

(* the Go key schedule is the described one in both directions (x = 0 to the server, 8 to the client).
   Note on anchoring: x = 0 is pinned by an author-independent vector (the repository's own test
   packet, Example C03_repo_test_vector below).  For x = 8 no such vector exists - the MTProto 1.0
   description publishes none and the repository's tests never decrypt - so x = 8 rests on this
   theorem (Go slices = the description's substr formulas, transcribed in [kiv_spec]) and on the
   harness' independent Go reference; this is listed in the trusted base of the evidence. *)
Theorem C03_key_schedule : forall sha1 (to_server : bool) key mk,
  (128 + dir_x to_server <= length key)%nat ->
  kiv sha1 (dir_x to_server) key mk = Ok (kiv_spec sha1 (dir_x to_server) key mk).
Proof. exact kiv_is_spec. Qed.
Print Assumptions C03_key_schedule.

(* Unencrypted key-exchange messages: zero key id, msg_id, exact body length, body; recognised
   as unencrypted; and deserialize after serialize is the identity (server-parity msg_id; a
   client-parity msg_id is refused). *)
Theorem C03_unencrypted : forall msgid body,
  (let d := serialize_unencrypted msgid body in
   slice d 0 8 = repeat 0 8 /\ slice d 8 16 = le64 msgid /\
   slice d 16 20 = le32 (N.of_nat (length body) mod 4294967296) /\ skipn 20 d = body /\
   length d = (20 + length body)%nat /\ is_packet_encrypted d = false) /\
  (msgid < 2 ^ 64 -> N.of_nat (length body) < 2 ^ 32 ->
   deserialize_unencrypted (serialize_unencrypted msgid body) =
   if server_parity msgid then Ok (mkumsg msgid body) else Err).
Proof. intros msgid body. split; [apply unencrypted_layout|apply unencrypted_roundtrip]. Qed.
Print Assumptions C03_unencrypted.

(* ---------------------------------------------------------------------------------------- *)
(* non-vacuity *)

(* the three premises are satisfiable together (degenerate instance) ... *)
Example C03_premises_satisfiable :
  sha1_20 (fun _ => repeat 0 20%nat) /\ ige_keeps_length (fun _ _ d => d) /\
  ige_inverts (fun _ _ d => d) (fun _ _ d => d).
Proof. repeat split. Qed.
Print Assumptions C03_premises_satisfiable.

(* ... the textbook IGE over any block cipher with 16-byte outputs whose decryption inverts its
   encryption under 32-byte keys satisfies the two IGE premises ... *)
Example C03_ige_premises_from_block_cipher : forall E D : bytes -> bytes -> bytes,
  (forall k b, length (E k b) = 16%nat) -> (forall k b, length (D k b) = 16%nat) ->
  (forall k b, length k = 32%nat -> length b = 16%nat -> D k (E k b) = b) ->
  ige_keeps_length (Ige.ige_encrypt E) /\ ige_inverts (Ige.ige_encrypt E) (Ige.ige_decrypt D).
Proof.
  intros E D HE HD HDE. split.
  - intros k iv d. apply (ige_encrypt_length E D); assumption.
  - intros k iv d. apply (ige_decrypt_encrypt E D); assumption.
Qed.
Print Assumptions C03_ige_premises_from_block_cipher.

(* ... and with the real primitives (Gallina SHA-1 and AES-256) the model reproduces the packet
   pinned in the repository's own test (messages_test.go TestSerializeEncryptedMessage), which the
   conformant server opens to the fields that went in. *)
Definition test_key : bytes := hex
  ("28F43A9E1F5B15C093445BDBA697C78DCE12B53C8F05AE86F1E25338DC8EF962" ++
   "E9B89C8E560955FFA0E1A45C8D121A9AEFDB89C88BB1493374959C6D6E5C46D1" ++
   "42775B2A56C889D184ECB0B570E5BC763AAC504A35F6A5B259D1C20A01671C47" ++
   "24185463D7DBC8F7376743F32AFEEC4C272C814DC10612AE8A12C861C4BFA04B" ++
   "2CFC96880C9AFCDDD3584465F93C6D2597E433D39777BDF9C4C613D7F43D7F65" ++
   "F59E3462137BD4C009049D154A73048679C09D832A41A12A1F646455B5BD6263" ++
   "02AAF9798BC8A97A219CF9FF22FB3362943FD67E460258295D0984BD3FBA15A0" ++
   "D6BDF1F48F51CA65BD6C1CDD9C0509A73EB320379118BC586F7564F391DA1490").
Definition test_body : bytes := lit "hello mtproto messages!".
Definition test_packet : bytes := hex
  ("26C877F943462A4247DC1ACF8232053834D146BE164547066924AB8509629E8C" ++
   "2C2B353A77C8A37EAB2D8982723DD7027941408F91F84BF1FE8FD7CDE3E4D29F" ++
   "AFAFFD26489DFFC18DFC09C9C4A53973B9C943910C28B687").

Example C03_repo_test_vector :
  seal_client sha1 x_ige_e test_key 0 0 123 0 false test_body = Ok test_packet.
Proof. vm_compute. reflexivity. Qed.
Print Assumptions C03_repo_test_vector.

Example C03_server_opens_repo_test_vector :
  open_server sha1 x_ige_d test_key test_packet = Some (0, 0, 123, 0, test_body).
Proof. vm_compute. reflexivity. Qed.
Print Assumptions C03_server_opens_repo_test_vector.

Example C03_client_opens_a_server_packet :
  omap fields_of (open_client sha1 x_ige_d test_key
                    (seal_server sha1 x_ige_e test_key 7 9 125 3 test_body (hex "a1b2c3d4e5f60718aa")))
  = Ok (7, 9, 125, 3, test_body).
Proof. vm_compute. reflexivity. Qed.
Print Assumptions C03_client_opens_a_server_packet.

(* a msg_id that is negative as int64 (bit 63 set), server parity: opened all the same *)
Example C03_client_opens_negative_msg_id :
  omap fields_of (open_client sha1 x_ige_d test_key
                    (seal_server sha1 x_ige_e test_key 7 9 (2 ^ 64 - 3) 3 test_body (hex "a1b2c3d4e5f60718aa")))
  = Ok (7, 9, 2 ^ 64 - 3, 3, test_body) /\ server_parity (2 ^ 64 - 3) = true /\ to_i64 (2 ^ 64 - 3) = (-3)%Z.
Proof. vm_compute. repeat split; reflexivity. Qed.
Print Assumptions C03_client_opens_negative_msg_id.
