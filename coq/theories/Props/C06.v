(* C06 - Key exchange with any conformant server ends in a shared auth key and salt.
   Statements only; proofs live in Handshake/Agreement.v, Handshake/SplitPQ.v (and the files they import).

   Models
     handshake / connect_and_request   Handshake/Client.v   makeAuthKey as written AFTER the repairs under /verif/patches/C06
                                                            (fixed-width conversions of new_nonce, server_nonce, new_nonce_hash1,
                                                            g^ab and of the RSA ciphertext; error instead of panic on a malformed
                                                            encrypted answer; pq and g_a range checks)
     srv_env / srv_secrets / conformant  Handshake/Server.v  a conformant server written from the specification
     split_model                       Handshake/SplitPQ.v  the Pollard-rho loop of math.SplitPQ with its random stream as argument
     seal_client / open_server          Crypto/Envelope.v    (C03) the first encrypted request and the server's reading of it

   Standard-library functions are universally quantified, each with exactly the hypotheses used:
     H       crypto/sha1        20 bytes of output, all below 256; NO collision between the server's answer and the answer
                                extended by a non-empty prefix of its (at most 15) padding bytes  [the strings the client's
                                trim loop hashes before the right one]
     E D     crypto/aes         16-byte blocks of bytes; D k (E k b) = b under 32-byte keys
     modexp  math/big Exp       modexp b e m = b^e mod m for e >= 0, m > 0
     is_prime  ProbablyPrime    no false positive below 2^64 (documented for Go's implementation)
     split   math.SplitPQ       what it returns is an ordered factorisation (PROVED for the loop model: C06_splitpq_partial);
                                that it returns at all on the given pq is a premise: termination of Pollard's rho is
                                probabilistic and is NOT proved
   All of these except the no-collision and the two SplitPQ/ProbablyPrime premises are PROVED for the Gallina instances
   (Prim/Sha1.v, Prim/Aes256*.v, Handshake/Bytes.v modpow): C06_agreement_inst.

   [conformant H modexp sp] (Handshake/Server.v) is what the specification demands of the server's choices: a 16-byte
   server_nonce, primes p < q < 2^32, an RSA-2048 key pair for which decryption inverts encryption, 1 < g < 2^31,
   a 2048-bit dh_prime, 1 < g_a < dh_prime - 1, 0..15 padding bytes.  Primality / safe-primality of dh_prime is not
   needed for agreement and is not demanded (the client does not check it either). *)
From Coq Require Import String.
From Coq Require Import ZArith NArith List Lia Bool Znumtheory.
From MTV Require Import Base.Bytes Base.Outcome Base.Str Prim.Hex Prim.Xor Prim.Sha1 Prim.Aes256 Prim.Aes256Facts Prim.Aes256Inv
  Crypto.Ige Crypto.TempKeys Crypto.Envelope Crypto.EnvelopeProofs TL.Types
  Handshake.Bytes Handshake.Objects Handshake.Client Handshake.Server Handshake.SplitPQ Handshake.Agreement.
Import ListNotations.
Open Scope N_scope.

(* ---- 1. agreement, for ALL draws and ALL conformant servers ----
   The run ends Success; the effects are exactly the three plain messages and one Save of (key, key id, salt);
   the server - reading those three messages by the specification - accepts each of them and derives the SAME 256-byte
   key, the same key id, the same salt (and the new_nonce the client drew); and whatever first request the application
   makes afterwards is sent encrypted and opens on the server, under its copy of the key, to the client's salt, session,
   msg_id, seq_no and body. *)
Theorem C06_agreement :
  forall (H : bytes -> bytes) (E D : bytes -> bytes -> bytes) (modexp : Z -> Z -> Z -> Z)
         (is_prime : N -> bool) (split : N -> option (N * N)),
  (forall m, length (H m) = 20%nat) -> (forall m, okb (H m)) ->
  (forall k b, length (E k b) = 16%nat) -> (forall k b, length (D k b) = 16%nat) ->
  (forall k b, okb k -> okb b -> okb (E k b)) ->
  (forall k b, length k = 32%nat -> okb k -> length b = 16%nat -> okb b -> D k (E k b) = b) ->
  (forall b e m, (0 <= e)%Z -> (0 < m)%Z -> modexp b e m = ((b ^ e) mod m)%Z) ->
  (forall n, n < 2 ^ 64 -> is_prime n = true -> prime (Z.of_N n)) ->
  (forall n a b, split n = Some (a, b) -> a * b = n /\ 1 < a /\ a <= b) ->
  forall sp, conformant H modexp sp ->
  forall dr, draws_ok dr ->
  split (s_p sp * s_q sp) <> None ->
  (forall answer, srv_answer modexp sp (d_nonce dr) = Some answer ->
     forall i, (0 < i <= pad_need (20 + length answer))%nat ->
       H (answer ++ firstn i (s_pad sp (pad_need (20 + length answer)))) <> H answer) ->
  exists f1 f2 f3 key kid salt hash1,
    outcome_of (handshake H E D modexp is_prime split (mkpub (s_n sp) (s_e sp)) dr (srv_env H E D modexp sp))
      = ([SendPlain f1; SendPlain f2; SendPlain f3; Save key kid salt], Success key kid salt) /\
    srv_secrets H D modexp sp f1 f2 f3 = Some (mksecrets key kid salt hash1 (d_new_nonce dr)) /\
    length key = 256%nat /\
    ((forall k iv d, length iv = 32%nat -> (length d mod 16 = 0)%nat -> length (ige_encrypt E k iv d) = length d) ->
     (forall k iv d, length k = 32%nat -> length iv = 32%nat -> (length d mod 16 = 0)%nat ->
                     ige_decrypt D k iv (ige_encrypt E k iv d) = d) ->
     forall sid msgid seq ack body,
       sid < 2 ^ 64 -> msgid < 2 ^ 64 -> seq < 2 ^ 32 -> N.of_nat (length body) < 2 ^ 31 ->
       exists pkt,
         connect_and_request H E D modexp is_prime split (mkpub (s_n sp) (s_e sp)) dr
             (srv_env H E D modexp sp) sid msgid seq ack body
           = ([SendPlain f1; SendPlain f2; SendPlain f3; Save key kid salt; SendEncrypted pkt], Success key kid salt) /\
         open_server H (ige_decrypt D) key pkt = Some (salt, sid, msgid, seq_ack seq ack, body)).
Proof. exact agreement_full. Qed.
Print Assumptions C06_agreement.

(* ---- 2. SplitPQ: partial correctness of the factorisation loop ----
   FULL statement wanted: for every product pq of two primes below 2^32 the loop returns (p, q).
   PROVED: whenever the loop returns - for every random stream and every amount of fuel - the result is an ordered
   non-trivial factorisation p1 * p2 = pq, 1 < p1 <= p2 (which for a product of two primes IS (p, q):
   AgreeLemmas.semiprime_unique, used inside C06_agreement).
   MISSING: termination.  Pollard's rho terminates with probability 1 over the random stream but not for every stream,
   and never for a prime argument (excluded by the caller, see C07). *)
Theorem C06_splitpq_partial : forall fuel fuel_inner (rnd : nat -> N) pq a b,
  split_model fuel fuel_inner rnd pq = Some (a, b) -> a * b = pq /\ 1 < a /\ a <= b.
Proof. exact split_model_sound. Qed.
Print Assumptions C06_splitpq_partial.

(* What IS proved about termination: one attempt of the loop (the inner loop) always ends - it makes at most lim - j
   more steps whatever the numbers are -, so SplitPQ can fail to return only by making attempt after attempt each of which
   comes back without a proper factor: if [fuel] attempts (with inner fuel above the largest bound 2^(i+fuel+18)) did
   not suffice, then every single one of them ended with a g outside (1, pq).  The number of attempts is what depends on
   the random stream. *)
Theorem C06_splitpq_attempt_terminates : forall what fuel q x y j lim g0,
  (N.to_nat (lim - j) < fuel)%nat -> rho_inner fuel what q x y j lim g0 <> None.
Proof. exact rho_inner_terminates. Qed.
Print Assumptions C06_splitpq_attempt_terminates.

Theorem C06_splitpq_fails_only_by_failed_attempts : forall fi (rnd : nat -> N) what fuel k i,
  (N.to_nat (2 ^ (i + N.of_nat fuel + 18)) < fi)%nat ->
  rho_outer fuel fi rnd k what i = None ->
  forall a, (a < fuel)%nat ->
    exists g, rho_inner fi what ((N.land (rnd (k + 2 * a)%nat) 15 + 17) mod what)
                (rnd (S (k + 2 * a)) mod (what - 1) + 1) (rnd (S (k + 2 * a)) mod (what - 1) + 1) 1
                (2 ^ (i + N.of_nat a + 18)) 0 = Some g /\ ((1 <? g) && (g <? what) = false).
Proof. exact rho_outer_none_all_failed. Qed.
Print Assumptions C06_splitpq_fails_only_by_failed_attempts.

(* ---- 3. no hypothesis left about SHA-1 lengths, AES, Exp and the factorisation loop ----
   Gallina SHA-1 / AES-256 / square-and-multiply and the loop model as the instances: what remains are the premises
   about the inputs (conformant server, well-formed draws), "the loop returns", ProbablyPrime's soundness and the
   explicit SHA-1 no-collision premise. *)
Theorem C06_agreement_inst :
  forall (is_prime : N -> bool) fuel fuel_inner (rnd : nat -> N),
  (forall n, n < 2 ^ 64 -> is_prime n = true -> prime (Z.of_N n)) ->
  forall sp, conformant sha1 modpow sp ->
  forall dr, draws_ok dr ->
  split_model fuel fuel_inner rnd (s_p sp * s_q sp) <> None ->
  (forall answer, srv_answer modpow sp (d_nonce dr) = Some answer ->
     forall i, (0 < i <= pad_need (20 + length answer))%nat ->
       sha1 (answer ++ firstn i (s_pad sp (pad_need (20 + length answer)))) <> sha1 answer) ->
  exists f1 f2 f3 key kid salt hash1,
    outcome_of (handshake sha1 aes_enc aes_dec modpow is_prime (split_model fuel fuel_inner rnd)
                  (mkpub (s_n sp) (s_e sp)) dr (srv_env sha1 aes_enc aes_dec modpow sp))
      = ([SendPlain f1; SendPlain f2; SendPlain f3; Save key kid salt], Success key kid salt) /\
    srv_secrets sha1 aes_dec modpow sp f1 f2 f3 = Some (mksecrets key kid salt hash1 (d_new_nonce dr)) /\
    length key = 256%nat.
Proof.
  intros is_prime fuel fi rnd PS sp CF dr DR SX NC.
  destruct (agreement_full sha1 aes_enc aes_dec modpow is_prime (split_model fuel fi rnd)
              sha1_length sha1_bytes_ok aes_enc_length aes_dec_length aes_enc_bytes_ok
              (fun k b Lk Ok Lb Ob => aes256_dec_enc k b Lk Ok Lb Ob)
              modpow_spec PS (split_model_sound fuel fi rnd) sp CF dr DR SX NC)
    as (f1 & f2 & f3 & key & kid & salt & hash1 & A & B & C & _).
  exists f1, f2, f3, key, kid, salt, hash1. auto.
Qed.
Print Assumptions C06_agreement_inst.

(* ---------------------------------------------------------------------------------------------- *)
(* non-vacuity *)

(* Diffie-Hellman on a small group, the algebra run by square-and-multiply inside Coq: a 64-bit safe prime,
   64-bit secrets *)
Example C06_dh_small_group :
  let p := 18446744073709550147%Z in let g := 3%Z in
  let a := 12345678901234567891%Z in let b := 9876543210987654321%Z in
  modpow (modpow g a p) b p = modpow (modpow g b p) a p /\ modpow (modpow g a p) b p = 10305157103539404049%Z.
Proof. vm_compute. split; reflexivity. Qed.
Print Assumptions C06_dh_small_group.

(* a conformant server and well-formed draws exist: pq = 2 * 3, a degenerate but lawful RSA pair (e = d = 1, so that
   decryption inverts encryption by computation; real key pairs satisfy rsa_pair by Euler's theorem, which is not
   proved here - the harness checks it on every block), the 2048-bit prime of the MTProto documentation, g = 3, a = 5 *)
Definition ex_dh_prime : N := of_be (hex
  ("C71CAEB9C6B1C9048E6C522F70F13F73980D40238E3E21C14934D037563D930F48198A0AA7C14058229493D22530F4DBFA336F6E0AC925139543AED44CCE7C37" ++
   "20FD51F69458705AC68CD4FE6B6B13ABDC9746512969328454F18FAF8C595F642477FE96BB2A941D5BCD1D4AC8CC49880708FA9B378E3C4F3A9060BEE67CF9A4" ++
   "A4A695811051907E162753B56B0F6B410DBA74D8A84B2A14B3144E0EF1284754FD17ED950D5965B4B9DD46582DB1178D169C6BC465B0D6FF9CA3928FEF5B9AE4" ++
   "E418FC15E83EBEA0F87FA9FF5EED70050DED2849F47BF959D956850CE929851F0D8115F635B105EE2E4E15D04B2454BF6F4FADF034B10403119CD8E3B92FCC5B")).
Definition ex_rsa_n : N := 2 ^ 2047 + 12345.

Definition ex_sp : sparams := mksp
  (hex "a5cf4d33f4a11ea877ba4aa573907330") 2 3 0
  ex_rsa_n 1 1 [7; 99] [12345678901234567]
  3 ex_dh_prime 0 5 256 1600000000 (fun n => repeat 170 n).

Definition ex_dr : draws := mkdraws
  (0 :: hex "3e0549828cca27e966b301a48fece2")                                  (* a nonce with a leading zero byte *)
  (0 :: 0 :: hex "1c85db234aa2640afc4a76a735cf5b1f0fd68bd17fa181e1229ad867cc02")   (* new_nonce with two *)
  (repeat 0 255 ++ [7])                                                            (* b = 7 *)
  (fun n => repeat 85 n).

Lemma ex_rsa_pair : rsa_pair modpow ex_rsa_n 1 1.
Proof.
  intros m Hm. unfold sexp. rewrite !modpow_spec by (unfold ex_rsa_n; lia).
  rewrite !Z.pow_1_r. rewrite Z.mod_small by lia. rewrite N2Z.id. rewrite Z.mod_small by lia. apply N2Z.id.
Qed.
Print Assumptions ex_rsa_pair.

Example C06_hypotheses_satisfiable : conformant sha1 modpow ex_sp /\ draws_ok ex_dr.
Proof.
  split.
  - constructor; cbn [ex_sp s_srv_nonce s_p s_q s_pq_width s_n s_e s_d s_fps_before s_fps_after s_g s_dh_prime
                      s_dp_width s_a s_ga_width s_time s_pad].
    + reflexivity.
    + reflexivity.
    + exact prime_2.
    + exact prime_3.
    + lia.
    + lia.
    + lia.
    + exact ex_rsa_pair.
    + unfold ex_rsa_n. split; [|change (256 ^ 256) with (2 ^ 2048)].
      * change (256 ^ 255) with (2 ^ 2040). assert (2 ^ 2040 <= 2 ^ 2047) by (apply N.pow_le_mono_r; lia). lia.
      * assert (2 ^ 2047 * 2 = 2 ^ 2048) by (rewrite N.mul_comm, <- N.pow_succ_r'; reflexivity).
        assert (12345 < 2 ^ 2047) by (apply N.lt_le_trans with (2 ^ 14); [lia|apply N.pow_le_mono_r; lia]). lia.
    + repeat constructor; lia.
    + unfold offered. cbn [s_fps_before s_fps_after ex_sp app length]. lia.
    + lia.
    + split; apply N.ltb_lt; vm_compute; reflexivity.
    + split; apply N.ltb_lt; vm_compute; reflexivity.
    + lia.
    + lia.
    + intros k. apply repeat_length.
    + intros k. unfold okb. induction k; [reflexivity|]. cbn [repeat bytes_ok forallb]. exact IHk.
  - unfold draws_ok, ex_dr. cbn [d_nonce d_new_nonce d_b d_pad].
    repeat split; try reflexivity.
    + intros n. apply repeat_length.
    + intros n. unfold okb. induction n; [reflexivity|]. cbn [repeat bytes_ok forallb]. exact IHn.
Qed.
Print Assumptions C06_hypotheses_satisfiable.

(* ... and on that instance the whole exchange, computed inside Coq with the Gallina SHA-1, AES-256, modpow and the
   factorisation loop model: three plain messages, the session saved, client and server hold the same 256-byte key
   (here g^(5*7) mod dh_prime: 249 leading zero bytes), the same key id and salt, and the first encrypted request opens
   on the server *)
Definition ex_split := split_model 5 2000 (fun k => 7 + 1000003 * N.of_nat k).
Definition ex_run :=
  connect_and_request sha1 aes_enc aes_dec modpow (fun _ => false) ex_split
    (mkpub ex_rsa_n 1) ex_dr (srv_env sha1 aes_enc aes_dec modpow ex_sp) 77 6000000000000000004 0 true (lit "ping").

Example C06_example_run :
  match ex_run with
  | ([SendPlain f1; SendPlain f2; SendPlain f3; Save k1 h1 s1; SendEncrypted pkt], Success key kid salt) =>
      beq k1 key && beq h1 kid && (s1 =? salt) && (length key =? 256)%nat &&
      match srv_secrets sha1 aes_dec modpow ex_sp f1 f2 f3 with
      | Some x => beq (x_key x) key && beq (x_key_id x) kid && (x_salt x =? salt) &&
                  beq (firstn 249 key) (repeat 0 249) && negb (nth 249 key 0 =? 0) &&
                  match open_server sha1 (ige_decrypt aes_dec) (x_key x) pkt with
                  | Some (s, sid, mid, sq, body) => (s =? salt) && (sid =? 77) && (mid =? 6000000000000000004) && (sq =? 1) && beq body (lit "ping")
                  | None => false
                  end
      | None => false
      end
  | _ => false
  end = true.
Proof. vm_compute. reflexivity. Qed.
Print Assumptions C06_example_run.
