(* C20 - Resolving a Telegram link is total and maps usernames and invites correctly.
   Statements only; proofs live in Misc/DeeplinkProofs.v.
   [u] is the record url.Parse returned (oracle, standard library); [lower] is strings.ToLower;
   [ord] is the iteration order Go picks for the two-entry template map;
   [eff u] is the host/path pair after scheme-less host recovery;
   [hostname] strips an optional port. *)
From Coq Require Import NArith List.
From MTV Require Import Base.Bytes Base.Outcome Base.Str Misc.Deeplink Misc.DeeplinkProofs.
Import ListNotations.
Open Scope N_scope.

Theorem C20_total : forall lower hosts ord u, resolve lower hosts ord u <> Panic.
Proof. exact resolve_total. Qed.
Print Assumptions C20_total.

Theorem C20_order_independent : forall lower hosts u,
  resolve lower hosts true u = resolve lower hosts false u.
Proof. exact resolve_order_independent. Qed.
Print Assumptions C20_order_independent.

Theorem C20_username_iff : forall lower hosts ord u d,
  resolve lower hosts ord u = Ok (Username d) <->
  good_scheme (u_scheme u) /\ In (hostname (fst (eff u))) hosts /\
  exists s, snd (eff u) = 47 :: s /\ s <> [] /\ ~ In 47 s /\ d = lower s.
Proof. exact resolve_username_iff. Qed.
Print Assumptions C20_username_iff.

Theorem C20_invite_iff : forall lower hosts ord u t,
  resolve lower hosts ord u = Ok (Invite t) <->
  good_scheme (u_scheme u) /\ In (hostname (fst (eff u))) hosts /\
  snd (eff u) = 47 :: s_joinchat_sl ++ t /\ t <> [] /\ ~ In 47 t.
Proof. exact resolve_invite_iff. Qed.
Print Assumptions C20_invite_iff.

(* everything else is an error: follows from totality and the two characterisations,
   stated explicitly for the reader *)
Theorem C20_otherwise_error : forall lower hosts ord u,
  (forall d, resolve lower hosts ord u <> Ok (Username d)) ->
  (forall t, resolve lower hosts ord u <> Ok (Invite t)) ->
  resolve lower hosts ord u = Err.
Proof.
  intros lower hosts ord u Hu Hi. pose proof (resolve_total lower hosts ord u) as Hp.
  destruct (resolve lower hosts ord u) as [[d|t]| |]; [destruct (Hu d eq_refl)|destruct (Hi t eq_refl)|reflexivity|congruence].
Qed.
Print Assumptions C20_otherwise_error.
