(* C09 - Each RPC call returns exactly the result addressed to its own request.
   Statements only; proofs in Client/Routing.v (on top of Client/SeqNo.v).  Model: Client/Model.v
   (the code after the repairs "decoder hints are looked up by req_msg_id, also through
   gzip_packed" and "msg_id under the send lock").
   [run init ls = Some s] quantifies over every history: any number of callers (LCall t for any t),
   any interleaving of their steps with the receive loop, any clock, any server frames in any
   order, partitioned into containers and gzip-packed in any way (LSrv f for any f).
   [rets s]: the calls that have returned: (caller t, its k-th call, msg id i, value r).
   [sent_req s i t k h]: a request with msg id i was written by call k of caller t, h = hints declared.
   [EDisp i v] in the log: the receive loop took an rpc_result / rpc_error for req_msg_id = i carrying v. *)
From Coq Require Import ZArith List Bool.
From MTV Require Import Client.Model Client.StepLemmas Client.SeqNo Client.Routing Client.Origin Client.Examples.
Import ListNotations.
Open Scope Z_scope.

Theorem C09_routing : forall ls s, run init ls = Some s ->
  (forall t k i r, In (t, k, i, r) (rets s) ->
     exists h v,
       (* i is the msg id under which this very call was written ... *)
       sent_req s i t k h /\
       (* ... and nobody else's *)
       (forall t' k' h', sent_req s i t' k' h' -> t' = t /\ k' = k /\ h' = h) /\
       (* ... and the only one this call was written under (its own, latest, msg id) *)
       (forall i' h', sent_req s i' t k h' -> i' = i) /\
       (* what it returned is the payload of a result received for req_msg_id = i *)
       In (EDisp i v) (elog s) /\ ret_of v = Some r /\
       (* a Vector<> result is only ever returned, as the typed slice, to a call that declared it *)
       (vec_val v = true -> h = true)) /\
  (* no result is handed out twice, no call returns twice *)
  NoDup (map ret_id (rets s)) /\
  NoDup (map ret_call (rets s)).
Proof. exact routing. Qed.
Print Assumptions C09_routing.

(* ... and a result the receive loop dispatched (EDisp) is the rpc_result / rpc_error body of a
   message the server really sent: a frame g injected by an LSrv label of the history, or a message
   nested in g through msg_container / gzip_packed ([inside]); [result_of] opens gzip_packed. *)
Theorem C09_results_from_server : forall ls s req v, run init ls = Some s -> In (EDisp req v) (elog s) ->
  exists g sid seq b, In (LSrv g) ls /\ inside (sid, seq, b) g /\ result_of b = Some (req, v).
Proof. exact origin. Qed.
Print Assumptions C09_results_from_server.

(* Non-vacuity: in [ex_completes] both calls return, each its own payload, the vector one typed. *)
Example C09_example : exists s, run init ex_labels = Some s /\
  rets s = [(0%nat, 1%nat, 40, RetVal KObj 8); (1%nat, 1%nat, 44, RetVal KVecBare 7)].
Proof. eexists. split; [vm_compute; reflexivity|reflexivity]. Qed.
